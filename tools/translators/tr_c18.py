"""Translator for C18 (path and string utilities).

Re-reads on every run, from the current source tree,
  * the size of the stack buffer of Dune::formatString (stringutility.hh) -> `bufferSize`,
  * the two functions of path.cc that are pure decision lists ("guarded returns"):
    `pathIndicatesDirectory` and `concatPaths`,
  * the example tables in the documentation of processPath, prettyPath and concatPaths (path.hh, the HTML
    `<tr><td> ... </td></tr>` rows of the doc comments) -> `docTableProcessPath/PrettyPath/ConcatPaths`; the theorems
    `doc_table_*` evaluate the model on every documented row (kernel `decide`), so the documentation, the model and
    - through the differential run - the code are compared on every run,
and emits them as Lean definitions into lean/DuneVerif/Gen/C18.lean.  The C18 model imports that file, so the
theorems about these functions (`indicatesDirectory_spec`, `concat_spec`, `concat_denote`, `concat_sanitized`,
`pretty_auto`, `relative_roundtrip`, `formatString_spec`, ...) are re-proved about what the source says now, and
the driver executes the regenerated definitions.

Grammar of a decision list: the body is a sequence of statements
      [else] if ( COND ) return EXPR ;          [else] return EXPR ;
  COND ::= ATOM { || ATOM }
  ATOM ::= ID == "lit" | "lit" == ID | ID.empty() | ID.size() == 0 | ID == std::string()
         | ID[0] == 'c' | ID.front() == 'c' | ID.back() == 'c'
         | hasPrefix(ID, "lit") | hasSuffix(ID, "lit")
  EXPR ::= true | false | TERM { + TERM }        TERM ::= ID | "lit" | 'c'
where ID is one of the function's parameters.

Round four adds:
  * `hasPrefix` / `hasSuffix` (stringutility.hh) - statement grammar
        size_t LEN = strlen(PAT) ;   if ( SIZECMP ) return false ;   [typename C::const_iterator|auto] IT = c.begin() ;
        std::advance(IT, c.size() - LEN) ;   return [SIZECMP &&] std::equal(PAT, PAT+LEN, IT | c.begin()) ;
    SIZECMP = a comparison between c.size() and LEN in any spelling (also `!( )`); the translator evaluates the guards on
    a small grid and insists that std::equal is only reached with c.size() >= LEN (otherwise: fallback),
  * `prettyPath` (both overloads) - straight-line "string programs": a sequence of
        std::string V = EXPR ;   V = EXPR ;   V += TERM ;   V.resize(V.size()-K) ; | V.pop_back() ; | V.erase(V.size()-K) ;
        bool B = BEXPR ;   if ( COND ) <one of the above> ;   [else] if ( COND ) return EXPR ;   return EXPR ;
    with EXPR ::= TERM { + TERM }, TERM ::= ID | "lit" | 'c' | F(ARG,...), COND atoms as below plus a bool variable
    `B` / `!B`; translated to a chain of `let` / `if` (-> `prettyPathWith`, `prettyPathAutoWith`; the sanitiser resp. the
    two-argument overload are parameters of the generated definitions),
  * the control skeleton of `formatString`: the test that decides "the stack buffer was large enough"
    (`if (r<bufferSize) return std::string(buffer)`, any linear comparison between r and the capacity) ->
    `fmtFitsStack`, and the size of the heap buffer (`static_cast<std::size_t>(r)+1`, any `r + K`) -> `fmtDynamicSize`;
    the translator insists on the `if (r<0) DUNE_THROW` checks after both snprintf calls, on the heap buffer being
    allocated with that size and on the second snprintf being given that size (otherwise: fallback).

The loops of processPath / relativePath are NOT translated (their constants are tied by the exhaustive
differential run: e.g. `src += 4` instead of `src += 3` is behaviourally equivalent and must not alarm).

Fail-soft policy: a harmless refactoring that leaves this grammar must not raise an alarm, so for each of the three
items that cannot be parsed the translator falls back to the built-in transcription (the text the hand-written
round-one model had) and records that in `Gen.translated` / `status()`; tools/checks/c18.py hands the number of
fallbacks to the harness, which reports it in the evidence (`translator_fallbacks`).  In that case the item is
tied by the exhaustive differential run only, exactly as before round two."""
import os
import re


class TranslateError(Exception):
    pass


# ------------------------------------------------------------------------------------------------------------
def strip_comments(src):
    out, i, n = [], 0, len(src)
    while i < n:
        c = src[i]
        if c == '"' or c == "'":
            j = i + 1
            while j < n and src[j] != c:
                j += 2 if src[j] == "\\" else 1
            out.append(src[i:j + 1])
            i = j + 1
        elif src.startswith("//", i):
            j = src.find("\n", i)
            i = n if j < 0 else j
        elif src.startswith("/*", i):
            j = src.find("*/", i + 2)
            i = n if j < 0 else j + 2
            out.append(" ")
        else:
            out.append(c)
            i += 1
    return "".join(out)


def function_body(src, name, nparams):
    """(parameter names, body text) of the definition `... name(const std::string& a, ...) { body }`"""
    for m in re.finditer(r"\b%s\s*\(([^()]*)\)\s*\{" % re.escape(name), src):
        params = [p.strip() for p in m.group(1).split(",") if p.strip()]
        if len(params) != nparams:
            continue
        names = []
        for p in params:
            mm = re.fullmatch(r"(?:const\s+)?std::string(?:\s+const)?\s*&?\s*([A-Za-z_]\w*)", p)
            if not mm:
                raise TranslateError("%s: parameter %r is not a string" % (name, p))
            names.append(mm.group(1))
        depth, i = 1, m.end()
        in_str = None
        while i < len(src) and depth:
            c = src[i]
            if in_str:
                if c == "\\":
                    i += 1
                elif c == in_str:
                    in_str = None
            elif c in "\"'":
                in_str = c
            elif c == "{":
                depth += 1
            elif c == "}":
                depth -= 1
            i += 1
        if depth:
            raise TranslateError("%s: unbalanced braces" % name)
        return names, src[m.end():i - 1]
    raise TranslateError("definition of %s with %d string parameters not found" % (name, nparams))


ESC = {"n": "\n", "t": "\t", "\\": "\\", "'": "'", '"': '"', "0": "\0"}


def c_unescape(s):
    out, i = [], 0
    while i < len(s):
        if s[i] == "\\":
            if i + 1 >= len(s) or s[i + 1] not in ESC:
                raise TranslateError("escape sequence outside the grammar in %r" % s)
            out.append(ESC[s[i + 1]])
            i += 2
        else:
            out.append(s[i])
            i += 1
    return "".join(out)


def lean_char(c):
    o = ord(c)
    if c == "'" or c == "\\":
        return "'\\%s'" % c
    if 32 <= o < 127:
        return "'%s'" % c
    return "(Char.ofNat %d)" % o


def lean_str(s):
    return "[" + ", ".join(lean_char(c) for c in s) + "]"


STR = r'"((?:[^"\\]|\\.)*)"'
CHR = r"'((?:[^'\\]|\\.))'"


def split_top(text, sep):
    """split at `sep` outside literals and parentheses"""
    parts, depth, i, last = [], 0, 0, 0
    while i < len(text):
        c = text[i]
        if c in "\"'":
            j = i + 1
            while j < len(text) and text[j] != c:
                j += 2 if text[j] == "\\" else 1
            i = j + 1
            continue
        if c == "(":
            depth += 1
        elif c == ")":
            depth -= 1
        elif depth == 0 and text.startswith(sep, i):
            parts.append(text[last:i])
            i += len(sep)
            last = i
            continue
        i += 1
    parts.append(text[last:])
    return parts


def atom(a, ids, bools=()):
    a = a.strip()
    while a.startswith("(") and a.endswith(")"):
        depth, whole = 0, True
        for k, ch in enumerate(a):
            if ch == "(":
                depth += 1
            elif ch == ")":
                depth -= 1
                if depth == 0 and k != len(a) - 1:
                    whole = False
                    break
        if not whole:
            break
        a = a[1:-1].strip()
    if a in bools:
        return "%s = true" % a
    mb = re.fullmatch(r"!\s*(\w+)", a)
    if mb and mb.group(1) in bools:
        return "%s = false" % mb.group(1)
    if not ids:
        raise TranslateError("condition outside the grammar: %r" % a)
    idp = r"(%s)" % "|".join(map(re.escape, ids))
    m = re.fullmatch(idp + r"\s*==\s*" + STR, a)
    if m:
        return "%s = %s" % (m.group(1), lean_str(c_unescape(m.group(2))))
    m = re.fullmatch(STR + r"\s*==\s*" + idp, a)
    if m:
        return "%s = %s" % (m.group(2), lean_str(c_unescape(m.group(1))))
    m = re.fullmatch(idp + r"\s*\.\s*empty\s*\(\s*\)", a) or re.fullmatch(idp + r"\s*\.\s*size\s*\(\s*\)\s*==\s*0", a) \
        or re.fullmatch(idp + r"\s*==\s*std::string\s*\(\s*\)", a)
    if m:
        return "%s = []" % m.group(1)
    m = re.fullmatch(idp + r"\s*\[\s*0\s*\]\s*==\s*" + CHR, a) or re.fullmatch(idp + r"\s*\.\s*front\s*\(\s*\)\s*==\s*" + CHR, a)
    if m:
        ch = c_unescape(m.group(2))
        if ch == "\0":
            raise TranslateError("comparison of x[0] with NUL is outside the grammar")
        return "%s.head? = some %s" % (m.group(1), lean_char(ch))
    m = re.fullmatch(idp + r"\s*\.\s*back\s*\(\s*\)\s*==\s*" + CHR, a)
    if m:
        return "%s.getLast? = some %s" % (m.group(1), lean_char(c_unescape(m.group(2))))
    m = re.fullmatch(r"(?:Dune::)?(hasPrefix|hasSuffix)\s*\(\s*" + idp + r"\s*,\s*" + STR + r"\s*\)", a)
    if m:
        lit = c_unescape(m.group(3))
        if "\0" in lit:
            raise TranslateError("NUL inside a C string literal")
        return "%s %s %s = true" % (m.group(1), m.group(2), lean_str(lit))
    raise TranslateError("condition outside the grammar: %r" % a)


def cond(c, ids, bools=()):
    parts = split_top(c, "||")
    atoms = [atom(p, ids, bools) for p in parts]
    return atoms[0] if len(atoms) == 1 else " ∨ ".join("(%s)" % x for x in atoms)


def expr(e, ids, boolean):
    e = e.strip()
    if boolean:
        if e in ("true", "false"):
            return e
        raise TranslateError("boolean result outside the grammar: %r" % e)
    terms = []
    for t in split_top(e, "+"):
        t = t.strip()
        if t in ids:
            terms.append(t)
            continue
        m = re.fullmatch(STR, t)
        if m:
            terms.append(lean_str(c_unescape(m.group(1))))
            continue
        m = re.fullmatch(CHR, t)
        if m:
            terms.append(lean_str(c_unescape(m.group(1))))
            continue
        raise TranslateError("string expression outside the grammar: %r" % t)
    return " ++ ".join(terms)


def decision_list(body, ids, boolean):
    """-> list of (condition | None, result); the last entry has condition None"""
    stmts = [s.strip() for s in split_top(body, ";")]
    if stmts and stmts[-1] == "":
        stmts.pop()
    rules = []
    for k, s in enumerate(stmts):
        s = re.sub(r"\s+", " ", s)
        s = re.sub(r"^else\b\s*", "", s)
        if rules and rules[-1][0] is None:
            raise TranslateError("statement after the unconditional return: %r" % s)
        m = re.match(r"^if\s*\(", s)
        if m:
            # find the matching parenthesis of the condition
            depth, i = 1, m.end()
            while i < len(s) and depth:
                if s[i] in "\"'":
                    q = s[i]
                    i += 1
                    while i < len(s) and s[i] != q:
                        i += 2 if s[i] == "\\" else 1
                elif s[i] == "(":
                    depth += 1
                elif s[i] == ")":
                    depth -= 1
                i += 1
            c, rest = s[m.end():i - 1], s[i:].strip()
            mm = re.fullmatch(r"return\b\s*(.*)", rest)
            if not mm:
                raise TranslateError("guarded statement is not a return: %r" % s)
            rules.append((cond(c, ids), expr(mm.group(1), ids, boolean)))
            continue
        mm = re.fullmatch(r"return\b\s*(.*)", s)
        if mm:
            rules.append((None, expr(mm.group(1), ids, boolean)))
            continue
        raise TranslateError("statement outside the grammar: %r" % s)
    if not rules or rules[-1][0] is not None:
        raise TranslateError("decision list does not end in an unconditional return")
    return rules


def emit_def(name, ids, rettype, rules):
    lines = ["def %s (%s : Str) : %s :=" % (name, " ".join(ids), rettype)]
    for k, (c, r) in enumerate(rules):
        if c is None:
            lines.append("  %s%s" % ("else " if k else "", r))
        else:
            lines.append("  %sif %s then %s" % ("else " if k else "", c, r))
    return "\n".join(lines)


def buffer_size(src):
    """capacity of the `char <name>[CAP];` stack buffer inside formatString"""
    m = re.search(r"\bformatString\s*\(", src)
    if not m:
        raise TranslateError("formatString not found")
    tail = src[m.start():]
    mb = re.search(r"\bchar\s+([A-Za-z_]\w*)\s*\[\s*([A-Za-z_]\w*|\d+)\s*\]\s*;", tail)
    if not mb:
        raise TranslateError("stack buffer declaration of formatString not found")
    cap = mb.group(2)
    if not cap.isdigit():
        mc = re.search(r"\b%s\s*=\s*(\d+)\s*;" % re.escape(cap), tail[:mb.start()])
        if not mc:
            mc = re.search(r"\b%s\s*=\s*(\d+)\s*;" % re.escape(cap), src)
        if not mc:
            raise TranslateError("value of the buffer capacity %s not found" % cap)
        cap = mc.group(1)
    v = int(cap)
    if not (1 <= v <= 1000000):
        raise TranslateError("implausible buffer capacity %d" % v)
    return v


def doc_rows(hdr, decl_regex, ncols):
    """rows of the HTML table in the doc comment in front of the declaration matching decl_regex"""
    m = re.search(decl_regex, hdr)
    if not m:
        raise TranslateError("declaration %r not found in path.hh" % decl_regex)
    end = hdr.rfind("*/", 0, m.start())
    start = hdr.rfind("/**", 0, end)
    if end < 0 or start < 0 or hdr[end + 2:m.start()].strip():
        raise TranslateError("no doc comment directly in front of %r" % decl_regex)
    doc = hdr[start:end]
    rows = []
    for r in re.finditer(r"<tr>(.*?)</tr>", doc, re.S):
        cells = re.findall(r"<td>(.*?)</td>", r.group(1), re.S)
        if not cells:
            continue            # header row (<th>)
        if len(cells) != ncols:
            raise TranslateError("table row with %d instead of %d cells" % (len(cells), ncols))
        rows.append([c.strip() for c in cells])
    if not rows:
        raise TranslateError("no table rows in the documentation of %r" % decl_regex)
    return rows


def cell_str(c, anything=None):
    m = re.fullmatch(STR, c)
    if m:
        return c_unescape(m.group(1))
    if c == "anything" and anything is not None:
        return anything
    raise TranslateError("table cell %r is not a string literal" % c)


def doc_tables(hdr):
    proc = [(cell_str(a), cell_str(b)) for a, b in doc_rows(hdr, r"std::string\s+processPath\s*\(", 2)]
    pretty = []
    for a, d, b in doc_rows(hdr, r"std::string\s+prettyPath\s*\(\s*const\s+std::string\s*&\s*\w+\s*,\s*bool\b", 3):
        if d not in ("true", "false", "anything"):
            raise TranslateError("isDirectory cell %r" % d)
        for dv in (["false", "true"] if d == "anything" else [d]):
            pretty.append((cell_str(a), dv, cell_str(b)))
    concat = [(cell_str(a, "anything"), cell_str(b), cell_str(c)) for a, b, c in doc_rows(hdr, r"std::string\s+concatPaths\s*\(", 3)]
    return proc, pretty, concat


DEFAULT_TABLES = (
    [("", ""), (".", ""), ("./", ""), ("a/..", ""), ("..", "../"), ("../a", "../a/"), ("a", "a/"), ("a//", "a/"), ("a///b", "a/b/"),
     ("/", "/"), ("/.", "/"), ("/..", "/"), ("/a/..", "/"), ("/a", "/a/"), ("/a/", "/a/"), ("/../a/", "/a/")],
    [("", "false", "."), ("", "true", "."), (".", "false", "."), (".", "true", "."), ("./", "false", "."), ("./", "true", "."),
     ("a/..", "false", "."), ("a/..", "true", "."), ("..", "false", ".."), ("..", "true", ".."), ("../a", "true", "../a/"),
     ("../a", "false", "../a"), ("a", "true", "a/"), ("a", "false", "a"), ("a//", "true", "a/"), ("a//", "false", "a"),
     ("a///b", "true", "a/b/"), ("a///b", "false", "a/b"), ("/", "false", "/"), ("/", "true", "/"), ("/.", "false", "/"),
     ("/.", "true", "/"), ("/..", "false", "/"), ("/..", "true", "/"), ("/a/..", "false", "/"), ("/a/..", "true", "/"),
     ("/a", "true", "/a/"), ("/a", "false", "/a"), ("/a/", "true", "/a/"), ("/a/", "false", "/a"), ("/../a/", "true", "/a/"),
     ("/../a/", "false", "/a")],
    [("anything", "/abs/path", "/abs/path"), ("a", "b", "a/b"), ("/a", "b", "/a/b"), ("a/", "b", "a/b"), ("a", "b/", "a/b/"),
     ("..", "b", "../b"), ("a", "..", "a/.."), (".", "b", "./b"), ("a", ".", "a/."), ("", "b", "b"), ("a", "", "a"), ("", "", "")])


# the built-in transcription (= what the translator produces on the pinned tree)
DEFAULT_BUFFER = 1000
DEFAULT_INDICATES = (["p"], [("p = []", "true"), ("p = ['.']", "true"), ("p = ['.', '.']", "true"),
                            ("hasSuffix p ['/'] = true", "true"), ("hasSuffix p ['/', '.'] = true", "true"),
                            ("hasSuffix p ['/', '.', '.'] = true", "true"), (None, "false")])
DEFAULT_CONCAT = (["base", "p"], [("p = []", "base"), ("p.head? = some '/'", "p"), ("base = []", "p"),
                                  ("hasSuffix base ['/'] = true", "base ++ p"), (None, "base ++ ['/'] ++ p")])


# ---- round four: straight-line string programs (prettyPath) ---------------------------------------------------
def function_body2(src, name, kinds):
    """like function_body, for a parameter list of the given kinds ('s' = string, 'b' = bool)"""
    for m in re.finditer(r"\b%s\s*\(([^()]*)\)\s*\{" % re.escape(name), src):
        params = [p.strip() for p in m.group(1).split(",") if p.strip()]
        if len(params) != len(kinds):
            continue
        names = []
        for p, k in zip(params, kinds):
            if k == "s":
                mm = re.fullmatch(r"(?:const\s+)?std::string(?:\s+const)?\s*&?\s*([A-Za-z_]\w*)", p)
            else:
                mm = re.fullmatch(r"(?:const\s+)?bool(?:\s+const)?\s*&?\s*([A-Za-z_]\w*)", p)
            if not mm:
                raise TranslateError("%s: parameter %r is not of kind %s" % (name, p, k))
            names.append(mm.group(1))
        depth, i, in_str = 1, m.end(), None
        while i < len(src) and depth:
            c = src[i]
            if in_str:
                if c == "\\":
                    i += 1
                elif c == in_str:
                    in_str = None
            elif c in "\"'":
                in_str = c
            elif c == "{":
                depth += 1
            elif c == "}":
                depth -= 1
            i += 1
        if depth:
            raise TranslateError("%s: unbalanced braces" % name)
        return names, src[m.end():i - 1]
    raise TranslateError("definition of %s with parameter kinds %s not found" % (name, "".join(kinds)))


LEAN_RESERVED = {"if", "then", "else", "let", "fun", "do", "at", "in", "end", "def", "match", "with", "from", "have", "show",
                 "open", "Str", "hasPrefix", "hasSuffix", "pathIndicatesDirectory", "concatPaths", "true", "false"}


class Env:
    def __init__(self, strs, bools, funcs):
        self.strs, self.bools, self.funcs = list(strs), list(bools), dict(funcs)   # funcs: C++ name -> (lean name, arg kinds, result kind)
        for v in self.strs + self.bools:
            if v in LEAN_RESERVED or v in self.funcs:
                raise TranslateError("identifier %r clashes with a name of the generated file" % v)


def sp_term(t, env, want):
    """one operand -> (lean text, kind)"""
    t = t.strip()
    if want == "b":
        if t in ("true", "false"):
            return t
        if t in env.bools:
            return t
    else:
        if t in env.strs:
            return t
        m = re.fullmatch(STR, t)
        if m:
            return lean_str(c_unescape(m.group(1)))
        m = re.fullmatch(CHR, t)
        if m:
            return lean_str(c_unescape(m.group(1)))
        m = re.fullmatch(r"std::string\s*\(\s*\)", t)
        if m:
            return "[]"
    m = re.fullmatch(r"(?:Dune::)?([A-Za-z_]\w*)\s*\((.*)\)", t, re.S)
    if m and m.group(1) in env.funcs:
        lean, kinds, res = env.funcs[m.group(1)]
        if res != want:
            raise TranslateError("call %r has the wrong result type" % t)
        args = split_top(m.group(2), ",")
        if len(args) != len(kinds):
            raise TranslateError("call %r: wrong number of arguments" % t)
        out = []
        for a, k in zip(args, kinds):
            x = sp_expr(a, env, k)
            out.append(x if re.fullmatch(r"[\w.?]+|\[.*\]", x) and " ++ " not in x else "(%s)" % x)
        return "%s %s" % (lean, " ".join(out))
    raise TranslateError("operand outside the grammar: %r" % t)


def sp_expr(e, env, want):
    e = e.strip()
    if want == "b":
        try:
            return sp_term(e, env, "b")
        except TranslateError:
            return "decide (%s)" % cond(e, env.strs, env.bools)
    terms = []
    for t in split_top(e, "+"):
        x = sp_term(t, env, "s")
        terms.append("(%s)" % x if " " in x and not x.startswith("[") else x)
    return " ++ ".join(terms) if len(terms) > 1 else sp_term(e, env, "s")


def sp_simple(s, env):
    """an update statement -> (variable, kind, new value as lean text) | None"""
    idn = r"([A-Za-z_]\w*)"
    m = re.fullmatch(idn + r"\s*\+=\s*(.*)", s, re.S)
    if m and m.group(1) in env.strs:
        return m.group(1), "s", "%s ++ %s" % (m.group(1), sp_expr(m.group(2), env, "s"))
    m = re.fullmatch(idn + r"\s*\.\s*(?:resize|erase)\s*\(\s*(\w+)\s*\.\s*(?:size|length)\s*\(\s*\)\s*-\s*(\d+)\s*\)", s)
    if m and m.group(1) in env.strs and m.group(2) == m.group(1):
        return m.group(1), "s", "%s.take (%s.length - %d)" % (m.group(1), m.group(1), int(m.group(3)))
    m = re.fullmatch(idn + r"\s*\.\s*pop_back\s*\(\s*\)", s)
    if m and m.group(1) in env.strs:
        return m.group(1), "s", "%s.take (%s.length - 1)" % (m.group(1), m.group(1))
    m = re.fullmatch(idn + r"\s*=\s*(.*)", s, re.S)
    if m and m.group(1) in env.strs:
        return m.group(1), "s", sp_expr(m.group(2), env, "s")
    if m and m.group(1) in env.bools:
        return m.group(1), "b", sp_expr(m.group(2), env, "b")
    return None


def split_if(s):
    """`if ( C ) REST` -> (C, REST) | None"""
    m = re.match(r"^if\s*\(", s)
    if not m:
        return None
    depth, i = 1, m.end()
    while i < len(s) and depth:
        if s[i] in "\"'":
            q = s[i]
            i += 1
            while i < len(s) and s[i] != q:
                i += 2 if s[i] == "\\" else 1
        elif s[i] == "(":
            depth += 1
        elif s[i] == ")":
            depth -= 1
        i += 1
    return s[m.end():i - 1], s[i:].strip()


def string_program(body, strs, bools, funcs, want="s"):
    """-> list of lean lines (the body of the definition)"""
    if "{" in body or "}" in body:
        raise TranslateError("compound statement outside the grammar")
    env = Env(strs, bools, funcs)
    stmts = [re.sub(r"\s+", " ", x.strip()) for x in split_top(body, ";")]
    if stmts and stmts[-1] == "":
        stmts.pop()
    lines, done, prev_guarded_return = [], False, False
    for s in stmts:
        if done:
            raise TranslateError("statement after the unconditional return: %r" % s)
        if re.match(r"^else\b", s):
            if not prev_guarded_return:
                raise TranslateError("'else' after a statement that is not a guarded return: %r" % s)
            s = re.sub(r"^else\b\s*", "", s)
        prev_guarded_return = False
        m = re.fullmatch(r"(?:const )?(?:std::string|auto)(?: const)? ([A-Za-z_]\w*) ?(?:= ?(.*)|\((.*)\))", s)
        if m:
            v = m.group(1)
            rhs = sp_expr(m.group(2) if m.group(2) is not None else m.group(3), env, "s")
            env = Env(env.strs + ([] if v in env.strs else [v]), env.bools, env.funcs)
            lines.append("let %s := %s" % (v, rhs))
            continue
        m = re.fullmatch(r"(?:const )?bool(?: const)? ([A-Za-z_]\w*) ?= ?(.*)", s)
        if m:
            v = m.group(1)
            rhs = sp_expr(m.group(2), env, "b")
            env = Env(env.strs, env.bools + ([] if v in env.bools else [v]), env.funcs)
            lines.append("let %s := %s" % (v, rhs))
            continue
        mm = re.fullmatch(r"return\b ?(.*)", s)
        if mm:
            lines.append(sp_expr(mm.group(1), env, want))
            done = True
            continue
        ci = split_if(s)
        if ci:
            c, rest = ci
            lc = cond(c, env.strs, env.bools)
            mm = re.fullmatch(r"return\b ?(.*)", rest)
            if mm:
                lines.append("if %s then %s else" % (lc, sp_expr(mm.group(1), env, want)))
                prev_guarded_return = True
                continue
            up = sp_simple(rest, env)
            if up:
                lines.append("let %s := if %s then %s else %s" % (up[0], lc, up[2], up[0]))
                continue
            raise TranslateError("guarded statement outside the grammar: %r" % s)
        up = sp_simple(s, env)
        if up:
            lines.append("let %s := %s" % (up[0], up[2]))
            continue
        raise TranslateError("statement outside the grammar: %r" % s)
    if not done:
        raise TranslateError("program does not end in an unconditional return")
    return lines


def pretty_two(pc):
    names, body = function_body2(pc, "prettyPath", "sb")
    lines = string_program(body, [names[0]], [names[1]], {"processPath": ("processPath", "s", "s")})
    return ["def prettyPathWith (processPath : Str → Str) (%s : Str) (%s : Bool) : Str :=" % tuple(names)] + ["  " + x for x in lines]


def pretty_one(pc):
    names, body = function_body2(pc, "prettyPath", "s")
    lines = string_program(body, names, [], {"prettyPath": ("prettyPath", "sb", "s"),
                                             "pathIndicatesDirectory": ("pathIndicatesDirectory", "s", "b")})
    return ["def prettyPathAutoWith (prettyPath : Str → Bool → Str) (%s : Str) : Str :=" % names[0]] + ["  " + x for x in lines]


DEFAULT_PRETTY_TWO = ["def prettyPathWith (processPath : Str → Str) (p : Str) (isDirectory : Bool) : Str :=",
                      "  let result := processPath p",
                      "  if result = [] then ['.'] else",
                      "  if result = ['/'] then result else",
                      "  let result := result.take (result.length - 1)",
                      "  if (result = ['.', '.']) ∨ (hasSuffix result ['/', '.', '.'] = true) then result else",
                      "  let result := if isDirectory = true then result ++ ['/'] else result",
                      "  result"]
DEFAULT_PRETTY_ONE = ["def prettyPathAutoWith (prettyPath : Str → Bool → Str) (p : Str) : Str :=",
                      "  prettyPath p (pathIndicatesDirectory p)"]


# ---- round four: the control skeleton of formatString -----------------------------------------------------------
def linear(e, var, cap):
    """`var`, `cap`, integer literals joined by + and - (casts of var stripped) -> (coefficient of var, of cap, constant)"""
    e = re.sub(r"static_cast\s*<[^<>]*>\s*\(\s*%s\s*\)" % re.escape(var), var, e)
    e = re.sub(r"\(\s*(?:std::)?size_t\s*\)\s*%s\b" % re.escape(var), var, e)
    e = re.sub(r"(?:std::)?size_t\s*\(\s*%s\s*\)" % re.escape(var), var, e)
    e = e.replace(" ", "")
    while e.startswith("(") and e.endswith(")") and e.count("(") == 1:
        e = e[1:-1]
    toks = re.findall(r"[+-]|[A-Za-z_]\w*|\d+[uUlL]*", e)
    if "".join(toks) != e or not toks:
        raise TranslateError("expression outside the grammar: %r" % e)
    cv = cc = k = 0
    sign, expect_operand = 1, True
    for t in toks:
        if t in "+-":
            if expect_operand and t == "+":
                raise TranslateError("expression outside the grammar: %r" % e)
            sign = sign * (1 if t == "+" else -1) if expect_operand else (1 if t == "+" else -1)
            expect_operand = True
            continue
        if not expect_operand:
            raise TranslateError("expression outside the grammar: %r" % e)
        if t == var:
            cv += sign
        elif cap is not None and t == cap:
            cc += sign
        elif t[0].isdigit():
            k += sign * int(re.sub(r"[uUlL]+$", "", t))
        else:
            raise TranslateError("unknown identifier %r in %r" % (t, e))
        sign, expect_operand = 1, False
    if expect_operand:
        raise TranslateError("expression outside the grammar: %r" % e)
    return cv, cc, k


def format_skeleton(su):
    """-> (a, b, K): the stack result is returned iff r + a < cap + b; the heap buffer has r + K bytes"""
    m = re.search(r"\bformatString\s*\(([^()]*)\)\s*\{", su)
    if not m:
        raise TranslateError("definition of formatString not found")
    depth, i = 1, m.end()
    while i < len(su) and depth:
        depth += {"{": 1, "}": -1}.get(su[i], 0)
        i += 1
    body = su[m.end():i - 1]
    m1 = re.search(r"\bint\s+(\w+)\s*=\s*(?:std::)?snprintf\s*\(\s*(\w+)\s*,\s*(\w+)\s*,", body)
    if not m1:
        raise TranslateError("first snprintf call of formatString not found")
    r, buf, cap = m1.group(1), m1.group(2), m1.group(3)
    chk = r"if\s*\(\s*%s\s*<\s*0\s*\)\s*DUNE_THROW\b" % re.escape(r)
    mfit = re.search(r"if\s*\(([^()]*(?:\([^()]*\)[^()]*)*)\)\s*return\s+std::string\s*\(\s*%s\s*\)\s*;" % re.escape(buf), body)
    if not mfit:
        raise TranslateError("'if (...) return std::string(%s)' not found" % buf)
    c1 = re.search(chk, body[m1.end():mfit.start()])
    if not c1:
        raise TranslateError("no 'if (%s<0) DUNE_THROW' between the first snprintf and the size test" % r)
    ctext = mfit.group(1)
    mc = re.fullmatch(r"(.*?)(<=|>=|<|>)(.*)", ctext, re.S)
    if not mc or re.search(r"[<>=!&|]", mc.group(1) + mc.group(3)):
        raise TranslateError("size test outside the grammar: %r" % ctext)
    lhs, op, rhs = linear(mc.group(1), r, cap), mc.group(2), linear(mc.group(3), r, cap)
    if op in (">", ">="):
        lhs, rhs, op = rhs, lhs, "<" if op == ">" else "<="
    # lhs OP rhs  <=>  (lv-rv)*r + (lc-rc)*cap + (lk-rk) OP 0 ; must have the shape r + a < cap + b
    dv, dc, dk = lhs[0] - rhs[0], lhs[1] - rhs[1], lhs[2] - rhs[2]
    if (dv, dc) != (1, -1):
        raise TranslateError("size test is not a comparison 'r + a < cap + b': %r" % ctext)
    if op == "<=":
        dk -= 1
    a, b = (dk, 0) if dk >= 0 else (0, -dk)
    tail = body[mfit.end():]
    m2 = re.search(r"\b%s\s*=\s*(?:std::)?snprintf\s*\(\s*(\w+)\s*(?:\.\s*get\s*\(\s*\)|\.\s*data\s*\(\s*\))?\s*,\s*([^,]*?)\s*," % re.escape(r), tail)
    if not m2:
        raise TranslateError("second snprintf call of formatString not found")
    dynbuf, dynsize = m2.group(1), m2.group(2)
    if not re.search(chk, tail[m2.end():]):
        raise TranslateError("no 'if (%s<0) DUNE_THROW' after the second snprintf" % r)
    mret = re.search(r"return\s+std::string\s*\(\s*%s\s*(?:\.\s*get\s*\(\s*\)|\.\s*data\s*\(\s*\))?\s*\)\s*;" % re.escape(dynbuf), tail[m2.end():])
    if not mret:
        raise TranslateError("return of the heap buffer not found")
    if re.fullmatch(r"[A-Za-z_]\w*", dynsize) and dynsize != r:
        md = re.search(r"\b%s\s*=\s*([^;]*);" % re.escape(dynsize), tail[:m2.start()])
        if not md:
            raise TranslateError("definition of %s not found" % dynsize)
        dexpr = md.group(1)
    else:
        dexpr = dynsize
    ma = re.search(r"make_unique\s*<\s*char\s*\[\s*\]\s*>\s*\(\s*([^;]*?)\s*\)\s*;|new\s+char\s*\[\s*([^\]]*?)\s*\]", tail[:m2.start()])
    if not ma:
        raise TranslateError("allocation of the heap buffer not found")
    alloc = ma.group(1) if ma.group(1) is not None else ma.group(2)
    dvv, _, K = linear(dexpr, r, None)
    if dvv != 1 or K < 0:
        raise TranslateError("heap buffer size is not 'r + K': %r" % dexpr)
    # the allocation must be at least what snprintf is told (otherwise: fallback; the sanitizer reports the overflow)
    if alloc != dynsize:
        try:
            av, _, ak = linear(alloc, dynsize, None) if re.fullmatch(r"[A-Za-z_]\w*", dynsize) else (0, 0, -1)
            if (av, ak >= 0) != (1, True):
                raise TranslateError("")
        except TranslateError:
            av, _, ak = linear(alloc, r, None)
            if av != 1 or ak < K:
                raise TranslateError("the heap buffer is allocated with %r but snprintf is told %r" % (alloc, dynsize))
    return a, b, K


def emit_skeleton(a, b, K):
    lhs = "r" if a == 0 else "r + %d" % a
    rhs = "cap" if b == 0 else "cap + %d" % b
    return ["/-- `if (r<bufferSize) return std::string(buffer);` of Dune::formatString: the test deciding that the stack buffer",
            "    held the complete result (r = return value of snprintf, cap = capacity of the stack buffer) -/",
            "def fmtFitsStack (r cap : Nat) : Bool := decide (%s < %s)" % (lhs, rhs),
            "",
            "/-- `static_cast<std::size_t>(r)+1`: the size of the heap buffer (allocated and handed to the second snprintf) -/",
            "def fmtDynamicSize (r : Nat) : Nat := r + %d" % K]


DEFAULT_SKELETON = (0, 0, 1)


# ---- round four: hasPrefix / hasSuffix (stringutility.hh) -------------------------------------------------------
def template_body(su, name):
    m = re.search(r"\bbool\s+%s\s*\(\s*const\s+(\w+)\s*&\s*(\w+)\s*,\s*const\s+char\s*\*\s*(\w+)\s*\)\s*\{" % name, su)
    if not m:
        raise TranslateError("definition of %s(const C&, const char*) not found" % name)
    depth, i = 1, m.end()
    while i < len(su) and depth:
        depth += {"{": 1, "}": -1}.get(su[i], 0)
        i += 1
    body = su[m.end():i - 1]
    if "{" in body:
        raise TranslateError("%s: compound statement outside the grammar" % name)
    return m.group(1), m.group(2), m.group(3), body


def size_cmp(t, c, lenv):
    """comparison between c.size() and the length variable -> (lean proposition, python predicate(csize, len))"""
    t = t.strip()
    neg = False
    m = re.fullmatch(r"!\s*\((.*)\)", t, re.S)
    if m:
        neg, t = True, m.group(1).strip()
    size = r"%s\s*\.\s*(?:size|length)\s*\(\s*\)" % re.escape(c)
    m = re.fullmatch(size + r"\s*(<=|>=|<|>)\s*" + re.escape(lenv), t)
    if m:
        op, swap = m.group(1), False
    else:
        m = re.fullmatch(re.escape(lenv) + r"\s*(<=|>=|<|>)\s*" + size, t)
        if not m:
            raise TranslateError("size test outside the grammar: %r" % t)
        op, swap = m.group(1), True
    lean_op = {"<": "<", ">": ">", "<=": "≤", ">=": "≥"}[op]
    lean = ("len %s c.length" if swap else "c.length %s len") % lean_op
    import operator
    f = {"<": operator.lt, ">": operator.gt, "<=": operator.le, ">=": operator.ge}[op]
    pred = (lambda cs, ln: f(ln, cs)) if swap else (lambda cs, ln: f(cs, ln))
    if neg:
        return "¬ (%s)" % lean, (lambda cs, ln, pred=pred: not pred(cs, ln))
    return lean, pred


def prefix_suffix(su, name):
    """-> lean lines of `def <name> (c pat : Str) : Bool`"""
    ctype, c, pat, body = template_body(su, name)
    stmts = [re.sub(r"\s+", " ", x.strip()) for x in split_top(body, ";")]
    if stmts and stmts[-1] == "":
        stmts.pop()
    lenv, it, lines, guards, done = None, None, [], [], False
    for s in stmts:
        if done:
            raise TranslateError("%s: statement after the return: %r" % (name, s))
        m = re.fullmatch(r"(?:const )?(?:std::size_t|size_t|auto)(?: const)? (\w+) ?= ?(?:std::)?strlen ?\( ?%s ?\)" % re.escape(pat), s)
        if m and lenv is None:
            lenv = m.group(1)
            lines.append("let len := pat.length")
            continue
        if lenv is None:
            raise TranslateError("%s: the pattern length is not taken with strlen first: %r" % (name, s))
        ci = split_if(s)
        if ci and re.fullmatch(r"return false", ci[1]):
            lean, pred = size_cmp(ci[0], c, lenv)
            guards.append(pred)
            lines.append("if %s then false else" % lean)
            continue
        m = re.fullmatch(r"(?:typename %s ?:: ?const_iterator|auto) (\w+) ?= ?(?:%s ?\. ?c?begin ?\( ?\)|std::c?begin ?\( ?%s ?\))" % (re.escape(ctype), re.escape(c), re.escape(c)), s)
        if m and it is None:
            it = m.group(1)
            lines.append("let it := c")
            continue
        size = r"%s ?\. ?(?:size|length) ?\( ?\)" % re.escape(c)
        m = re.fullmatch(r"std::advance ?\( ?(\w+) ?, ?%s ?- ?%s ?\)" % (size, re.escape(lenv)), s) or \
            re.fullmatch(r"(\w+) ?\+= ?%s ?- ?%s" % (size, re.escape(lenv)), s)
        if m and it is not None and m.group(1) == it:
            lines.append("let it := it.drop (c.length - len)")
            continue
        m = re.fullmatch(r"return (?:(.*?) ?&& ?)?std::equal ?\( ?%s ?, ?%s ?\+ ?%s ?, ?(.*?) ?\)" % (re.escape(pat), re.escape(pat), re.escape(lenv)), s)
        if m:
            start = m.group(2).strip()
            if it is not None and start == it:
                where = "it"
            elif re.fullmatch(r"%s ?\. ?c?begin ?\( ?\)|std::c?begin ?\( ?%s ?\)" % (re.escape(c), re.escape(c)), start):
                where = "c"
            else:
                raise TranslateError("%s: std::equal starts at %r" % (name, start))
            conj = None
            if m.group(1) is not None:
                lean, conj = size_cmp(m.group(1), c, lenv)
                lines.append("decide (%s) && equalRange pat %s" % (lean, where))
            else:
                lines.append("equalRange pat %s" % where)
            # std::equal must only be reached when the container has at least len elements
            for cs in range(0, 4):
                for ln in range(0, 4):
                    reached = not any(g(cs, ln) for g in guards) and (conj is None or conj(cs, ln))
                    if reached and cs < ln:
                        raise TranslateError("%s: std::equal can be reached with a container shorter than the pattern" % name)
            done = True
            continue
        raise TranslateError("%s: statement outside the grammar: %r" % (name, s))
    if not done:
        raise TranslateError("%s: no 'return ... std::equal(...)'" % name)
    return ["def %s (c pat : Str) : Bool :=" % name] + ["  " + x for x in lines]


DEFAULT_HASPREFIX = ["def hasPrefix (c pat : Str) : Bool :=", "  let len := pat.length", "  decide (c.length ≥ len) && equalRange pat c"]
DEFAULT_HASSUFFIX = ["def hasSuffix (c pat : Str) : Bool :=", "  let len := pat.length", "  if c.length < len then false else",
                     "  let it := c", "  let it := it.drop (c.length - len)", "  equalRange pat it"]


ITEMS = ("hasPrefix", "hasSuffix", "bufferSize", "pathIndicatesDirectory", "concatPaths", "docTables", "prettyPath2", "prettyPath1", "formatSkeleton")


def analyse(repo):
    """-> dict(bufferSize, indicates, concat, status) ; status: item -> None (translated) | error text (fallback)"""
    status = {}
    try:
        su = strip_comments(open(os.path.join(repo, "dune/common/stringutility.hh")).read())
        cap = buffer_size(su)
        status["bufferSize"] = None
    except (TranslateError, OSError) as ex:
        cap, status["bufferSize"] = DEFAULT_BUFFER, str(ex)
    try:
        hasp = prefix_suffix(su, "hasPrefix")
        status["hasPrefix"] = None
    except (TranslateError, NameError) as ex:
        hasp, status["hasPrefix"] = DEFAULT_HASPREFIX, str(ex)
    try:
        hass = prefix_suffix(su, "hasSuffix")
        status["hasSuffix"] = None
    except (TranslateError, NameError) as ex:
        hass, status["hasSuffix"] = DEFAULT_HASSUFFIX, str(ex)
    try:
        pc = strip_comments(open(os.path.join(repo, "dune/common/path.cc")).read())
    except OSError as ex:
        pc = ""
    try:
        ids, body = function_body(pc, "pathIndicatesDirectory", 1)
        ind = (ids, decision_list(body, ids, True))
        status["pathIndicatesDirectory"] = None
    except TranslateError as ex:
        ind, status["pathIndicatesDirectory"] = DEFAULT_INDICATES, str(ex)
    try:
        ids, body = function_body(pc, "concatPaths", 2)
        con = (ids, decision_list(body, ids, False))
        status["concatPaths"] = None
    except TranslateError as ex:
        con, status["concatPaths"] = DEFAULT_CONCAT, str(ex)
    try:
        pretty2 = pretty_two(pc)
        status["prettyPath2"] = None
    except TranslateError as ex:
        pretty2, status["prettyPath2"] = DEFAULT_PRETTY_TWO, str(ex)
    try:
        pretty1 = pretty_one(pc)
        status["prettyPath1"] = None
    except TranslateError as ex:
        pretty1, status["prettyPath1"] = DEFAULT_PRETTY_ONE, str(ex)
    try:
        skeleton = format_skeleton(su)
        status["formatSkeleton"] = None
    except (TranslateError, NameError) as ex:
        skeleton, status["formatSkeleton"] = DEFAULT_SKELETON, str(ex)
    try:
        tables = doc_tables(open(os.path.join(repo, "dune/common/path.hh")).read())
        status["docTables"] = None
    except (TranslateError, OSError) as ex:
        tables, status["docTables"] = DEFAULT_TABLES, str(ex)
    return dict(bufferSize=cap, indicates=ind, concat=con, tables=tables, status=status, pretty2=pretty2, pretty1=pretty1,
                skeleton=skeleton, hasPrefix=hasp, hasSuffix=hass)


def status(repo):
    return analyse(repo)["status"]


def translate(repo):
    a = analyse(repo)
    st = a["status"]
    out = ["-- GENERATED by tools/translators/tr_c18.py from dune/common/stringutility.hh and dune/common/path.cc -- do not edit",
           "import DuneVerif.Model.C18.Str",
           "namespace DV.C18",
           "",
           "/-- `Dune::hasPrefix` (stringutility.hh): `strlen`, the size test, `std::equal` from `c.begin()` -/",
           "\n".join(a["hasPrefix"]),
           "",
           "/-- `Dune::hasSuffix` (stringutility.hh): `strlen`, the size test, `std::advance(it, c.size()-len)`, `std::equal` from `it` -/",
           "\n".join(a["hasSuffix"]),
           "",
           "/-- `static const int bufferSize` / `char buffer[bufferSize]` of Dune::formatString -/",
           "def bufferSize : Nat := %d" % a["bufferSize"],
           "",
           "/-- `Dune::pathIndicatesDirectory`, the decision list of path.cc -/",
           emit_def("pathIndicatesDirectory", a["indicates"][0], "Bool", a["indicates"][1]),
           "",
           "/-- `Dune::concatPaths`, the decision list of path.cc -/",
           emit_def("concatPaths", a["concat"][0], "Str", a["concat"][1]),
           "",
           "/-- `Dune::prettyPath(p, isDirectory)`, the straight-line body of path.cc; the sanitiser is a parameter -/",
           "\n".join(a["pretty2"]),
           "",
           "/-- `Dune::prettyPath(p)`, the one-argument overload; the two-argument overload is a parameter -/",
           "\n".join(a["pretty1"]),
           "",
           "\n".join(emit_skeleton(*a["skeleton"])),
           "",
           "/-- the example table in the documentation of processPath (path.hh): p, result -/",
           "def docTableProcessPath : List (Str × Str) := [\n  %s]" % ",\n  ".join(
               "(%s, %s)" % (lean_str(x), lean_str(y)) for x, y in a["tables"][0]),
           "",
           "/-- the example table in the documentation of prettyPath (path.hh): p, isDirectory, result ('anything' rows",
           "    expanded to both values) -/",
           "def docTablePrettyPath : List (Str × Bool × Str) := [\n  %s]" % ",\n  ".join(
               "(%s, %s, %s)" % (lean_str(x), d, lean_str(y)) for x, d, y in a["tables"][1]),
           "",
           "/-- the example table in the documentation of concatPaths (path.hh): base, p, result ('anything' taken as the",
           "    literal text) -/",
           "def docTableConcatPaths : List (Str × Str × Str) := [\n  %s]" % ",\n  ".join(
               "(%s, %s, %s)" % (lean_str(x), lean_str(y), lean_str(z)) for x, y, z in a["tables"][2]),
           "",
           "/-- which items were translated from the source (`false`: the source left the translator's grammar and the",
           "    built-in transcription was emitted instead; that item is then tied by the differential run only) -/",
           "def Gen.translated : List (String × Bool) := [%s]" % ", ".join(
               '("%s", %s)' % (k, "true" if st[k] is None else "false") for k in ITEMS),
           ]
    for k in ITEMS:
        if st[k] is not None:
            out.append("-- fallback for %s: %s" % (k, re.sub(r"\s+", " ", st[k])[:200]))
    out += ["", "end DV.C18"]
    return [("DuneVerif/Gen/C18.lean", "\n".join(out) + "\n")]
