"""Translator for C03: the pieces of dune/common/parallel/indexset.hh and plocalindex.hh that are data or
straight-line arithmetic are re-read from the sources on every run and emitted as values of the little expression
types of lean/DuneVerif/Model/C03Expr.lean into lean/DuneVerif/Gen/C03.lean:

  * the state check of every mutator (beginResize, add(g), add(g,l), markAsDeleted, iterator::markAsDeleted, endResize,
    renumberLocal): truth table of the condition over {GROUND, RESIZE}, exception type, "is the first statement";
  * their scalar effects: `state_ = …`, `deletedEntries_ = …`, `seqNo_++`;
  * the comparison of IndexSetSortFunctor, of merge() (old vs. added), LocalIndexComparator<ParallelLocalIndex<T>>
    and the generic LocalIndexComparator;
  * the two branch conditions of merge() and its two DELETED tests;
  * for each of the FIVE copies of the binary search (at const, operator[] const, at, exists, operator[]):
    initial values, loop condition, probe expression, comparison, the two updates, and the tests / exits behind the loop.

Props/C03.lean proves (`*_matches_source`) that the hand-written model computes exactly what these generated pieces
say, so `low = probe+1` -> `low = probe`, `>=` -> `>`, a dropped `seqNo_++`, an inverted state check ... change what
the theorems have to prove.  Emitted for information only (no theorem depends on them, because no value of theirs
can break the property): the branch conditions of merge() (`mergeCopies`, `mergeLoops`), what mutators other than
markAsDeleted do to `deletedEntries_`, `Check.first`, and the generic LocalIndexComparator (`genericCompare`).

Robustness against harmless rewrites: every piece has a canonical form.  A source fragment that parses and agrees
with the canonical form on a grid of assignments is emitted in canonical form (the generated file does not change,
nothing is re-proved); one that parses and differs is emitted as written; one that cannot be located or parsed is
emitted in canonical form and listed in `Gen.unparsed` (the tie for that piece then rests on the correspondence run
alone).  Only if the header itself cannot be read does the translator fail.

Round four added LOUD pieces (constructor, endResize statement order, renumberLocal loop, merge() as a program, the
GlobalLookupIndexSet constructors, the local index classes): outside the grammar they are emitted as unknown/none and the
theorem about them breaks.  Round five made the reading of these pieces independent of spelling WITHOUT guessing: the
source is normalised by rules that are sound one by one (boolean locals and entry aliases inlined at their declaration
point, guard clauses / continue / else-if chains / `?:` turned into decision trees, while = for = index loop, member
initialiser = assignment in the constructor body, local accumulators tracked symbolically) and loop bodies of merge() are
compared with the canonical tree by evaluating both for every assignment of their atoms (see `same_tree`)."""
import itertools
import os
import re


class TranslateError(Exception):
    pass


# ------------------------------------------------------------------------------------------------
# source preparation
# ------------------------------------------------------------------------------------------------

def prepare(src):
    src = re.sub(r"/\*.*?\*/", " ", src, flags=re.S)
    src = re.sub(r"//[^\n]*", "", src)
    src = re.sub(r'"(?:\\.|[^"\\])*"', '""', src)                     # string literals
    src = "\n".join(l for l in src.split("\n") if not l.lstrip().startswith("#"))  # preprocessor lines
    return re.sub(r"\s+", " ", src)


def match_close(s, i, op, cl):
    """s[i] == op ; index of the matching closer"""
    depth = 0
    for j in range(i, len(s)):
        if s[j] == op:
            depth += 1
        elif s[j] == cl:
            depth -= 1
            if depth == 0:
                return j
    raise TranslateError("unbalanced %s" % op)


def bodies(src, sig_rx):
    """all (match, params, body) of function definitions whose head matches sig_rx (which must end before the parameter list)"""
    res = []
    for m in re.finditer(sig_rx, src):
        i = m.end()
        if i >= len(src) or src[i] != "(":
            continue
        j = match_close(src, i, "(", ")")
        params = src[i + 1:j]
        k = j + 1
        tail = re.match(r"\s*(const)?\s*", src[k:])
        is_const = bool(tail.group(1))
        k += tail.end()
        if k >= len(src) or src[k] != "{":
            continue  # a declaration
        e = match_close(src, k, "{", "}")
        res.append((params.strip(), is_const, src[k + 1:e].strip()))
    return res


def statements(body):
    """top-level statements of a body: `;`-terminated pieces, with while/if/for heads kept together with what they govern
    only as text (callers use regexes on the flat text)"""
    return [s.strip() for s in body.split(";") if s.strip()]


# ------------------------------------------------------------------------------------------------
# expressions
# ------------------------------------------------------------------------------------------------
TOK = re.compile(r"\s*(?:(\d+)|([A-Za-z_]\w*)|(==|!=|<=|>=|&&|\|\||[-+*/<>!()]))")
IVARS = {"low", "high", "probe", "size", "elem", "glob", "g1", "g2", "a1", "a2", "nOld", "nNew", "index", "locNo", "tsize"}
BVARS = {"del", "cmp12", "cmp21", "oldDeleted"}


def tokenize(s):
    toks, i = [], 0
    s = s.strip()
    if "++" in s or "--" in s:
        raise TranslateError("increment/decrement inside an expression: %r" % s[:40])
    while i < len(s):
        m = TOK.match(s, i)
        if not m or m.end() == i:
            raise TranslateError("cannot tokenize %r" % s[i:i + 30])
        if m.group(1):
            toks.append(("num", int(m.group(1))))
        elif m.group(2):
            w = m.group(2)
            toks.append(("op", {"not": "!", "and": "&&", "or": "||"}[w]) if w in ("not", "and", "or") else ("id", w))
        else:
            toks.append(("op", m.group(3)))
        i = m.end()
    return toks


class P:
    """recursive descent: boolean and integer expressions; ASTs are tuples"""

    def __init__(self, text, locals_=None):
        self.text = text
        self.t = tokenize(text)
        self.i = 0
        self.locals = locals_ or {}   # name of a boolean local -> AST of the expression it was initialised with

    def peek(self):
        return self.t[self.i] if self.i < len(self.t) else ("end", None)

    def eat(self, kind=None, val=None):
        k, v = self.peek()
        if (kind and k != kind) or (val is not None and v != val):
            raise TranslateError("unexpected %r in %r" % (v, self.text))
        self.i += 1
        return v

    def done(self):
        if self.peek()[0] != "end":
            raise TranslateError("trailing tokens in %r" % self.text)

    # ---- integers
    def iexpr(self):
        e = self.iterm()
        while self.peek() in (("op", "+"), ("op", "-")):
            op = self.eat()
            r = self.iterm()
            e = ("add" if op == "+" else "sub", e, r)
        return e

    def iterm(self):
        e = self.iunary()
        while self.peek() in (("op", "*"), ("op", "/")):
            op = self.eat()
            r = self.iunary()
            e = ("mul" if op == "*" else "div", e, r)
        return e

    def iunary(self):
        if self.peek() == ("op", "-"):
            self.eat()
            e = self.iunary()
            if e[0] == "num":
                return ("num", -e[1])
            return ("sub", ("num", 0), e)
        if self.peek() == ("op", "+"):
            self.eat()
            return self.iunary()
        return self.iprimary()

    def iprimary(self):
        k, v = self.peek()
        if k == "num":
            self.eat()
            return ("num", v)
        if k == "id" and v in IVARS:
            self.eat()
            return ("ivar", v)
        if (k, v) == ("op", "("):
            self.eat()
            e = self.iexpr()
            self.eat("op", ")")
            return e
        raise TranslateError("integer expression expected at %r in %r" % (v, self.text))

    # ---- booleans
    def bexpr(self):
        e = self.band()
        while self.peek() == ("op", "||"):
            self.eat()
            e = ("or", e, self.band())
        return e

    def band(self):
        e = self.bunary()
        while self.peek() == ("op", "&&"):
            self.eat()
            e = ("and", e, self.bunary())
        return e

    def bunary(self):
        if self.peek() == ("op", "!"):
            self.eat()
            return ("not", self.bunary())
        return self.bprimary()

    def bprimary(self):
        k, v = self.peek()
        if k == "id" and v in self.locals:
            self.eat()
            return self.locals[v]
        if k == "id" and v in BVARS:
            self.eat()
            return ("bvar", v)
        if k == "id" and v in ("true", "false"):
            self.eat()
            return ("tt",) if v == "true" else ("ff",)
        if (k, v) == ("op", "("):
            save = self.i
            try:
                self.eat()
                e = self.bexpr()
                self.eat("op", ")")
                # `(a) < b` : the parenthesis was an integer
                if self.peek()[0] == "op" and self.peek()[1] in ("<", "<=", ">", ">=", "==", "!=", "+", "-", "*", "/"):
                    raise TranslateError("integer parenthesis")
                return e
            except TranslateError:
                self.i = save
        a = self.iexpr()
        k, v = self.peek()
        if k == "op" and v in ("<", "<=", ">", ">=", "==", "!="):
            self.eat()
            b = self.iexpr()
            return ({"<": "lt", "<=": "le", ">": "gt", ">=": "ge", "==": "eq", "!=": "ne"}[v], a, b)
        raise TranslateError("comparison expected in %r" % self.text)


def parse_b(text, locals_=None):
    p = P(text, locals_)
    e = p.bexpr()
    p.done()
    return e


def parse_i(text):
    p = P(text)
    e = p.iexpr()
    p.done()
    return e


def tdiv(a, b):
    if b == 0:
        raise ZeroDivisionError
    q = abs(a) // abs(b)
    return q if (a >= 0) == (b >= 0) else -q


def ev(e, env):
    k = e[0]
    if k == "num":
        return e[1]
    if k in ("ivar", "bvar"):
        return env[e[1]]
    if k == "tt":
        return True
    if k == "ff":
        return False
    if k == "not":
        return not ev(e[1], env)
    a, b = ev(e[1], env), ev(e[2], env)
    return {"add": lambda: a + b, "sub": lambda: a - b, "mul": lambda: a * b, "div": lambda: tdiv(a, b),
            "lt": lambda: a < b, "le": lambda: a <= b, "gt": lambda: a > b, "ge": lambda: a >= b,
            "eq": lambda: a == b, "ne": lambda: a != b, "and": lambda: bool(a and b), "or": lambda: bool(a or b)}[k]()


def same_on_grid(e1, e2, grid):
    try:
        return all(ev(e1, env) == ev(e2, env) for env in grid)
    except ZeroDivisionError:
        return False


def grid(**ranges):
    names = list(ranges)
    return [dict(zip(names, vals)) for vals in itertools.product(*[ranges[n] for n in names])]


def lean(e):
    k = e[0]
    if k == "num":
        return "(.num (%d))" % e[1] if e[1] < 0 else "(.num %d)" % e[1]
    if k == "ivar":
        return "(.var .%s)" % e[1]
    if k == "bvar":
        return "(.var .%s)" % e[1]
    if k in ("tt", "ff"):
        return "." + k
    if k == "not":
        return "(.not %s)" % lean(e[1])
    return "(.%s %s %s)" % (k, lean(e[1]), lean(e[2]))


# ------------------------------------------------------------------------------------------------
# the pieces
# ------------------------------------------------------------------------------------------------
def I(s):
    return parse_i(s)


def B(s):
    return parse_b(s)


class Out:
    def __init__(self):
        self.lines = []
        self.unparsed = []
        self.rewritten = []  # pieces that parsed and differ from the canonical form

    def piece(self, name, typ, fn, canonical_text):
        """fn() -> Lean text of the piece as read from the source, or raises; canonical_text is used when it cannot be read"""
        try:
            txt = fn()
        except (TranslateError, IndexError, KeyError, AttributeError, ValueError) as ex:
            self.unparsed.append("%s (%s)" % (name, str(ex)[:120].replace('"', "'")))
            txt = canonical_text
        if txt != canonical_text:
            self.rewritten.append(name)
        self.lines.append("def %s : %s :=\n  %s\n" % (name, typ, txt))

    def loud(self, name, typ, fn, canonical_text, failed_text):
        """like piece(), but a fragment that cannot be read is emitted as `failed_text` (no canonical fallback)"""
        try:
            txt = fn()
        except (TranslateError, IndexError, KeyError, AttributeError, ValueError, StopIteration) as ex:
            self.unparsed.append("%s (%s)" % (name, str(ex)[:120].replace('"', "'")))
            txt = failed_text
        if txt != canonical_text:
            self.rewritten.append(name)
        self.lines.append("def %s : %s :=\n  %s\n" % (name, typ, txt))


def canon_b(text, canonical, g):
    e = parse_b(text)
    c = parse_b(canonical)
    return lean(c) if same_on_grid(e, c, g) else lean(e)


def has_num(e):
    return e[0] == "num" or any(isinstance(x, tuple) and has_num(x) for x in e[1:])


def canon_cmp(text):
    """a comparison of two index pairs: canonical iff it agrees with `before` on CMPGRID and mentions no numeric literal
    (the grid only has the global indices 0..2: `… || g1 == 7` must not be normalised away)"""
    e = parse_b(text)
    c = parse_b(CANON_BEFORE)
    return lean(c) if (not has_num(e) and same_on_grid(e, c, CMPGRID)) else lean(e)


def canon_i(text, canonical, g):
    e = parse_i(text)
    c = parse_i(canonical)
    return lean(c) if same_on_grid(e, c, g) else lean(e)


# ---- state checks and effects ----------------------------------------------------------------------
STATE_ATOM = r"(?:this\s*->\s*|indexSet_\s*->\s*)?state_|(?:indexSet_\s*->\s*)?state\s*\(\s*\)"


def check_of(body):
    """-> (inGround, inResize, exc, first) of the first `if(<cond on state_>) DUNE_THROW(Exc, …)` of the body"""
    rx = re.compile(r"if\s*\(")
    pos = 0
    # `const bool resizing = (state_ == RESIZE);` in front of the check: inlined into the conditions that use the name
    # (only `const` locals: they cannot change between their declaration and the `if`)
    locs = {}
    for d in re.finditer(r"\bconst\s+(?:bool|auto)\s+(\w+)\s*(?:=\s*([^;{}]+)|\{([^;{}]+)\}|\(([^;{}]+)\))\s*;", body):
        init = next(g for g in d.groups()[1:] if g is not None)
        if re.search(STATE_ATOM, init) and d.group(1) not in ("GROUND", "RESIZE", "state_"):
            locs[d.group(1)] = init
    while True:
        m = rx.search(body, pos)
        if not m:
            return (False, False, "", True)
        i = m.end() - 1
        j = match_close(body, i, "(", ")")
        cond = body[i + 1:j]
        for name, init in locs.items():
            cond = re.sub(r"\b%s\b" % name, "(" + init + ")", cond)
        t = re.match(r"\s*\{?\s*DUNE_THROW\s*\(\s*(\w+)", body[j + 1:])
        if t and re.search(STATE_ATOM, cond):
            c = re.sub(STATE_ATOM, " g1 ", cond)
            c = re.sub(r"\bGROUND\b", " 0 ", c)
            c = re.sub(r"\bRESIZE\b", " 1 ", c)
            e = parse_b(c)
            first = re.sub(r"\bconst\s+(?:bool|auto)\s+\w+\s*[=\{\(][^;{}]+[\}\)]?\s*;", "", body[:m.start()]).strip() == ""
            return (ev(e, {"g1": 0}), ev(e, {"g1": 1}), t.group(1), first)
        pos = j + 1


def lean_bool(b):
    return "true" if b else "false"


def lean_check(c):
    return "{ inGround := %s, inResize := %s, exc := \"%s\", first := %s }" % (
        lean_bool(c[0]), lean_bool(c[1]), c[2], lean_bool(c[3]))


def effects_of(body):
    st = None
    m = re.search(r"\bstate_\s*=\s*(GROUND|RESIZE)\b", body)
    if m:
        st = ".ground" if m.group(1) == "GROUND" else ".resize"
    dl = None
    m = re.search(r"\bdeletedEntries_\s*=\s*(true|false)\b", body)
    if m:
        dl = m.group(1)
    seq = 0
    for m in re.finditer(r"\+\+\s*seqNo_|seqNo_\s*\+\+", body):
        seq += 1
    for m in re.finditer(r"seqNo_\s*\+=\s*(\d+)", body):
        seq += int(m.group(1))
    for m in re.finditer(r"seqNo_\s*=\s*seqNo_\s*\+\s*(\d+)", body):
        seq += int(m.group(1))
    if re.search(r"--\s*seqNo_|seqNo_\s*--|seqNo_\s*-=|seqNo_\s*=\s*(?!seqNo_\s*\+)", body):
        raise TranslateError("seqNo_ is modified in an unexpected way")
    return "{ state := %s, del := %s, seqAdd := %d }" % (
        "some " + st if st else "none", "some " + dl if dl else "none", seq)


# ---- the binary searches -------------------------------------------------------------------------
LOOPGRID = grid(low=range(0, 7), high=range(-1, 7))
CANON_LOOP = dict(lowInit="0", highInit="size-1", probeInit="-1", cond="low<high", probe="(high+low)/2",
                  test="elem>=glob", thenT="high", thenE="probe", elseT="low", elseE="probe+1")


def norm_search(text):
    t = re.sub(r"localIndices_\s*\.\s*size\s*\(\s*\)", " size ", text)
    t = re.sub(r"localIndices_\s*\[\s*(?:probe|low)\s*\]\s*\.\s*global\s*\(\s*\)", " elem ", t)
    t = re.sub(r"\bglobal\b", " glob ", t)
    return t


def search_of(body):
    """-> dict of Lean texts for the Search structure"""
    b = norm_search(body)
    d = re.search(r"\bint\s+low\s*=\s*([^,;]+),\s*high\s*=\s*([^,;]+?)(?:,\s*probe\s*=\s*([^,;]+))?;", b)
    if not d:
        raise TranslateError("declaration of low/high not found")
    w = re.search(r"\bwhile\s*\(", b)
    if not w:
        raise TranslateError("while loop not found")
    i = w.end() - 1
    j = match_close(b, i, "(", ")")
    cond = b[i + 1:j]
    k = j + 1
    while b[k] == " ":
        k += 1
    if b[k] != "{":
        raise TranslateError("loop body without braces")
    e = match_close(b, k, "{", "}")
    inner = b[k + 1:e].replace("{", " ").replace("}", " ")
    st = statements(inner)
    if len(st) != 3:
        raise TranslateError("loop body has %d statements" % len(st))
    m0 = re.match(r"^probe\s*=\s*(.+)$", st[0])
    m1 = re.match(r"^if\s*\((.+)\)\s*(low|high)\s*=\s*(.+)$", st[1])
    m2 = re.match(r"^else\s+(low|high)\s*=\s*(.+)$", st[2])
    if not (m0 and m1 and m2):
        raise TranslateError("loop body not of the form probe=…; if(…) x=…; else y=…")
    test_text, then_t, then_e, else_t, else_e = m1.group(1), m1.group(2), m1.group(3), m2.group(1), m2.group(2)
    if (then_t, else_t) == ("low", "high"):      # branches written the other way round: negate the test and swap them
        test_text, then_t, then_e, else_t, else_e = "!(" + test_text + ")", else_t, else_e, then_t, then_e
    g_size = grid(size=range(0, 5))
    g_test = grid(elem=range(0, 3), glob=range(0, 3))
    g_probe = grid(probe=range(-1, 8))
    res = dict(
        lowInit=canon_i(d.group(1), CANON_LOOP["lowInit"], g_size),
        highInit=canon_i(d.group(2), CANON_LOOP["highInit"], g_size),
        probeInit=canon_i(d.group(3) if d.group(3) else "-1", CANON_LOOP["probeInit"], g_size),
        cond=canon_b(cond, CANON_LOOP["cond"], LOOPGRID),
        probe=canon_i(m0.group(1), CANON_LOOP["probe"], [env for env in LOOPGRID if env["low"] < env["high"]]),
        test=canon_b(test_text, CANON_LOOP["test"], g_test),
        thenT="." + then_t, thenE=canon_i(then_e, CANON_LOOP["thenE"], g_probe),
        elseT="." + else_t, elseE=canon_i(else_e, CANON_LOOP["elseE"], g_probe),
    )
    # ---- behind the loop
    tail = b[e + 1:]
    tst = statements(tail.replace("{", " ").replace("}", " "))
    acts = []  # (cond text or None, act)

    def act_of(t):
        t = t.strip()
        if re.match(r"^DUNE_THROW\s*\(\s*RangeError\b", t):
            return ".throwRange"
        if re.match(r"^return\s+false$", t):
            return ".retFalse"
        if re.match(r"^return\s+true$", t):
            return ".retTrue"
        if re.match(r"^return\s+localIndices_\s*\[\s*low\s*\]$", t):
            return ".retElem"
        raise TranslateError("exit %r not understood" % t[:40])

    for s in tst:
        s = s.strip()
        if s.startswith("else"):
            s = s[4:].strip()
        if s.startswith("if"):
            i2 = s.index("(")
            j2 = match_close(s, i2, "(", ")")
            acts.append((s[i2 + 1:j2], act_of(s[j2 + 1:])))
        else:
            acts.append((None, act_of(s)))
    if not acts or acts[-1][0] is not None:
        raise TranslateError("no unconditional exit")
    conds = acts[:-1]
    res["foundAct"] = acts[-1][1]
    g_empty = grid(size=range(0, 4), probe=range(-1, 3), low=range(0, 2))
    if len(conds) == 0:
        res.update(emptyTest="none", emptyAct=".throwRange", missTest="none", missAct=".throwRange")
    elif len(conds) == 2:
        res["emptyTest"] = "some " + canon_b(conds[0][0], "size==0", g_empty)
        res["emptyAct"] = conds[0][1]
        res["missTest"] = "some " + canon_b(conds[1][0], "elem!=glob", g_test)
        res["missAct"] = conds[1][1]
    else:
        raise TranslateError("%d tests behind the loop" % len(conds))
    return res


def lean_search(r):
    return ("{ loop := { lowInit := %(lowInit)s, highInit := %(highInit)s, probeInit := %(probeInit)s,\n"
            "              cond := %(cond)s, probe := %(probe)s,\n"
            "              test := %(test)s, thenT := %(thenT)s, thenE := %(thenE)s, elseT := %(elseT)s, elseE := %(elseE)s },\n"
            "    emptyTest := %(emptyTest)s, emptyAct := %(emptyAct)s,\n"
            "    missTest := %(missTest)s, missAct := %(missAct)s, foundAct := %(foundAct)s }") % r


def canonical_search(kind):
    r = {k: (lean(parse_b(v)) if k in ("cond", "test") else ("." + v if k in ("thenT", "elseT") else lean(parse_i(v))))
         for k, v in CANON_LOOP.items()}
    if kind == "get":
        r.update(emptyTest="none", emptyAct=".throwRange", missTest="none", missAct=".throwRange", foundAct=".retElem")
    else:
        r.update(emptyTest="some " + lean(parse_b("size==0")), missTest="some " + lean(parse_b("elem!=glob")))
        if kind == "at":
            r.update(emptyAct=".throwRange", missAct=".throwRange", foundAct=".retElem")
        else:
            r.update(emptyAct=".retFalse", missAct=".retFalse", foundAct=".retTrue")
    return lean_search(r)


# ---- comparisons ------------------------------------------------------------------------------------
# the comparisons are compared with their canonical form on the assignments the property quantifies over: `compare` is a
# strict order (never true in both directions) and two pairs with equal global index AND equivalent local indices
# (equal keys) are outside the property's quantifier
CMPGRID = [e for e in grid(g1=range(0, 3), g2=range(0, 3), cmp12=(False, True), cmp21=(False, True))
           if not (e["cmp12"] and e["cmp21"]) and not (e["g1"] == e["g2"] and not e["cmp12"] and not e["cmp21"])]
CANON_BEFORE = "g1<g2 || (g1==g2 && cmp12)"


def norm_cmp(text, first, second):
    """first/second: regexes for the two objects compared"""
    t = text
    t = re.sub(r"LocalIndexComparator\s*<[^>]*>\s*::\s*compare\s*\(\s*%s\s*(?:\.|->)\s*local\s*\(\s*\)\s*,\s*%s\s*(?:\.|->)\s*local\s*\(\s*\)\s*\)"
               % (first, second), " cmp12 ", t)
    t = re.sub(r"LocalIndexComparator\s*<[^>]*>\s*::\s*compare\s*\(\s*%s\s*(?:\.|->)\s*local\s*\(\s*\)\s*,\s*%s\s*(?:\.|->)\s*local\s*\(\s*\)\s*\)"
               % (second, first), " cmp21 ", t)
    t = re.sub(r"%s\s*(?:\.|->)\s*global\s*\(\s*\)" % first, " g1 ", t)
    t = re.sub(r"%s\s*(?:\.|->)\s*global\s*\(\s*\)" % second, " g2 ", t)
    return t


def split_params(params):
    out, depth, cur = [], 0, ""
    for ch in params:
        if ch in "<([":
            depth += 1
        elif ch in ">)]":
            depth -= 1
        if ch == "," and depth == 0:
            out.append(cur)
            cur = ""
        else:
            cur += ch
    if cur.strip():
        out.append(cur)
    return out


def param_names(params):
    names = []
    for p in split_params(params):
        p = re.sub(r"\[\[[^\]]*\]\]", " ", p)
        m = re.search(r"(\w+)\s*$", p.strip())
        if not m:
            raise TranslateError("parameter name not found in %r" % p)
        names.append(m.group(1))
    return names


def struct_body(src, head_rx):
    m = re.search(head_rx, src)
    if not m:
        raise TranslateError("struct not found: %s" % head_rx)
    k = src.index("{", m.end() - 1) if src[m.end() - 1] != "{" else m.end() - 1
    e = match_close(src, k, "{", "}")
    return src[k + 1:e]


def return_expr(body):
    m = re.match(r"^\s*return\s+(.+?)\s*;\s*$", body)
    if not m:
        raise TranslateError("body is not a single return statement")
    return m.group(1)



# ---- round four: straight-line control flow -------------------------------------------------------------
def split_statements(body):
    """top-level statements: split at `;` outside parentheses/braces; a `}` that closes a top-level block ends a statement"""
    out, cur, par, br = [], "", 0, 0
    for ch in body:
        cur += ch
        if ch == "(":
            par += 1
        elif ch == ")":
            par -= 1
        elif ch == "{":
            br += 1
        elif ch == "}":
            br -= 1
            if br == 0 and par == 0:
                out.append(cur.strip())
                cur = ""
        elif ch == ";" and par == 0 and br == 0:
            out.append(cur.strip().rstrip(";").strip())
            cur = ""
    if cur.strip():
        out.append(cur.strip())
    return [x for x in out if x]


def is_state_check(st):
    return bool(re.match(r"^if\s*\(", st)) and "DUNE_THROW" in st and bool(re.search(STATE_ATOM, st))


def without_state_check(sts):
    """the statements without the state check: `if(<condition on state_>) DUNE_THROW(…)` and `const bool` locals that only
    hold a condition on `state_` (what the check does is the business of `check_of`)"""
    names, res = set(), []
    for st in sts:
        d = re.match(r"^const\s+(?:bool|auto)\s+(\w+)\s*(?:=\s*(.+)|\{(.+)\}|\((.+)\))$", st)
        if d:
            init = next(g for g in d.groups()[1:] if g is not None)
            rest = re.sub(r"\b(?:GROUND|RESIZE)\b|[=!()&|\s]", "", re.sub(STATE_ATOM, "", init))
            if re.search(STATE_ATOM, init) and rest == "":
                names.add(d.group(1))
                continue
        if is_state_check(st) or (re.match(r"^if\s*\(", st) and "DUNE_THROW" in st
                                  and any(re.search(r"\b%s\b" % n, st[:st.index("DUNE_THROW")]) for n in names)):
            continue
        res.append(st)
    return res


SCALAR_STMT = re.compile(r"^(?:\+\+\s*seqNo_|seqNo_\s*\+\+|seqNo_\s*\+=\s*\d+|seqNo_\s*=\s*seqNo_\s*\+\s*\d+|"
                         r"(?:this\s*->\s*)?state_\s*=\s*\w+|(?:this\s*->\s*)?deletedEntries_\s*=\s*\w+)$")


def calls_of_endresize(body):
    """the container statements of endResize() in source order -> Lean list of Call"""
    res = []
    FUNCTOR = r"IndexSetSortFunctor\s*<[^>]*>"
    first = [r"newIndices_\s*\.\s*begin\s*\(\s*\)"]
    last = [r"newIndices_\s*\.\s*end\s*\(\s*\)"]
    comp = [FUNCTOR + r"\s*(?:\(\s*\)|\{\s*\})"]
    for st in without_state_check(split_statements(body)):
        if SCALAR_STMT.match(st):
            continue
        # locals initialised once from one of the three arguments of the sort call (any other use of such a local, e.g.
        # `++first`, is a statement of its own and comes out as `.unknown`)
        d = re.match(r"^(?:const\s+)?(?:auto|typename\s+[\w:<>, ]+|[\w:<>, ]+?)\s+(?:const\s+)?(\w+)\s*(?:=\s*|\{\s*|\(\s*)newIndices_\s*\.\s*(begin|end)\s*\(\s*\)\s*[\}\)]?$", st)
        if d:
            (first if d.group(2) == "begin" else last).append(d.group(1))
            continue
        d = (re.match(r"^(?:const\s+)?%s\s+(?:const\s+)?(\w+)\s*(?:\{\s*\}|=\s*%s\s*(?:\(\s*\)|\{\s*\}))?$" % (FUNCTOR, FUNCTOR), st)
             or re.match(r"^(?:const\s+)?auto\s+(?:const\s+)?(\w+)\s*=\s*%s\s*(?:\(\s*\)|\{\s*\})$" % FUNCTOR, st))
        if d:
            comp.append(d.group(1))
            continue
        if re.match(r"^(?:std\s*::\s*)?(?:stable_)?sort\s*\(\s*(?:%s)\s*,\s*(?:%s)\s*,\s*(?:%s)\s*\)$"
                    % ("|".join(first), "|".join(last), "|".join(comp)), st):
            res.append(".sortNew")
        elif re.match(r"^(?:this\s*->\s*)?merge\s*\(\s*\)$", st):
            res.append(".merge")
        else:
            res.append(".unknown")
    return "[" + ", ".join(res) + "]"


def for_parts(st):
    """`for(HEAD) BODY` -> (head, body statements)"""
    m = re.match(r"^for\s*\(", st)
    if not m:
        raise TranslateError("not a for statement: %r" % st[:40])
    i = m.end() - 1
    j = match_close(st, i, "(", ")")
    head = st[i + 1:j]
    rest = st[j + 1:].strip()
    if rest.startswith("{"):
        e = match_close(rest, 0, "{", "}")
        if rest[e + 1:].strip():
            raise TranslateError("text behind the loop body")
        inner = split_statements(rest[1:e])
    else:
        inner = split_statements(rest)
    return head, inner


def loop_var(head, begin_rx, end_rx, end_names):
    """-> (name of the loop variable, how an element is written: list of regexes for `the pair`)"""
    if ";" not in head:  # range-for
        m = re.match(r"^(?:const\s+)?(?:auto|[\w:<>,\s]+?)\s*(?:const\s*)?&{0,2}\s*(\w+)\s*:\s*(.+)$", head.strip())
        if not m or not re.match(r"^(?:%s)$" % begin_rx.replace(r"\.\s*begin\s*\(\s*\)", "").replace(r"begin\s*\(\s*\)", r"\*\s*this"), m.group(2).strip()):
            raise TranslateError("range-for not understood: %r" % head)
        x = m.group(1)
        return x, r"\b%s\s*\." % x, []
    parts = [p.strip() for p in head.split(";")]
    if len(parts) != 3:
        raise TranslateError("for head not understood: %r" % head)
    decls = [t.strip() for t in split_params(parts[0])]
    m = re.match(r"^(?:const\s+)?[\w:<>]+\s+(\w+)\s*=\s*(?:%s)$" % begin_rx, decls[0]) if decls else None
    if not m:
        raise TranslateError("loop initialisation not understood: %r" % parts[0])
    x = m.group(1)
    end_names = set(end_names)
    for t in decls[1:]:      # `iterator pair = begin(), last = end()`
        m = re.match(r"^(\w+)\s*=\s*(?:%s)$" % end_rx, t)
        if not m or m.group(1) == x:
            raise TranslateError("loop initialisation not understood: %r" % parts[0])
        end_names.add(m.group(1))
    m = (re.match(r"^%s\s*!=\s*(.+)$" % x, parts[1]) or re.match(r"^(.+?)\s*!=\s*%s$" % x, parts[1])
         or re.match(r"^!\s*\(\s*%s\s*==\s*(.+?)\s*\)$" % x, parts[1]) or re.match(r"^!\s*\(\s*(.+?)\s*==\s*%s\s*\)$" % x, parts[1]))
    if not m:
        raise TranslateError("loop condition not understood: %r" % parts[1])
    e = m.group(1).strip()
    if not (e in end_names or re.match(r"^(?:%s)$" % end_rx, e)):
        raise TranslateError("loop end not understood: %r" % e)
    incs = [t.strip() for t in split_params(parts[2])]
    own = [t for t in incs if re.match(r"^(?:\+\+\s*%s|%s\s*\+\+)$" % (x, x), t)]
    if len(own) != 1:
        raise TranslateError("loop increment not understood: %r" % parts[2])
    others = [t for t in incs if t not in own]
    return x, r"(?:\b%s\s*->|\(\s*\*\s*%s\s*\)\s*\.)" % (x, x), others


INC_STMT = re.compile(r"^(?:\+\+\s*(\w+)|(\w+)\s*\+\+|(\w+)\s*\+=\s*(\d+)|(\w+)\s*=\s*(\w+)\s*\+\s*(\d+))$")


def inc_of(t):
    """`++c`, `c++`, `c += k`, `c = c + k` -> (c, k) | None"""
    m = INC_STMT.match(t.strip())
    if not m:
        return None
    if m.group(1) or m.group(2):
        return (m.group(1) or m.group(2)), 1
    if m.group(3):
        return m.group(3), int(m.group(4))
    if m.group(5) == m.group(6):
        return m.group(5), int(m.group(7))
    return None


def while_as_for(st, iters):
    """`while(x != e) { …; ++x; }` over an iterator x declared in front of it -> the text of the equivalent for statement.
    (`continue` is not a statement the callers understand, so the increment cannot be skipped.)"""
    i = st.index("(")
    j = match_close(st, i, "(", ")")
    cond = st[i + 1:j].strip()
    xs = [x for x in iters if re.search(r"\b%s\b" % x, cond)]
    if len(xs) != 1:
        raise TranslateError("while condition not understood: %r" % cond)
    x = xs[0]
    rest = st[j + 1:].strip()
    if not rest.startswith("{") or match_close(rest, 0, "{", "}") != len(rest) - 1:
        raise TranslateError("while body not understood")
    inner = split_statements(rest[1:-1])
    if not inner or not re.match(r"^(?:\+\+\s*%s|%s\s*\+\+)$" % (x, x), inner[-1]):
        raise TranslateError("the iterator is not advanced at the end of the while body")
    return "for(auto %s = %s; %s; ++%s) { %s }" % (x, iters[x], cond, x, " ".join(q + ";" for q in inner[:-1]))


def renumber_of(body):
    """-> Renum {start, step, value}: the entries are visited in order, entry number n gets `value` evaluated at
    index = start + n*step.  Understood: for / range-for / while over begin()..end(), an index loop over
    localIndices_[0 .. size()), the counter advanced in the loop head, in the body (before or behind the assignment) or
    inside the assigned expression."""
    sts = split_statements(body)
    end_names, size_names, counters, iters, loop = set(), set(), {}, {}, None
    SIZE = r"(?:localIndices_\s*\.\s*size\s*\(\s*\)|(?:this\s*->\s*)?size\s*\(\s*\))"
    for st in without_state_check(sts):
        if loop is None:
            m = re.match(r"^(?:const\s+)?[\w:<>]+\s+(\w+)\s*=\s*(?:this\s*->\s*)?end\s*\(\s*\)$", st)
            if m:
                end_names.add(m.group(1))
                continue
            m = re.match(r"^(?:const\s+)?[\w:<>]+\s+(\w+)\s*=\s*((?:this\s*->\s*)?begin\s*\(\s*\))$", st)
            if m:
                iters[m.group(1)] = m.group(2)
                continue
            m = re.match(r"^const\s+[\w:<>]+\s+(\w+)\s*=\s*%s$" % SIZE, st)
            if m:
                size_names.add(m.group(1))
                continue
            m = re.match(r"^(?:std\s*::\s*)?[\w]+\s+(\w+)\s*(?:=\s*(\d+)|\(\s*(\d+)\s*\)|\{\s*(\d+)\s*\})$", st)
            if m:
                counters[m.group(1)] = int(next(g for g in m.groups()[1:] if g is not None))
                continue
            if st.startswith("for"):
                loop = st
                continue
            if st.startswith("while"):
                loop = while_as_for(st, iters)
                continue
        raise TranslateError("statement not understood: %r" % st[:50])
    if loop is None:
        raise TranslateError("no loop")
    head, inner = for_parts(loop)
    ctr, pre, post = None, 0, 0
    mi = re.match(r"^(?:const\s+)?[\w:<>]+\s+(\w+)\s*(?:=\s*(\d+)|\{\s*(\d+)\s*\}|\(\s*(\d+)\s*\))\s*;(.+);(.+)$", head)
    if mi:     # index loop: for(T i = 0; i < size(); ++i) localIndices_[i].local() = …
        x = mi.group(1)
        start = int(next(g for g in mi.groups()[1:4] if g is not None))
        c = mi.group(5).strip()
        szs = "(?:%s%s)" % (SIZE, "".join("|" + n for n in sorted(size_names)))
        if not re.match(r"^(?:%s\s*(?:<|!=)\s*%s|%s\s*(?:>|!=)\s*%s)$" % (x, szs, szs, x), c):
            raise TranslateError("loop condition not understood: %r" % c)
        if inc_of(mi.group(6)) != (x, 1) or start != 0:
            raise TranslateError("index loop does not visit every entry from the first one")
        elem = r"(?:localIndices_\s*\[\s*%s\s*\]\s*\.|(?:this\s*->\s*)?begin\s*\(\s*\)\s*\[\s*%s\s*\]\s*\.)" % (x, x)
        counters = {x: 0}
        ctr, post, fixed = x, 1, True
    else:
        x, elem, others = loop_var(head, r"(?:this\s*->\s*)?begin\s*\(\s*\)", r"(?:this\s*->\s*)?end\s*\(\s*\)", end_names)
        fixed = False
        for t in others:
            ik = inc_of(t)
            if not ik or (ctr is not None and ctr != ik[0]):
                raise TranslateError("increment not understood: %r" % t)
            ctr, post = ik[0], post + ik[1]
    val = None
    for q in inner:
        ik = inc_of(q)
        if ik:
            if fixed or (ctr is not None and ctr != ik[0]):
                raise TranslateError("loop body not understood: %r" % q[:40])
            ctr = ik[0]
            if val is None:
                pre += ik[1]
            else:
                post += ik[1]
            continue
        m = re.match(r"^%s\s*local\s*\(\s*\)\s*=\s*(.+)$" % elem, q)
        if m and val is None:
            val = m.group(1)
            continue
        raise TranslateError("loop body not understood: %r" % q[:50])
    if val is None:
        raise TranslateError("no assignment in the loop")
    val = re.sub(r"static_cast\s*<[^>]*>", "", val)
    m = re.search(r"\b(\w+)\s*\+\+", val)       # pair->local() = index++
    if m:
        if fixed or (ctr is not None and ctr != m.group(1)):
            raise TranslateError("assigned expression not understood")
        ctr, post = m.group(1), post + 1
        val = val.replace(m.group(0), " " + ctr + " ", 1)
    m = re.search(r"\+\+\s*(\w+)", val)          # pair->local() = ++index
    if m:
        if fixed or (ctr is not None and ctr != m.group(1)):
            raise TranslateError("assigned expression not understood")
        ctr, pre = m.group(1), pre + 1
        val = val.replace(m.group(0), " " + ctr + " ", 1)
    if ctr is None:
        raise TranslateError("no counter")
    if ctr not in counters:
        raise TranslateError("counter %s not declared" % ctr)
    val = re.sub(r"\b%s\b" % ctr, " (index+%d) " % pre if pre else " index ", val)
    return "some { start := %d, step := %d, value := %s }" % (counters[ctr], pre + post, canon_i(val, "index", grid(index=range(0, 6))))


NULLPTR = r"(?:0|nullptr|NULL|static_cast\s*<[^>]*>\s*\(\s*(?:0|nullptr)\s*\))"


def ctor_parts(src, nparams):
    """constructor GlobalLookupIndexSet<I>::GlobalLookupIndexSet(params) : inits { body } with this number of parameters"""
    for m in re.finditer(r"GlobalLookupIndexSet\s*<\s*\w+\s*>\s*::\s*GlobalLookupIndexSet\s*(?=\()", src):
        i = m.end()
        j = match_close(src, i, "(", ")")
        params = split_params(src[i + 1:j])
        if len(params) != nparams:
            continue
        ini, body, _ = ctor_inits_at(src, j + 1)
        return param_names(src[i + 1:j]), ini, body
    raise TranslateError("constructor with %d parameters not found" % nparams)


def table_ctor_of(src, nparams):
    """-> TableCtor.  `size` in `cells`/`sizeFinal` stands for the accumulator behind the max loop (or for the initial
    `size_` when there is no such loop).  The accumulator is `size_` itself or a local (`std::size_t maxLocal = 0; …
    maxLocal = std::max(maxLocal, …); size_ = maxLocal + 1`); `sym` holds what every variable is worth in terms of `size`
    (None = not expressible, e.g. `size_` while a local accumulates: it must be assigned before it is read)."""
    names, ini, body = ctor_parts(src, nparams)
    if "size_" not in ini:
        raise TranslateError("size_ not initialised")
    szname = names[1] if nparams == 2 else None

    def over_tsize(t):
        return re.sub(r"\b%s\b" % szname, " tsize ", t) if szname else t

    size_init_text = over_tsize(ini["size_"])
    sym = {"size_": "size"}
    local_init = {}

    def subst(t):
        def rep(mm):
            n = mm.group(0)
            if n in sym:
                if sym[n] is None:
                    raise TranslateError("%s is read before it holds the maximum" % n)
                return " (" + sym[n] + ") "
            if n in local_init:
                raise TranslateError("%s is read before it holds the maximum" % n)
            return n
        return re.sub(r"\b[A-Za-z_]\w*\b", rep, t)

    cells = None
    if "indices_" in ini:
        a = split_params(ini["indices_"])
        if len(a) != 2 or not re.match(r"^\s*%s\s*$" % NULLPTR, a[1]):
            raise TranslateError("indices_ initialiser not understood")
        c = re.sub(r"\bsize_\b", " size ", a[0])
        if szname:
            c = re.sub(r"\b%s\b" % szname, " size ", c)
        cells = c
    fold, slot = None, None
    end_names = set()
    BEGIN = r"indexSet_\s*\.\s*begin\s*\(\s*\)|indexset\s*\.\s*begin\s*\(\s*\)"
    END = r"indexSet_\s*\.\s*end\s*\(\s*\)|indexset\s*\.\s*end\s*\(\s*\)"
    for st in split_statements(body):
        m = re.match(r"^(?:const\s+)?[\w:<>]+\s+(\w+)\s*=\s*(?:%s)$" % END, st)
        if m:
            end_names.add(m.group(1))
            continue
        m = re.match(r"^(?:std\s*::\s*)?\w+\s+(\w+)\s*(?:=\s*([^=].*)|\{(.*)\}|\((.+)\))$", st)   # (not const: it accumulates)
        if m and nparams == 1 and fold is None and cells is None and slot is None and m.group(1) not in sym:
            t = next((g for g in m.groups()[1:] if g is not None), "0").strip() or "0"
            parse_i(t)                       # a literal expression: nothing else is in scope that the grammar knows
            local_init[m.group(1)] = t
            continue
        if st.startswith("for"):
            head, inner = for_parts(st)
            x, elem, others = loop_var(head, BEGIN, END, end_names)
            if others:
                raise TranslateError("loop increment not understood")
            inner = [q for q in inner if not re.match(r"^assert\s*\(", q)]
            if len(inner) != 1:
                raise TranslateError("loop body has %d statements" % len(inner))
            q = re.sub(r"%s\s*local\s*\(\s*\)(?:\s*\.\s*local\s*\(\s*\))?" % elem, " locNo ", inner[0])
            q = re.sub(r"static_cast\s*<[^>]*>", "", q)
            m1 = re.match(r"^(\w+)\s*=\s*(?:std\s*::\s*)?max\s*(?:<[^>]*>)?\s*\((.+)\)$", q)
            m2 = re.match(r"^indices_\s*\[(.+)\]\s*=\s*(.+)$", q)
            m3 = re.match(r"^if\s*\((.+?)(>|<)(.+)\)\s*(\w+)\s*=\s*(.+)$", q)   # if(LOC > acc) acc = LOC
            acc, args = None, None
            if m1:
                acc, args = m1.group(1), [z.strip() for z in split_params(m1.group(2))]
            elif m3:
                a, op, b, v, val = m3.group(1).strip(), m3.group(2), m3.group(3).strip(), m3.group(4), m3.group(5).strip()
                big, small = (a, b) if op == ">" else (b, a)
                if small == v and big == val:
                    acc, args = v, [v, val]
            if acc is not None and fold is None and cells is None and slot is None and sym["size_"] == "size":
                if len(args) != 2:
                    raise TranslateError("max with %d arguments" % len(args))
                if args[0] == acc:
                    other = args[1]
                elif args[1] == acc:
                    other = args[0]
                else:
                    raise TranslateError("max does not accumulate into %s" % acc)
                if acc in local_init:        # a local accumulates: size_ keeps its initial value until it is assigned
                    size_init_text = local_init.pop(acc)
                    sym[acc] = "size"
                    sym["size_"] = None
                elif acc != "size_":
                    raise TranslateError("max does not accumulate into size_ or a local")
                fold = canon_i(other, "locNo", grid(locNo=range(0, 5)))
            elif m2 and slot is None and cells is not None:
                tgt = m2.group(2).strip()
                if ";" in head:
                    okt = re.match(r"^(?:&\s*\(\s*\*\s*%s\s*\)|&\s*\*\s*%s|std\s*::\s*addressof\s*\(\s*\*\s*%s\s*\)|%s\s*\.\s*operator\s*->\s*\(\s*\))$" % (x, x, x, x), tgt)
                else:
                    okt = re.match(r"^(?:&\s*%s|std\s*::\s*addressof\s*\(\s*%s\s*\))$" % (x, x), tgt)
                if not okt:
                    raise TranslateError("stored pointer not understood: %r" % tgt)
                slot = canon_i(m2.group(1), "locNo", grid(locNo=range(0, 5)))
            else:
                raise TranslateError("loop statement not understood: %r" % q[:50])
            continue
        m = re.match(r"^indices_\s*\.\s*(?:resize|assign)\s*\((.+)\)$", st)
        if m and cells is None and slot is None:
            a = [z.strip() for z in split_params(m.group(1))]
            if len(a) == 2 and not re.match(r"^%s$" % NULLPTR, a[1]):
                raise TranslateError("cells are not initialised with null")
            if len(a) not in (1, 2):
                raise TranslateError("resize not understood")
            arg = a[0]
            if re.match(r"^\+\+\s*size_$", arg):
                sym["size_"] = "(%s+1)" % subst("size_")
                cells = sym["size_"]
            elif re.match(r"^size_\s*\+\+$", arg):
                cells = subst("size_")
                sym["size_"] = "(%s+1)" % cells
            else:
                cells = subst(arg)
            continue
        ik = inc_of(st)
        if ik and ik[0] in sym:
            if fold is None and nparams == 1:
                raise TranslateError("size_ changed before the maximum is known")
            sym[ik[0]] = "(%s+%d)" % (subst(ik[0]), ik[1])
            continue
        m = re.match(r"^(?:this\s*->\s*)?size_\s*=\s*([^=].*)$", st)
        if m and slot is None:
            if fold is None and nparams == 1:
                raise TranslateError("size_ changed before the maximum is known")
            sym["size_"] = "(%s)" % subst(re.sub(r"static_cast\s*<[^>]*>", "", m.group(1)))
            continue
        raise TranslateError("statement not understood: %r" % st[:50])
    if cells is None or slot is None:
        raise TranslateError("table is not allocated/filled")
    if sym["size_"] is None:
        raise TranslateError("size_ is never assigned the maximum")
    size_init = canon_i(size_init_text, "tsize" if szname else "0", grid(tsize=range(0, 5)))
    g = grid(size=range(0, 6))
    want_cells = "size" if nparams == 2 else "size+1"
    return "some { sizeInit := %s, foldMax := %s, cells := %s, sizeFinal := %s, slot := %s }" % (
        size_init, ("some " + fold) if fold else "none", canon_i(cells, want_cells, g), canon_i(sym["size_"], want_cells, g), slot)


# ---- round four: the loops of merge() as a little program ------------------------------------------------
def parse_stmt_list(s):
    """statement list with nested if/else -> [('simple', text) | ('if', cond, then_list, else_list)]"""
    pos = [0]

    def ws():
        while pos[0] < len(s) and s[pos[0]] == " ":
            pos[0] += 1

    def stmt():
        ws()
        m = re.match(r"if\s*\(", s[pos[0]:])
        if m:
            i = pos[0] + m.end() - 1
            j = match_close(s, i, "(", ")")
            cond = s[i + 1:j]
            pos[0] = j + 1
            t = stmt_or_block()
            ws()
            e = []
            if re.match(r"else\b", s[pos[0]:]):
                pos[0] += 4
                e = stmt_or_block()
            return [("if", cond, t, e)]
        if s[pos[0]] == "{":
            return stmt_or_block()
        k = s.index(";", pos[0])
        txt = s[pos[0]:k].strip()
        pos[0] = k + 1
        return [("simple", txt)] if txt else []

    def stmt_or_block():
        ws()
        if pos[0] < len(s) and s[pos[0]] == "{":
            e = match_close(s, pos[0], "{", "}")
            inner = parse_stmt_list(s[pos[0] + 1:e])
            pos[0] = e + 1
            return inner
        return stmt()

    out = []
    while True:
        ws()
        if pos[0] >= len(s):
            return out
        out += stmt()


# ---- the loop bodies of merge(): statement lists -> decision trees, compared SEMANTICALLY with the canonical trees ----
# A tree is ("acts", [MAct...]) | ("ite", condAST, then, else) | ("unknown",).  Reading rules (each one sound by itself):
#   * `continue` cuts the rest of the body off; statements behind an `if` are distributed into both branches;
#   * a boolean local (`const bool x = <pure condition>`, also `auto`, brace/paren initialiser) is bound to the AST of its
#     initialiser AT ITS DECLARATION and inlined where it is used (it cannot be assigned again: an assignment is an unknown
#     statement; shadowing an already bound name is unknown);
#   * `const auto& o = *old` / `auto a = *added` name the entry under an iterator: `o.` reads like `old->`; using such a
#     name after that iterator was erased is unknown;
#   * a condition written behind actions is hoisted in front of them only if it does not read an iterator that one of these
#     actions has moved (`push_back` moves nothing; bound locals were evaluated before);
#   * `c ? x : y` inside a statement = `if(c) stmt[x] else stmt[y]`;
#   * anything else is ("unknown",).
# The resulting tree is evaluated for every assignment of its atoms; if it performs the canonical tree's action list for
# every assignment (inside the property's quantifier, see CMPGRID) the canonical tree is emitted, otherwise the tree as written.
class UnknownStmt(Exception):
    pass


OLD_READS = {"g1", "oldDeleted", "cmp12", "cmp21"}
ADDED_READS = {"g2", "cmp12", "cmp21"}


def ast_vars(e):
    if e[0] in ("ivar", "bvar"):
        return {e[1]}
    res = set()
    for x in e[1:]:
        if isinstance(x, tuple):
            res |= ast_vars(x)
    return res


def top_level_ternary(t):
    """`PRE ( C ? A : B ) POST` (the innermost bracket around the first `?`, or the whole text) -> (PRE, C, A, B, POST) | None"""
    q = t.find("?")
    if q < 0:
        return None
    depth, i = 0, q - 1
    while i >= 0:
        if t[i] == ")":
            depth += 1
        elif t[i] == "(":
            if depth == 0:
                break
            depth -= 1
        i -= 1
    if i >= 0:
        j = match_close(t, i, "(", ")")
        pre, inner, post = t[:i + 1], t[i + 1:j], t[j:]
        q -= i + 1
    else:
        pre, inner, post = "", t, ""
    depth, nest = 0, 0
    for k in range(q + 1, len(inner)):
        ch = inner[k]
        if ch == "(":
            depth += 1
        elif ch == ")":
            depth -= 1
        elif ch == "?" and depth == 0:
            nest += 1
        elif ch == ":" and depth == 0 and inner[k - 1:k + 2].count(":") == 1:
            if nest == 0:
                return pre, inner[:q], inner[q + 1:k], inner[k + 1:], post
            nest -= 1
    return None


def strip_parens(t):
    """redundant parentheses around an iterator or a dereferenced iterator: `((*old))` -> `(*old)`, `(old).x` -> `old.x`"""
    prev = None
    while prev != t:
        prev = t
        t = re.sub(r"\(\s*\(\s*(\*?\s*\w+)\s*\)\s*\)", r"(\1)", t)
        t = re.sub(r"^\s*\(\s*(\w+)\s*\)\s*\.", r"\1.", t)
    return t.strip()


CANON_TREES = None


def canon_trees():
    global CANON_TREES
    if CANON_TREES is None:
        before, dele = parse_b(CANON_BEFORE), ("bvar", "oldDeleted")
        CANON_TREES = {
            (True, True): ("ite", dele, ("acts", [".eraseOld"]),
                           ("ite", before, ("acts", [".pushOld", ".eraseOld"]), ("acts", [".pushAdded", ".eraseAdded"]))),
            (True, False): ("ite", ("not", dele), ("acts", [".pushOld", ".eraseOld"]), ("acts", [".eraseOld"])),
            (False, True): ("acts", [".pushAdded", ".eraseAdded"]),
        }
    return CANON_TREES


def tree_grid(need_old, need_added):
    """assignments of the atoms a loop body may read: only entries under iterators the loop guard proved valid.  Equal keys
    are outside the quantifier only between two LIVE entries: a DELETED old entry may meet its re-added key."""
    if need_old and need_added:
        g = [dict(e, oldDeleted=False) for e in CMPGRID]
        g += [dict(e, oldDeleted=True) for e in grid(g1=range(0, 3), g2=range(0, 3), cmp12=(False, True), cmp21=(False, True))
              if not (e["cmp12"] and e["cmp21"])]
        return g
    if need_old:
        return grid(g1=range(0, 3), oldDeleted=(False, True))
    if need_added:
        return grid(g2=range(0, 3))
    return [dict()]


def run_tree(t, env):
    while t[0] == "ite":
        t = t[2] if ev(t[1], env) else t[3]
    if t[0] == "unknown":
        raise UnknownStmt()
    return tuple(t[1])


def has_unknown(t):
    return t[0] == "unknown" or (t[0] == "ite" and (has_unknown(t[2]) or has_unknown(t[3])))


def tree_has_num(t):
    return t[0] == "ite" and (has_num(t[1]) or tree_has_num(t[2]) or tree_has_num(t[3]))


def same_tree(t, c, g):
    if has_unknown(t) or tree_has_num(t):      # (the grid has the global indices 0..2 only: no literals)
        return False
    try:
        return all(run_tree(t, env) == run_tree(c, env) for env in g)
    except (KeyError, ZeroDivisionError, UnknownStmt):
        return False


def lean_cond(e):
    vs = ast_vars(e)
    if vs and vs <= {"g1", "g2", "cmp12", "cmp21"} and not has_num(e) and same_on_grid(e, parse_b(CANON_BEFORE), CMPGRID):
        return lean(parse_b(CANON_BEFORE))
    if vs == {"oldDeleted"}:
        g = grid(oldDeleted=(False, True))
        if same_on_grid(e, ("bvar", "oldDeleted"), g):
            return "(.var .oldDeleted)"
        if same_on_grid(e, ("not", ("bvar", "oldDeleted")), g):
            return "(.not (.var .oldDeleted))"
    return lean(e)


def lean_tree(t):
    if t[0] == "unknown":
        return ".unknown"
    if t[0] == "acts":
        return "(.acts [%s])" % ", ".join(t[1])
    return "(.ite %s %s %s)" % (lean_cond(t[1]), lean_tree(t[2]), lean_tree(t[3]))


def merge_names(block_statements):
    """declarations in front of the loops -> names of the two iterators, their ends and the temporary list; rest"""
    names, rest = {}, []
    for n, st in enumerate(block_statements):
        d = re.match(r"^(?:const\s+)?(?:auto|typename\s+[\w:<>, ]+|[\w:<>, ]+?)\s+(\w+)\s*(?:=\s*|\{\s*|\(\s*)(localIndices_|newIndices_)\s*\.\s*(begin|end)\s*\(\s*\)\s*[\}\)]?$", st)
        if d:
            names[(d.group(2), d.group(3))] = d.group(1)
            continue
        d = re.match(r"^ArrayList\s*<[^>]*>\s+(\w+)(?:\s*\{\s*\}|\s*=\s*ArrayList\s*<[^>]*>\s*(?:\(\s*\)|\{\s*\}))?$", st)
        if d:
            names["temp"] = d.group(1)
            continue
        return names, block_statements[n:]
    return names, rest


def merge_parts(mb):
    """the top-level shape of merge() -> (c1, B1, c2, B2) with the meaning `if(c1){B1} else if(c2){B2}`.  Also read:
    the guard-clause spellings `if(c1){B1 return;} if(c2){B2}` and `if(c1){B1 return;} if(c) return; B2` (c2 = !c)."""
    sts = split_statements(mb)

    def if_parts(st):
        m = re.match(r"^(?:else\s+)?if\s*\(", st)
        if not m:
            raise TranslateError("merge(): if expected at %r" % st[:30])
        i = m.end() - 1
        j = match_close(st, i, "(", ")")
        rest = st[j + 1:].strip()
        if rest.startswith("{"):
            e = match_close(rest, 0, "{", "}")
            if rest[e + 1:].strip():
                raise TranslateError("merge(): text behind a block")
            rest = rest[1:e]
        return st[i + 1:j], rest.strip()

    def join(xs):
        return " ".join(x if x.endswith("}") else x + ";" for x in xs)

    if len(sts) < 2 or not sts[0].startswith("if"):
        raise TranslateError("merge() does not start with if")
    c1, b1 = if_parts(sts[0])
    b1s = split_statements(b1)
    returns = bool(b1s) and b1s[-1] == "return"
    if returns:
        b1s = b1s[:-1]
    if any(re.search(r"\breturn\b", x) for x in b1s):
        raise TranslateError("merge(): return inside the first branch")
    b1 = join(b1s)
    if re.match(r"^else\s+if\b", sts[1]):
        if len(sts) != 2:
            raise TranslateError("statements behind the else-if block")
        c2, b2 = if_parts(sts[1])
        return c1, b1, c2, b2
    if sts[1].startswith("else"):
        raise TranslateError("merge(): else-if not found")
    if not returns:
        raise TranslateError("merge(): the first branch falls through into the second")
    c, b = if_parts(sts[1])
    if b == "return" and len(sts) > 2:
        rest = sts[2:]
        if len(rest) == 1 and rest[0].startswith("{") and match_close(rest[0], 0, "{", "}") == len(rest[0]) - 1:
            return c1, b1, "!(" + c + ")", rest[0][1:-1]      # the remainder wrapped in a block of its own
        return c1, b1, "!(" + c + ")", join(rest)
    if len(sts) == 2 and b != "return":
        return c1, b1, c, b
    raise TranslateError("merge(): else-if not found")


def merge_prog_of(mb):
    """the `else if` block of merge() -> Lean list of MLoop"""
    _, _, _, b2 = merge_parts(mb)
    names, sts = merge_names(split_statements(b2))
    try:
        OLD, ADDED = names[("localIndices_", "begin")], names[("newIndices_", "begin")]
        TEMP = names["temp"]
    except KeyError as ex:
        raise TranslateError("declaration not found: %s" % (ex,))
    if len({OLD, ADDED, TEMP}) != 3:
        raise TranslateError("names are not distinct")
    # the end of a list: the named end iterator or `list.end()` itself
    EO = r"(?:%s)" % "|".join(filter(None, [names.get(("localIndices_", "end")), r"localIndices_\s*\.\s*end\s*\(\s*\)"]))
    EA = r"(?:%s)" % "|".join(filter(None, [names.get(("newIndices_", "end")), r"newIndices_\s*\.\s*end\s*\(\s*\)"]))
    reserved = {OLD, ADDED, TEMP, "localIndices_", "newIndices_"} | {v for v in names.values()}
    OBJ = {"old": r"(?:\b%s\b|\(\s*\*\s*%s\s*\))" % (OLD, OLD), "added": r"(?:\b%s\b|\(\s*\*\s*%s\s*\))" % (ADDED, ADDED)}
    STATE = r"%s\s*(?:->|\.)\s*local\s*\(\s*\)\s*\.\s*state\s*\(\s*\)" % OBJ["old"]

    def guard_atom(c):
        c = c.strip()
        for (x, end, which) in ((OLD, EO, "old"), (ADDED, EA, "added")):
            if re.match(r"^(?:%s\s*!=\s*%s|%s\s*!=\s*%s|!\s*\(\s*%s\s*==\s*%s\s*\)|!\s*\(\s*%s\s*==\s*%s\s*\))$"
                        % (x, end, end, x, x, end, end, x), c):
                return which
        raise TranslateError("loop condition not understood: %r" % c)

    def subst_alias(t, aliases, dirty):
        for name, which in aliases.items():
            if re.search(r"\b%s\b" % name, t):
                if which in dirty:
                    raise UnknownStmt()
                it = OLD if which == "old" else ADDED
                t = re.sub(r"\b%s\s*\." % name, it + "->", t)
                t = re.sub(r"\b%s\b(?!\s*->)" % name, "*" + it, t)
        return t

    def cond_ast(t, locs, aliases, dirty):
        t = subst_alias(t, aliases, dirty)
        t = re.sub(r"%s\s*==\s*DELETED|DELETED\s*==\s*%s|%s\s*!=\s*VALID|VALID\s*!=\s*%s" % ((STATE,) * 4), " oldDeleted ", t)
        t = re.sub(r"%s\s*!=\s*DELETED|DELETED\s*!=\s*%s|%s\s*==\s*VALID|VALID\s*==\s*%s" % ((STATE,) * 4), " (!oldDeleted) ", t)
        t = norm_cmp(t, OBJ["old"], OBJ["added"])
        direct = ast_vars(parse_b(t, {n: ("tt",) for n in locs}))
        if ("old" in dirty and direct & OLD_READS) or ("added" in dirty and direct & ADDED_READS):
            raise UnknownStmt()      # reads an entry behind an iterator that was moved on this path
        return parse_b(t, locs)

    def simple(t, aliases, dirty):
        t = strip_parens(subst_alias(t, aliases, dirty))
        for (rx, act) in ((r"^%s\s*\.\s*(?:push_back|emplace_back)\s*\(\s*\*\s*%s\s*\)$" % (TEMP, OLD), ".pushOld"),
                          (r"^%s\s*\.\s*(?:push_back|emplace_back)\s*\(\s*\*\s*%s\s*\)$" % (TEMP, ADDED), ".pushAdded"),
                          (r"^%s\s*\.\s*eraseToHere\s*\(\s*\)$" % OLD, ".eraseOld"),
                          (r"^%s\s*\.\s*eraseToHere\s*\(\s*\)$" % ADDED, ".eraseAdded")):
            if re.match(rx, t):
                return act
        return None

    BOOL_DECL = re.compile(r"^(?:const\s+)?(?:bool|auto)\s+(?:const\s+)?(\w+)\s*(?:=\s*(.+)|\{(.+)\}|\((.+)\))$")
    ALIAS_DECL = re.compile(r"^(?:const\s+)?(?:auto|typename\s+[\w:<>, ]+|[\w:<>, ]+?)\s*(?:const\s*)?&{0,2}\s*(\w+)\s*(?:=\s*|\{\s*|\(\s*)\*\s*(\w+)\s*[\}\)]?$")

    def build(sts, acts, locs, aliases, dirty):
        acts, dirty = list(acts), set(dirty)
        try:
            for n, x in enumerate(sts):
                if x[0] == "if":
                    c = cond_ast(x[1], locs, aliases, dirty)
                    rest = sts[n + 1:]
                    return ("ite", c, build(x[2] + rest, acts, locs, aliases, dirty), build(x[3] + rest, acts, locs, aliases, dirty))
                t = x[1]
                if t == "continue":
                    break
                tern = top_level_ternary(t)
                if tern:
                    pre, c, a, b, post = tern
                    return build([("if", c, [("simple", pre + a + post)], [("simple", pre + b + post)])] + sts[n + 1:],
                                 acts, locs, aliases, dirty)
                a = simple(t, aliases, dirty)
                if a is not None:
                    acts.append(a)
                    if a == ".eraseOld":
                        dirty.add("old")
                    elif a == ".eraseAdded":
                        dirty.add("added")
                    continue
                d = ALIAS_DECL.match(t)
                if d and d.group(2) in (OLD, ADDED):
                    if d.group(1) in reserved or d.group(1) in locs or d.group(1) in aliases:
                        raise UnknownStmt()
                    which = "old" if d.group(2) == OLD else "added"
                    if which in dirty:
                        raise UnknownStmt()
                    aliases = dict(aliases, **{d.group(1): which})
                    continue
                d = BOOL_DECL.match(t)
                if d:
                    if d.group(1) in reserved or d.group(1) in locs or d.group(1) in aliases:
                        raise UnknownStmt()  # shadowing: the reading would confuse two variables
                    init = next(g for g in d.groups()[1:] if g is not None)
                    locs = dict(locs, **{d.group(1): cond_ast(init, locs, aliases, dirty)})
                    continue
                raise UnknownStmt()
        except (UnknownStmt, TranslateError):
            return ("unknown",)
        return ("acts", acts)

    loops = []
    done = False
    for st in sts:
        if done:
            raise TranslateError("statement behind the final assignment")
        head = None
        if st.startswith("while"):
            i = st.index("(")
            j = match_close(st, i, "(", ")")
            head = st[i + 1:j]
        elif st.startswith("for"):
            i = st.index("(")
            j = match_close(st, i, "(", ")")
            parts = st[i + 1:j].split(";")
            if len(parts) != 3 or parts[0].strip() or parts[2].strip():
                raise TranslateError("for loop with initialiser or increment: %r" % st[i + 1:j])
            head = parts[1]
        if head is not None:
            need = {guard_atom(c) for c in head.split("&&")}
            need_old, need_added = "old" in need, "added" in need
            tree = build(parse_stmt_list(st[j + 1:].strip()), [], {}, {}, set())
            canon = canon_trees().get((need_old, need_added))
            if canon is not None and same_tree(tree, canon, tree_grid(need_old, need_added)):
                tree = canon
            loops.append("{ needOld := %s, needAdded := %s, body := %s }" % (lean_bool(need_old), lean_bool(need_added), lean_tree(tree)))
            continue
        if re.match(r"^localIndices_\s*=\s*(?:std\s*::\s*move\s*\(\s*)?%s\s*\)?$" % TEMP, st):
            done = True
            continue
        raise TranslateError("statement not understood: %r" % st[:50])
    if not done:
        raise TranslateError("the merged list is not assigned to localIndices_")
    return "[" + ",\n   ".join(loops) + "]"


def merge_copy_branch_of(mb):
    """the statements of the first branch of merge() (`localIndices_.size()==0`) -> Lean list of CopyAct"""
    _, b1, _, _ = merge_parts(mb)
    res = []
    for st in split_statements(b1):
        if re.match(r"^localIndices_\s*=\s*newIndices_$", st):
            res.append(".assignNewToLocal")
        elif re.match(r"^newIndices_\s*(?:\.\s*clear\s*\(\s*\)|=\s*ArrayList\s*<[^>]*>\s*(?:\(\s*\)|\{\s*\}))$", st):
            res.append(".clearNew")
        elif re.match(r"^(?:localIndices_\s*\.\s*swap\s*\(\s*newIndices_\s*\)|newIndices_\s*\.\s*swap\s*\(\s*localIndices_\s*\)|(?:std\s*::\s*)?swap\s*\(\s*(?:localIndices_\s*,\s*newIndices_|newIndices_\s*,\s*localIndices_)\s*\))$", st):
            res.append(".assignNewToLocal, .clearNew")
        else:
            res.append(".unknown")
    return "[" + ", ".join(res) + "]"


# ---- round four: constructors / assignment / setState of the local index classes -------------------------
MEMBERS = {"localIndex_": ".loc", "attribute_": ".attr", "public_": ".pub", "state_": ".state"}


def init_value(expr, params):
    x = expr.strip()
    while True:
        m = re.match(r"^(?:static_cast\s*<[^>]*>|char|bool|std\s*::\s*size_t|size_t)\s*\((.*)\)$", x)
        if not m:
            break
        x = m.group(1).strip()
    if x in params:
        return "(.param %d)" % params.index(x)
    table = {"": ".zero", "0": ".zero", "false": ".falseV", "true": ".trueV", "VALID": ".valid", "DELETED": ".deleted"}
    if x in table:
        return table[x]
    raise TranslateError("initial value not understood: %r" % expr)


def ctors_of(src, head_rx):
    """all constructors `HEAD(params) : inits {}` -> {nparams: Lean LIdxCtor}"""
    res = {}
    for m in re.finditer(head_rx + r"\s*\(([^()]*)\)(?=\s*(?::[^:]|\{))", src):
        params = param_names(m.group(1)) if m.group(1).strip() else []
        if re.match(r"\s*\{", src[m.end():]):      # no member initialisers at all
            b = src.index("{", m.end())
            ini, body = {}, src[b + 1:match_close(src, b, "{", "}")]
        else:
            ini, body, _ = ctor_inits_at(src, m.end())
        vals = {"localIndex_": ".zero", "attribute_": ".zero", "public_": ".falseV", "state_": None}
        for name, text in ini.items():
            if name not in MEMBERS:
                raise TranslateError("initialiser not understood: %r" % name)
            vals[name] = init_value(text, params)
        # assignments in the body overwrite the initialised value (values are parameters or literals only, so neither the
        # order of the initialisers nor of the assignments to different members matters)
        for st in split_statements(body):
            a = re.match(r"^(?:this\s*->\s*)?(\w+)\s*=\s*(.+)$", st)
            if not a or a.group(1) not in MEMBERS:
                raise TranslateError("constructor statement not understood: %r" % st[:40])
            vals[a.group(1)] = init_value(a.group(2), params)
        if vals["state_"] is None:
            raise TranslateError("state_ is not initialised")
        res[len(params)] = "some { loc := %s, attr := %s, pub := %s, state := %s }" % (
            vals["localIndex_"], vals["attribute_"], vals["public_"], vals["state_"])
    return res


def writes_of(src, sig_rx):
    bs = bodies(src, sig_rx)
    if len(bs) != 1:
        raise TranslateError("%d definitions" % len(bs))
    params = param_names(bs[0][0])
    res = []
    for st in split_statements(bs[0][2]):
        if re.match(r"^return\s+\*\s*this$", st):
            continue
        m = re.match(r"^(?:this\s*->\s*)?(\w+)\s*=\s*(.+)$", st)
        if not m or m.group(1) not in MEMBERS:
            raise TranslateError("statement not understood: %r" % st[:40])
        res.append("(%s, %s)" % (MEMBERS[m.group(1)], init_value(m.group(2), params)))
    return "[" + ", ".join(res) + "]"


def state_enum_of(lsrc):
    m = re.search(r"enum\s+LocalIndexState\s*\{([^}]*)\}", lsrc)
    if not m:
        raise TranslateError("enum LocalIndexState not found")
    names = [x.strip() for x in m.group(1).split(",") if x.strip()]
    if any("=" in x for x in names):
        raise TranslateError("enumerators with explicit values")
    return "[" + ", ".join('"%s"' % x for x in names) + "]"


def ctor_inits_at(src, k):
    """src[k:] = ` : a(x), b{y} { body }` -> ({member: initialiser text}, body, index behind the body); member
    initialisers may use parentheses or braces"""
    m = re.match(r"\s*:", src[k:])
    if not m:
        raise TranslateError("no member initialisers")
    k += m.end()
    ini = {}
    while True:
        m = re.match(r"\s*(\w+)\s*(?=[\(\{])", src[k:])
        if not m:
            raise TranslateError("member initialiser not understood: %r" % src[k:k + 30])
        k += m.end()
        e = match_close(src, k, src[k], ")" if src[k] == "(" else "}")
        ini[m.group(1)] = src[k + 1:e].strip()
        k = e + 1
        m = re.match(r"\s*,", src[k:])
        if m:
            k += m.end()
            continue
        m = re.match(r"\s*\{", src[k:])
        if not m:
            raise TranslateError("constructor body not found")
        b = k + m.end() - 1
        e = match_close(src, b, "{", "}")
        return ini, src[b + 1:e], e + 1


def set_ctor_of(src):
    """ParallelIndexSet<TG,TL,N>::ParallelIndexSet() : state_(..), seqNo_(..), deletedEntries_(..) {} -> Lean SetCtor"""
    m = re.search(r"ParallelIndexSet\s*<[^>]*>\s*::\s*ParallelIndexSet\s*\(\s*\)(?=\s*:)", src)
    if not m:
        raise TranslateError("default constructor not found")
    vals, body, _ = ctor_inits_at(src, m.end())
    for st in split_statements(body):        # assignments in the body overwrite the initialised value (literals only)
        a = re.match(r"^(?:this\s*->\s*)?(state_|seqNo_|deletedEntries_)\s*=\s*(\w+)$", st)
        if not a:
            raise TranslateError("constructor statement not understood: %r" % st[:40])
        vals[a.group(1)] = a.group(2)
    extra = set(vals) - {"state_", "seqNo_", "deletedEntries_", "localIndices_", "newIndices_"}
    if extra or vals.get("localIndices_", "") or vals.get("newIndices_", ""):
        raise TranslateError("unexpected initialisers")
    st = {"GROUND": ".ground", "RESIZE": ".resize"}.get(vals.get("state_"))
    if st is None:
        raise TranslateError("state_ initialiser not understood")
    if not re.match(r"^\d+$", vals.get("seqNo_", "")):
        raise TranslateError("seqNo_ initialiser not understood")
    dl = {"": "false", "false": "false", "true": "true"}.get(vals.get("deletedEntries_", ""))
    if dl is None:
        raise TranslateError("deletedEntries_ initialiser not understood")
    return "some { state := %s, seq := %d, del := %s }" % (st, int(vals["seqNo_"]), dl)


# ------------------------------------------------------------------------------------------------
def translate(repo):
    try:
        src = prepare(open(os.path.join(repo, "dune/common/parallel/indexset.hh")).read())
        psrc = prepare(open(os.path.join(repo, "dune/common/parallel/plocalindex.hh")).read())
        lsrc = prepare(open(os.path.join(repo, "dune/common/parallel/localindex.hh")).read())
    except OSError as ex:
        raise TranslateError("cannot read the index set headers: %s" % ex)
    if "class ParallelIndexSet" not in src:
        raise TranslateError("class ParallelIndexSet not found in indexset.hh")
    o = Out()
    PIS = r"ParallelIndexSet\s*<[^>]*>\s*::\s*"

    def method(name, nparams=None, const=None, pick=0):
        res = []
        for (params, is_const, body) in bodies(src, PIS + name + r"\s*(?=\()"):
            n = len(split_params(params))
            if nparams is not None and n != nparams:
                continue
            if const is not None and is_const != const:
                continue
            res.append(body)
        if len(res) <= pick:
            raise TranslateError("definition of %s not found" % name)
        return res[pick]

    def iter_mark():
        cls = struct_body(src, r"class iterator\s*:")
        bs = bodies(cls, r"\bmarkAsDeleted\s*(?=\()")
        if not bs:
            raise TranslateError("iterator::markAsDeleted not found")
        return bs[0][2]

    ok = "{ inGround := %s, inResize := %s, exc := \"InvalidIndexSetState\", first := true }"
    CG = ok % ("false", "true")   # operation wants GROUND
    CR = ok % ("true", "false")   # operation wants RESIZE
    o.piece("chk_beginResize", "Check", lambda: lean_check(check_of(method("beginResize", 0))), CG)
    o.piece("chk_add1", "Check", lambda: lean_check(check_of(method("add", 1))), CR)
    o.piece("chk_add2", "Check", lambda: lean_check(check_of(method("add", 2))), CR)
    o.piece("chk_markAsDeleted", "Check", lambda: lean_check(check_of(method("markAsDeleted", 1))), CR)
    o.piece("chk_iterMarkAsDeleted", "Check", lambda: lean_check(check_of(iter_mark())), CR)
    o.piece("chk_endResize", "Check", lambda: lean_check(check_of(method("endResize", 0))), CR)
    o.piece("chk_renumberLocal", "Check", lambda: lean_check(check_of(method("renumberLocal", 0))), CG)

    o.piece("eff_beginResize", "Effects", lambda: effects_of(method("beginResize", 0)),
            "{ state := some .resize, del := some false, seqAdd := 0 }")
    o.piece("eff_add1", "Effects", lambda: effects_of(method("add", 1)), "{ state := none, del := none, seqAdd := 0 }")
    o.piece("eff_add2", "Effects", lambda: effects_of(method("add", 2)), "{ state := none, del := none, seqAdd := 0 }")
    o.piece("eff_markAsDeleted", "Effects", lambda: effects_of(method("markAsDeleted", 1)),
            "{ state := none, del := some true, seqAdd := 0 }")
    o.piece("eff_endResize", "Effects", lambda: effects_of(method("endResize", 0)),
            "{ state := some .ground, del := none, seqAdd := 1 }")
    o.piece("eff_renumberLocal", "Effects", lambda: effects_of(method("renumberLocal", 0)),
            "{ state := none, del := none, seqAdd := 0 }")

    # ---- comparisons
    def sort_functor():
        sb = struct_body(src, r"struct IndexSetSortFunctor\b")
        bs = bodies(sb, r"operator\s*\(\s*\)\s*(?=\()")
        if not bs:
            raise TranslateError("IndexSetSortFunctor::operator() not found")
        n = param_names(bs[0][0])
        return canon_cmp(norm_cmp(return_expr(bs[0][2]), n[0], n[1]))

    def merge_cmp():
        mb = method("merge", 0)
        m = re.search(r"if\s*\(\s*(old\s*->\s*global\s*\(\s*\).*?)\)\s*\{\s*tempPairs", mb)
        if not m:
            raise TranslateError("comparison of old and added not found in merge()")
        return canon_cmp(norm_cmp(m.group(1), "old", "added"))

    def plocal_cmp():
        sb = struct_body(psrc, r"struct LocalIndexComparator\s*<\s*ParallelLocalIndex\s*<[^>]*>\s*>")
        bs = bodies(sb, r"\bcompare\s*(?=\()")
        n = param_names(bs[0][0])
        t = return_expr(bs[0][2])
        t = re.sub(r"\b%s\s*\.\s*attribute\s*\(\s*\)" % n[0], " a1 ", t)
        t = re.sub(r"\b%s\s*\.\s*attribute\s*\(\s*\)" % n[1], " a2 ", t)
        return canon_b(t, "a1<a2", grid(a1=range(0, 3), a2=range(0, 3)))

    def generic_cmp():
        sb = struct_body(src, r"struct LocalIndexComparator\s*\{")
        bs = bodies(sb, r"\bcompare\s*(?=\()")
        return canon_b(return_expr(bs[0][2]), "false", [dict()])

    CANON_PROG = ("[{ needOld := true, needAdded := true, body := (.ite (.var .oldDeleted) (.acts [.eraseOld]) (.ite %s (.acts [.pushOld, .eraseOld]) (.acts [.pushAdded, .eraseAdded]))) },\n   "
                  "{ needOld := true, needAdded := false, body := (.ite (.not (.var .oldDeleted)) (.acts [.pushOld, .eraseOld]) (.acts [.eraseOld])) },\n   "
                  "{ needOld := false, needAdded := true, body := (.acts [.pushAdded, .eraseAdded]) }]" % lean(parse_b(CANON_BEFORE)))
    try:
        prog_canonical = merge_prog_of(method("merge", 0)) == CANON_PROG
    except (TranslateError, IndexError, KeyError, AttributeError, ValueError, StopIteration):
        prog_canonical = False

    def implied(fn, canonical):
        """round-two pieces that are parts of merge()'s loop bodies (the comparison, the two DELETED tests): when the whole
        program was read and is equivalent to the canonical program, the piece is what the canonical program contains
        (wherever and however the source spells it); otherwise the piece's own textual reader decides as before"""
        return (lambda: canonical) if prog_canonical else fn

    o.piece("sortFunctor", "BE", sort_functor, lean(parse_b(CANON_BEFORE)))
    o.piece("mergeTakesOld", "BE", implied(merge_cmp, lean(parse_b(CANON_BEFORE))), lean(parse_b(CANON_BEFORE)))
    o.piece("plocalCompare", "BE", plocal_cmp, lean(parse_b("a1<a2")))
    o.piece("genericCompare", "BE", generic_cmp, ".ff")

    # ---- merge(): branch conditions and DELETED tests
    MG = grid(nOld=range(0, 3), nNew=range(0, 3), **{"del": (False, True)})

    def norm_merge(t):
        t = re.sub(r"localIndices_\s*\.\s*size\s*\(\s*\)", " nOld ", t)
        t = re.sub(r"newIndices_\s*\.\s*size\s*\(\s*\)", " nNew ", t)
        t = re.sub(r"\bdeletedEntries_\b", " del ", t)
        return t

    def merge_conds():
        c1, _, c2, _ = merge_parts(method("merge", 0))
        return c1, c2

    def deleted_tests():
        mb = method("merge", 0)
        ts = re.findall(r"if\s*\(\s*(old\s*->\s*local\s*\(\s*\)\s*\.\s*state\s*\(\s*\)\s*(?:==|!=)\s*DELETED)\s*\)", mb)
        if len(ts) != 2:
            raise TranslateError("%d DELETED tests in merge()" % len(ts))
        res = []
        for t in ts:
            neg = "!=" in t
            res.append("(.not (.var .oldDeleted))" if neg else "(.var .oldDeleted)")
        return res

    o.piece("mergeCopies", "BE", lambda: canon_b(norm_merge(merge_conds()[0]), "nOld==0", MG), lean(parse_b("nOld==0")))
    o.piece("mergeLoops", "BE", lambda: canon_b(norm_merge(merge_conds()[1]), "nNew>0 || del", MG),
            lean(parse_b("nNew>0 || del")))
    o.piece("mergeLoop1Drops", "BE", implied(lambda: deleted_tests()[0], "(.var .oldDeleted)"), "(.var .oldDeleted)")
    o.piece("mergeLoop2Keeps", "BE", implied(lambda: deleted_tests()[1], "(.not (.var .oldDeleted))"), "(.not (.var .oldDeleted))")

    # ---- the five searches
    o.piece("search_atConst", "Search", lambda: lean_search(search_of(method("at", 1, const=True))), canonical_search("at"))
    o.piece("search_getConst", "Search", lambda: lean_search(search_of(method(r"operator\s*\[\s*\]", 1, const=True))),
            canonical_search("get"))
    o.piece("search_at", "Search", lambda: lean_search(search_of(method("at", 1, const=False))), canonical_search("at"))
    o.piece("search_exists", "Search", lambda: lean_search(search_of(method("exists", 1, const=True))),
            canonical_search("exists"))
    o.piece("search_get", "Search", lambda: lean_search(search_of(method(r"operator\s*\[\s*\]", 1, const=False))),
            canonical_search("get"))


    # ---- round four: statement order of endResize(), the loop of renumberLocal(), the GlobalLookupIndexSet constructors.
    # These pieces are LOUD: when the source leaves the grammar, `.unknown` / `none` is emitted and the theorem about the
    # piece no longer compiles (broken obligation => the run searches for a failing input).
    o.loud("endResizeCalls", "List Call", lambda: calls_of_endresize(method("endResize", 0)), "[.sortNew, .merge]", "[.unknown]")
    PLI = r"ParallelLocalIndex\s*<\s*\w+\s*>\s*::\s*"
    VALIDC = "some { loc := %s, attr := %s, pub := %s, state := .valid }"
    o.loud("stateEnum", "List String", lambda: state_enum_of(lsrc), '["VALID", "DELETED"]', "[]")
    o.loud("plocalCtor3", "Option LIdxCtor", lambda: ctors_of(psrc, PLI + "ParallelLocalIndex")[3],
           VALIDC % ("(.param 0)", "(.param 1)", "(.param 2)"), "none")
    o.loud("plocalCtor2", "Option LIdxCtor", lambda: ctors_of(psrc, PLI + "ParallelLocalIndex")[2],
           VALIDC % (".zero", "(.param 0)", "(.param 1)"), "none")
    o.loud("plocalCtor0", "Option LIdxCtor", lambda: ctors_of(psrc, PLI + "ParallelLocalIndex")[0],
           VALIDC % (".zero", ".zero", ".falseV"), "none")
    o.loud("plocalAssign", "List (Member × Init)", lambda: writes_of(psrc, PLI + r"operator\s*=\s*(?=\()"),
           "[(.loc, (.param 0))]", "[]")
    o.loud("plocalSetState", "List (Member × Init)", lambda: writes_of(psrc, PLI + r"setState\s*(?=\()"),
           "[(.state, (.param 0))]", "[]")
    o.loud("lindexCtor1", "Option LIdxCtor", lambda: ctors_of(lsrc, r"\bLocalIndex")[1],
           VALIDC % ("(.param 0)", ".zero", ".falseV"), "none")
    o.loud("lindexCtor0", "Option LIdxCtor", lambda: ctors_of(lsrc, r"\bLocalIndex")[0],
           VALIDC % (".zero", ".zero", ".falseV"), "none")
    o.loud("lindexAssign", "List (Member × Init)", lambda: writes_of(lsrc, r"\bLocalIndex\s*::\s*operator\s*=\s*(?=\()"),
           "[(.loc, (.param 0))]", "[]")
    o.loud("lindexSetState", "List (Member × Init)", lambda: writes_of(lsrc, r"\bLocalIndex\s*::\s*setState\s*(?=\()"),
           "[(.state, (.param 0))]", "[]")
    o.loud("mergeProg", "List MLoop", lambda: merge_prog_of(method("merge", 0)), CANON_PROG,
           "[{ needOld := false, needAdded := false, body := .unknown }]")
    o.loud("setCtor", "Option SetCtor", lambda: set_ctor_of(src), "some { state := .ground, seq := 0, del := false }", "none")
    o.loud("mergeCopyBranch", "List CopyAct", lambda: merge_copy_branch_of(method("merge", 0)),
           "[.assignNewToLocal, .clearNew]", "[.unknown]")
    o.loud("renumber", "Option Renum", lambda: renumber_of(method("renumberLocal", 0)),
           "some { start := 0, step := 1, value := (.var .index) }", "none")
    o.loud("tableAuto", "Option TableCtor", lambda: table_ctor_of(src, 1),
           "some { sizeInit := (.num 0), foldMax := some (.var .locNo), cells := (.add (.var .size) (.num 1)), "
           "sizeFinal := (.add (.var .size) (.num 1)), slot := (.var .locNo) }", "none")
    o.loud("tableSized", "Option TableCtor", lambda: table_ctor_of(src, 2),
           "some { sizeInit := (.var .tsize), foldMax := none, cells := (.var .size), sizeFinal := (.var .size), slot := (.var .locNo) }",
           "none")

    hdr = ("/- GENERATED by tools/translators/tr_c03.py from dune/common/parallel/indexset.hh and plocalindex.hh — do not edit.\n"
           "   Pieces that agree with their canonical form on the translator's grid are emitted in canonical form. -/\n"
           "import DuneVerif.Model.C03Expr\n\nnamespace DV.C03.Gen\nopen DV.C03 DV.C03.Src\n\n")
    body = "\n".join(o.lines)
    tail = ("\n/-- pieces the translator could not locate or parse (emitted in canonical form; their tie to the source rests on\n"
            "the correspondence run alone) -/\ndef unparsed : List String :=\n  [%s]\n\n"
            "/-- pieces that were read and differ from the canonical form -/\ndef rewritten : List String :=\n  [%s]\n\n"
            "end DV.C03.Gen\n") % (", ".join('"%s"' % u for u in o.unparsed), ", ".join('"%s"' % u for u in o.rewritten))
    return [("DuneVerif/Gen/C03.lean", hdr + body + tail)]


if __name__ == "__main__":
    import sys
    for path, content in translate(sys.argv[1] if len(sys.argv) > 1 else "/repo"):
        print(content)
