"""Translator for C13: the wire format of an IndicesSyncer message.

The protocol model (Model/C13.lean) abstracts from the bytes: a message is a list of items.  What the code does with
bytes is straight-line data: `calculateMessageSizes` reserves, `packAndSend` writes and `recvAndUnpack` reads a
sequence of typed fields - once per message (header), once per published index, once per (process, attribute) pair.
This translator re-reads the three functions of dune/common/parallel/indicessyncer.hh on every run and emits the three
field-type sequences as lean/DuneVerif/Gen/C13.lean.  Props/C13.lean proves about the *generated* definitions that the
receiver reads exactly the fields the sender wrote (same types, same order, in each of the three groups) and that the
buffer reserved is sufficient for every number of published indices and pairs.

Reading rules (anything else fails loudly = broken obligation):
* comments and preprocessor lines are removed; the body of each function is found by brace matching;
* statements are parsed structurally (blocks, for/while with or without braces, if/else); every call
  MPI_Pack_size(1, T, ..) / MPI_Pack(p, 1, T, ..) / MPI_Unpack(buf, n, &pos, p, 1, T, ..) is recorded with the headers
  of the loops that enclose it;
* field types: MPI_INT, MPI_CHAR, MPITraits<GlobalIndex>::getType(), or a variable declared as
  `MPI_Datatype name = <one of these>;`
* grouping: in packAndSend / recvAndUnpack by loop depth (0 header, 1 per index, >= 2 per pair); in
  calculateMessageSizes the loop over the neighbours is ignored and the group is decided by the counter named in the
  innermost loop header (`publish` per index, `pairs` per pair), outside those loops = header.
A consistent reordering of fields, renaming of variables or reformatting gives the same or an equally consistent file.

Round four - three more parts of the source are read as data (all emitted into the same Gen/C13.lean):
* `syncPhases` / `packLoop` / `recvLoop`: the statement order of `sync(numberer, useFixedOrder)`: every statement
  that calls one of the phase functions (calculateMessageSizes, beginResize, packAndSend, recvAndUnpack, MPI_Waitall,
  endResize, repairLocalIndexPointers), clears one of the per-sync members or assigns the sequence numbers becomes an
  event (phase, number of the innermost enclosing loop or 0, inside an if/else body?) in source order, plus the
  normalised headers of the two loops that call packAndSend / recvAndUnpack (start, comparison, bound, step).
  Props/C13.lean proves `sync_phases_sound` about the generated list: the order constraints the protocol model rests on.
* `insertConds`: the five branch conditions of `insertIntoRemoteIndexList` (advance while key < new key; insert when at
  the end or key != new key; scan the run while key == new key; found when the remote attribute is equal; insert when
  not found).  The skeleton (while / if-insert-return / flag / for-if-flag-break / if-insert) is checked here, operands
  may be written either way round (`a < b` or `b > a`), `!x.isNotAtEnd()` = `x.isAtEnd()`; another shape is an error.
  Props/C13.lean proves that the model's `insertEntry` *is* the skeleton with the generated conditions.
* `sizeIncr`: what `calculateMessageSizes` adds to `infoSend_[holder].publish` / `.pairs` for every holder of an index
  (1 and the number of holders).  Props/C13.lean proves that with these increments the counts are those of the message
  `packAndSend` writes (`sizes_match_messages`), hence the reserved buffer fits the real message (`wire_message_fits`).
"""
import os
import re


class TranslateError(Exception):
    pass


SRC = "dune/common/parallel/indicessyncer.hh"
TYPES = {"MPI_INT": "int", "MPI_CHAR": "char", "MPITraits<GlobalIndex>::getType()": "global"}


def _strip(src):
    src = re.sub(r"/\*.*?\*/", " ", src, flags=re.S)
    src = re.sub(r"//[^\n]*", "", src)
    return "\n".join(l for l in src.split("\n") if not l.lstrip().startswith("#"))


def _match(s, i, open_ch, close_ch):
    """s[i] == open_ch; index just after the matching close_ch"""
    assert s[i] == open_ch
    depth = 0
    while i < len(s):
        if s[i] == open_ch:
            depth += 1
        elif s[i] == close_ch:
            depth -= 1
            if depth == 0:
                return i + 1
        i += 1
    raise TranslateError("unbalanced %s%s" % (open_ch, close_ch))


def _body(src, signature_rx):
    m = re.search(signature_rx, src)
    if not m:
        raise TranslateError("function not found: %s" % signature_rx)
    i = src.index("{", m.end())
    j = _match(src, i, "{", "}")
    return src[i:j]


def _args(s):
    """split the argument text of a call at top-level commas"""
    out, depth, cur = [], 0, ""
    s = s.replace("->", "\u2192")  # the arrow is not a closing angle bracket
    for ch in s:
        if ch in "(<[":
            depth += 1
        elif ch in ")>]":
            depth -= 1
        if ch == "," and depth == 0:
            out.append(cur.strip())
            cur = ""
        else:
            cur += ch
    out.append(cur.strip())
    return [a.replace("\u2192", "->") for a in out]


_CALL = re.compile(r"\b(MPI_Pack_size|MPI_Pack|MPI_Unpack)\s*\(")


def _aliases(src):
    """`MPI_Datatype name = <expr>;` anywhere in the file: name stands for <expr> (one level is resolved)"""
    out = {}
    for m in re.finditer(r"\bMPI_Datatype\s+(\w+)\s*=\s*([^;{}]+);", src):
        out[m.group(1)] = re.sub(r"\s+", "", m.group(2))
    return out


_ALIAS = {}


def _calls_in(text, loops, rec):
    for m in _CALL.finditer(text):
        j = _match(text, m.end() - 1, "(", ")")
        a = _args(text[m.end():j - 1])
        fn = m.group(1)
        pos = {"MPI_Pack_size": (0, 1), "MPI_Pack": (1, 2), "MPI_Unpack": (4, 5)}[fn]
        if len(a) <= pos[1] or a[pos[0]] != "1":
            raise TranslateError("%s: unexpected argument list %r" % (fn, a))
        t = re.sub(r"\s+", "", a[pos[1]])
        t = _ALIAS.get(t, t)
        if t not in TYPES:
            raise TranslateError("%s: unknown field type %r" % (fn, t))
        rec.append((fn, TYPES[t], list(loops)))


def _skip_ws(s, i):
    while i < len(s) and s[i].isspace():
        i += 1
    return i


def _stmt(s, i, loops, rec):
    """parse one statement starting at s[i]; returns the index after it"""
    i = _skip_ws(s, i)
    if i >= len(s):
        return i
    if s[i] == "{":
        j = _match(s, i, "{", "}")
        k = i + 1
        while True:
            k = _skip_ws(s, k)
            if k >= j - 1:
                break
            k = _stmt(s, k, loops, rec)
        return j
    m = re.match(r"(for|while|if|else|do)\b", s[i:])
    if m:
        kw = m.group(1)
        k = _skip_ws(s, i + len(kw))
        if kw == "do":
            raise TranslateError("do-while is outside the translator's grammar")
        if kw == "else":
            return _stmt(s, k, loops, rec)
        if s[k] != "(":
            raise TranslateError("expected ( after %s" % kw)
        e = _match(s, k, "(", ")")
        header = s[k:e]
        _calls_in(header, loops, rec)
        if kw in ("for", "while"):
            return _stmt(s, e, loops + [header], rec)
        e2 = _stmt(s, e, loops, rec)
        k2 = _skip_ws(s, e2)
        if s[k2:k2 + 4] == "else" and not (s[k2 + 4:k2 + 5].isalnum() or s[k2 + 4:k2 + 5] == "_"):
            return _stmt(s, k2, loops, rec)
        return e2
    # simple statement: up to the ';' at nesting depth 0
    depth, k = 0, i
    while k < len(s):
        if s[k] in "({[":
            depth += 1
        elif s[k] in ")}]":
            depth -= 1
        elif s[k] == ";" and depth == 0:
            break
        k += 1
    _calls_in(s[i:k], loops, rec)
    return k + 1


def _layout(body, fn, by_counter):
    rec = []
    _stmt(body, 0, [], rec)
    groups = {"header": [], "perIndex": [], "perPair": []}
    for (f, t, loops) in rec:
        if f != fn:
            raise TranslateError("%s called where only %s is expected" % (f, fn))
        if by_counter:
            inner = [h for h in loops if re.search(r"\bpairs\b|\bpublish\b", h)]
            if not inner:
                g = "header"
            elif re.search(r"\bpairs\b", inner[-1]):
                g = "perPair"
            else:
                g = "perIndex"
        else:
            g = "header" if len(loops) == 0 else "perIndex" if len(loops) == 1 else "perPair"
        groups[g].append(t)
    if not rec:
        raise TranslateError("no %s call found" % fn)
    return groups



# ---------------------------------------------------------------------------------------------------------------------
# round four: a structural walk that keeps the context (enclosing loops / if bodies) of every simple statement
# ---------------------------------------------------------------------------------------------------------------------

class _Walk:
    """items: (kind, text, ctx) with kind in stmt/for/while/if (text of a header includes its parentheses);
    ctx = tuple of (kind, header, id) of the enclosing for/while/if/else constructs (outermost first)"""

    def __init__(self, body):
        self.items = []
        self.n = 0
        self._stmt(body, 0, ())

    def _stmt(self, s, i, ctx):
        i = _skip_ws(s, i)
        if i >= len(s):
            return i
        if s[i] == "{":
            j = _match(s, i, "{", "}")
            k = i + 1
            while True:
                k = _skip_ws(s, k)
                if k >= j - 1:
                    break
                k = self._stmt(s, k, ctx)
            return j
        m = re.match(r"(for|while|if|else|do|switch|goto|try)\b", s[i:])
        if m:
            kw = m.group(1)
            k = _skip_ws(s, i + len(kw))
            if kw in ("do", "switch", "goto", "try"):
                raise TranslateError("%s is outside the translator's grammar" % kw)
            if kw == "else":
                self.n += 1
                return self._stmt(s, k, ctx + (("else", "", self.n),))
            if s[k] != "(":
                raise TranslateError("expected ( after %s" % kw)
            e = _match(s, k, "(", ")")
            header = s[k:e]
            self.n += 1
            me = (kw, header, self.n)
            self.items.append((kw, header, ctx, self.n))
            e2 = self._stmt(s, e, ctx + (me,))
            if kw == "if":
                k2 = _skip_ws(s, e2)
                if s[k2:k2 + 4] == "else" and not (s[k2 + 4:k2 + 5].isalnum() or s[k2 + 4:k2 + 5] == "_"):
                    return self._stmt(s, k2, ctx)
            return e2
        depth, k = 0, i
        while k < len(s):
            if s[k] in "({[":
                depth += 1
            elif s[k] in ")}]":
                depth -= 1
            elif s[k] == ";" and depth == 0:
                break
            k += 1
        text = s[i:k].strip()
        if text:
            self.items.append(("stmt", text, ctx, 0))
        return k + 1


def _is_log(text):
    return re.match(r"(Dune\s*::\s*)?(dverb|dvverb|dinfo|dwarn)\b", text) is not None


def _nows(t):
    return re.sub(r"\s+", "", t)


def _loops(ctx):
    return [c for c in ctx if c[0] in ("for", "while")]


def _guards(ctx):
    return [c for c in ctx if c[0] in ("if", "else")]


# --- sync(): statement order -------------------------------------------------------------------------------------------

_PHASES = [
    ("markPending", r"\bpendingSources_\s*\.\s*insert\s*\("),
    ("sizes", r"\bcalculateMessageSizes\s*\("),
    ("beginResize", r"\bindexSet_\s*\.\s*beginResize\s*\("),
    ("pack", r"\bpackAndSend\s*\("),
    ("recv", r"\brecvAndUnpack\s*\("),
    ("waitall", r"\bMPI_Waitall\s*\("),
    ("clearIterators", r"\biteratorsMap_\s*\.\s*clear\s*\("),
    ("endResize", r"\bindexSet_\s*\.\s*endResize\s*\("),
    ("repair", r"\brepairLocalIndexPointers\s*\("),
    ("clearOld", r"\boldMap_\s*\.\s*clear\s*\("),
    ("clearAdded", r"\baddedIndices_\s*\.\s*clear\s*\("),
    ("clearGlobal", r"\bglobalMap_\s*\.\s*clear\s*\("),
    ("clearInfo", r"\binfoSend_\s*\.\s*clear\s*\("),
    ("clearPending", r"\bpendingSources_\s*\.\s*clear\s*\("),
    ("seqSource", r"\bsourceSeqNo_\s*=(?!=)"),
    ("seqDest", r"\bdestSeqNo_\s*=(?!=)"),
]


def _for_header(header, body_text):
    """normalise `(T i = A; i < B; ++i)`: (starts at 0, comparison, bound is the number of neighbours, step is +1)"""
    parts = header[1:-1].split(";")
    if len(parts) != 3:
        raise TranslateError("loop header outside the grammar: %s" % header)
    init, cond, step = [p.strip() for p in parts]
    m = re.match(r"(?:[\w:]+(?:\s*<[^;]*>)?\s+)?(\w+)\s*=\s*(.+)$", init)
    if not m:
        raise TranslateError("loop initialisation outside the grammar: %s" % init)
    var, start = m.group(1), _nows(m.group(2))
    if not re.fullmatch(r"\d+[uUlL]*", start):
        raise TranslateError("loop start is not a literal: %s" % init)
    c = _nows(cond)
    m = re.fullmatch(r"(\w+)(<=|>=|!=|<|>)(\w+)", c)
    if not m:
        raise TranslateError("loop condition outside the grammar: %s" % cond)
    a, op, b = m.groups()
    if b == var:
        a, b = b, a
        op = {"<": ">", ">": "<", "<=": ">=", ">=": "<=", "!=": "!="}[op]
    if a != var:
        raise TranslateError("loop condition does not test the loop variable: %s" % cond)
    cmp_ = {"<": "lt", "!=": "lt", "<=": "le", ">": "gt", ">=": "ge"}[op]  # i != n counts up to n like i < n
    st = _nows(step)
    stepinc = st in ("++" + var, var + "++", var + "+=1")
    bound_ok = re.search(r"\b%s\s*=\s*remoteIndices_\s*\.\s*neighbours\s*\(\s*\)" % re.escape(b), body_text) is not None
    # the bound must not be assigned a second time
    if len(re.findall(r"(?<![\w.])%s\s*(?:[-+*/]?=(?!=)|\+\+|--)" % re.escape(b), body_text)) + \
            len(re.findall(r"(?:\+\+|--)\s*%s\b" % re.escape(b), body_text)) != 1:
        bound_ok = False
    return var, "⟨%d, .%s, %s, %s⟩" % (int(re.match(r"\d+", start).group(0)), cmp_, "true" if bound_ok else "false",
                                      "true" if stepinc else "false")


def _sync_phases(src):
    body = _body(src, r"void\s+IndicesSyncer<T>::sync\s*\(\s*T1\s*&")
    w = _Walk(body)
    loop_no = {}
    evs = []
    hdr = {}
    for (kind, text, ctx, ident) in w.items:
        if kind == "stmt" and _is_log(text):
            continue
        here = ctx + (((kind, text, ident),) if kind in ("for", "while") else ())
        for (name, rx) in _PHASES:
            for _ in re.finditer(rx, text):
                lp = _loops(here)
                num = 0
                if lp:
                    num = loop_no.setdefault(lp[-1][2], len(loop_no) + 1)
                guarded = bool(_guards(ctx))
                if name in ("seqSource", "seqDest") and not re.search(r"=\s*indexSet_\s*\.\s*seqNo\s*\(\s*\)\s*$", text):
                    raise TranslateError("sequence number assigned from an expression the translator does not know: %s" % text)
                if name in ("pack", "recv"):
                    if len(lp) != 1 or lp[-1][0] != "for":
                        raise TranslateError("%s is not called from exactly one for loop" % name)
                    var, h = _for_header(lp[-1][1], body)
                    a = _args(text[text.index("(") + 1:text.rindex(")")])
                    which = a[0] if name == "pack" else a[1]
                    if _nows(which) != "oldNeighbours[%s]" % var:
                        raise TranslateError("%s: the neighbour is not oldNeighbours[%s]: %s" % (name, var, text))
                    hdr[name] = h
                evs.append((name, num, guarded))
    # order inside one statement follows _PHASES, which is irrelevant except for the chained sequence number assignment
    for need in ("pack", "recv"):
        if need not in hdr:
            hdr[need] = "⟨0, .lt, false, false⟩"
    return evs, hdr


# --- insertIntoRemoteIndexList(): branch conditions ------------------------------------------------------------------

_FLIP = {"<": ">", ">": "<", "<=": ">=", ">=": "<=", "==": "==", "!=": "!="}
_CMPNAME = {"<": "lt", "<=": "le", ">": "gt", ">=": "ge", "==": "eq", "!=": "ne"}


def _split_top(text, sep):
    out, depth, cur, i = [], 0, "", 0
    while i < len(text):
        ch = text[i]
        if ch in "([":
            depth += 1
        elif ch in ")]":
            depth -= 1
        if depth == 0 and text.startswith(sep, i):
            out.append(cur)
            cur = ""
            i += len(sep)
            continue
        cur += ch
        i += 1
    out.append(cur)
    return [o.strip() for o in out]


def _end_test(t):
    """(iterator name, True when the test says `at the end`)"""
    t = _nows(t)
    neg = False
    while t.startswith("!"):
        neg = not neg
        t = t[1:]
    if t.startswith("(") and t.endswith(")") and _match(t, 0, "(", ")") == len(t):
        return _end_test(("!" if neg else "") + t[1:-1])
    m = re.fullmatch(r"(\w+)\.(isAtEnd|isNotAtEnd)\(\)", t)
    if not m:
        raise TranslateError("end test outside the grammar: %s" % t)
    at_end = (m.group(2) == "isAtEnd") != neg
    return m.group(1), at_end


def _comparison(t, left_rx, right_rx):
    """`L op R` or `R op L` -> (iterator name captured by left_rx, op as seen from L)"""
    t = _nows(t)
    while t.startswith("(") and t.endswith(")") and _match(t, 0, "(", ")") == len(t):
        t = t[1:-1]
    m = re.fullmatch(r"(.+?)(<=|>=|==|!=|<|>)(.+)", t)
    if not m:
        raise TranslateError("comparison outside the grammar: %s" % t)
    a, op, b = m.groups()
    ml, mr = re.fullmatch(left_rx, a), re.fullmatch(right_rx, b)
    if ml and mr:
        return ml.group(1), op
    ml, mr = re.fullmatch(left_rx, b), re.fullmatch(right_rx, a)
    if ml and mr:
        return ml.group(1), _FLIP[op]
    raise TranslateError("comparison outside the grammar: %s" % t)


def _insert_conds(src):
    m = re.search(r"void\s+IndicesSyncer<T>::insertIntoRemoteIndexList\s*\(", src)
    if not m:
        raise TranslateError("function not found: insertIntoRemoteIndexList")
    pe = _match(src, m.end() - 1, "(", ")")
    params = [re.findall(r"\w+", a)[-1] for a in _args(src[m.end():pe - 1])]
    if len(params) != 3:
        raise TranslateError("insertIntoRemoteIndexList: unexpected parameter list")
    _, key, attr = params
    body = _body(src, r"void\s+IndicesSyncer<T>::insertIntoRemoteIndexList\s*\(")
    items = [it for it in _Walk(body).items if not (it[0] == "stmt" and _is_log(it[1]))]
    key_rx = r"(\w+)\.globalIndexPair\(\)"
    par_rx = re.escape(key)
    att_l = r"(\w+)\.remoteIndex\(\)\.attribute\(\)"
    att_r = r"(?:Attribute\()?%s\)?" % re.escape(attr)

    def children(ident):
        return [it for it in items if any(c[2] == ident for c in it[2])]

    # 1. the advancing loop
    whiles = [it for it in items if it[0] == "while" and not it[2]]
    if len(whiles) != 1:
        raise TranslateError("insertIntoRemoteIndexList: expected exactly one top-level while loop")
    wh = whiles[0]
    parts = _split_top(wh[1][1:-1], "&&")
    if len(parts) != 2:
        raise TranslateError("insertIntoRemoteIndexList: while condition outside the grammar")
    it_name, at_end = _end_test(parts[0])
    if at_end:
        raise TranslateError("insertIntoRemoteIndexList: the loop must stop at the end of the list")
    it2, op1 = _comparison(parts[1], key_rx, par_rx)
    ch = children(wh[3])
    if it2 != it_name or len(ch) != 1 or _nows(ch[0][1]) not in ("++" + it_name, it_name + "++"):
        raise TranslateError("insertIntoRemoteIndexList: body of the advancing loop outside the grammar")
    # top-level constructs after the loop
    after = [it for it in items if items.index(it) > items.index(wh) and not it[2]]
    after = [it for it in after if it not in ch]
    kinds = [it[0] for it in after]
    if kinds != ["if", "stmt", "for", "if"]:
        raise TranslateError("insertIntoRemoteIndexList: statement sequence after the advancing loop is %s" % kinds)
    if1, flagdecl, forl, if2 = after
    # 2. insert when the key is not there
    parts = _split_top(if1[1][1:-1], "||")
    if len(parts) != 2:
        raise TranslateError("insertIntoRemoteIndexList: first if outside the grammar")
    n2, at_end = _end_test(parts[0])
    it2, op2 = _comparison(parts[1], key_rx, par_rx)
    ch = [c for c in children(if1[3])]
    texts = [_nows(c[1]) for c in ch]
    if n2 != it_name or it2 != it_name or not at_end or len(ch) != 2 or not texts[0].startswith(it_name + ".insert(") \
            or texts[1] != "return" or any(c[0] != "stmt" for c in ch):
        raise TranslateError("insertIntoRemoteIndexList: first if outside the grammar")
    ins1 = texts[0]
    # 3. the flag
    m = re.fullmatch(r"bool(\w+)=false", _nows(flagdecl[1]))
    if not m:
        raise TranslateError("insertIntoRemoteIndexList: flag declaration outside the grammar")
    flag = m.group(1)
    # 4. scanning the run of equal keys
    parts = forl[1][1:-1].split(";")
    if len(parts) != 3:
        raise TranslateError("insertIntoRemoteIndexList: for header outside the grammar")
    m = re.fullmatch(r"Iterators(\w+)=(\w+)", _nows(parts[0]).replace("Iterators", "Iterators", 1)) or \
        re.fullmatch(r"auto(\w+)=(\w+)", _nows(parts[0]))
    if not m or m.group(2) != it_name:
        raise TranslateError("insertIntoRemoteIndexList: the scan does not start at the cursor")
    tmp = m.group(1)
    cparts = _split_top(parts[1], "&&")
    if len(cparts) != 2:
        raise TranslateError("insertIntoRemoteIndexList: scan condition outside the grammar")
    n3, at_end = _end_test(cparts[0])
    it3, op3 = _comparison(cparts[1], key_rx, par_rx)
    if n3 != tmp or it3 != tmp or at_end or _nows(parts[2]) not in ("++" + tmp, tmp + "++"):
        raise TranslateError("insertIntoRemoteIndexList: scan condition outside the grammar")
    ch = children(forl[3])
    if len(ch) != 3 or ch[0][0] != "if" or [_nows(c[1]) for c in ch[1:]] != [flag + "=true", "break"]:
        raise TranslateError("insertIntoRemoteIndexList: body of the scan outside the grammar")
    it4, op4 = _comparison(ch[0][1][1:-1], att_l, att_r)
    if it4 != tmp:
        raise TranslateError("insertIntoRemoteIndexList: the scan tests another iterator")
    # 5. insert unless found
    c = _nows(if2[1][1:-1])
    if c in ("!" + flag, flag + "==false", "false==" + flag, "!(" + flag + ")"):
        unless = "true"
    elif c in (flag, flag + "==true"):
        unless = "false"
    else:
        raise TranslateError("insertIntoRemoteIndexList: last if outside the grammar")
    ch = children(if2[3])
    if len(ch) != 1 or _nows(ch[0][1]) != ins1:
        raise TranslateError("insertIntoRemoteIndexList: the two insertions differ")
    if not re.fullmatch(re.escape(it_name) + r"\.insert\(RemoteIndex\(Attribute\(" + re.escape(attr) + r"\)\)," + par_rx + r"\)", ins1):
        raise TranslateError("insertIntoRemoteIndexList: inserted entry outside the grammar: %s" % ins1)
    return "⟨.%s, .%s, .%s, .%s, %s⟩" % (_CMPNAME[op1], _CMPNAME[op2], _CMPNAME[op3], _CMPNAME[op4], unless)


# --- calculateMessageSizes(): what is added to the counters per holder -----------------------------------------------

def _size_incr(src):
    body = _body(src, r"void\s+IndicesSyncer<T>::calculateMessageSizes\s*\(\s*\)")
    items = [it for it in _Walk(body).items if not (it[0] == "stmt" and _is_log(it[1]))]
    pub, pairs = [], []
    for it in items:
        if it[0] != "stmt":
            continue
        t = _nows(it[1])
        if "infoSend_[" not in t:
            continue
        m = re.fullmatch(r"(\+\+)?\(?infoSend_\[(\w+)\.process\(\)\]\.(publish|pairs)\)?(\+\+|\+=(\w+))?", t)
        if not m or bool(m.group(1)) == bool(m.group(4)):
            raise TranslateError("calculateMessageSizes: statement on infoSend_ outside the grammar: %s" % it[1])
        amount = m.group(5) if m.group(5) else "1"
        (pub if m.group(3) == "publish" else pairs).append((amount, m.group(2), it[2]))
    if len(pub) != 1 or len(pairs) != 1:
        raise TranslateError("calculateMessageSizes: expected one update of publish and one of pairs")
    (pa, pv, pctx), (qa, qv, qctx) = pub[0], pairs[0]
    lp, lq = _loops(pctx), _loops(qctx)
    if not lp or not lq or lp[-1][2] != lq[-1][2] or len(lp) != 2:
        raise TranslateError("calculateMessageSizes: the counters are not updated in one loop over the holders")
    holder_loop = lp[-1]
    hh = _nows(holder_loop[1])
    m = re.fullmatch(r"\(auto(\w+)=(\w+)\.begin\(\);(\w+)!=(\w+);\+\+(\w+)\)", hh)
    if not m or not (m.group(1) == m.group(3) == m.group(5) == pv == qv):
        raise TranslateError("calculateMessageSizes: loop over the holders outside the grammar: %s" % holder_loop[1])
    coll, endv = m.group(2), m.group(4)
    # guards between the index loop and the holder loop: only `count > 0`
    counter = None

    def amount(a):
        nonlocal counter
        if re.fullmatch(r"\d+", a):
            return ".const %d" % int(a)
        # a variable: must be `int a=0;` counted up once per holder in a loop with the same header
        decl = [it for it in items if it[0] == "stmt" and re.fullmatch(r"int%s=0" % re.escape(a), _nows(it[1]).replace("int", "int", 1))]
        incs = [it for it in items if it[0] == "stmt" and _nows(it[1]) in ("++" + a, a + "++", a + "+=1")]
        others = [it for it in items if it[0] == "stmt" and re.search(r"(?<![\w.])%s(?:[-+*/]?=(?!=)|\+\+|--)" % re.escape(a), _nows(it[1]))
                  and it not in incs and it not in decl]
        if len(decl) != 1 or len(incs) != 1 or others:
            raise TranslateError("calculateMessageSizes: %s is not a plain counter" % a)
        il = _loops(incs[0][2])
        if len(il) != 2 or _guards(incs[0][2]) or \
                re.sub(r"\b%s\b" % re.escape(_nows(il[-1][1])[5:].split("=")[0]), "V", _nows(il[-1][1])) != \
                re.sub(r"\b%s\b" % re.escape(pv), "V", hh) or il[0][2] != lp[0][2]:
            raise TranslateError("calculateMessageSizes: %s does not count the holders" % a)
        counter = a
        return ".holders"

    pub_l, pairs_l = amount(pa), amount(qa)
    for g in _guards(pctx) + _guards(qctx):
        c = _nows(g[1])
        if g[0] != "if" or counter is None or c not in ("(%s>0)" % counter, "(%s!=0)" % counter, "(0<%s)" % counter, "(%s>=1)" % counter):
            raise TranslateError("calculateMessageSizes: the counters are updated under a condition the translator does not know: %s" % g[1])
    # the end iterator of the holder loop must be the collective iterator's end
    if not re.search(r"\bauto\s+%s\s*=\s*%s\s*\.\s*end\s*\(\s*\)" % (re.escape(endv), re.escape(coll)), body):
        raise TranslateError("calculateMessageSizes: end of the holder loop outside the grammar")
    return "⟨%s, %s⟩" % (pub_l, pairs_l)

def _lean(name, g):
    def lst(l):
        return "[" + ", ".join("." + t for t in l) + "]"
    return "def %s : WireLayout := ⟨%s, %s, %s⟩" % (name, lst(g["header"]), lst(g["perIndex"]), lst(g["perPair"]))


def translate(repo):
    src = _strip(open(os.path.join(repo, SRC)).read())
    _ALIAS.clear()
    _ALIAS.update(_aliases(src))
    size = _layout(_body(src, r"void\s+IndicesSyncer<T>::calculateMessageSizes\s*\(\s*\)"), "MPI_Pack_size", True)
    pack = _layout(_body(src, r"void\s+IndicesSyncer<T>::packAndSend\s*\("), "MPI_Pack", False)
    unpack = _layout(_body(src, r"void\s+IndicesSyncer<T>::recvAndUnpack\s*\("), "MPI_Unpack", False)
    out = ["-- GENERATED by tools/translators/tr_c13.py from %s -- do not edit" % SRC,
           "import DuneVerif.Model.C13",
           "namespace DV.C13.Gen",
           "open DV.C13 WireTy",
           "/-- what calculateMessageSizes reserves (MPI_Pack_size calls) -/",
           _lean("sizeLayout", size),
           "/-- what packAndSend writes (MPI_Pack calls) -/",
           _lean("packLayout", pack),
           "/-- what recvAndUnpack reads (MPI_Unpack calls) -/",
           _lean("unpackLayout", unpack)]
    evs, hdr = _sync_phases(src)
    out += ["/-- the statement order of sync(numberer, useFixedOrder): (phase, number of the enclosing loop or 0, inside an if body) -/",
            "def syncPhases : List SyncEv := [" + ", ".join("⟨.%s, %d, %s⟩" % (n, l, "true" if g else "false") for (n, l, g) in evs) + "]",
            "/-- header of the loop calling packAndSend: (start, comparison with the bound, bound = number of old neighbours, step +1) -/",
            "def packLoop : LoopHdr := " + hdr["pack"],
            "/-- header of the loop calling recvAndUnpack -/",
            "def recvLoop : LoopHdr := " + hdr["recv"],
            "/-- the branch conditions of insertIntoRemoteIndexList: advance while, insert if (not at end and), scan while, found if, insert unless found -/",
            "def insertConds : InsertConds := " + _insert_conds(src),
            "/-- what calculateMessageSizes adds to infoSend_[holder].publish / .pairs for every holder of an index -/",
            "def sizeIncr : CountIncr := " + _size_incr(src),
            "end DV.C13.Gen", ""]
    return [("DuneVerif/Gen/C13.lean", "\n".join(out))]


if __name__ == "__main__":
    import sys
    for path, content in translate(sys.argv[1] if len(sys.argv) > 1 else "/repo"):
        print("--", path)
        print(content)
