"""Translator for C13: the wire format of an IndicesSyncer message.

The protocol model (Model/C13.lean) abstracts from the bytes: a message is a list of items.  What the code does with
bytes is straight-line data: `calculateMessageSizes` reserves, `packAndSend` writes and `recvAndUnpack` reads a
sequence of typed fields - once per message (header), once per published index, once per (process, attribute) pair.
This translator re-reads the three functions of dune/common/parallel/indicessyncer.hh on every run and emits the three
field-type sequences as lean/DuneVerif/Gen/C13.lean.  Props/C13.lean proves about the *generated* definitions that the
receiver reads exactly the fields the sender wrote (same types, same order, in each of the three groups) and that the
buffer reserved is sufficient for every number of published indices and pairs.

Reading rules (anything else fails loudly = broken obligation):
* comments and preprocessor lines are removed; the body of each function is found by brace matching;
* statements are parsed structurally (blocks, for/while with or without braces, if/else); every call
  MPI_Pack_size(1, T, ..) / MPI_Pack(p, 1, T, ..) / MPI_Unpack(buf, n, &pos, p, 1, T, ..) is recorded with the headers
  of the loops that enclose it;
* field types: MPI_INT, MPI_CHAR, MPITraits<GlobalIndex>::getType(), or a variable declared as
  `MPI_Datatype name = <one of these>;`
* grouping: in packAndSend / recvAndUnpack by loop depth (0 header, 1 per index, >= 2 per pair); in
  calculateMessageSizes the loop over the neighbours is ignored and the group is decided by the counter named in the
  innermost loop header (`publish` per index, `pairs` per pair), outside those loops = header.
A consistent reordering of fields, renaming of variables or reformatting gives the same or an equally consistent file.
"""
import os
import re


class TranslateError(Exception):
    pass


SRC = "dune/common/parallel/indicessyncer.hh"
TYPES = {"MPI_INT": "int", "MPI_CHAR": "char", "MPITraits<GlobalIndex>::getType()": "global"}


def _strip(src):
    src = re.sub(r"/\*.*?\*/", " ", src, flags=re.S)
    src = re.sub(r"//[^\n]*", "", src)
    return "\n".join(l for l in src.split("\n") if not l.lstrip().startswith("#"))


def _match(s, i, open_ch, close_ch):
    """s[i] == open_ch; index just after the matching close_ch"""
    assert s[i] == open_ch
    depth = 0
    while i < len(s):
        if s[i] == open_ch:
            depth += 1
        elif s[i] == close_ch:
            depth -= 1
            if depth == 0:
                return i + 1
        i += 1
    raise TranslateError("unbalanced %s%s" % (open_ch, close_ch))


def _body(src, signature_rx):
    m = re.search(signature_rx, src)
    if not m:
        raise TranslateError("function not found: %s" % signature_rx)
    i = src.index("{", m.end())
    j = _match(src, i, "{", "}")
    return src[i:j]


def _args(s):
    """split the argument text of a call at top-level commas"""
    out, depth, cur = [], 0, ""
    s = s.replace("->", "\u2192")  # the arrow is not a closing angle bracket
    for ch in s:
        if ch in "(<[":
            depth += 1
        elif ch in ")>]":
            depth -= 1
        if ch == "," and depth == 0:
            out.append(cur.strip())
            cur = ""
        else:
            cur += ch
    out.append(cur.strip())
    return [a.replace("\u2192", "->") for a in out]


_CALL = re.compile(r"\b(MPI_Pack_size|MPI_Pack|MPI_Unpack)\s*\(")


def _aliases(src):
    """`MPI_Datatype name = <expr>;` anywhere in the file: name stands for <expr> (one level is resolved)"""
    out = {}
    for m in re.finditer(r"\bMPI_Datatype\s+(\w+)\s*=\s*([^;{}]+);", src):
        out[m.group(1)] = re.sub(r"\s+", "", m.group(2))
    return out


_ALIAS = {}


def _calls_in(text, loops, rec):
    for m in _CALL.finditer(text):
        j = _match(text, m.end() - 1, "(", ")")
        a = _args(text[m.end():j - 1])
        fn = m.group(1)
        pos = {"MPI_Pack_size": (0, 1), "MPI_Pack": (1, 2), "MPI_Unpack": (4, 5)}[fn]
        if len(a) <= pos[1] or a[pos[0]] != "1":
            raise TranslateError("%s: unexpected argument list %r" % (fn, a))
        t = re.sub(r"\s+", "", a[pos[1]])
        t = _ALIAS.get(t, t)
        if t not in TYPES:
            raise TranslateError("%s: unknown field type %r" % (fn, t))
        rec.append((fn, TYPES[t], list(loops)))


def _skip_ws(s, i):
    while i < len(s) and s[i].isspace():
        i += 1
    return i


def _stmt(s, i, loops, rec):
    """parse one statement starting at s[i]; returns the index after it"""
    i = _skip_ws(s, i)
    if i >= len(s):
        return i
    if s[i] == "{":
        j = _match(s, i, "{", "}")
        k = i + 1
        while True:
            k = _skip_ws(s, k)
            if k >= j - 1:
                break
            k = _stmt(s, k, loops, rec)
        return j
    m = re.match(r"(for|while|if|else|do)\b", s[i:])
    if m:
        kw = m.group(1)
        k = _skip_ws(s, i + len(kw))
        if kw == "do":
            raise TranslateError("do-while is outside the translator's grammar")
        if kw == "else":
            return _stmt(s, k, loops, rec)
        if s[k] != "(":
            raise TranslateError("expected ( after %s" % kw)
        e = _match(s, k, "(", ")")
        header = s[k:e]
        _calls_in(header, loops, rec)
        if kw in ("for", "while"):
            return _stmt(s, e, loops + [header], rec)
        e2 = _stmt(s, e, loops, rec)
        k2 = _skip_ws(s, e2)
        if s[k2:k2 + 4] == "else" and not (s[k2 + 4:k2 + 5].isalnum() or s[k2 + 4:k2 + 5] == "_"):
            return _stmt(s, k2, loops, rec)
        return e2
    # simple statement: up to the ';' at nesting depth 0
    depth, k = 0, i
    while k < len(s):
        if s[k] in "({[":
            depth += 1
        elif s[k] in ")}]":
            depth -= 1
        elif s[k] == ";" and depth == 0:
            break
        k += 1
    _calls_in(s[i:k], loops, rec)
    return k + 1


def _layout(body, fn, by_counter):
    rec = []
    _stmt(body, 0, [], rec)
    groups = {"header": [], "perIndex": [], "perPair": []}
    for (f, t, loops) in rec:
        if f != fn:
            raise TranslateError("%s called where only %s is expected" % (f, fn))
        if by_counter:
            inner = [h for h in loops if re.search(r"\bpairs\b|\bpublish\b", h)]
            if not inner:
                g = "header"
            elif re.search(r"\bpairs\b", inner[-1]):
                g = "perPair"
            else:
                g = "perIndex"
        else:
            g = "header" if len(loops) == 0 else "perIndex" if len(loops) == 1 else "perPair"
        groups[g].append(t)
    if not rec:
        raise TranslateError("no %s call found" % fn)
    return groups


def _lean(name, g):
    def lst(l):
        return "[" + ", ".join("." + t for t in l) + "]"
    return "def %s : WireLayout := ⟨%s, %s, %s⟩" % (name, lst(g["header"]), lst(g["perIndex"]), lst(g["perPair"]))


def translate(repo):
    src = _strip(open(os.path.join(repo, SRC)).read())
    _ALIAS.clear()
    _ALIAS.update(_aliases(src))
    size = _layout(_body(src, r"void\s+IndicesSyncer<T>::calculateMessageSizes\s*\(\s*\)"), "MPI_Pack_size", True)
    pack = _layout(_body(src, r"void\s+IndicesSyncer<T>::packAndSend\s*\("), "MPI_Pack", False)
    unpack = _layout(_body(src, r"void\s+IndicesSyncer<T>::recvAndUnpack\s*\("), "MPI_Unpack", False)
    out = ["-- GENERATED by tools/translators/tr_c13.py from %s -- do not edit" % SRC,
           "import DuneVerif.Model.C13",
           "namespace DV.C13.Gen",
           "open DV.C13 WireTy",
           "/-- what calculateMessageSizes reserves (MPI_Pack_size calls) -/",
           _lean("sizeLayout", size),
           "/-- what packAndSend writes (MPI_Pack calls) -/",
           _lean("packLayout", pack),
           "/-- what recvAndUnpack reads (MPI_Unpack calls) -/",
           _lean("unpackLayout", unpack),
           "end DV.C13.Gen", ""]
    return [("DuneVerif/Gen/C13.lean", "\n".join(out))]


if __name__ == "__main__":
    import sys
    for path, content in translate(sys.argv[1] if len(sys.argv) > 1 else "/repo"):
        print("--", path)
        print(content)
