"""Translator for C12: the *data* of dune/common/parametertree.{hh,cc} and parametertreeparser.cc — the character
sets, marker characters, literal words, sub-string offsets and the boolean conditions that decide what the INI
reader, the tree's dotted-key descent, the command-line readers and Parser<T> accept — is re-read from the source
on every run and emitted as lean/DuneVerif/Gen/C12.lean.  The theorems `src_*` of Props/C12.lean state that the
hand-written model (about which all other theorems speak) uses exactly these values, so an edit of one of them in
the source makes a proof obligation fail and the check then searches for a failing input.

What is canonicalised (so that harmless rewrites stay quiet): comments, white space, the order of the characters
in a `find_first_not_of`-style set, the order of `a == X || a == Y` alternatives (the tested words must be
distinct), `'c'` versus `"c"` as the argument of `find`, `k + v` versus `v + k` in an offset, `!`/`not`, `||`/`or`,
`&&`/`and`, `std::string::npos` spellings.

Round five: the patterns no longer read the raw text but a NORMAL FORM of every function body.  `normalise_sources`
parses each function body of the three files into a statement tree (blocks, if/else, while, for, switch labels,
simple statements; try/do are kept verbatim), rewrites it with semantics-preserving rules whose side conditions are
checked, and prints it back with every branch braced:
  0 tokens: not/and/or, `this->`, nullptr, `const` of a local declaration, literal/npos/number on the left of ==/!=
    moved to the right, `x.size()==0` / `x.length()==0` / `x==""` / `x==std::string()` -> `x.empty()` and the
    negated forms (`!=0`, `>0`, `>=1`, `!=""`) -> `!x.empty()`;
  1 straight-line private helper functions (statements + one `return e`) are inlined where the call is the first
    operation of an if-condition / return / initialiser / expression statement (reference parameters bound to plain
    variables, value parameters unchanged by the helper, helper locals renamed on a clash);
  2 parameters and locals that play a modelled role are renamed to the model's name (role = position in the
    signature or the initialiser; the two cursors of split() and the lower-casing functor of Parser<bool> may have
    any name; e.g. `char X = value[0]` is `quote`, `std::string X; getline(in, X); value = value
    + … + X` is `l`, `X = split(str)` is `sub`, `std::istringstream X(str)` is `s`);
  3 structure: `return c ? a : b` -> if/return; `if (c) jump; else r` -> `if (c) jump; r`; `x == npos` tests turned
    into `x != npos` with swapped branches, also as a guard clause without else; `if (c) continue; rest` at the end
    of a loop body -> `if (!c) { rest }`; for-steps `i++`/`i+=1` -> `++i`, sorted; `while (c) { …; ++a; ++b; }` ->
    `for (; c; ++a, ++b) { … }`; range-for and begin()/end() iterator loops over a named, unmodified sequence whose
    element is only read -> index loop `for (std::size_t i=0; i<seq.size(); ++i)` with `seq[i]`;
  4 data flow: `T = E; while (c[T]) { …; T = E; } rest[T]` (E side-effect free, T untouched elsewhere in the loop, no
    continue/break, the refresh is the LAST statement of the body) -> E written for T; `x = E; x = G[x]` -> `x =
    G[E]`; a local initialised once from a side-effect-free expression and never changed, whose operands are not
    changed up to its last use, is written out (names of the model's vocabulary are kept).
  5 helpers that are a single `return <side-effect-free expression>` are inlined at every call with side-effect-free
    arguments (also in loop conditions); `static_cast<T>(e)` = `T(e)`; `bound > i` = `i < bound` in a for-header; the
    counter of an index loop is called `i`;
  6 the conditions of the quote loop, the overwrite test, the option test of readOptions and the "missing" test of
    readNamedOptions are compared as BOOLEAN FUNCTIONS of their atoms (truth tables: De Morgan, double negation,
    commuted operands, `a != b` = `!(a == b)`, `x > y` = `y < x`, `e.size()==0` = `e.empty()`), with short-circuit
    GUARDS kept: `rtrim(value).back()` may only be evaluated after `rtrim(value).empty()` was false, `argv[i][1]`
    only after `argv[i][0] == '-'` was true (commuting those operands is not harmless and stays loud).
Anything the rules or the patterns below do not recognise raises TranslateError (loud failure)."""
import os
import re


class TranslateError(Exception):
    pass


def strip_comments(src):
    """remove comments, keep string and character literals intact"""
    out = []
    i, n = 0, len(src)
    while i < n:
        c = src[i]
        if c == '"' or c == "'":
            j = i + 1
            while j < n and src[j] != c:
                j += 2 if src[j] == "\\" else 1
            out.append(src[i:j + 1])
            i = j + 1
        elif src.startswith("//", i):
            j = src.find("\n", i)
            i = n if j < 0 else j
        elif src.startswith("/*", i):
            j = src.find("*/", i + 2)
            out.append(" ")
            i = n if j < 0 else j + 2
        else:
            out.append(c)
            i += 1
    return "".join(out)


def block_at(src, open_idx):
    """text between the brace at open_idx and its partner (literals respected)"""
    assert src[open_idx] == "{"
    depth, i, n = 0, open_idx, len(src)
    while i < n:
        c = src[i]
        if c == '"' or c == "'":
            j = i + 1
            while j < n and src[j] != c:
                j += 2 if src[j] == "\\" else 1
            i = j + 1
            continue
        if c == "{":
            depth += 1
        elif c == "}":
            depth -= 1
            if depth == 0:
                return src[open_idx + 1:i]
        i += 1
    raise TranslateError("unbalanced braces")


def bodies(src, head_re, what):
    """bodies of all definitions whose head matches head_re (the head must be followed by `(...) [const] {`)"""
    res = []
    for m in re.finditer(head_re, src):
        i = m.end()
        # parameter list
        j = src.find("(", i - 1) if src[i - 1] != "(" else i - 1
        depth, k = 0, j
        while k < len(src):
            if src[k] == "(":
                depth += 1
            elif src[k] == ")":
                depth -= 1
                if depth == 0:
                    break
            k += 1
        rest = src[k + 1:]
        mm = re.match(r"\s*(const)?\s*\{", rest)
        if not mm:
            continue  # a declaration or a call, not a definition
        res.append((block_at(src, k + 1 + mm.end() - 1), bool(mm.group(1)), src[j:k + 1]))
    if not res:
        raise TranslateError("no definition of %s found" % what)
    return res


ESC = {"n": 10, "t": 9, "r": 13, "0": 0, "\\": 92, "'": 39, '"': 34, "v": 11, "f": 12, "a": 7, "b": 8}


def unescape(lit, what):
    """C/C++ literal contents (without the quotes) -> list of byte codes"""
    out, i = [], 0
    while i < len(lit):
        c = lit[i]
        if c == "\\":
            m = re.match(r"\\([0-7]{1,3})", lit[i:])
            if m:
                out.append(int(m.group(1), 8))
                i += len(m.group(0))
                continue
            m = re.match(r"\\x([0-9a-fA-F]+)", lit[i:])
            if m:
                out.append(int(m.group(1), 16) & 255)
                i += len(m.group(0))
                continue
            if i + 1 < len(lit) and lit[i + 1] in ESC:
                out.append(ESC[lit[i + 1]])
                i += 2
                continue
            raise TranslateError("%s: unknown escape in literal %r" % (what, lit))
        out.append(ord(c))
        i += 1
    if any(b > 255 for b in out):
        raise TranslateError("%s: non-byte character in literal %r" % (what, lit))
    return out


LIT = r"""(?:"(?:[^"\\]|\\.)*"|'(?:[^'\\]|\\.)*')"""


def lit_bytes(tok, what):
    tok = tok.strip()
    if len(tok) < 2 or tok[0] not in "\"'" or tok[-1] != tok[0]:
        raise TranslateError("%s: %r is not a literal" % (what, tok))
    return unescape(tok[1:-1], what)


def one_char(tok, what):
    b = lit_bytes(tok, what)
    if len(b) != 1:
        raise TranslateError("%s: literal %s is not a single character" % (what, tok))
    return b[0]


def need(rx, text, what, count=None):
    ms = list(re.finditer(rx, text, flags=re.S))
    if not ms or (count is not None and len(ms) != count):
        raise TranslateError("%s: pattern found %d times%s" % (what, len(ms), "" if count is None else " (expected %d)" % count))
    return ms


def affine(expr, var, what):
    """`var`, `var+k`, `k+var`, `var-k` (var may be None: plain constant) -> k"""
    e = re.sub(r"\s+", "", expr)
    if var is None:
        if re.fullmatch(r"\d+", e):
            return int(e)
        raise TranslateError("%s: %r is not a constant" % (what, expr))
    v = re.escape(re.sub(r"\s+", "", var))
    if re.fullmatch(v, e):
        return 0
    m = re.fullmatch(v + r"([+-])(\d+)", e)
    if m:
        return int(m.group(2)) * (1 if m.group(1) == "+" else -1)
    m = re.fullmatch(r"(\d+)\+" + v, e)
    if m:
        return int(m.group(1))
    raise TranslateError("%s: %r is not `%s` plus/minus a constant" % (what, expr, var))


def split_args(s):
    """split a call's argument text at top-level commas"""
    out, depth, cur, i = [], 0, "", 0
    while i < len(s):
        c = s[i]
        if c in "\"'":
            j = i + 1
            while j < len(s) and s[j] != c:
                j += 2 if s[j] == "\\" else 1
            cur += s[i:j + 1]
            i = j + 1
            continue
        if c in "([{":
            depth += 1
        elif c in ")]}":
            depth -= 1
        if c == "," and depth == 0:
            out.append(cur.strip())
            cur = ""
        else:
            cur += c
        i += 1
    if cur.strip():
        out.append(cur.strip())
    return out


def call_args(text, start, what):
    """arguments of the call whose '(' is at text[start]"""
    depth, k = 0, start
    while k < len(text):
        if text[k] in "\"'":
            q = text[k]
            k += 1
            while k < len(text) and text[k] != q:
                k += 2 if text[k] == "\\" else 1
        elif text[k] == "(":
            depth += 1
        elif text[k] == ")":
            depth -= 1
            if depth == 0:
                return split_args(text[start + 1:k]), k
        k += 1
    raise TranslateError("%s: unbalanced parentheses" % what)


def substr_calls(text, obj, what):
    """argument lists of all `obj.substr(...)` calls"""
    res = []
    for m in re.finditer(re.escape(obj) + r"\s*\.\s*substr\s*\(", text):
        args, _ = call_args(text, m.end() - 1, what)
        res.append(args)
    return res


# ---------------------------------------------------------------------------------------------------------------
# statement-level front end (round five): function bodies are parsed into a statement tree, rewritten into a normal
# form by semantics-preserving rules and printed back; the data patterns of `translate` read the normal form.
# Every rule has a side condition that is CHECKED; where a condition cannot be established the text is left as it
# is (and the patterns further down fail loudly).
# ---------------------------------------------------------------------------------------------------------------
def _skip_lit(s, i):
    q, j = s[i], i + 1
    while j < len(s) and s[j] != q:
        j += 2 if s[j] == "\\" else 1
    return j + 1


def _match(s, i):
    """index of the bracket that closes s[i]"""
    pairs = {"(": ")", "[": "]", "{": "}"}
    stack, n = [], len(s)
    while i < n:
        c = s[i]
        if c in "\"'":
            i = _skip_lit(s, i)
            continue
        if c in pairs:
            stack.append(pairs[c])
        elif c in ")]}":
            if not stack or stack.pop() != c:
                raise TranslateError("unbalanced brackets near %r" % s[max(0, i - 20):i + 10])
            if not stack:
                return i
        i += 1
    raise TranslateError("unbalanced brackets")


_WS = re.compile(r"\s*")
_CTRL = re.compile(r"(if|while|for|switch)\b\s*(?:constexpr\s*)?\(")


def parse_stmts(s, i=0, end=None):
    end = len(s) if end is None else end
    out = []
    while True:
        i = _WS.match(s, i).end()
        if i >= end:
            return out
        node, i = parse_stmt(s, i, end)
        out.append(node)


def _body_of(s, i, end):
    node, i = parse_stmt(s, i, end)
    return (node["b"] if node["k"] == "block" else [node]), i


def parse_stmt(s, i, end):
    i = _WS.match(s, i).end()
    if i >= end:
        raise TranslateError("statement expected")
    c = s[i]
    if c == "{":
        j = _match(s, i)
        return {"k": "block", "b": parse_stmts(s, i + 1, j)}, j + 1
    if c == ";":
        return {"k": "simple", "t": ""}, i + 1
    m = _CTRL.match(s, i)
    if m:
        p = m.end() - 1
        q = _match(s, p)
        body, j = _body_of(s, q + 1, end)
        if m.group(1) == "if":
            e = None
            m2 = re.compile(r"\s*else\b").match(s, j)
            if m2:
                e, j = _body_of(s, m2.end(), end)
            return {"k": "if", "c": s[p + 1:q].strip(), "b": body, "e": e}, j
        return {"k": m.group(1), "c": s[p + 1:q].strip(), "b": body}, j
    m = re.compile(r"(case|default)\b").match(s, i)
    if m:
        j = m.end()
        while j < end:
            if s[j] in "\"'":
                j = _skip_lit(s, j)
                continue
            if s[j] == ":" and s[j + 1:j + 2] != ":" and s[j - 1] != ":":
                return {"k": "label", "t": s[i:j].strip()}, j + 1
            j += 1
        raise TranslateError("label without colon")
    m = re.compile(r"(try|do)\b").match(s, i)
    if m:  # kept verbatim
        j = _WS.match(s, m.end()).end()
        if s[j] != "{":
            raise TranslateError("try/do without a block")
        j = _match(s, j) + 1
        while True:
            m2 = re.compile(r"\s*(catch|while)\s*\(").match(s, j)
            if not m2:
                break
            j = _match(s, m2.end() - 1) + 1
            k = _WS.match(s, j).end()
            if m2.group(1) == "catch":
                j = _match(s, k) + 1
            else:
                j = k + 1 if s[k:k + 1] == ";" else j
                break
        return {"k": "raw", "t": s[i:j]}, j
    j = i
    while j < end:
        ch = s[j]
        if ch in "\"'":
            j = _skip_lit(s, j)
            continue
        if ch in "([{":
            j = _match(s, j) + 1
            continue
        if ch == ";":
            return {"k": "simple", "t": s[i:j].strip()}, j + 1
        j += 1
    raise TranslateError("statement without `;`: %r" % s[i:i + 40])


def unparse(nodes, ind="  "):
    out = []
    for n in nodes:
        k = n["k"]
        if k == "simple":
            out.append(ind + n["t"] + ";")
        elif k == "label":
            out.append(ind + n["t"] + " :")
        elif k == "raw":
            out.append(ind + n["t"])
        elif k == "block":
            out += [ind + "{", unparse(n["b"], ind + "  "), ind + "}"]
        elif k == "if":
            out += [ind + "if (%s) {" % n["c"], unparse(n["b"], ind + "  "), ind + "}"]
            if n["e"] is not None:
                out += [ind + "else {", unparse(n["e"], ind + "  "), ind + "}"]
        else:
            out += [ind + "%s (%s) {" % (k, n["c"]), unparse(n["b"], ind + "  "), ind + "}"]
    return "\n".join(x for x in out if x != "")


def map_text(nodes, fn):
    """apply fn to every expression / simple-statement text of the tree (in place)"""
    for n in nodes:
        if n["k"] in ("simple", "label"):
            n["t"] = fn(n["t"])
        elif n["k"] != "raw":
            if "c" in n:
                n["c"] = fn(n["c"])
            map_text(n["b"], fn)
            if n.get("e") is not None:
                map_text(n["e"], fn)
    return nodes


def tree_text(nodes):
    return unparse(nodes, "")


# ---- literals out of the way ----------------------------------------------------------------------------------
def protect(text):
    lits, out, i = [], [], 0
    while i < len(text):
        c = text[i]
        if c in "\"'":
            j = _skip_lit(text, i)
            lit = text[i:j]
            if lit == '""':
                out.append("\x01E\x01")
            else:
                lits.append(lit)
                out.append("\x01L%d\x01" % (len(lits) - 1))
            i = j
        else:
            out.append(c)
            i += 1
    return "".join(out), lits


def restore(text, lits):
    return re.sub("\x01(E|L\\d+)\x01", lambda m: '""' if m.group(1) == "E" else lits[int(m.group(1)[1:])], text)


ID = r"[A-Za-z_]\w*"
NPOS = r"(?:std\s*::\s*string\s*::\s*npos|std\s*::\s*string\s*::\s*size_type\s*\(\s*-\s*1\s*\)|string\s*::\s*npos)"


def subst(text, name, repl):
    """replace the identifier `name` (not a member name, not inside a literal) by repl"""
    p, lits = protect(text)
    p = re.sub(r"(?<![\w.])(?<!->)(?<!::)" + re.escape(name) + r"\b(?!\s*::)", lambda m: repl, p)
    return restore(p, [l for l in lits])


def mentions(text, name):
    p, _ = protect(text)
    return re.search(r"(?<![\w.])(?<!->)(?<!::)" + re.escape(name) + r"\b", p) is not None


def _top_level_ops(e):
    """does the expression contain an operator outside brackets (then it needs parentheses when substituted)?"""
    p, _ = protect(e)
    depth, i = 0, 0
    while i < len(p):
        c = p[i]
        if c in "([{":
            depth += 1
        elif c in ")]}":
            depth -= 1
        elif depth == 0:
            if p.startswith("::", i) or p.startswith("->", i):
                i += 2
                continue
            if c in "+-*/%<>=!&|?:,^~" or c.isspace() and False:
                return True
        i += 1
    return False


def paren(e):
    e = e.strip()
    return "(" + e + ")" if _top_level_ops(e) else e


PURE_CALLS = {"rtrim", "ltrim", "substr", "size", "length", "empty", "back", "front", "c_str", "at", "string", "size_t",
              "min", "max"}


def is_pure(e):
    """built from identifiers, literals, arithmetic, indexing and calls of side-effect-free functions only"""
    p, _ = protect(e)
    if re.search(r"(?<![=!<>])=(?!=)|\+\+|--|<<|>>|\+=|-=|\bnew\b|\bdelete\b|\bthrow\b", p):
        return False
    for m in re.finditer(r"(" + ID + r")\s*\(", p):
        if m.group(1) not in PURE_CALLS:
            return False
    return True


def free_vars(e):
    p, _ = protect(e)
    vs = set()
    for m in re.finditer(r"(?<![\w.])(?<!->)(?<!::)(" + ID + r")\b(?!\s*(?:\(|::))", p):
        if m.group(1) not in ("std", "true", "false", "NULL", "npos", "size_t", "string"):
            vs.add(m.group(1))
    return vs


def modifies(text, v):
    """may `text` change the variable v?  (conservative: unknown calls that receive v count as changes)"""
    p, _ = protect(text)
    V = r"(?<![\w.])(?<!->)(?<!::)" + re.escape(v) + r"\b"
    if re.search(V + r"\s*(?:\[[^\]]*\]\s*)?(?:=(?!=)|\+=|-=|\*=|/=|%=|\+\+|--|<<=|>>=)", p):
        return True
    if re.search(r"(?:\+\+|--)\s*" + V, p) or re.search(r">>\s*\*?\s*" + V, p):
        return True
    if re.search(V + r"\s*(?:\.|->)\s*(?:push_back|emplace_back|insert|erase|clear|append|assign|resize|pop_back|swap|imbue|"
                 r"reserve|replace|get|ignore|read|seekg|unget|putback|setstate)\b", p):
        return True
    if re.search(r"(?<!&)&\s*" + V, p):
        return True
    for m in re.finditer(r"(" + ID + r")\s*\(", p):
        if m.group(1) in PURE_CALLS or m.group(1) in ("if", "while", "for", "switch", "return", "hasKey", "hasSub", "count",
                                                      "find", "DUNE_THROW", "sizeof", "find_first_of", "find_first_not_of",
                                                      "find_last_not_of", "find_last_of", "parse"):
            continue
        try:
            q = _match(p, m.end() - 1)
        except TranslateError:
            return True
        if re.search(V, p[m.end():q]):
            return True
    return False


# ---- rule 0: token canon --------------------------------------------------------------------------------------
_CTX_OK = re.compile(r"(?:^|[(&|!,=?:;{]|\breturn)\s*$")


def _commute(p):
    """`literal == expr` -> `expr == literal` (also !=; literal = string/char literal, number, NULL, npos)"""
    L = r"(?:\x01(?:E|L\d+)\x01|" + NPOS + r"|NULL|\d+)"
    pos = 0
    while True:
        m = re.compile(r"(" + L + r")\s*(==|!=)\s*").search(p, pos)
        if not m:
            return p
        pos = m.end()
        if not _CTX_OK.search(p[:m.start()]):
            continue
        j, ok = m.end(), True
        while j < len(p):
            c = p[j]
            if c in "([":
                j = _match(p, j) + 1
                continue
            if c in ")],;?" or p.startswith("&&", j) or p.startswith("||", j) or p.startswith("==", j) or p.startswith("!=", j):
                break
            if c == ":" and not (p.startswith("::", j) or p[j - 1] == ":"):
                break
            if c in "<>" and not p.startswith("->", j - 1):
                ok = False
                break
            j += 1
        rhs = p[m.end():j].strip()
        if not ok or not rhs or re.fullmatch(L, rhs):
            continue
        new = rhs + " " + m.group(2) + " " + m.group(1)
        p = p[:m.start()] + new + p[j:]
        pos = m.start() + len(new)


def canon_tokens(text):
    p, lits = protect(text)
    p = re.sub(r"\bnot\b", "!", p)
    p = re.sub(r"\band\b", "&&", p)
    p = re.sub(r"\bor\b", "||", p)
    p = re.sub(r"\bthis\s*->\s*", "", p)
    p = re.sub(r"\bnullptr\b", "NULL", p)
    p = re.sub(r"\bstatic_cast\s*<\s*([\w:]+(?:\s+[\w:]+)*)\s*>\s*\(", lambda m: re.sub(r"\s+", " ", m.group(1)) + "(" if " " not in m.group(1).strip() else m.group(0), p)
    p = re.sub(r"^\s*const\s+(?=[\w:])", "", p)                      # `const T x = …` as a local declaration
    p = re.sub(r"^(\s*)(static\s+)const\s+(?=[\w:])", r"\1\2", p)
    p = _commute(p)
    X = r"(?<![\w.>:\]\)])(" + ID + r")"
    SZ = r"\s*\.\s*(?:size|length)\s*\(\s*\)"
    E = "\x01E\x01"

    def rep(neg):
        def f(m):
            if not re.search(r"(?:^|[(&|!,=?:;{]|\breturn)\s*$", p_cur[0][:m.start()]):
                return m.group(0)
            return ("!" if neg else "") + m.group(1) + ".empty()"
        return f
    p_cur = [p]
    for rx, neg in ((X + SZ + r"\s*==\s*0\b", False), (X + r"\s*==\s*" + E, False),
                    (X + r"\s*==\s*std\s*::\s*string\s*\(\s*\)", False),
                    (X + SZ + r"\s*(?:!=\s*0|>\s*0|>=\s*1)\b", True), (X + r"\s*!=\s*" + E, True),
                    (X + r"\s*!=\s*std\s*::\s*string\s*\(\s*\)", True)):
        p_cur[0] = re.sub(rx, rep(neg), p_cur[0])
    p = p_cur[0]
    p = re.sub(r"!\s*!\s*(" + ID + r"\s*\.\s*empty\s*\(\s*\))", r"\1", p)
    return restore(p, lits)



# ---- conditions compared as Boolean functions of their atoms (De Morgan, double negation, commuted operands) ----
def _atom(atom, lits):
    a = re.sub(r"\s+", "", restore(atom, lits))
    depth, cut = 0, None
    for i, ch in enumerate(a):
        if ch in "([{":
            depth += 1
        elif ch in ")]}":
            depth -= 1
        elif depth == 0 and a[i:i + 2] in ("==", "!=") and cut is None:
            cut = i
    if cut is not None:
        l, op, r = a[:cut], a[cut:cut + 2], a[cut + 2:]
        l, r = _strip_parens(l), _strip_parens(r)
        at = None
        for x, y in ((l, r), (r, l)):
            if y in ('""', "std::string()") or (y == "0" and re.search(r"\.(size|length)\(\)$", x)):
                at = ("atom", re.sub(r"\.(size|length)\(\)$", "", x) + ".empty()")
        if at is None:
            at = ("atom", "==".join(sorted([l, r])))
        return at if op == "==" else ("not", at)
    m = re.fullmatch(r"([\w\[\].]+)(<=|>=|<|>)([\w\[\].]+)", a)
    if m:
        l, op, r = m.groups()
        return {"<": ("atom", l + "<" + r), ">": ("atom", r + "<" + l), "<=": ("not", ("atom", r + "<" + l)),
                ">=": ("not", ("atom", l + "<" + r))}[op]
    return ("atom", a)


def bool_parse(e, what="condition"):
    p, lits = protect(e)
    pos = [0]

    def ws():
        while pos[0] < len(p) and p[pos[0]].isspace():
            pos[0] += 1

    def p_or():
        l = p_and()
        ws()
        while p.startswith("||", pos[0]):
            pos[0] += 2
            l = ("or", l, p_and())
            ws()
        return l

    def p_and():
        l = p_not()
        ws()
        while p.startswith("&&", pos[0]):
            pos[0] += 2
            l = ("and", l, p_not())
            ws()
        return l

    def p_not():
        ws()
        if p.startswith("!", pos[0]) and not p.startswith("!=", pos[0]):
            pos[0] += 1
            return ("not", p_not())
        if p[pos[0]:pos[0] + 1] == "(":
            q = _match(p, pos[0])
            k = q + 1
            while k < len(p) and p[k].isspace():
                k += 1
            if k >= len(p) or p.startswith("&&", k) or p.startswith("||", k) or p[k] == ")":
                save = pos[0]
                pos[0] += 1
                inner = p_or()
                ws()
                if pos[0] == q:
                    pos[0] = q + 1
                    return inner
                pos[0] = save
        j = pos[0]
        while j < len(p):
            c = p[j]
            if c in "([":
                j = _match(p, j) + 1
                continue
            if c == ")" or p.startswith("&&", j) or p.startswith("||", j):
                break
            j += 1
        atom = p[pos[0]:j].strip()
        pos[0] = j
        if not atom:
            raise TranslateError("%s: cannot read %r" % (what, e))
        return _atom(atom, lits)

    t = p_or()
    ws()
    if pos[0] != len(p):
        raise TranslateError("%s: cannot read %r" % (what, e))
    return t


def bool_atoms(t, acc=None):
    acc = set() if acc is None else acc
    if t[0] == "atom":
        acc.add(t[1])
    else:
        for x in t[1:]:
            bool_atoms(x, acc)
    return acc


def bool_eval(t, env):
    if t[0] == "atom":
        return env[t[1]]
    if t[0] == "not":
        return not bool_eval(t[1], env)
    if t[0] == "and":
        return bool_eval(t[1], env) and bool_eval(t[2], env)
    return bool_eval(t[1], env) or bool_eval(t[2], env)


def bool_same(t1, t2):
    """same Boolean function of the atoms (no side effects in conditions the translator accepts: atoms are calls of
    const observers / comparisons)"""
    atoms = sorted(bool_atoms(t1) | bool_atoms(t2))
    if len(atoms) > 8:
        return False
    for k in range(1 << len(atoms)):
        env = {a: bool(k >> i & 1) for i, a in enumerate(atoms)}
        if bool_eval(t1, env) != bool_eval(t2, env):
            return False
    return True


def bool_eval_sc(t, env, trace):
    """evaluation with the short-circuit rules of && and ||; trace = atoms in the order they are evaluated"""
    if t[0] == "atom":
        trace.append((t[1], env[t[1]]))
        return env[t[1]]
    if t[0] == "not":
        return not bool_eval_sc(t[1], env, trace)
    if t[0] == "and":
        return bool_eval_sc(t[1], env, trace) and bool_eval_sc(t[2], env, trace)
    return bool_eval_sc(t[1], env, trace) or bool_eval_sc(t[2], env, trace)


def guards_hold(t, guards):
    """guards = [(guard atom, value, guarded atom)]: whenever the guarded atom is evaluated, the guard atom has been
    evaluated before with that value (operands of && / || may not be commuted when one protects the other)"""
    atoms = sorted(bool_atoms(t))
    for k in range(1 << len(atoms)):
        env = {a: bool(k >> i & 1) for i, a in enumerate(atoms)}
        trace = []
        bool_eval_sc(t, env, trace)
        for g, val, d in guards:
            for idx, (a, _) in enumerate(trace):
                if a == d and (g, val) not in trace[:idx]:
                    return False
    return True


def cond_is(cond, expected, what="condition", guards=()):
    t = bool_parse(cond, what)
    gs = []
    for g, val, d in guards:
        ga, da = bool_parse(g, what), bool_parse(d, what)
        # the expected sub-expressions are atoms, possibly negated
        while ga[0] == "not":
            ga, val = ga[1], not val
        while da[0] == "not":
            da = da[1]
        gs.append((ga[1], val, da[1]))
    return bool_same(t, bool_parse(expected, what)) and guards_hold(t, gs)


# ---- rule 1: private helper functions are inlined at their call sites -----------------------------------------
MODELLED = {"ltrim", "rtrim", "split", "parseRange", "parse", "hasKey", "hasSub", "sub", "get", "readINITree", "readOptions",
            "readNamedOptions", "generateHelpString", "report", "getValueKeys", "getSubKeys", "operator", "ParameterTree"}


def param_names(params):
    inner = params.strip()
    inner = inner[1:-1] if inner.startswith("(") else inner
    res = []
    for piece in split_args(inner):
        piece = piece.split("=")[0].strip()
        m = re.search(r"(" + ID + r")\s*(?:\[\s*\])?$", piece)
        res.append((m.group(1) if m else None, "&" in piece, piece))
    return res


def helper_shape(fn):
    """(statements before the return, return expression | None) if the body is straight-line code"""
    body = fn["tree"]
    if not body or any(n["k"] != "simple" for n in body):
        return None
    pre, last = body[:-1], body[-1]["t"]
    if any(re.match(r"return\b", n["t"]) for n in pre):
        return None
    m = re.match(r"return\b\s*(.*)$", last, flags=re.S)
    if m:
        return [n["t"] for n in pre], m.group(1).strip()
    return [n["t"] for n in body], None


def inline_pure_calls(text, pure_helpers):
    """calls of helpers that consist of `return <side-effect-free expression>;` are replaced by that expression,
    wherever they occur, when the arguments are side-effect free as well"""
    for _ in range(8):
        p, lits = protect(text)
        hit = None
        for m in re.finditer(r"(?<![\w.>:])(" + ID + r")\s*\(", p):
            if m.group(1) in pure_helpers:
                hit = m
                break
        if not hit:
            return text
        h = pure_helpers[hit.group(1)]
        q = _match(p, hit.end() - 1)
        args = [restore(a, lits) for a in split_args(p[hit.end():q])]
        pars = param_names(h["params"])
        if len(args) != len(pars) or any(pn is None for pn, _, _ in pars) or not all(is_pure(a) for a in args):
            return text
        e = h["ret"]
        for idx, (pn, _, _) in enumerate(pars):
            e = subst(e, pn, "\x02P%d\x02" % idx)
        for idx, a in enumerate(args):
            e = e.replace("\x02P%d\x02" % idx, paren(a))
        text = restore(p[:hit.start(1)], lits) + "(" + e + ")" + restore(p[q + 1:], lits)
    return text


def inline_helpers(nodes, helpers, scope_text):
    """replace calls of straight-line helpers: the helper's statements are placed in front of the statement whose
    FIRST evaluated operation is the call (if-condition / return / initialiser / expression statement); reference
    parameters must be bound to plain variables, value parameters must not be changed by the helper"""
    out = []
    for n in nodes:
        if n["k"] not in ("simple", "if"):
            if n["k"] != "raw" and n["k"] != "label":
                n["b"] = inline_helpers(n["b"], helpers, scope_text)
            out.append(n)
            continue
        if n["k"] == "if":
            n["b"] = inline_helpers(n["b"], helpers, scope_text)
            if n["e"] is not None:
                n["e"] = inline_helpers(n["e"], helpers, scope_text)
        field = "c" if n["k"] == "if" else "t"
        for _ in range(4):
            p, lits = protect(n[field])
            lead = r"(?:return\b\s*|(?:[\w:<>,&*\s]+?\s)?" + ID + r"\s*=(?!=)\s*)?" if n["k"] == "simple" else ""
            m = re.match(r"\s*" + lead + r"(?:[!(]\s*)*(" + ID + r")\s*\(", p)
            if not m or m.group(1) not in helpers:
                break
            h = helpers[m.group(1)]
            shape = helper_shape(h)
            if shape is None:
                break
            q = _match(p, m.end() - 1)
            args = split_args(p[m.end():q])
            pars = param_names(h["params"])
            if len(args) != len(pars) or any(a is None for a, _, _ in pars):
                break
            pre, ret = shape
            if ret is None and not re.fullmatch(r"\s*" + ID + r"\s*\(.*\)\s*", p, flags=re.S):
                break
            if len(re.findall(r"(?<![\w.>:])" + m.group(1) + r"\s*\(", p)) != 1:
                break
            ok = True
            for (pn, byref, _), a in zip(pars, args):
                if not re.fullmatch(ID + r"|\x01(?:E|L\d+)\x01|\d+", a):
                    ok = False
                if not byref and any(modifies(t, pn) for t in pre + [ret or ""]):
                    ok = False
            if not ok:
                break
            # locals of the helper must not capture names of the caller
            ren = {}
            for t in pre:
                dm = re.match(r"(?:[\w:<>,\s&*]+?)\s+(" + ID + r")\s*(?:=(?!=)|$|\(|\{)", t)
                if dm and not re.match(r"return\b", t):
                    nm = dm.group(1)
                    if mentions(scope_text, nm) or nm in [restore(a, lits) for a in args]:
                        k = 1
                        while mentions(scope_text, "%s_%d" % (nm, k)):
                            k += 1
                        ren[nm] = "%s_%d" % (nm, k)

            def inst(t):
                tmp = {}
                for idx, ((pn, _, _), a) in enumerate(zip(pars, args)):
                    tmp[pn] = "\x02P%d\x02" % idx
                for nm, new in ren.items():
                    t = subst(t, nm, new)
                for pn, ph in tmp.items():
                    t = subst(t, pn, ph)
                for idx, a in enumerate(args):
                    t = t.replace("\x02P%d\x02" % idx, restore(a, lits))
                return t
            for t in pre:
                out.append({"k": "simple", "t": inst(t)})
                scope_text += "\n" + inst(t) + ";"
            if ret is None:
                n = None
                break
            newp = p[:m.start(1)] + "(" + "\x03" + ")" + p[q + 1:]
            n[field] = restore(newp, lits).replace("\x03", inst(ret))
        if n is not None:
            out.append(n)
    return out


# ---- rule 2: structure ----------------------------------------------------------------------------------------
def ends_in_jump(body):
    if not body:
        return False
    last = body[-1]
    if last["k"] == "simple":
        return re.match(r"(return\b|throw\b|DUNE_THROW\s*\(|continue\b|break\b)", last["t"]) is not None
    if last["k"] == "block":
        return ends_in_jump(last["b"])
    if last["k"] == "if":
        return last["e"] is not None and ends_in_jump(last["b"]) and ends_in_jump(last["e"])
    return False


def _split_ternary(e):
    p, lits = protect(e)
    depth, q, c = 0, None, None
    for i, ch in enumerate(p):
        if ch in "([{":
            depth += 1
        elif ch in ")]}":
            depth -= 1
        elif depth == 0 and ch == "?" and q is None:
            q = i
        elif depth == 0 and ch == ":" and q is not None and not (p.startswith("::", i) or p[i - 1] == ":"):
            c = i
            break
    if q is None or c is None or "?" in p[c:]:
        return None
    return restore(p[:q], lits).strip(), restore(p[q + 1:c], lits).strip(), restore(p[c + 1:], lits).strip()


def _strip_parens(e):
    e = e.strip()
    while e.startswith("(") and _match(e, 0) == len(e) - 1:
        e = e[1:-1].strip()
    return e


def _canon_steps(hdr_step):
    steps = []
    for s in split_args(hdr_step):
        s = re.sub(r"\s+", "", s)
        m = re.fullmatch(r"(" + ID + r")\+\+|\+\+(" + ID + r")|(" + ID + r")\+=1", s)
        steps.append("++" + (m.group(1) or m.group(2) or m.group(3)) if m else s)
    return steps


def _for_parts(c):
    p, lits = protect(c)
    depth, cuts = 0, []
    for i, ch in enumerate(p):
        if ch in "([{":
            depth += 1
        elif ch in ")]}":
            depth -= 1
        elif ch == ";" and depth == 0:
            cuts.append(i)
    if len(cuts) != 2:
        return None
    return [restore(x, lits).strip() for x in (p[:cuts[0]], p[cuts[0] + 1:cuts[1]], p[cuts[1] + 1:])]


def _has_word(nodes, words):
    return re.search(r"\b(?:" + "|".join(words) + r")\b", protect(tree_text(nodes))[0]) is not None


def negate(c):
    c = _strip_parens(c)
    m = re.fullmatch(r"!\s*(\(.*\))", c, flags=re.S)
    if m and _match(m.group(1), 0) == len(m.group(1)) - 1:
        return _strip_parens(m.group(1))
    m = re.fullmatch(r"!\s*([\w.:]+(?:\s*\([^()]*\))?)", c)
    if m:
        return m.group(1)
    m = re.fullmatch(r"(" + ID + r")\s*(==|!=)\s*(" + NPOS + r"|NULL|\d+)", c)
    if m:
        return "%s %s %s" % (m.group(1), "!=" if m.group(2) == "==" else "==", m.group(3))
    return "!(" + c + ")"


def _is_only(body, word):
    return len(body) == 1 and body[0]["k"] == "simple" and body[0]["t"].strip() == word


def structure(nodes, loop_body=False):
    out = []
    for idx, n in enumerate(nodes):
        k = n["k"]
        if k == "if" and n["e"] is None and idx + 1 < len(nodes):
            cnd = _strip_parens(n["c"])
            # guard clauses: `if (x == npos) { …jump } rest`  ==  `if (x != npos) { rest } else { …jump }`   (rest ends in a jump)
            #                `if (c) continue; rest` as the tail of a loop body  ==  `if (!c) { rest }`
            m = re.fullmatch(r"(" + ID + r")\s*==\s*" + NPOS, cnd) or re.fullmatch(r"!\s*\(\s*(" + ID + r")\s*!=\s*" + NPOS + r"\s*\)", cnd)
            rest = nodes[idx + 1:]
            if m and ends_in_jump(n["b"]) and ends_in_jump(rest) and not any(x["k"] == "label" for x in rest):
                out += structure([{"k": "if", "c": m.group(1) + " != std::string::npos", "b": rest, "e": n["b"]}], loop_body)
                return out
            if loop_body and _is_only(n["b"], "continue") and not any(x["k"] == "label" for x in rest):
                out += structure([{"k": "if", "c": negate(cnd), "b": rest, "e": None}], False)
                return out
        if k in ("block", "while", "for", "switch", "if"):
            n["b"] = structure(n["b"], k in ("while", "for"))
            if n.get("e") is not None:
                n["e"] = structure(n["e"])
        if k == "simple":
            # `return c ? a : b;`  ==  `if (c) return a; return b;`
            m = re.match(r"return\b(.*)$", n["t"], flags=re.S)
            tern = _split_ternary(m.group(1)) if m else None
            if tern:
                out.append({"k": "if", "c": _strip_parens(tern[0]), "b": [{"k": "simple", "t": "return " + tern[1]}], "e": None})
                out.append({"k": "simple", "t": "return " + tern[2]})
                continue
        if k == "if":
            n["c"] = _strip_parens(n["c"])
            # a search result compared with npos: the `found` branch comes first
            m = re.fullmatch(r"(" + ID + r")\s*==\s*" + NPOS, n["c"])
            if m and n["e"] is not None:
                n["c"], n["b"], n["e"] = m.group(1) + " != std::string::npos", n["e"], n["b"]
            m = re.fullmatch(r"!\s*\(\s*(" + ID + r")\s*(==|!=)\s*" + NPOS + r"\s*\)", n["c"])
            if m:
                n["c"] = m.group(1) + (" != " if m.group(2) == "==" else " == ") + "std::string::npos"
            # `if (c) jump; else rest`  ==  `if (c) jump; rest`
            if n["e"] is not None and ends_in_jump(n["b"]):
                rest, n["e"] = n["e"], None
                out.append(n)
                if any(x["k"] == "simple" and re.match(r"(?:[\w:<>,&*\s]+?\s)" + ID + r"\s*(?:=(?!=)|$|\(|\{)", x["t"])
                       and not re.match(r"(return|throw|delete|else|goto)\b", x["t"]) for x in rest):
                    out.append({"k": "block", "b": rest})
                else:
                    out += rest
                continue
        if k == "for":
            parts = _for_parts(n["c"])
            if parts:
                mg = re.fullmatch(r"([\w.\[\]]+(?:\(\s*\w*\s*\))?)\s*(>=?)\s*(" + ID + r")", parts[1].strip())
                if mg:   # `bound > i`  ==  `i < bound`
                    parts[1] = "%s %s %s" % (mg.group(3), "<" if mg.group(2) == ">" else "<=", mg.group(1))
                n["c"] = "%s; %s; %s" % (parts[0], parts[1], ", ".join(sorted(_canon_steps(parts[2]))) if parts[2] else "")
                # the counter of an index loop is called `i`
                mc = re.fullmatch(r"((?:[\w:]+\s+)+)(" + ID + r")\s*=\s*(\d+)", parts[0])
                if mc and mc.group(2) != "i" and re.match(mc.group(2) + r"\s*<", parts[1]) and not _has_word([n], ["i"]):
                    cn = mc.group(2)
                    n["c"] = subst(n["c"], cn, "i")
                    map_text(n["b"], lambda t: subst(t, cn, "i"))
                    parts = _for_parts(n["c"])
                # iterator loop over a named sequence == index loop, when the iterator is only dereferenced
                mi = re.fullmatch(r"(?:auto|[\w:<>,\s]*iterator)\s+(" + ID + r")\s*=\s*(" + ID + r")\s*\.\s*c?begin\s*\(\s*\)", parts[0])
                if mi:
                    itn, seq = mi.group(1), mi.group(2)
                    btxt = protect(tree_text(n["b"]))[0]
                    uses = len(re.findall(r"(?<![\w.])" + itn + r"\b", btxt))
                    derefs = len(re.findall(r"\*\s*" + itn + r"\b(?!\s*[\[(.+-])", btxt)) + len(re.findall(r"(?<![\w.])" + itn + r"\s*->", btxt))
                    if (re.fullmatch(itn + r"\s*!=\s*" + seq + r"\s*\.\s*c?end\s*\(\s*\)", parts[1]) and _canon_steps(parts[2]) == ["++" + itn]
                            and uses == derefs and not _has_word(n["b"], ["i"]) and not modifies(tree_text(n["b"]), seq)):
                        def deit(t):
                            q, lits = protect(t)
                            q = re.sub(r"\(\s*\*\s*" + itn + r"\s*\)(?=\s*\.)", seq + "[i]", q)
                            q = re.sub(r"\*\s*" + itn + r"\b", seq + "[i]", q)
                            q = re.sub(r"(?<![\w.])" + itn + r"\s*->\s*", seq + "[i].", q)
                            return restore(q, lits)
                        map_text(n["b"], deit)
                        n["c"] = "std::size_t i=0; i<%s.size(); ++i" % seq
            else:
                # range-for over a named sequence == index loop whose counter is used for nothing but `seq[i]`
                m = re.fullmatch(r"(.*?)\b(" + ID + r")\s*:\s*(" + ID + r")", n["c"], flags=re.S)
                if m and not _has_word(n["b"], ["i"]) and not modifies(tree_text(n["b"]), m.group(3)) \
                        and not modifies(tree_text(n["b"]), m.group(2)):
                    el, seq = m.group(2), m.group(3)
                    map_text(n["b"], lambda t: subst(t, el, seq + "[i]"))
                    n["c"] = "std::size_t i=0; i<%s.size(); ++i" % seq
        if k == "while" and n["b"] and not _has_word(n["b"], ["continue"]):
            # `while (c) { body; ++x; ++y; }`  ==  `for (; c; ++x, ++y) { body }`
            steps = []
            while len(n["b"]) > 1 and n["b"][-1]["k"] == "simple":
                st = _canon_steps(n["b"][-1]["t"])
                if len(st) == 1 and re.fullmatch(r"\+\+" + ID, st[0]):
                    steps.append(st[0])
                    n["b"].pop()
                else:
                    break
            if steps:
                n = {"k": "for", "c": "; %s; %s" % (n["c"], ", ".join(sorted(steps))), "b": n["b"]}
        out.append(n)
    return out


# ---- rule 3: data flow ----------------------------------------------------------------------------------------
_DECL = re.compile(r"((?:static\s+)?[\w:<>,&*\s]+?[\s&*])(" + ID + r")\s*=(?!=)\s*(.*)$", re.S)
_ASSIGN = re.compile(r"(" + ID + r")\s*=(?!=)\s*(.*)$", re.S)


def dataflow(nodes, keep):
    for n in nodes:
        if n["k"] in ("block", "while", "for", "switch", "if"):
            n["b"] = dataflow(n["b"], keep)
            if n.get("e") is not None:
                n["e"] = dataflow(n["e"], keep)
    changed = True
    while changed:
        changed = False
        for j, n in enumerate(nodes):
            if n["k"] != "simple":
                continue
            # (a) `T = E; while (c[T]) { …; T = E; } after[T]`  ==  the same with E written for T
            dm = _DECL.fullmatch(n["t"]) or None
            am = _ASSIGN.fullmatch(n["t"])
            if j + 1 < len(nodes) and nodes[j + 1]["k"] == "while" and dm and is_pure(dm.group(3)):
                T, E, w = dm.group(2), dm.group(3).strip(), nodes[j + 1]
                wb = w["b"]
                Ek = re.sub(r"\s+", "", E)
                if (mentions(w["c"], T) and wb and wb[-1]["k"] == "simple" and _ASSIGN.fullmatch(wb[-1]["t"])
                        and _ASSIGN.fullmatch(wb[-1]["t"]).group(1) == T
                        and re.sub(r"\s+", "", _ASSIGN.fullmatch(wb[-1]["t"]).group(2)) == Ek
                        and not mentions(tree_text(wb[:-1]), T) and not _has_word(wb[:-1], ["continue", "break", "goto"])
                        and not mentions(E, T)):
                    vs = free_vars(E)
                    rest, okr, stop = nodes[j + 2:], True, False
                    plan = []
                    for r in rest:
                        txt = tree_text([r])
                        if stop:
                            if mentions(txt, T):
                                okr = False
                            continue
                        if not any(modifies(txt, v) for v in vs):
                            plan.append((r, "all"))
                            continue
                        ra = _ASSIGN.fullmatch(r["t"]) if r["k"] == "simple" else None
                        if ra and ra.group(1) in vs and not any(modifies(ra.group(2), v) for v in vs):
                            plan.append((r, "rhs"))
                            stop = True
                        elif mentions(txt, T):
                            okr = False
                        else:
                            stop = True
                    if okr:
                        w["c"] = subst(w["c"], T, paren(E))
                        w["b"] = wb[:-1]
                        for r, how in plan:
                            if how == "all":
                                map_text([r], lambda t: subst(t, T, paren(E)))
                            else:
                                ra = _ASSIGN.fullmatch(r["t"])
                                r["t"] = ra.group(1) + " = " + subst(ra.group(2), T, paren(E))
                        del nodes[j]
                        changed = True
                        break
            # (b) `X = E; X = G[X];`  ==  `X = G[E];`
            if am and j + 1 < len(nodes) and nodes[j + 1]["k"] == "simple":
                X, E = am.group(1), am.group(2).strip()
                a2 = _ASSIGN.fullmatch(nodes[j + 1]["t"])
                if a2 and a2.group(1) == X and is_pure(E) and is_pure(a2.group(2)) and mentions(a2.group(2), X):
                    nodes[j + 1]["t"] = X + " = " + subst(a2.group(2), X, paren(E))
                    del nodes[j]
                    changed = True
                    break
            # (c) a local that is initialised once from a side-effect-free expression and never changed is written out
            if dm and dm.group(2) not in keep and is_pure(dm.group(3)) and not re.match(r"\s*static\b", dm.group(1)) \
                    and "&" not in dm.group(1).replace("&&", ""):
                T, E = dm.group(2), dm.group(3).strip()
                rest = nodes[j + 1:]
                uses = [i for i, r in enumerate(rest) if mentions(tree_text([r]), T)]
                ident = re.search(r"(?<![\w.])" + re.escape(T) + r"\s*\.\s*(?:begin|end|data|c_str|rbegin|rend)\b|&\s*" + re.escape(T) + r"\b",
                                  tree_text(rest))
                if uses and not ident and not modifies(tree_text(rest), T) and not mentions(E, T):
                    lastn = rest[uses[-1]]
                    if lastn["k"] == "if" and not mentions(tree_text(lastn["b"] + (lastn["e"] or [])), T):
                        # the condition of an `if` is evaluated once, before its branches
                        span = tree_text(rest[:uses[-1]]) + "\n" + lastn["c"]
                    else:
                        span = tree_text(rest[:uses[-1] + 1])
                    if not any(modifies(span, v) for v in free_vars(E)):
                        map_text(rest[:uses[-1] + 1], lambda t: subst(t, T, paren(E)))
                        del nodes[j]
                        changed = True
                        break
    return nodes


# ---- rule 4: locals that play a modelled role get the model's name (alpha-renaming) --------------------------
ROLES = [
    ("readINITree", r"std::set\s*<\s*std::string\s*>\s+(?P<n>\w+)\s*;", "keysInFile"),
    ("readINITree", r"std::string\s+(?P<n>\w+)\s*;\s*(?:std::)?getline\s*\(\s*in\s*,\s*(?P=n)\s*\)\s*;\s*(?P=n)\s*=\s*ltrim\b", "line"),
    ("readINITree", r"^\s*(?P<n>\w+)\s*=\s*(?:[lr]trim\s*\(\s*)+line\s*\.\s*substr\s*\(", "prefix"),
    ("readINITree", r"std::string\s+(?P<n>\w+)\s*=\s*prefix\s*\+", "key"),
    ("readINITree", r"std::string\s+(?P<n>\w+)\s*=\s*(?:[lr]trim\s*\(\s*)*line\s*\.\s*substr\s*\(", "value"),
    ("readINITree", r"char\s+(?P<n>\w+)\s*=\s*value\s*\[\s*0\s*\]\s*;", "quote"),
    ("readINITree", r"std::string\s+(?P<n>\w+)\s*;\s*(?:std::)?getline\s*\(\s*in\s*,\s*(?P=n)\s*\)\s*;\s*value\s*(?:=\s*value\s*\+|\+=)", "l"),
    ("readNamedOptions", r"std::string\s+(?P<n>\w+)\s*=\s*argv\s*\[\s*i\s*\]\s*;", "opt"),
    ("readNamedOptions", r"(?:std::)?size_t\s+(?P<n>\w+)\s*=\s*opt\s*\.\s*find\s*\(", "pos"),
    ("readNamedOptions", r"std::string\s+(?P<n>\w+)\s*=\s*opt\s*\.\s*substr\s*\(\s*\d+\s*,", "key"),
    ("readNamedOptions", r"std::string\s+(?P<n>\w+)\s*=\s*opt\s*\.\s*substr\s*\(\s*(?:pos\s*\+\s*\d+|\d+\s*\+\s*pos)", "value"),
    ("parse", r"std::istringstream\s+(?P<n>\w+)\s*\(\s*str\s*\)\s*;", "s"),
    ("parseRange", r"std::istringstream\s+(?P<n>\w+)\s*\(\s*str\s*\)\s*;", "s"),
    ("parse", r"\bchar\s+(?P<n>\w+)\s*;\s*s\s*>>\s*(?P=n)\s*;", "dummy"),
    ("parseRange", r"\bchar\s+(?P<n>\w+)\s*;\s*s\s*>>\s*(?P=n)\s*;", "dummy"),
    ("parse", r"std::vector\s*<\s*std::string\s*>\s+(?P<n>\w+)\s*=\s*split\s*\(\s*str\s*\)\s*;", "sub"),
    ("parse", r"std::string\s+(?P<n>\w+)\s*=\s*str\s*;", "ret"),
    ("parse", r"std::vector\s*<\s*T\s*,\s*A\s*>\s+(?P<n>\w+)\s*;", "vec"),
]
PARAM_ROLES = {("hasKey", 1): ["key"], ("hasSub", 1): ["key"], ("sub", 1): ["key"], ("sub", 2): ["key", "fail_if_missing"],
               ("operator[]", 1): ["key"], ("get", 1): ["key"], ("get", 2): ["key", "defaultValue"], ("parse", 1): ["str"],
               ("parseRange", 3): ["str", "it", "end"], ("readINITree", 4): ["in", "pt", "srcname", "overwrite"],
               ("readOptions", 3): ["argc", "argv", "pt"], ("ltrim", 1): ["s"], ("rtrim", 1): ["s"], ("split", 1): ["s"],
               ("readNamedOptions", 8): ["argc", "argv", "pt", "keywords", "required", "allow_more", "overwrite", "help"]}
KEEP = {"key", "value", "line", "prefix", "quote", "l", "opt", "ret", "s", "sub", "val", "vec", "dummy", "pos", "dot", "mid",
        "comment", "it", "n", "i", "keysInFile"}


def rename_in_tree(nodes, old, new, what):
    if old == new:
        return
    if mentions(tree_text(nodes), new):
        raise TranslateError("%s: cannot rename `%s` to `%s` (name already in use)" % (what, old, new))
    map_text(nodes, lambda t: subst(t, old, new))


def normalise_body(fname, params, tree, helpers, pure_helpers):
    map_text(tree, canon_tokens)
    map_text(tree, lambda t: inline_pure_calls(t, {k: v for k, v in pure_helpers.items() if k != fname}))
    tree[:] = inline_helpers(tree, helpers, params + tree_text(tree))
    pn = param_names(params)
    want = PARAM_ROLES.get((fname, len(pn)))
    if want and all(p[0] for p in pn):
        # two-step renaming so that swapped names do not collide
        for idx, (p, _, _) in enumerate(pn):
            if p != want[idx]:
                if mentions(tree_text(tree), want[idx]) and want[idx] not in [q[0] for q in pn]:
                    raise TranslateError("%s: parameter `%s` cannot be renamed to `%s`" % (fname, p, want[idx]))
        tmp = ["\x04%d\x04" % i for i in range(len(pn))]
        for idx, (p, _, _) in enumerate(pn):
            if p != want[idx]:
                map_text(tree, lambda t, p=p, idx=idx: subst(t, p, tmp[idx]))
                params = subst(params, p, tmp[idx])
        for idx in range(len(pn)):
            map_text(tree, lambda t, idx=idx: t.replace(tmp[idx], want[idx]))
            params = params.replace(tmp[idx], want[idx])
    for fn, rx, canonical in ROLES:
        if fn != fname:
            continue
        m = re.search(rx, tree_text(tree), flags=re.S | re.M)
        if m:
            rename_in_tree(tree, m.group("n"), canonical, fname)
    tree[:] = structure(tree)
    tree[:] = dataflow(tree, KEEP)
    tree[:] = structure(tree)
    return params, tree


def find_functions(src):
    """(open brace, close brace, name, '(' of the parameter list, ')' of it) of every function definition outside
    function bodies"""
    res, i, n = [], 0, len(src)
    while i < n:
        c = src[i]
        if c in "\"'":
            i = _skip_lit(src, i)
            continue
        if c == "{":
            before = src[:i].rstrip()
            m = re.search(r"\)\s*(?:const)?\s*(?:noexcept)?\s*$", before)
            if m:
                close = before.rfind(")", 0, m.start() + 1)
                depth, k = 0, close
                while k >= 0:
                    if src[k] == ")":
                        depth += 1
                    elif src[k] == "(":
                        depth -= 1
                        if depth == 0:
                            break
                    k -= 1
                hm = re.search(r"(operator\s*\[\s*\]|operator\s*\(\s*\)|[\w~]+)\s*$", src[:k])
                if k >= 0 and hm and hm.group(1) not in ("if", "while", "for", "switch", "catch"):
                    j = _match(src, i)
                    res.append((i, j, re.sub(r"\s+", "", hm.group(1)), k, close))
                    i = j + 1
                    continue
        i += 1
    return res


def normalise_sources(srcs):
    """srcs: list of comment-stripped file texts -> the same files with every function body in normal form"""
    found = [find_functions(s) for s in srcs]
    helpers = {}
    for s, fs in zip(srcs, found):
        for (o, c, name, po, pc) in fs:
            if name not in MODELLED and not name.startswith("operator"):
                try:
                    tree = parse_stmts(s, o + 1, c)
                    map_text(tree, canon_tokens)
                except TranslateError:
                    continue
                if name in helpers:
                    helpers[name] = None      # overloaded: not inlined
                else:
                    helpers[name] = {"params": s[po:pc + 1], "tree": tree}
    helpers = {k: v for k, v in helpers.items() if v is not None}
    pure_helpers = {}
    for k, v in helpers.items():
        try:
            v["tree"] = dataflow(structure(v["tree"]), set())
        except TranslateError:
            pass
        sh = helper_shape(v)
        if sh and not sh[0] and sh[1] and is_pure(sh[1]) and not any(c in pure_helpers or c in helpers for c in
                                                                      re.findall(r"(" + ID + r")\s*\(", sh[1])):
            pure_helpers[k] = {"params": v["params"], "ret": sh[1]}
    helpers = {k: v for k, v in helpers.items() if helper_shape(v) is not None and k not in pure_helpers}
    outs = []
    for s, fs in zip(srcs, found):
        out, last = [], 0
        for (o, c, name, po, pc) in fs:
            tree = parse_stmts(s, o + 1, c)
            params, tree = normalise_body(name, s[po:pc + 1], tree, {k: v for k, v in helpers.items() if k != name}, pure_helpers)
            out += [s[last:po], params, s[pc + 1:o + 1], "\n", unparse(tree), "\n"]
            last = c
        out.append(s[last:])
        outs.append("".join(out))
    return outs


# ---------------------------------------------------------------------------------------------------------------
# boolean conditions over s.fail() / s.eof()
# ---------------------------------------------------------------------------------------------------------------
BTOK = re.compile(r"\s*(\|\||&&|!|\(|\)|\bnot\b|\bor\b|\band\b|s\s*\.\s*fail\s*\(\s*\)|s\s*\.\s*eof\s*\(\s*\)|s\s*\.\s*good\s*\(\s*\)|s\s*\.\s*bad\s*\(\s*\))")


def cond_to_lean(expr, what):
    toks, pos = [], 0
    e = expr.strip()
    while pos < len(e):
        m = BTOK.match(e, pos)
        if not m:
            raise TranslateError("%s: cannot read condition %r at %r" % (what, expr, e[pos:pos + 16]))
        t = re.sub(r"\s+", "", m.group(1))
        toks.append({"not": "!", "or": "||", "and": "&&"}.get(t, t))
        pos = m.end()
        while pos < len(e) and e[pos].isspace():
            pos += 1
    idx = [0]

    def peek():
        return toks[idx[0]] if idx[0] < len(toks) else None

    def eat(x=None):
        t = peek()
        if t is None or (x is not None and t != x):
            raise TranslateError("%s: condition %r: expected %r, found %r" % (what, expr, x, t))
        idx[0] += 1
        return t

    def p_or():
        l = p_and()
        while peek() == "||":
            eat()
            l = "(%s || %s)" % (l, p_and())
        return l

    def p_and():
        l = p_un()
        while peek() == "&&":
            eat()
            l = "(%s && %s)" % (l, p_un())
        return l

    def p_un():
        t = peek()
        if t == "!":
            eat()
            return "(!%s)" % p_un()
        if t == "(":
            eat()
            r = p_or()
            eat(")")
            return r
        eat()
        if t == "s.fail()":
            return "fail"
        if t == "s.eof()":
            return "eof"
        if t == "s.good()":
            return "(!fail && !eof)"
        raise TranslateError("%s: condition %r uses %s" % (what, expr, t))

    r = p_or()
    if peek() is not None:
        raise TranslateError("%s: trailing tokens in condition %r" % (what, expr))
    return r


def if_condition(text, start, what):
    """the parenthesised condition following text[start:] == 'if'"""
    m = re.match(r"\s*if\s*\(", text[start:])
    if not m:
        raise TranslateError("%s: `if (` expected" % what)
    depth, k = 0, start + m.end() - 1
    b = k
    while k < len(text):
        if text[k] == "(":
            depth += 1
        elif text[k] == ")":
            depth -= 1
            if depth == 0:
                return text[b + 1:k], k + 1
        k += 1
    raise TranslateError("%s: unbalanced condition" % what)


def eq_alternatives(cond, var, what):
    """`var == L1 || var == L2 ...` (any order, optional parentheses, also `L == var`) -> list of literal tokens"""
    parts = re.split(r"\|\||\bor\b", cond)
    res = []
    for p in parts:
        p = p.strip()
        while p.startswith("(") and p.endswith(")"):
            p = p[1:-1].strip()
        m = re.fullmatch(re.escape(var).replace(r"\ ", r"\s*") + r"\s*==\s*(" + LIT + r")", p) or \
            re.fullmatch(r"(" + LIT + r")\s*==\s*" + re.escape(var).replace(r"\ ", r"\s*"), p)
        if not m:
            raise TranslateError("%s: %r is not `%s == literal`" % (what, p, var))
        res.append(m.group(1))
    return res


# ---------------------------------------------------------------------------------------------------------------
def lean_chars(bs):
    return "[" + ", ".join("Char.ofNat %d" % b for b in bs) + "]"


def show(bs):
    return "".join(chr(b) if 32 < b < 127 and chr(b) not in "`" else "\\x%02x" % b for b in bs)


def charset(tok, what):
    return sorted(set(lit_bytes(tok, what)))


def translate(repo):
    def rd(p):
        with open(os.path.join(repo, p), encoding="latin-1") as fh:
            return strip_comments(fh.read())
    cc, hh, pc = normalise_sources([rd("dune/common/parametertree.cc"), rd("dune/common/parametertree.hh"),
                                    rd("dune/common/parametertreeparser.cc")])
    out = []
    A = out.append
    A("-- GENERATED by tools/translators/tr_c12.py from dune/common/parametertree.hh, parametertree.cc and")
    A("-- parametertreeparser.cc — do not edit; `python3 tools/regen.py C12` rewrites it.")
    A("-- Characters are byte codes (`Char.ofNat n`); character *sets* are sorted and free of duplicates.")
    A("namespace DV.C12.Gen")
    A("")

    # ---- 1. blank sets ------------------------------------------------------------------------------------
    A("/-! ## blank sets of ltrim / rtrim / split (both copies of ltrim/rtrim) -/")

    def trim_fn(src, cls, name, finder, lean_name):
        (body, _, _), = bodies(src, r"\b" + cls + r"::" + name + r"\s*\(", cls + "::" + name)[:1]
        m, = need(r"\.\s*" + finder + r"\s*\(\s*(" + LIT + r")\s*\)", body, "%s::%s %s" % (cls, name, finder), 1)
        cs = charset(m.group(1), cls + "::" + name)
        A("/-- `%s::%s`: `s.%s(%s)` -/" % (cls, name, finder, m.group(1)))
        A("def %s : List Char := %s" % (lean_name, lean_chars(cs)))
        var = re.search(r"(\w+)\s*=\s*s\s*\.\s*" + finder, body)
        if not var:
            raise TranslateError("%s::%s: result of %s is not stored in a variable" % (cls, name, finder))
        var = var.group(1)
        subs = substr_calls(body, "s", cls + "::" + name)
        if len(subs) != 1:
            raise TranslateError("%s::%s: expected exactly one s.substr call" % (cls, name))
        if name == "ltrim":
            if len(subs[0]) != 1:
                raise TranslateError("%s::ltrim: substr must have one argument" % cls)
            A("/-- `return s.substr(%s)`: offset of the first kept character relative to the first non-blank -/" % subs[0][0])
            A("def %sStart : Int := %d" % (lean_name, affine(subs[0][0], var, cls + "::ltrim substr")))
        else:
            if len(subs[0]) != 2 or affine(subs[0][0], None, cls + "::rtrim substr") != 0:
                raise TranslateError("%s::rtrim: substr(0, last+1) expected" % cls)
            A("/-- `return s.substr(0, %s)`: number of kept characters relative to the index of the last non-blank -/" % subs[0][1])
            A("def %sLen : Int := %d" % (lean_name, affine(subs[0][1], var, cls + "::rtrim substr")))
        # the "nothing but blanks" branch returns the empty string
        if not re.search(r"return\s+std::string\s*\(\s*\)\s*;|return\s+\"\"\s*;|return\s*\{\s*\}\s*;", body):
            raise TranslateError("%s::%s: the all-blank branch no longer returns an empty string" % (cls, name))

    trim_fn(pc, "ParameterTreeParser", "ltrim", "find_first_not_of", "blankParserLtrim")
    trim_fn(pc, "ParameterTreeParser", "rtrim", "find_last_not_of", "blankParserRtrim")
    trim_fn(cc, "ParameterTree", "ltrim", "find_first_not_of", "blankTreeLtrim")
    trim_fn(cc, "ParameterTree", "rtrim", "find_last_not_of", "blankTreeRtrim")
    (sb, _, _), = bodies(cc, r"\bParameterTree::split\s*\(", "ParameterTree::split")[:1]
    m1, = need(r"(?P<f>\w+)\s*=\s*s\s*\.\s*find_first_not_of\s*\(\s*(" + LIT + r")\s*,\s*(?P<b>\w+)\s*\)", sb, "split: front = find_first_not_of", 1)
    m2, = need(r"(?P<b>\w+)\s*=\s*s\s*\.\s*find_first_of\s*\(\s*(" + LIT + r")\s*,\s*(?P<f>\w+)\s*\)", sb, "split: back = find_first_of", 1)
    if m1.group("f") != m2.group("f") or m1.group("b") != m2.group("b") or m1.group("f") == m1.group("b") or m1.start() > m2.start():
        raise TranslateError("split: the two searches do not alternate between the same two cursors")
    A("/-- `ParameterTree::split`: `front = s.find_first_not_of(%s, back)` -/" % m1.group(2))
    A("def blankSplitSkip : List Char := %s" % lean_chars(charset(m1.group(2), "split")))
    A("/-- `ParameterTree::split`: `back = s.find_first_of(%s, front)` -/" % m2.group(2))
    A("def blankSplitStop : List Char := %s" % lean_chars(charset(m2.group(2), "split")))
    A("")

    # ---- 2. dotted-key descent ----------------------------------------------------------------------------
    A("/-! ## the dotted-key descent of hasKey / hasSub / sub / operator[] -/")
    fns = [("hasKey", r"\bParameterTree::hasKey\s*\(", None), ("hasSub", r"\bParameterTree::hasSub\s*\(", None),
           ("subMut", r"\bParameterTree::sub\s*\(", False), ("subConst", r"\bParameterTree::sub\s*\(", True),
           ("indexMut", r"\bParameterTree::operator\s*\[\s*\]\s*\(", False),
           ("indexConst", r"\bParameterTree::operator\s*\[\s*\]\s*\(", True)]
    seps = []
    for lname, head, const in fns:
        bs = bodies(cc, head, lname)
        if const is not None:
            bs = [b for b in bs if b[1] == const]
        if len(bs) != 1:
            raise TranslateError("ParameterTree::%s: %d definitions" % (lname, len(bs)))
        body = bs[0][0]
        m, = need(r"(\w+)\s*=\s*key\s*\.\s*find\s*\(\s*(" + LIT + r")\s*\)", body, lname + ": key.find", 1)
        var, sep = m.group(1), one_char(m.group(2), lname + ": separator")
        heads, tails = set(), set()
        for args in substr_calls(body, "key", lname):
            if len(args) == 2 and re.fullmatch(r"0", args[0]):
                heads.add(affine(args[1], var, lname + ": key.substr(0, …)"))
            elif len(args) == 1:
                tails.add(affine(args[0], var, lname + ": key.substr(…)"))
            else:
                raise TranslateError("%s: unexpected key.substr(%s)" % (lname, ", ".join(args)))
        if len(heads) != 1 or len(tails) != 1:
            raise TranslateError("%s: head/tail substr offsets not unique: %s %s" % (lname, heads, tails))
        # the descent is taken exactly when the separator was found
        fm_ = re.search(r"if\s*\(\s*" + var + r"\s*!=\s*(std::)?(string::)?(std::string::)?npos\s*\)\s*\{", body)
        if not fm_:
            raise TranslateError("%s: `if (%s != npos)` not found" % (lname, var))
        found_branch = block_at(body, fm_.end() - 1)
        outside = body.replace(found_branch, "", 1)
        for args in substr_calls(outside, "key", lname):
            if any(re.search(r"\b" + var + r"\b", a_) for a_ in args) and not lname.startswith("sub"):
                raise TranslateError("%s: key.substr(… %s …) outside the branch `%s != npos`" % (lname, var, var))
        if len(substr_calls(found_branch, "key", lname)) < 2:
            raise TranslateError("%s: head and tail of the key are not both taken in the branch `%s != npos`" % (lname, var))
        seps.append((lname, sep, heads.pop(), tails.pop()))
    A("/-- per function: separator found by `key.find(…)`, end of the first component `key.substr(0, dot+a)`, start of")
    A("    the remainder `key.substr(dot+b)` -/")
    A("def pathSplit : List (String × Char × Int × Int) :=")
    A("  [" + ",\n   ".join('("%s", Char.ofNat %d, %d, %d)' % s for s in seps) + "]")
    A("")

    # ---- 3. readINITree -----------------------------------------------------------------------------------
    A("/-! ## readINITree -/")
    rb = [b for b in bodies(pc, r"\bParameterTreeParser::readINITree\s*\(", "readINITree") if "getline" in b[0]]
    if len(rb) != 1:
        raise TranslateError("readINITree: %d definitions contain the line loop" % len(rb))
    body = rb[0][0]
    # switch on the first character of the left-trimmed line
    if not re.search(r"line\s*=\s*ltrim\s*\(\s*line\s*\)", body):
        raise TranslateError("readINITree: `line = ltrim(line)` not found")
    sw = re.search(r"switch\s*\(\s*line\s*\[\s*0\s*\]\s*\)\s*\{", body)
    if not sw:
        raise TranslateError("readINITree: `switch (line[0])` not found")
    swb = block_at(body, sw.end() - 1)
    labels = list(re.finditer(r"\bcase\s*(" + LIT + r")\s*:|\bdefault\s*:", swb))
    if not labels or labels[-1].group(0).split()[0].startswith("case"):
        raise TranslateError("readINITree: `default:` must be the last label of the switch")
    skip, header, hdr_block = [], [], None
    pending = []   # labels without statements of their own fall through to the next block
    for i, lm in enumerate(labels[:-1]):
        blk = swb[lm.end():labels[i + 1].start()]
        pending.append(one_char(lm.group(1), "case label"))
        if not blk.strip():
            continue
        if re.fullmatch(r"\s*break\s*;\s*", blk):
            skip += pending
        elif "prefix" in blk and re.search(r"break\s*;\s*$", blk):
            header += pending
            hdr_block = blk
        else:
            raise TranslateError("readINITree: unknown case block for %s" % lm.group(1))
        pending = []
    if pending:
        raise TranslateError("readINITree: case labels %r fall through into `default:`" % pending)
    if len(header) != 1:
        raise TranslateError("readINITree: exactly one group-header case expected")
    dflt = swb[labels[-1].end():]
    A("/-- `case` labels whose block is only `break;` (comment lines) -/")
    A("def iniSkipFirst : List Char := %s" % lean_chars(sorted(set(skip))))
    A("/-- the `case` label of the group header -/")
    A("def iniHeaderOpen : Char := Char.ofNat %d" % header[0])
    m, = need(r"(\w+)\s*=\s*line\s*\.\s*find\s*\(\s*(" + LIT + r")\s*\)", hdr_block, "header: line.find", 1)
    pos = m.group(1)
    A("/-- header: `%s = line.find(%s)` -/" % (pos, m.group(2)))
    A("def iniHeaderClose : Char := Char.ofNat %d" % one_char(m.group(2), "header close"))
    pm = re.search(r"prefix\s*=\s*((?:[lr]trim\s*\(\s*)*)line\s*\.\s*substr\s*\(", hdr_block)
    if not pm:
        raise TranslateError("header: `prefix = trim(line.substr(…))` not found")
    trims = sorted(re.findall(r"([lr])trim", pm.group(1)))
    args, _ = call_args(hdr_block, pm.end() - 1, "header substr")
    if len(args) != 2:
        raise TranslateError("header: substr must have two arguments")
    A("/-- header: `prefix = %sline.substr(%s, %s)…` — start, length relative to the position of the closing bracket,")
    out[-1] = out[-1] % (pm.group(1).replace(" ", ""), args[0], args[1])
    A("    and which trims are applied -/")
    A("def iniHeaderInnerStart : Nat := %d" % affine(args[0], None, "header substr start"))
    A("def iniHeaderInnerLen : Int := %d" % affine(args[1], pos, "header substr length"))
    A("def iniHeaderTrims : List Char := %s" % lean_chars([ord(t) for t in trims]))
    sm = re.search(r"if\s*\(\s*!\s*prefix\s*\.\s*empty\s*\(\s*\)\s*\)\s*\{?\s*prefix\s*(?:\+=|=\s*prefix\s*\+)\s*(" + LIT + r")\s*;", hdr_block)
    if not sm:
        raise TranslateError("header: `if (prefix != \"\") prefix += \".\"` not found")
    A("/-- header: `if (prefix != \"\") prefix += %s` -/" % sm.group(1))
    A("def iniPrefixSuffix : List Char := %s" % lean_chars(lit_bytes(sm.group(1), "prefix suffix")))
    # default branch
    m, = need(r"(\w+)\s*=\s*line\s*\.\s*find\s*\(\s*(" + LIT + r")\s*\)\s*;\s*line\s*=\s*line\s*\.\s*substr\s*\(\s*0\s*,\s*(\w+)\s*\)",
              dflt, "assignment: comment strip", 1)
    if m.group(1) != m.group(3):
        raise TranslateError("assignment: the comment position is not what the line is cut at")
    A("/-- assignment line: `%s = line.find(%s); line = line.substr(0, %s)` -/" % (m.group(1), m.group(2), m.group(3)))
    A("def iniCommentStart : Char := Char.ofNat %d" % one_char(m.group(2), "comment start"))
    after = dflt[m.end():]
    m, = need(r"(\w+)\s*=\s*line\s*\.\s*find\s*\(\s*(" + LIT + r")\s*\)", after, "assignment: line.find(=)", 1)
    mid = m.group(1)
    if dflt.find("find", 0) > dflt.find(mid + " = line"):
        pass
    A("/-- assignment line: `%s = line.find(%s)` (searched after the comment was cut off) -/" % (mid, m.group(2)))
    A("def iniAssign : Char := Char.ofNat %d" % one_char(m.group(2), "assignment character"))
    km = re.search(r"key\s*=\s*prefix\s*\+\s*((?:[lr]trim\s*\(\s*)*)line\s*\.\s*substr\s*\(", dflt)
    if not km:
        raise TranslateError("assignment: `key = prefix + trim(line.substr(…))` not found")
    kargs, _ = call_args(dflt, km.end() - 1, "key substr")
    if len(kargs) != 2 or affine(kargs[0], None, "key substr start") != 0:
        raise TranslateError("assignment: key substr(0, mid) expected")
    A("/-- `key = prefix + %sline.substr(0, %s)…` -/" % (km.group(1).replace(" ", ""), kargs[1]))
    A("def iniKeyLen : Int := %d" % affine(kargs[1], mid, "key substr length"))
    A("def iniKeyTrims : List Char := %s" % lean_chars([ord(t) for t in sorted(re.findall(r"([lr])trim", km.group(1)))]))
    vm = re.search(r"value\s*=\s*((?:[lr]trim\s*\(\s*)*)line\s*\.\s*substr\s*\(", dflt)
    if not vm:
        raise TranslateError("assignment: `value = ltrim(line.substr(mid+1))` not found")
    vargs, _ = call_args(dflt, vm.end() - 1, "value substr")
    if len(vargs) != 1:
        raise TranslateError("assignment: value substr must have one argument")
    A("/-- `value = %sline.substr(%s)…` -/" % (vm.group(1).replace(" ", ""), vargs[0]))
    A("def iniValueStart : Int := %d" % affine(vargs[0], mid, "value substr start"))
    A("def iniValueTrims : List Char := %s" % lean_chars([ord(t) for t in sorted(re.findall(r"([lr])trim", vm.group(1)))]))
    # quotes
    qi = None
    for im in re.finditer(r"\bif\s*\(", dflt):
        cond, _ = if_condition(dflt, im.start(), "quote test")
        if re.search(r"value\s*\[\s*0\s*\]\s*==", cond):
            qi = cond
            break
    if qi is None:
        raise TranslateError("assignment: the quote test `value[0]=='…'` was not found")
    quotes = [one_char(t, "quote") for t in eq_alternatives(qi, "value[0]", "quote test")]
    if len(set(quotes)) != len(quotes):
        raise TranslateError("quote test repeats a character")
    A("/-- `if (%s)` -/" % re.sub(r"\s+", " ", qi.strip()))
    A("def iniQuotes : List Char := %s" % lean_chars(sorted(quotes)))
    if not re.search(r"char\s+quote\s*=\s*value\s*\[\s*0\s*\]\s*;", dflt):
        raise TranslateError("assignment: `char quote = value[0]` not found")
    om_ = re.search(r"char\s+quote\s*=\s*value\s*\[\s*0\s*\]\s*;\s*value\s*=\s*value\s*\.\s*substr\s*\(", dflt)
    if not om_:
        raise TranslateError("assignment: `char quote = value[0]; value = value.substr(1);` not found")
    oargs, oend = call_args(dflt, om_.end() - 1, "opening quote")
    if len(oargs) != 1 or not re.match(r"\s*;\s*while\s*\(", dflt[oend + 1:]):
        raise TranslateError("assignment: value.substr(1) must be followed by the continuation loop")
    wm0 = re.search(r"while\s*\([^{]*\{", dflt[oend:], flags=re.S)
    wblock = block_at(dflt, oend + wm0.end() - 1)
    after_loop = dflt[oend + wm0.end() - 1 + len(wblock) + 2:]
    cm_ = re.match(r"\s*value\s*=\s*((?:[lr]trim\s*\(\s*)*)value\s*(\)*)\s*\.\s*substr\s*\(", after_loop)
    if not cm_ or cm_.group(1).count("(") != len(cm_.group(2)):
        raise TranslateError("assignment: after the continuation loop `value = rtrim(value).substr(0, rtrim(value).length()-1)` "
                             "(or its two-statement form) expected")
    cargs, cend = call_args(after_loop, cm_.end() - 1, "closing quote")
    if len(cargs) != 2 or not re.match(r"\s*;\s*\}?\s*$|\s*;\s*\}", after_loop[cend + 1:]):
        raise TranslateError("assignment: closing quote: substr(0, length-1) expected as the last statement of the quoted branch")
    trimmed_ = re.sub(r"\s+", "", cm_.group(1) + "value" + cm_.group(2))
    A("/-- `value = value.substr(%s)` drops the opening quote; after the loop `value = %s.substr(%s, %s)` the closing one -/" % (oargs[0], trimmed_, cargs[0], cargs[1]))
    A("def iniQuoteOpenDrop : Nat := %d" % affine(oargs[0], None, "opening quote"))
    if affine(cargs[0], None, "closing quote start") != 0:
        raise TranslateError("closing quote: substr must start at 0")
    lenvar = trimmed_ + (".length()" if "length" in cargs[1] else ".size()")
    A("def iniQuoteCloseLen : Int := %d" % affine(cargs[1], lenvar, "closing quote"))
    A("/-- the trims applied to the value before the closing quote is cut off -/")
    A("def iniQuoteCloseTrims : List Char := %s" % lean_chars([ord(t) for t in sorted(re.findall(r"([lr])trim", cm_.group(1)))]))
    if len(substr_calls(dflt, "value", "value.substr")) != 1:
        raise TranslateError("assignment: unexpected further value.substr call")
    wm = re.search(r"while\s*\(", dflt)
    if not wm:
        raise TranslateError("quote continuation loop not found")
    wcond, wend = if_condition(dflt.replace("while", "if   ", 1) if False else dflt[:wm.start()] + "if   " + dflt[wm.start() + 5:], wm.start(), "quote loop")
    if not cond_is(wcond, "rtrim(value).empty() || rtrim(value).back() != quote", "quote loop",
                   guards=[("rtrim(value).empty()", False, "rtrim(value).back() != quote")]):
        raise TranslateError("quote loop condition changed: %s" % wcond.strip())
    A("/-- `while (%s)`: the loop runs until the right-trimmed value ends with the quote -/" % re.sub(r"\s+", " ", wcond.strip()))
    A("def iniQuoteLoopUntilTrimmedEndsWithQuote : Bool := true")
    jm = re.search(r"value\s*=\s*value\s*\+\s*(" + LIT + r")\s*\+\s*l\s*;", dflt) or re.search(r"value\s*\+=\s*(" + LIT + r")\s*\+\s*l\s*;", dflt)
    if not jm:
        raise TranslateError("quote loop: `value = value + \"\\n\" + l` not found")
    A("/-- continuation lines are joined with %s -/" % jm.group(1))
    A("def iniContinuationJoin : List Char := %s" % lean_chars(lit_bytes(jm.group(1), "continuation join")))
    if not (re.search(r"value\s*=\s*value\s*\+\s*quote\s*;", dflt) or re.search(r"value\s*\+=\s*quote\s*;", dflt)
            or re.search(r"value\s*\.\s*push_back\s*\(\s*quote\s*\)\s*;", dflt)):
        raise TranslateError("quote loop: `value = value + quote` at end of input not found")
    # duplicate / overwrite test
    dm = re.search(r"if\s*\(\s*keysInFile\s*\.\s*count\s*\(\s*key\s*\)\s*!=\s*0\s*\)|if\s*\(\s*keysInFile\s*\.\s*count\s*\(\s*key\s*\)\s*>\s*0\s*\)|"
                   r"if\s*\(\s*keysInFile\s*\.\s*count\s*\(\s*key\s*\)\s*\)|if\s*\(\s*keysInFile\s*\.\s*find\s*\(\s*key\s*\)\s*!=\s*keysInFile\s*\.\s*end\s*\(\s*\)\s*\)|"
                   r"if\s*\(\s*keysInFile\s*\.\s*contains\s*\(\s*key\s*\)\s*\)", dflt)
    if not dm:
        raise TranslateError("assignment: duplicate test on keysInFile not found")
    rest = dflt[dm.end():]
    tm = re.match(r"\s*\{?\s*DUNE_THROW\s*\(\s*(\w+)", rest)
    if not tm:
        raise TranslateError("assignment: the duplicate test does not throw")
    A("/-- a key already in `keysInFile` throws this exception -/")
    A("def iniDuplicateError : String := \"%s\"" % tm.group(1))
    om = False
    for im_ in re.finditer(r"\bif\s*\(", rest):
        c_, e_ = if_condition(rest, im_.start(), "overwrite test")
        try:
            same_ = cond_is(c_, "overwrite || !pt.hasKey(key)", "overwrite test")
        except TranslateError:
            same_ = False
        if same_ and re.match(r"\s*\{?\s*pt\s*\[\s*key\s*\]\s*=\s*value\s*;\s*\}?\s*keysInFile\s*\.\s*insert\s*\(\s*key\s*\)\s*;", rest[e_:]):
            om = True
    A("/-- `if (overwrite || !pt.hasKey(key)) pt[key] = value;` followed unconditionally by `keysInFile.insert(key)` -/")
    A("def iniStoreThenRemember : Bool := %s" % ("true" if om else "false"))
    A("")

    # ---- 4. command line ------------------------------------------------------------------------------------
    A("/-! ## readOptions / readNamedOptions -/")
    (ob, _, _), = bodies(pc, r"\bParameterTreeParser::readOptions\s*\(", "readOptions")[:1]
    fm = re.search(r"for\s*\(\s*(?:int|std::size_t|size_t|unsigned|unsigned\s+int)\s+i\s*=\s*(\d+)\s*;\s*i\s*<\s*argc\s*;\s*(?:i\+\+|\+\+i)\s*\)", ob) or \
        re.match(r"\s*(?:int|std::size_t|size_t|unsigned|unsigned\s+int)\s+i\s*=\s*(\d+)\s*;\s*for\s*\(\s*;\s*i\s*<\s*argc\s*;\s*\+\+i\s*\)", ob)
    if not fm:
        raise TranslateError("readOptions: `for (int i=1; i<argc; i++)` not found")
    A("def optFirstArg : Nat := %s" % fm.group(1))
    im = re.search(r"\bif\s*\(", ob)
    cond, _ = if_condition(ob, im.start(), "readOptions test")
    # the test as a Boolean function of its two atoms: `argv[i][a] == mark && !(argv[i][b] == terminator)`
    ct = bool_parse(cond, "readOptions test")
    cat = sorted(bool_atoms(ct))
    cm = None
    if len(cat) == 2:
        am_ = [re.fullmatch(r"(" + LIT + r"|0)==argv\[i\]\[(\d+)\]|argv\[i\]\[(\d+)\]==(" + LIT + r"|0)", a_) for a_ in cat]
        if all(am_):
            pa = [((x.group(2) or x.group(3)), (x.group(1) or x.group(4))) for x in am_]
            for u, v in ((0, 1), (1, 0)):
                if bool_same(ct, ("and", ("atom", cat[u]), ("not", ("atom", cat[v])))) and pa[u][1] != "0" \
                        and (int(pa[v][0]) <= int(pa[u][0]) or guards_hold(ct, [(cat[u], True, cat[v])])):
                    cm = type("M", (), {"group": staticmethod(lambda k, g=(None, pa[u][0], pa[u][1], pa[v][0], pa[v][1]): g[k])})
    if not cm:
        raise TranslateError("readOptions: option test changed: %s" % cond.strip())
    A("/-- `if (%s)` -/" % re.sub(r"\s+", " ", cond.strip()))
    A("def optMarkIndex : Nat := %s" % cm.group(1))
    A("def optMark : Char := Char.ofNat %d" % one_char(cm.group(2), "option mark"))
    A("def optNonEmptyIndex : Nat := %s" % cm.group(3))
    A("def optNonEmptyNot : Char := Char.ofNat %d" % (0 if cm.group(4) == "0" else one_char(cm.group(4), "option terminator")))
    sm = re.search(r"pt\s*\[\s*argv\s*\[\s*i\s*\]\s*\+\s*(\d+)\s*\]\s*=\s*argv\s*\[\s*i\s*\+\s*(\d+)\s*\]\s*;\s*(\+\+i|i\+\+|i\s*\+=\s*1)\s*;", ob)
    if not sm:
        raise TranslateError("readOptions: `pt[argv[i]+1] = argv[i+1]; ++i;` not found")
    A("/-- `pt[argv[i]+%s] = argv[i+%s]; ++i;` -/" % (sm.group(1), sm.group(2)))
    A("def optKeyDrop : Nat := %s" % sm.group(1))
    A("def optValueAhead : Nat := %s" % sm.group(2))
    nm = re.search(r"if\s*\(\s*argv\s*\[\s*i\s*\+\s*(\d+)\s*\]\s*==\s*(NULL|nullptr|0)\s*\)\s*\{?\s*DUNE_THROW\s*\(\s*(\w+)", ob)
    if not nm:
        raise TranslateError("readOptions: the missing-argument test was not found")
    A("def optMissingAhead : Nat := %s" % nm.group(1))
    A("def optMissingError : String := \"%s\"" % nm.group(3))

    (nb, _, _), = bodies(pc, r"\bParameterTreeParser::readNamedOptions\s*\(", "readNamedOptions")[:1]
    hi = None
    for im in re.finditer(r"\bif\s*\(", nb):
        cond, e = if_condition(nb, im.start(), "readNamedOptions")
        if re.search(r"opt\s*==", cond) and re.match(r"\s*\{?\s*DUNE_THROW\s*\(\s*HelpRequest", nb[e:]):
            hi = cond
            break
    if hi is None:
        raise TranslateError("readNamedOptions: help test not found")
    hw = sorted(lit_bytes(t, "help word") for t in eq_alternatives(hi, "opt", "help test"))
    A("/-- `if (%s) DUNE_THROW(HelpRequest, …)` -/" % re.sub(r"\s+", " ", hi.strip()))
    A("def namedHelpWords : List (List Char) := [%s]" % ", ".join(lean_chars(w) for w in hw))
    pm = re.search(r"if\s*\(\s*opt\s*\.\s*substr\s*\(\s*(\d+)\s*,\s*(\d+)\s*\)\s*==\s*(" + LIT + r")\s*\)", nb)
    if not pm:
        raise TranslateError("readNamedOptions: `opt.substr(0,2) == \"--\"` not found")
    A("/-- `if (opt.substr(%s,%s) == %s)` -/" % (pm.group(1), pm.group(2), pm.group(3)))
    A("def namedPrefixStart : Nat := %s" % pm.group(1))
    A("def namedPrefixLen : Nat := %s" % pm.group(2))
    A("def namedPrefix : List Char := %s" % lean_chars(lit_bytes(pm.group(3), "named prefix")))
    fm = re.search(r"(\w+)\s*=\s*opt\s*\.\s*find\s*\(\s*(" + LIT + r")\s*,\s*(\d+)\s*\)", nb)
    if not fm:
        raise TranslateError("readNamedOptions: `pos = opt.find('=',2)` not found")
    pos = fm.group(1)
    A("/-- `%s = opt.find(%s,%s)` -/" % (pos, fm.group(2), fm.group(3)))
    A("def namedAssign : Char := Char.ofNat %d" % one_char(fm.group(2), "named '='"))
    A("def namedAssignFrom : Nat := %s" % fm.group(3))
    km = re.search(r"key\s*=\s*opt\s*\.\s*substr\s*\(", nb)
    vm = re.search(r"value\s*=\s*opt\s*\.\s*substr\s*\(", nb)
    if not km or not vm:
        raise TranslateError("readNamedOptions: key/value substr not found")
    ka, _ = call_args(nb, km.end() - 1, "named key substr")
    va, _ = call_args(nb, vm.end() - 1, "named value substr")
    if len(ka) != 2:
        raise TranslateError("readNamedOptions: key = opt.substr(2,pos-2) expected")
    A("/-- `key = opt.substr(%s, %s)`; `value = opt.substr(%s)` -/" % (ka[0], ka[1], ", ".join(va)))
    A("def namedKeyStart : Nat := %d" % affine(ka[0], None, "named key start"))
    A("def namedKeyLen : Int := %d" % affine(ka[1], pos, "named key length"))
    A("def namedValueStart : Int := %d" % affine(va[0], pos, "named value start"))
    if len(va) == 2:
        e = re.sub(r"\s+", "", va[1])
        ok = False
        for sz in ("opt.size()", "opt.length()"):
            mm = re.fullmatch(re.escape(sz) + r"-" + re.escape(pos) + r"-(\d+)", e)
            if mm and int(mm.group(1)) == affine(va[0], pos, "named value start"):
                ok = True
        if e in ("std::string::npos", "string::npos", "opt.npos"):
            ok = True
        if not ok:
            raise TranslateError("readNamedOptions: value length %r is not `the rest of the argument`" % va[1])
    elif len(va) != 1:
        raise TranslateError("readNamedOptions: value substr arguments")
    A("def namedValueToEnd : Bool := true")
    lm = re.search(r"for\s*\(\s*(?:std::size_t|size_t|int|unsigned|unsigned\s+int)\s+i\s*=\s*(\d+)\s*;\s*i\s*<\s*(?:std::size_t\s*\(\s*argc\s*\)|argc)\s*;\s*(?:i\+\+|\+\+i)\s*\)", nb)
    if not lm:
        raise TranslateError("readNamedOptions: argument loop not found")
    A("def namedFirstArg : Nat := %s" % lm.group(1))
    mm = False
    for im_ in re.finditer(r"\bif\s*\(", nb):
        c_, e_ = if_condition(nb, im_.start(), "missing test")
        try:
            if cond_is(c_, "i < required && !done[i]", "missing test"):
                mm = True
        except TranslateError:
            pass
    A("/-- the final test: keyword `i` is missing iff `i < required && !done[i]` -/")
    A("def namedMissingIsBelowRequiredAndNotDone : Bool := %s" % ("true" if mm else "false"))
    A("")

    # ---- 5. Parser<T> -------------------------------------------------------------------------------------
    A("/-! ## Parser<T> -/")
    pb = re.search(r"struct\s+ParameterTree::Parser\s*<\s*bool\s*>\s*\{", hh)
    if not pb:
        raise TranslateError("Parser<bool> not found")
    bb = block_at(hh, pb.end() - 1)
    table = []
    for im in re.finditer(r"\bif\s*\(", bb):
        cond, e = if_condition(bb, im.start(), "Parser<bool>")
        rm = re.match(r"\s*\{?\s*return\s+(true|false)\s*;", bb[e:])
        if not rm:
            raise TranslateError("Parser<bool>: `if (…) return true|false;` expected")
        for t in eq_alternatives(cond, "ret", "Parser<bool>"):
            table.append((lit_bytes(t, "bool word"), rm.group(1)))
    words = [tuple(w) for w, _ in table]
    if len(set(words)) != len(words):
        raise TranslateError("Parser<bool>: a word is tested twice")
    table.sort()
    A("/-- the words of `Parser<bool>` (tested on the lower-cased text; the tests are disjoint, listed sorted) -/")
    A("def boolWords : List (List Char × Bool) :=")
    A("  [" + ",\n   ".join("(%s, %s)  -- %s" % (lean_chars(w), v, show(w)) for w, v in table).replace(")  --", "),  --").rstrip() + "]")
    # fix the trailing comma/comment layout: rebuild without comments for robustness
    out[-1] = "  [" + ", ".join("(%s, %s)" % (lean_chars(w), v) for w, v in table) + "]"
    A("-- " + ", ".join("%s ↦ %s" % (show(w), v) for w, v in table))
    tfm = re.search(r"std::transform\s*\(\s*ret\.begin\(\)\s*,\s*ret\.end\(\)\s*,\s*ret\.begin\(\)\s*,\s*(\w+)\s*\(\s*\)\s*\)", bb)
    fun = re.search(r"struct\s+" + tfm.group(1) + r"\s*\{", bb) if tfm else None
    funb = block_at(bb, fun.end() - 1) if fun else ""
    lower = re.search(r"char\s+operator\s*\(\s*\)\s*\(\s*char\s+(\w+)\s*\)\s*(?:const\s*)?\{\s*return\s+std::tolower\s*\(\s*\1\s*,\s*std::locale::classic\s*\(\s*\)\s*\)\s*;\s*\}", funb)
    A("/-- the text is lower-cased with `std::tolower(c, std::locale::classic())` -/")
    A("def boolLowerClassic : Bool := %s" % ("true" if lower and tfm else "false"))
    fb = re.search(r"return\s*\(?\s*Parser\s*<\s*(\w+)\s*>\s*::\s*parse\s*\(\s*ret\s*\)\s*!=\s*0\s*\)?\s*;", bb)
    if not fb:
        raise TranslateError("Parser<bool>: the numeric fallback `Parser<int>::parse(ret) != 0` was not found")
    A("/-- otherwise `return (Parser<%s>::parse(ret) != 0)` -/" % fb.group(1))
    A("def boolFallbackType : String := \"%s\"" % fb.group(1))
    A("")

    def trailing(text, what, lean_name):
        # order: construct the stream, imbue the classic locale, extract, test, extract a char, test
        i_str = re.search(r"std::istringstream\s+s\s*\(\s*str\s*\)\s*;", text)
        i_imb = re.search(r"s\s*\.\s*imbue\s*\(\s*std::locale::classic\s*\(\s*\)\s*\)\s*;", text)
        i_ext = re.search(r"s\s*>>\s*(val|\*it)\s*;", text)
        i_dum = re.search(r"char\s+dummy\s*;\s*s\s*>>\s*dummy\s*;", text)
        if not (i_str and i_ext and i_dum):
            raise TranslateError("%s: stream / extraction / `char dummy; s >> dummy;` not found" % what)
        A("/-- %s: the stream is imbued with `std::locale::classic()` before the first extraction -/" % what)
        A("def %sClassic : Bool := %s" % (lean_name, "true" if i_imb and i_str.start() < i_imb.start() < i_ext.start() else "false"))
        t1, e1 = if_condition(text, text.index("if", i_ext.end()), what + " first test")
        if not re.match(r"\s*\{?\s*DUNE_THROW\s*\(\s*RangeError", text[e1:]):
            raise TranslateError("%s: the test after the extraction does not throw RangeError" % what)
        c1 = re.sub(r"\s+", "", t1)
        if c1 not in ("!s", "nots", "s.fail()", "!s.good()&&s.fail()"):
            raise TranslateError("%s: the test after the extraction is %r, expected `!s`" % (what, t1))
        if not (e1 < i_dum.start()):
            raise TranslateError("%s: `s >> dummy` comes before the test of the extraction" % what)
        t2, e2 = if_condition(text, text.index("if", i_dum.end()), what + " trailing test")
        if not re.match(r"\s*\{?\s*DUNE_THROW\s*\(\s*RangeError", text[e2:]):
            raise TranslateError("%s: the trailing test does not throw RangeError" % what)
        if re.search(r"\S", text[i_dum.end():text.index("if", i_dum.end())]):
            raise TranslateError("%s: statements between `s >> dummy` and its test" % what)
        A("/-- %s: after `s >> dummy` a RangeError is thrown `if (%s)` -/" % (what, re.sub(r"\s+", " ", t2.strip())))
        A("def %sThrows (fail eof : Bool) : Bool := %s" % (lean_name, cond_to_lean(t2, what)))

    gp = re.search(r"template\s*<\s*typename\s+T\s*>\s*struct\s+ParameterTree::Parser\s*\{", hh)
    if not gp:
        raise TranslateError("generic Parser<T> not found")
    trailing(block_at(hh, gp.end() - 1), "Parser<T>::parse", "scalarTrail")
    (prb, _, _), = bodies(hh, r"\bstatic\s+void\s+parseRange\s*\(", "parseRange")[:1]
    trailing(prb, "parseRange", "rangeTrail")
    lp = re.search(r"for\s*\(\s*;\s*it\s*!=\s*end\s*;\s*\+\+it\s*,\s*\+\+n\s*\)", prb)
    A("/-- parseRange extracts once per element: `for(; it != end; ++it, ++n)` -/")
    A("def rangeLoopOverAllElements : Bool := %s" % ("true" if lp else "false"))
    # bitset / vector
    bs = re.search(r"struct\s+ParameterTree::Parser\s*<\s*std::bitset\s*<\s*n\s*>\s*>\s*\{", hh)
    if not bs:
        raise TranslateError("Parser<bitset<n>> not found")
    bsb = block_at(hh, bs.end() - 1)
    sz = re.search(r"if\s*\(\s*sub\s*\.\s*size\s*\(\s*\)\s*!=\s*n\s*\)\s*\{?\s*DUNE_THROW\s*\(\s*RangeError", bsb) or \
        re.search(r"if\s*\(\s*n\s*!=\s*sub\s*\.\s*size\s*\(\s*\)\s*\)\s*\{?\s*DUNE_THROW\s*\(\s*RangeError", bsb)
    asg = re.search(r"for\s*\(\s*std::size_t\s+i\s*=\s*0\s*;\s*i\s*<\s*n\s*;\s*(?:\+\+i|i\+\+)\s*\)\s*\{?\s*val\s*\[\s*i\s*\]\s*=\s*"
                    r"ParameterTree::Parser\s*<\s*bool\s*>\s*::\s*parse\s*\(\s*sub\s*\[\s*i\s*\]\s*\)\s*;", bsb)
    A("/-- bitset: `if (sub.size() != n) throw`, then `val[i] = Parser<bool>::parse(sub[i])` for `i = 0 .. n-1` -/")
    A("def bitsetSizeMustMatch : Bool := %s" % ("true" if sz else "false"))
    A("def bitsetBitIIsItemI : Bool := %s" % ("true" if asg else "false"))
    vs_ = re.search(r"struct\s+ParameterTree::Parser\s*<\s*std::vector\s*<\s*T\s*,\s*A\s*>\s*>\s*\{", hh)
    if not vs_:
        raise TranslateError("Parser<vector<T,A>> not found")
    vb = block_at(hh, vs_.end() - 1)
    vl = re.search(r"for\s*\(\s*(?:unsigned\s+int|std::size_t|unsigned|size_t)\s+i\s*=\s*0\s*;\s*i\s*<\s*sub\s*\.\s*size\s*\(\s*\)\s*;\s*(?:\+\+i|i\+\+)\s*\)", vb)
    vp = re.search(r"ParameterTree::Parser\s*<\s*T\s*>\s*::\s*parse\s*\(\s*sub\s*\[\s*i\s*\]\s*\)", vb) and re.search(r"vec\s*\.\s*push_back\s*\(", vb)
    A("/-- vector: every piece of `split(str)` in order is converted and appended -/")
    A("def vectorAllPiecesInOrder : Bool := %s" % ("true" if vl and vp else "false"))
    A("")
    # get<T>(key, default)
    gd = re.search(r"T\s+get\s*\(\s*const\s+std::string\s*&\s*key\s*,\s*const\s+T\s*&\s*defaultValue\s*\)\s*const\s*\{", hh)
    if not gd:
        raise TranslateError("get<T>(key, defaultValue) not found")
    gdb = re.sub(r"[\s{}]+", "", block_at(hh, gd.end() - 1))
    A("/-- `get<T>(key, defaultValue)`: `if (hasKey(key)) return get<T>(key); else return defaultValue;` -/")
    A("def getDefaultOnlyWhenAbsent : Bool := %s" % ("true" if gdb in (
        "if(hasKey(key))returnget<T>(key);elsereturndefaultValue;", "if(hasKey(key))returnget<T>(key);returndefaultValue;",
        "if(!hasKey(key))returndefaultValue;elsereturnget<T>(key);", "if(!hasKey(key))returndefaultValue;returnget<T>(key);",
        "if(nothasKey(key))returndefaultValue;returnget<T>(key);", "returnhasKey(key)?get<T>(key):defaultValue;") else "false"))
    sd = [re.sub(r"[\s{}]+", "", b[0]) for b in bodies(cc, r"\bParameterTree::get\s*\(", "ParameterTree::get(key, string default)")]
    okd = all(b in ("if(hasKey(key))return(*this)[key];elsereturndefaultValue;", "if(hasKey(key))return(*this)[key];returndefaultValue;",
                    "if(!hasKey(key))returndefaultValue;return(*this)[key];", "if(!hasKey(key))returndefaultValue;elsereturn(*this)[key];",
                    "returnhasKey(key)?(*this)[key]:defaultValue;") for b in sd)
    A("/-- the %d non-template `get(key, default)` overloads have the same shape with `(*this)[key]` -/" % len(sd))
    A("def getStringDefaultOverloads : Nat := %d" % len(sd))
    A("def getStringDefaultOnlyWhenAbsent : Bool := %s" % ("true" if okd else "false"))
    A("")
    A("end DV.C12.Gen")
    return [("DuneVerif/Gen/C12.lean", "\n".join(out) + "\n")]


if __name__ == "__main__":
    import sys
    for p, c in translate(sys.argv[1] if len(sys.argv) > 1 else "/repo"):
        print("-----", p)
        print(c)
