"""Translator for C10: the numeric constants, the digit-count formula and the numeric_limits data of
bigunsignedint.hh are re-read from the source on every run and emitted as lean/DuneVerif/Gen/C10.lean.  The property
theorems are stated about these generated definitions, so changing a mask, the width formula or a numeric_limits
member in the source changes what the theorems have to prove.

Round two: constant initialisers may be constant *expressions* over literals and the previously defined constants
(`(1<<bits)-1` for 0xFFFF is a harmless rewrite and yields the same generated file); `static constexpr` /
`constexpr static` / `static const` are all accepted; numeric_limits<bigunsignedint<k>>::digits is translated as a
formula in `bits`, `n`, `k`; the boolean/int members the property speaks about (is_signed, is_integer, is_exact,
radix, is_bounded, is_modulo) are emitted as data.

Round four: straight-line code is translated too.
* the operator list of `DUNE_BINOP` (binary operator = copy, compound operator, return the copy) -> `binopViaCompound`;
* the 20 free mixed operators (`big OP uintmax_t`, `uintmax_t OP big`, and the `DUNE_BIGUNSIGNEDINT_SIGNED_BINOP` macro
  with its instantiation list): each body is parsed into "which operator is applied to which operands after which
  conversion" and emitted as the table `mixedBody`; one level of forwarding to another mixed overload (`return y OP x;`)
  is resolved by substitution, so a commuted forwarding of `+`/`*` is quiet and one of `-` `/` `%` changes the table;
* the three derived comparisons (`>` `>=` `==`) -> `gtDef`, `geDef`, `eqDef` (a small expression type);
* the remaining numeric_limits members (`is_specialized`, the exponents, has_infinity ... traps) as data.
The model evaluates the mixed operators and the derived comparisons *through* these generated definitions."""
import ast
import os
import re


class TranslateError(Exception):
    pass


_DECL = r"(?:constexpr\s+static|static\s+constexpr|static\s+const|const\s+static)\s+(?:int|unsigned(?:\s+int)?|std::size_t|bool)\s+"


def _strip_comments(src):
    src = re.sub(r"/\*.*?\*/", " ", src, flags=re.S)
    return re.sub(r"//[^\n]*", "", src)


def _const_eval(e, env):
    """evaluate a C++ integral constant expression over literals and known constants (int semantics, no overflow
    expected at these magnitudes); the result is reduced to its 32-bit two's complement pattern, which is what a
    mask stored in an `int` contributes to the (at most 32 significant bits wide) temporaries it is applied to"""
    e = e.strip()
    e = e.replace("std::numeric_limits<std::uint16_t>::digits", "16")
    e = re.sub(r"\b(0[xX][0-9a-fA-F]+|\d+)[uUlL]*\b", r"\1", e)
    if not re.fullmatch(r"[\w\s+\-*/%<>&|^~()]+", e):
        raise TranslateError("constant expression outside the translator's grammar: %r" % e)
    try:
        tree = ast.parse(e.replace("/", "//"), mode="eval")
    except SyntaxError:
        raise TranslateError("constant expression outside the translator's grammar: %r" % e)

    def ev(n):
        if isinstance(n, ast.Expression):
            return ev(n.body)
        if isinstance(n, ast.Constant) and isinstance(n.value, int) and not isinstance(n.value, bool):
            return n.value
        if isinstance(n, ast.Name) and n.id in env:
            return env[n.id]
        if isinstance(n, ast.UnaryOp) and isinstance(n.op, (ast.Invert, ast.USub, ast.UAdd)):
            v = ev(n.operand)
            return ~v if isinstance(n.op, ast.Invert) else (-v if isinstance(n.op, ast.USub) else v)
        if isinstance(n, ast.BinOp):
            a, b = ev(n.left), ev(n.right)
            ops = {ast.Add: lambda: a + b, ast.Sub: lambda: a - b, ast.Mult: lambda: a * b,
                   ast.FloorDiv: lambda: int(a / b) if b else None, ast.Mod: lambda: a - b * int(a / b) if b else None,
                   ast.LShift: lambda: a << b if 0 <= b < 64 else None, ast.RShift: lambda: a >> b if 0 <= b < 64 else None,
                   ast.BitAnd: lambda: a & b, ast.BitOr: lambda: a | b, ast.BitXor: lambda: a ^ b}
            f = ops.get(type(n.op))
            v = f() if f else None
            if v is None:
                raise TranslateError("constant expression outside the translator's grammar: %r" % e)
            return v
        raise TranslateError("constant expression outside the translator's grammar: %r" % e)

    return ev(tree) % (1 << 32)


def _formula(e, what):
    """a formula in bits, n, k, literals with + * ( ) -> Lean (n is the digit count of k)"""
    e = re.sub(r"Dune::bigunsignedint<k>::|bigunsignedint<k>::", "", e)
    e = re.sub(r"\s+", "", e)
    toks = re.findall(r"[A-Za-z_]\w*|\d+|[+*()]", e)
    if "".join(toks) != e:
        raise TranslateError("%s formula outside the translator's grammar: %r" % (what, e))
    out = []
    for t in toks:
        if t == "n":
            out.append("ndigits k")
        elif t in ("bits", "k") or t.isdigit() or t in "+*()":
            out.append(t)
        else:
            raise TranslateError("%s formula outside the translator's grammar: %r" % (what, e))
    return " ".join(out).replace("( ", "(").replace(" )", ")")


_OPNAME = {"+": "add", "-": "sub", "*": "mul", "/": "div", "%": "mod", "&": "band", "|": "bor", "^": "bxor"}
_BIG = r"(?:const\s+)?(?:Dune::)?bigunsignedint\s*<\s*k\s*>(?:\s+const)?\s*&?"


def _expand_macros(src):
    """textual expansion of the two one-parameter operator macros of the header (after comment stripping)"""
    src = src.replace("\\\n", " ")
    out = src
    for name in ("DUNE_BINOP", "DUNE_BIGUNSIGNEDINT_SIGNED_BINOP"):
        m = re.search(r"#\s*define\s+%s\s*\(\s*(\w+)\s*\)([^\n]*)\n" % name, out)
        if not m:
            raise TranslateError("macro %s not found" % name)
        par, body = m.group(1), m.group(2)
        out = out[:m.start()] + "\n" + out[m.end():]
        out = re.sub(r"#\s*undef\s+%s\b[^\n]*" % name, "", out)

        def inst(mm, body=body, par=par):
            arg = mm.group(1).strip()
            b = re.sub(r"\b%s\s*##\s*" % par, arg, body)
            return re.sub(r"\b%s\b" % par, arg, b)
        out, cnt = re.subn(r"\b%s\s*\(([^()]*)\)" % name, inst, out)
        if cnt == 0:
            raise TranslateError("macro %s is never instantiated" % name)
    return out


def _binop_list(src):
    """member binary operators written as { auto temp = *this; temp OP= x; return temp; }"""
    ops = []
    pat = re.compile(r"bigunsignedint\s*<\s*k\s*>\s*::\s*operator\s*([-+*/%&|^])\s*\(\s*" + _BIG + r"\s*(\w+)\s*\)\s*const\s*\{([^{}]*)\}")
    for m in pat.finditer(src):
        op, par, body = m.group(1), m.group(2), re.sub(r"\s+", " ", m.group(3)).strip()
        mm = re.fullmatch(r"(?:auto|bigunsignedint\s*<\s*k\s*>)\s+(\w+)\s*(?:=\s*\*this|\(\s*\*this\s*\)|\{\s*\*this\s*\})\s*;\s*(\w+)\s*([-+*/%&|^])=\s*(\w+)\s*;\s*return\s+(\w+)\s*;", body)
        if not mm or not (mm.group(1) == mm.group(2) == mm.group(5)) or mm.group(4) != par:
            raise TranslateError("binary operator%s is not `copy; copy %s= x; return copy`: %r" % (op, op, body))
        if mm.group(3) != op:
            raise TranslateError("binary operator%s applies the compound operator %s=" % (op, mm.group(3)))
        ops.append(_OPNAME[op])
    return ops


def _mixed_table(src):
    """(signed?, bigLeft?, OP) -> (OP', bigLeft') : `big OP' conv(builtin)` (bigLeft') or `conv(builtin) OP' big`"""
    sig = re.compile(
        r"template\s*<\s*int\s+k\s*(,\s*typename\s+(\w+)\s*,[^{};]*?)?>\s*(?:inline\s+)?(?:Dune::)?bigunsignedint\s*<\s*k\s*>\s+operator\s*"
        r"([-+*/%])\s*\(\s*(" + _BIG + r"|std::uintmax_t|\w+)\s+(\w+)\s*,\s*(" + _BIG + r"|std::uintmax_t|\w+)\s+(\w+)\s*\)\s*\{([^{}]*)\}")
    raw = {}
    for m in sig.finditer(src):
        tparam, op, t1, p1, t2, p2, body = m.group(2), m.group(3), m.group(4), m.group(5), m.group(6), m.group(7), m.group(8)
        def kind(t):
            if re.fullmatch(_BIG, t.strip()):
                return "big"
            if t.strip() == "std::uintmax_t":
                return "u"
            if tparam and t.strip() == tparam:
                return "s"
            raise TranslateError("mixed operator%s: parameter type %r outside the grammar" % (op, t))
        k1, k2 = kind(t1), kind(t2)
        if (k1 == "big") == (k2 == "big"):
            raise TranslateError("mixed operator%s: exactly one operand must be a bigunsignedint" % op)
        signed = "s" in (k1, k2)
        if signed and not re.search(r"is_signed\s*<\s*%s\s*>" % tparam, m.group(1) or ""):
            raise TranslateError("mixed operator%s: template overload not constrained to signed types" % op)
        big_left = k1 == "big"
        bigp, builtinp = (p1, p2) if big_left else (p2, p1)
        # body: optional conversions into temporaries, then `return L OP' R;`
        stmts = [x.strip() for x in body.split(";") if x.strip()]
        env = {bigp: "big", builtinp: "raw"}
        for st in stmts[:-1]:
            mm = re.fullmatch(r"(?:const\s+)?(?:auto|bigunsignedint\s*<\s*k\s*>)\s+(\w+)\s*(?:\(\s*(\w+)\s*\)|\{\s*(\w+)\s*\}|=\s*(\w+)|=\s*bigunsignedint\s*<\s*k\s*>\s*[({]\s*(\w+)\s*[)}])", st)
            if not mm:
                raise TranslateError("mixed operator%s: statement outside the grammar: %r" % (op, st))
            srcv = next(g for g in mm.groups()[1:] if g)
            if srcv not in env:
                raise TranslateError("mixed operator%s: unknown name %r" % (op, srcv))
            if st.split()[0] == "auto" or (st.split()[0] == "const" and st.split()[1] == "auto"):
                if env[srcv] == "raw" and not re.search(r"bigunsignedint", st):
                    env[mm.group(1)] = "raw"; continue
            env[mm.group(1)] = "big" if env[srcv] == "big" else ("conv" if env[srcv] in ("raw", "conv") else None)
        mm = re.fullmatch(r"return\s+(.+?)\s*([-+*/%])\s*(.+)", stmts[-1] if stmts else "")
        if not mm:
            raise TranslateError("mixed operator%s: no `return L OP R`: %r" % (op, body.strip()))
        def operand(e):
            e = e.strip()
            while e.startswith("(") and e.endswith(")"):
                e = e[1:-1].strip()
            m2 = re.fullmatch(r"(?:Dune::)?bigunsignedint\s*<\s*k\s*>\s*[({]\s*(\w+)\s*[)}]", e)
            if m2:
                if m2.group(1) not in env:
                    raise TranslateError("mixed operator%s: unknown name %r" % (op, m2.group(1)))
                return "big" if env[m2.group(1)] == "big" else "conv"
            if e in env:
                return env[e]
            raise TranslateError("mixed operator%s: operand outside the grammar: %r" % (op, e))
        l, o2, r = operand(mm.group(1)), mm.group(2), operand(mm.group(3))
        key = (signed, big_left, _OPNAME[op])
        if key in raw:
            raise TranslateError("mixed operator%s declared twice" % op)
        raw[key] = (l, _OPNAME[o2], r)
    table = {}
    def resolve(key, depth):
        l, o2, r = raw[key]
        if {l, r} == {"big", "conv"}:
            return (o2, l == "big")
        if {l, r} == {"big", "raw"} and depth == 0:
            fwd = (key[0], l == "big", o2)     # forwards to another mixed overload of the same signedness
            if fwd not in raw or fwd == key:
                raise TranslateError("mixed operator forwards to a missing overload: %r" % (fwd,))
            return resolve(fwd, 1)
        raise TranslateError("mixed operator %r: operands %s %s outside the grammar" % (key, l, r))
    for key in raw:
        table[key] = resolve(key, 0)
    return table


def _derived_cmp(src):
    """operator> / operator>= / operator== written through another comparison"""
    names = {">": "gtDef", ">=": "geDef", "==": "eqDef"}
    cn = {"<": "lt", "<=": "le", ">": "gt", ">=": "ge", "==": "eq", "!=": "ne"}
    out = {}
    for op, lean in names.items():
        m = re.search(r"bigunsignedint\s*<\s*k\s*>\s*::\s*operator\s*%s\s*\(\s*%s\s*(\w+)\s*\)\s*const\s*\{([^{}]*)\}" % (re.escape(op), _BIG), src)
        if not m:
            raise TranslateError("operator%s not found" % op)
        par, body = m.group(1), re.sub(r"\s+", "", m.group(2))
        this = r"(?:\(\*this\)|\*this)"
        mm = re.fullmatch(r"return!\(%s(<=|>=|<|>|==|!=)%s\);" % (this, par), body)
        if mm:
            out[lean] = "CmpDef.notThisX .%s" % cn[mm.group(1)]; continue
        mm = re.fullmatch(r"return\(?%s(<=|>=|<|>|==|!=)%s\)?;" % (par, this), body)
        if mm:
            out[lean] = "CmpDef.xThis .%s" % cn[mm.group(1)]; continue
        mm = re.fullmatch(r"return!\(%s(<=|>=|<|>|==|!=)%s\);" % (par, this), body)
        if mm:
            out[lean] = "CmpDef.notXThis .%s" % cn[mm.group(1)]; continue
        raise TranslateError("operator%s is not derived from another comparison in a form the translator knows: %r" % (op, body))
    for lean, e in out.items():
        if e.split(".")[-1] not in ("lt", "le", "ne"):
            raise TranslateError("%s refers to a comparison that has no digit loop of its own: %s" % (lean, e))
    return out


_PRELUDE = """/-- the binary operators of the class (fixed vocabulary of the translator) -/
inductive BinOp where
  | add | sub | mul | div | mod | band | bor | bxor
  deriving Repr, BEq, DecidableEq
/-- the primitive comparisons (those with a digit loop of their own) -/
inductive Cmp where
  | lt | le | gt | ge | eq | ne
  deriving Repr, BEq, DecidableEq
/-- how a derived comparison `a OP x` is written: `!(a c x)`, `x c a`, `!(x c a)` -/
inductive CmpDef where
  | notThisX (c : Cmp) | xThis (c : Cmp) | notXThis (c : Cmp)
  deriving Repr, BEq, DecidableEq
/-- body of a mixed operator after conversion of the built-in operand: `big op conv` (bigLeft) or `conv op big` -/
structure MixedBody where
  op : BinOp
  bigLeft : Bool
  deriving Repr, BEq, DecidableEq"""


def translate(repo):
    src = _strip_comments(open(os.path.join(repo, "dune/common/bigunsignedint.hh")).read())
    out = ["-- GENERATED by tools/translators/tr_c10.py from dune/common/bigunsignedint.hh -- do not edit",
           "namespace DV.C10.Gen"]
    env = {}
    hexnames = ("bitmask", "compbitmask", "overflowmask")
    for name in ("bits", "hexdigits", "bitmask", "compbitmask", "overflowmask"):
        m = re.search(_DECL + r"%s\s*=\s*([^;]+);" % name, src)
        if not m:
            raise TranslateError("constant %s not found" % name)
        v = _const_eval(m.group(1), env)
        env[name] = v
        out.append("def %s : Nat := %s" % (name, ("0x%X" % v) if name in hexnames else str(v)))
    m = re.search(_DECL + r"n\s*=\s*([^;]+);", src)
    if not m:
        raise TranslateError("digit count formula not found")
    f = re.sub(r"\s+", "", m.group(1))
    if f in ("k/bits+(k%bits!=0)", "k/bits+((k%bits)!=0)", "(k/bits)+(k%bits!=0)"):
        out.append("def ndigits (k : Nat) : Nat := k / bits + (if k % bits != 0 then 1 else 0)")
    elif f in ("(k+bits-1)/bits", "(k+(bits-1))/bits"):
        out.append("def ndigits (k : Nat) : Nat := (k + bits - 1) / bits")
    else:
        raise TranslateError("digit count formula changed: %r" % f)
    # number of digits taken from a built-in integer in assign(): min(n, digits(uintmax_t)/bits)
    m = re.search(r"\bno\s*=\s*std::min<int>\(\s*n\s*,\s*std::numeric_limits<std::uintmax_t>::digits\s*/\s*bits\s*\)", src)
    if not m:
        raise TranslateError("assign() digit bound changed")
    out.append("def assignDigits (n : Nat) : Nat := min n (64 / bits)")
    # representable digits in todouble: numeric_limits<double>::digits/bits
    m = re.search(r"\brepresentableDigits\s*=\s*std::numeric_limits<double>::digits\s*/\s*bits\s*;", src)
    if not m:
        raise TranslateError("todouble() representableDigits changed")
    out.append("def representableDigits : Nat := 53 / bits")

    # ---- std::numeric_limits<Dune::bigunsignedint<k>> : the data members the property speaks about ----
    lm = re.search(r"struct\s+numeric_limits\s*<\s*Dune::bigunsignedint<k>\s*>(.*)", src, flags=re.S)
    if not lm:
        raise TranslateError("numeric_limits specialisation not found")
    lim = lm.group(1)
    m = re.search(r"static\s+(?:const|constexpr)\s+int\s+digits\s*=\s*([^;]+);", lim)
    if not m:
        raise TranslateError("numeric_limits::digits not found")
    out.append("def limitsDigits (k : Nat) : Nat := " + _formula(m.group(1), "numeric_limits::digits"))
    for member, lean in (("is_signed", "limitsIsSigned"), ("is_integer", "limitsIsInteger"),
                         ("is_exact", "limitsIsExact"), ("is_bounded", "limitsIsBounded"),
                         ("is_modulo", "limitsIsModulo")):
        m = re.search(r"static\s+(?:const|constexpr)\s+bool\s+%s\s*=\s*(true|false)\s*;" % member, lim)
        if not m:
            raise TranslateError("numeric_limits::%s not found" % member)
        out.append("def %s : Bool := %s" % (lean, m.group(1)))
    m = re.search(r"static\s+(?:const|constexpr)\s+int\s+radix\s*=\s*([^;]+);", lim)
    if not m:
        raise TranslateError("numeric_limits::radix not found")
    out.append("def limitsRadix : Nat := %d" % _const_eval(m.group(1), env))
    # the remaining members: an integer type has no exponents, infinities, NaNs, denormals, and does not trap
    for member, lean in (("is_specialized", "limitsIsSpecialized"), ("has_infinity", "limitsHasInfinity"),
                         ("has_quiet_NaN", "limitsHasQuietNaN"), ("has_signaling_NaN", "limitsHasSignalingNaN"),
                         ("has_denorm_loss", "limitsHasDenormLoss"), ("is_iec559", "limitsIsIec559"),
                         ("traps", "limitsTraps"), ("tinyness_before", "limitsTinynessBefore")):
        m = re.search(r"static\s+(?:const|constexpr)\s+bool\s+%s\s*=\s*(true|false)\s*;" % member, lim)
        if not m:
            raise TranslateError("numeric_limits::%s not found" % member)
        out.append("def %s : Bool := %s" % (lean, m.group(1)))
    exps = []
    for member in ("min_exponent", "min_exponent10", "max_exponent", "max_exponent10"):
        m = re.search(r"static\s+(?:const|constexpr)\s+int\s+%s\s*=\s*([^;]+);" % member, lim)
        if not m:
            raise TranslateError("numeric_limits::%s not found" % member)
        exps.append(str(_const_eval(m.group(1), env)))
    out.append("def limitsExponents : List Nat := [%s]" % ", ".join(exps))

    # ---- round four: straight-line code ----
    ex = _expand_macros(src)
    out.append(_PRELUDE)
    order = ["add", "sub", "mul", "div", "mod", "band", "bxor", "bor"]
    ops = _binop_list(ex)
    out.append("/-- `a OP b` is `temp = a; temp OP= b; return temp` for these operators (DUNE_BINOP and its instantiations) -/")
    out.append("def binopViaCompound : List BinOp := [%s]" % ", ".join("." + o for o in sorted(set(ops), key=order.index)))
    tab = _mixed_table(ex)
    out.append("/-- the free mixed operators: (built-in operand is a signed type, the bigunsignedint is the left operand, OP) -/")
    out.append("def mixedBody : Bool → Bool → BinOp → Option MixedBody")
    for key in sorted(tab, key=lambda q: (q[0], not q[1], order.index(q[2]))):
        o2, bl = tab[key]
        out.append("  | %s, %s, .%s => some ⟨.%s, %s⟩" % (str(key[0]).lower(), str(key[1]).lower(), key[2], o2, str(bl).lower()))
    out.append("  | _, _, _ => none")
    for lean, e in _derived_cmp(ex).items():
        out.append("def %s : CmpDef := %s" % (lean, e))

    # ---- MPITraits<bigunsignedint<k>> (dune/common/parallel/mpitraits.hh): what the MPI datatype transports ----
    mp = _strip_comments(open(os.path.join(repo, "dune/common/parallel/mpitraits.hh")).read())
    mm = re.search(r"struct\s+MPITraits\s*<\s*bigunsignedint\s*<\s*k\s*>\s*>\s*\{(.*?)\n  \};", mp, flags=re.S)
    if not mm:
        raise TranslateError("MPITraits<bigunsignedint<k>> not found")
    body = mm.group(1)
    m = re.search(r"MPI_Type_contiguous\s*\(\s*([^,]+),\s*MPITraits\s*<\s*([\w:]+)\s*>\s*::\s*getType\s*\(\s*\)\s*,\s*&\s*(\w+)\s*\)", body)
    if not m:
        raise TranslateError("MPITraits<bigunsignedint<k>>: MPI_Type_contiguous call outside the grammar")
    elem = {"std::uint16_t": 16, "uint16_t": 16, "unsigned short": 16, "std::uint8_t": 8, "std::uint32_t": 32,
            "std::uint64_t": 64, "unsigned char": 8, "char": 8, "unsigned int": 32, "unsigned": 32, "int": 32, "short": 16}.get(m.group(2))
    if elem is None:
        raise TranslateError("MPITraits<bigunsignedint<k>>: element type %r outside the grammar" % m.group(2))
    vec = m.group(3)
    out.append("/-- MPITraits<bigunsignedint<k>>::getType(): `mpiBlocks` block(s), at the offset of `digit`, of `mpiCount k` contiguous")
    out.append("    elements of `mpiElemBits` bits -/")
    out.append("def mpiCount (k : Nat) : Nat := " + _formula(m.group(1), "MPI_Type_contiguous count"))
    out.append("def mpiElemBits : Nat := %d" % elem)
    m = re.search(r"int\s+length\s*\[\s*1\s*\]\s*=\s*\{\s*(\d+)\s*\}\s*;.*MPI_Type_create_struct\s*\(\s*1\s*,\s*length\s*,\s*&\s*(\w+)\s*,\s*&\s*%s\s*,\s*&\s*datatype\s*\)" % vec, body, flags=re.S)
    if not m:
        raise TranslateError("MPITraits<bigunsignedint<k>>: MPI_Type_create_struct call outside the grammar")
    displ = m.group(2)
    if not re.search(r"MPI_Get_address\s*\(\s*&\s*\(?\s*(\w+)\.digit\s*\)?\s*,\s*&\s*%s\s*\)" % displ, body):
        raise TranslateError("MPITraits<bigunsignedint<k>>: the block is not placed at the member `digit`")
    out.append("def mpiBlocks : Nat := %s" % m.group(1))
    out.append("end DV.C10.Gen")
    return [("DuneVerif/Gen/C10.lean", "\n".join(out) + "\n")]
