// C20 launcher: implements the harness command line of tools/check.py
//   h_c20 --seed S --cases N --tier T --out BASE   |   h_c20 --replay FILE --out BASE
// by exec'ing the Python harness harness/c20_py.py with the interpreter of the repo's Python environment
// (started with -S -E so that neither the venv's editable finder for /repo/_build/python nor PYTHONPATH is
// active; c20_py.py adds the venv's site-packages for numpy itself and imports the `dune` package it has
// just rebuilt from $VERIF_REPO).  The Python script writes BASE.ops/.impl/.oracle/.stats.
#include <cstdio>
#include <cstdlib>
#include <string>
#include <vector>
#include <unistd.h>

int main(int argc, char** argv) {
  std::string here = __FILE__;
  auto pos = here.rfind('/');
  here = (pos == std::string::npos) ? std::string(".") : here.substr(0, pos);
  std::string script = here + "/c20_py.py";
  std::vector<std::string> cands;
  if (const char* e = std::getenv("VERIF_C20_PYTHON")) cands.push_back(e);
  cands.push_back("/repo/_build/dune-env/bin/python");
  cands.push_back("/opt/veriftools/pyvenv/bin/python");
  std::string py;
  for (auto& c : cands)
    if (access(c.c_str(), X_OK) == 0) { py = c; break; }
  if (py.empty()) {
    std::printf("C20: no Python interpreter with numpy found (tried VERIF_C20_PYTHON, /repo/_build/dune-env, /opt/veriftools/pyvenv)\n");
    return 4;
  }
  std::vector<char*> args;
  args.push_back(const_cast<char*>(py.c_str()));
  args.push_back(const_cast<char*>("-S"));
  args.push_back(const_cast<char*>("-E"));
  args.push_back(const_cast<char*>(script.c_str()));
  for (int i = 1; i < argc; ++i) args.push_back(argv[i]);
  args.push_back(nullptr);
  execv(py.c_str(), args.data());
  std::perror("execv");
  return 5;
}
