#!/usr/bin/env python3
"""C20 harness: Python views of dense vectors agree with the C++ objects they wrap.

Started by harness/cxx_c20.cc (the h_c20 binary of tools/check.py) as
    <python of the repo's venv> -S -E c20_py.py --seed S --cases N --tier T --out BASE
    <python of the repo's venv> -S -E c20_py.py --replay FILE --out BASE

What it does on every run
  1. (re)builds, from the CURRENT working tree $VERIF_REPO (default /repo), into /verif/build/c20/<key>/ :
       dune/common/exceptions.cc, stdstreams.cc            -> objects linked into every module
       python/dune/common/_common.cc                       -> dune/common/_common.so
       python/dune/typeregistry/_typeregistry.cc           -> dune/typeregistry/_typeregistry.so
     and assembles a package directory whose *.py files are symlinks into $VERIF_REPO/python/dune.
     Every artefact carries a .meta file (command line + sha1 of every repo/harness file g++ -MD listed);
     it is reused only while all of these are unchanged.
  2. imports the current python/dune package from there and replaces dune.generator.builder (the cmake/make
     based dune-py machinery, which is tied to /repo/_build) by a builder that compiles the module source
     produced by the CURRENT generator code (generator.py, algorithm.py, dune/common/__init__.py) directly
     with g++ against the current headers, with the same cache discipline.  FieldVector<double,n>,
     TupleVector<...> and the algorithm modules (NumPyVector) are produced that way ("JIT" modules).
  3. generates / replays operation programs (one per line), executes them on the real bindings, computes
     the expected observations with an independent shadow (plain Python lists, Python's own slicing and
     aliasing) and writes BASE.ops / BASE.impl / BASE.oracle / BASE.stats.

Nothing is ever written below $VERIF_REPO.
"""
import sys
import os

HERE = os.path.dirname(os.path.abspath(__file__))
VERIF = os.path.dirname(HERE)
REPO = os.path.realpath(os.environ.get("VERIF_REPO", "/repo"))

# ---------------------------------------------------------------------------------------------------------
# interpreter environment: started with -S -E, so neither the venv's editable finder (which maps the package
# `dune` to /repo/_build/python/dune) nor PYTHONPATH is active.  Add the venv's site-packages as a plain
# directory (numpy, jinja2, portalocker) *after* the standard library.
# ---------------------------------------------------------------------------------------------------------


def _site_packages():
    exe = os.path.abspath(sys.executable)
    cands = []
    vroot = os.path.dirname(os.path.dirname(exe))
    ver = "python%d.%d" % sys.version_info[:2]
    cands.append(os.path.join(vroot, "lib", ver, "site-packages"))
    cands.append("/repo/_build/dune-env/lib/%s/site-packages" % ver)
    cands.append("/opt/veriftools/pyvenv/lib/%s/site-packages" % ver)
    for c in cands:
        if os.path.isdir(os.path.join(c, "numpy")):
            return c
    return None


_sp = _site_packages()
if _sp and _sp not in sys.path:
    sys.path.append(_sp)
sys.modules["mpi4py"] = None          # C20 does not speak about MPI; _common is built without HAVE_MPI
try:                                  # only needed by the cmake/make builder of dune-py, which is replaced below
    import jinja2  # noqa: F401
except ImportError:
    import types as _types
    sys.modules["jinja2"] = _types.ModuleType("jinja2")
os.environ.setdefault("DUNE_LOG_LEVEL", "error")

import hashlib   # noqa: E402
import json      # noqa: E402
import subprocess  # noqa: E402
import time      # noqa: E402
import fcntl     # noqa: E402
import importlib  # noqa: E402
import sysconfig  # noqa: E402
import types     # noqa: E402
import array as pyarray  # noqa: E402
import math      # noqa: E402
import operator  # noqa: E402
from concurrent.futures import ThreadPoolExecutor  # noqa: E402

# =========================================================================================================
# 1. build cache
# =========================================================================================================

KEY = hashlib.sha1(REPO.encode()).hexdigest()[:12]
ROOT = os.path.join(VERIF, "build", "c20", KEY)
# two builds of the package: "jit" = _common as /repo/_build configures it (every FieldVector class generated just in
# time), "pre" = _common with DUNE_ENABLE_PYTHONMODULE_PRECOMPILE (python/dune/common/registerfvector.cc: the classes
# FieldVector_double_0 ... FieldVector_double_14 precompiled into _common).  One interpreter can hold only one of them;
# op lines of the other variant are handed to a child process (see Delegate).
VARIANT = "jit"
if "--variant" in sys.argv[1:-1]:
    VARIANT = sys.argv[sys.argv.index("--variant") + 1]
if VARIANT not in ("jit", "pre"):
    raise SystemExit("c20_py.py: unknown --variant " + VARIANT)
PKG = os.path.join(ROOT, "pkg" if VARIANT == "jit" else "pkg_pre")
GEN = os.path.join(PKG, "dune", "generated")
OBJ = os.path.join(ROOT, "obj")
os.environ["DUNE_PY_DIR"] = os.path.join(ROOT, "dune-py-unused")   # never /repo/_build/dune-env/.cache

CXX = os.environ.get("VERIF_C20_CXX", "g++")
PYINC = sysconfig.get_paths()["include"]
BASEFLAGS = ["-std=c++20", "-O1", "-UNDEBUG", "-fPIC", "-DHAVE_CONFIG_H", "-DDUNE_COMMON_VERIF",
             "-Wno-deprecated-declarations", "-Wno-attributes",
             "-I" + REPO, "-I" + os.path.join(VERIF, "harness", "include"), "-isystem", PYINC]
LIBSRC = ["dune/common/exceptions.cc", "dune/common/stdstreams.cc"]

_sha_memo = {}
BUILD_LOG = []


def sha_file(p):
    try:
        st = os.stat(p)
    except OSError:
        return None
    k = (p, st.st_mtime_ns, st.st_size)
    h = _sha_memo.get(k)
    if h is None:
        # build_artefact() runs in worker threads and clears the memo: never read the entry back from the dict
        with open(p, "rb") as fh:
            h = hashlib.sha1(fh.read()).hexdigest()
        _sha_memo[k] = h
    return h


def tracked(p):
    p = os.path.realpath(p)
    return p.startswith(REPO + "/") or p.startswith(VERIF + "/harness/") or p.startswith(ROOT + "/")


def parse_depfile(path):
    try:
        txt = open(path).read()
    except OSError:
        return []
    txt = txt.replace("\\\n", " ")
    out = []
    for line in txt.split("\n"):
        if ":" not in line:
            continue
        rhs = line.split(":", 1)[1]
        out += rhs.split()
    return sorted({os.path.realpath(p) for p in out if tracked(p)})


def artefact_valid(out, cmd, links=()):
    meta = out + ".meta"
    if not (os.path.exists(out) and os.path.exists(meta)):
        return False
    try:
        m = json.load(open(meta))
    except Exception:
        return False
    if m.get("cmd") != cmd:
        return False
    for p, h in m.get("deps", {}).items():
        if sha_file(p) != h:
            return False
    for p in links:
        if m.get("links", {}).get(p) != sha_file(p):
            return False
    return True


def build_artefact(out, cmd, links=(), what=""):
    """run cmd (which must contain -MD -MF out.d) unless the cached artefact is still valid"""
    os.makedirs(os.path.dirname(out), exist_ok=True)
    with open(out + ".lock", "w") as lk:
        fcntl.flock(lk, fcntl.LOCK_EX)
        if artefact_valid(out, cmd, links):
            return False
        t0 = time.time()
        tmp = out + ".tmp%d" % os.getpid()
        real = [c if c != out else tmp for c in cmd]
        r = subprocess.run(real, stdout=subprocess.PIPE, stderr=subprocess.STDOUT, text=True)
        if r.returncode != 0:
            try:
                os.remove(tmp)
            except OSError:
                pass
            raise RuntimeError("C20 build failed: %s\n%s\n%s" % (what or out, " ".join(cmd), r.stdout[-6000:]))
        deps = {p: sha_file(p) for p in parse_depfile(out + ".d")}
        os.replace(tmp, out)
        _sha_memo.clear()
        with open(out + ".meta", "w") as fh:
            json.dump({"cmd": cmd, "deps": deps, "links": {p: sha_file(p) for p in links}}, fh)
        BUILD_LOG.append("%s %.1fs" % (what or os.path.basename(out), time.time() - t0))
        return True


def obj_cmd(src, out):
    return [CXX] + BASEFLAGS + ["-MD", "-MF", out + ".d", "-c", src, "-o", out]


def so_cmd(src, out, objs):
    return [CXX] + BASEFLAGS + ["-MD", "-MF", out + ".d", "-shared", src] + list(objs) + ["-o", out]


def lib_objs():
    return [os.path.join(OBJ, os.path.basename(s)[:-3] + ".o") for s in LIBSRC]


def link_tree(srcdir, dstdir, pattern=".py"):
    os.makedirs(dstdir, exist_ok=True)
    want = {}
    if os.path.isdir(srcdir):
        for f in os.listdir(srcdir):
            if f.endswith(pattern):
                want[f] = os.path.join(srcdir, f)
    for f in os.listdir(dstdir):
        p = os.path.join(dstdir, f)
        if os.path.islink(p) and (f not in want or os.readlink(p) != want[f]):
            os.remove(p)
    for f, tgt in want.items():
        p = os.path.join(dstdir, f)
        if not os.path.islink(p):
            try:
                os.symlink(tgt, p)
            except FileExistsError:
                pass


def stage_a():
    """objects of dune/common, _common.so, _typeregistry.so, package tree"""
    os.makedirs(OBJ, exist_ok=True)
    os.makedirs(GEN, exist_ok=True)
    pd = os.path.join(REPO, "python", "dune")
    link_tree(pd, os.path.join(PKG, "dune"))
    for sub in ("common", "generator", "typeregistry"):
        link_tree(os.path.join(pd, sub), os.path.join(PKG, "dune", sub))
    os.makedirs(os.path.join(PKG, "dune", "data"), exist_ok=True)
    md = os.path.join(PKG, "dune", "data", "dune-common.cmake")
    content = ("DEPBUILDDIRS=%s\nDEPS=dune-common\nMODULENAME=dune-common\nINSTALL_PREFIX=/usr/local\n"
               "CMAKE_FLAGS=DUNE_OPTS_FILE:=<SEP>HAVE_MPI:=\"FALSE\"<SEP>CMAKE_BUILD_TYPE:=\"RelWithDebInfo\""
               "<SEP>CMAKE_CXX_COMPILER:=\"%s\"\n" % (ROOT, CXX))
    if not os.path.exists(md) or open(md).read() != content:
        open(md, "w").write(content)
    objs = lib_objs()
    jobs = []
    for s, o in zip(LIBSRC, objs):
        jobs.append((o, obj_cmd(os.path.join(REPO, s), o), (), s))
    with ThreadPoolExecutor(max_workers=4) as ex:
        list(ex.map(lambda j: build_artefact(*j), jobs))
    jobs = []
    c_so = os.path.join(PKG, "dune", "common", "_common.so")
    if VARIANT == "pre":
        # as python/dune/common/CMakeLists.txt does with DUNE_ENABLE_PYTHONMODULE_PRECOMPILE: registerfvector.cc once per
        # FV_NUM = 0..4 (three sizes each), linked into _common
        pre_objs = []
        pjobs = []
        for k in range(5):
            o = os.path.join(OBJ, "registerfvector_%d.o" % k)
            cmd = [CXX] + BASEFLAGS + ["-DFV_NUM=%d" % k, "-MD", "-MF", o + ".d", "-c",
                                       os.path.join(pd, "common", "registerfvector.cc"), "-o", o]
            pjobs.append((o, cmd, (), "registerfvector_%d" % k))
            pre_objs.append(o)
        with ThreadPoolExecutor(max_workers=int(os.environ.get("VERIF_C20_JOBS", "6"))) as ex:
            list(ex.map(lambda j: build_artefact(*j), pjobs))
        cmd = ([CXX] + BASEFLAGS + ["-DDUNE_ENABLE_PYTHONMODULE_PRECOMPILE", "-MD", "-MF", c_so + ".d", "-shared",
                                    os.path.join(pd, "common", "_common.cc")] + pre_objs + list(objs) + ["-o", c_so])
        jobs.append((c_so, cmd, tuple(pre_objs) + tuple(objs), "_common(precompiled)"))
    else:
        jobs.append((c_so, so_cmd(os.path.join(pd, "common", "_common.cc"), c_so, objs), tuple(objs), "_common"))
    t_so = os.path.join(PKG, "dune", "typeregistry", "_typeregistry.so")
    jobs.append((t_so, so_cmd(os.path.join(pd, "typeregistry", "_typeregistry.cc"), t_so, objs), tuple(objs),
                 "_typeregistry"))
    with ThreadPoolExecutor(max_workers=4) as ex:
        list(ex.map(lambda j: build_artefact(*j), jobs))


class Collected(Exception):
    pass


class DirectBuilder:
    """stands in for dune.generator.builder: compiles the generated source against the current headers"""

    def __init__(self):
        self.collect = None      # list -> collecting mode

    def initialize(self):
        pass

    def paths(self, moduleName):
        return os.path.join(GEN, moduleName + ".cc"), os.path.join(GEN, moduleName + ".so")

    def write_source(self, moduleName, source):
        src, so = self.paths(moduleName)
        source = str(source)
        if not os.path.exists(src) or open(src).read() != source:
            with open(src + ".tmp%d" % os.getpid(), "w") as fh:
                fh.write(source)
            os.replace(src + ".tmp%d" % os.getpid(), src)
        return src, so

    def job(self, moduleName):
        src, so = self.paths(moduleName)
        objs = lib_objs()
        return (so, so_cmd(src, so, objs), tuple(objs), "jit:" + moduleName.split("_")[0])

    def load(self, moduleName, source, pythonName=None, extraCMake=None):
        name = "dune.generated." + moduleName
        if name in sys.modules:
            return sys.modules[name]
        self.write_source(moduleName, source)
        if self.collect is not None:
            self.collect.append(moduleName)
            raise Collected(moduleName)
        build_artefact(*self.job(moduleName))
        importlib.invalidate_caches()
        return importlib.import_module(name)


BUILDER = DirectBuilder()
FV_SIZES_JIT = [1, 2, 3, 4, 5, 6, 9]      # every size is built (JIT) in both tiers; Model/C20.lean (fvSizes) knows the same list
FV_SIZES_PRE = list(range(15))            # the precompiled classes FieldVector_double_0 .. 14 (fvSizesPre in the model)
FV_SIZES_ALL = FV_SIZES_JIT if VARIANT == "jit" else FV_SIZES_PRE
FV_SIZES = [1, 2, 3, 4, 6] if VARIANT == "jit" else [0, 1, 2, 3, 4, 5, 7, 8, 12, 14]   # what the quick generator draws from
TUP_SHAPES = [("d,F2,d,F3", "val"), ("d,F2,d,F3", "ref"), ("F3,F2", "val"), ("i,d", "val"), ("F2,i,F2", "ref")]

NPV_CODE = r"""
#include <cstddef>
#include <dune/python/common/numpyvector.hh>
// operations of a NumPy-backed C++ vector (Dune::Python::NumPyVector wraps the array without copying)
//   op 0: x *= k      op 1: x[i] = k      op 2: x.axpy(k, y)      op 3: x += y      op 4: x[i] += i for all i
//   (the writing operations return the one norm the vector shows afterwards)
//   op 5: one_norm    op 6: infinity_norm op 7: two_norm2         op 8: size        op 9: x[i]
double c20npv ( pybind11::array_t< double > &a, int op, double k, int i, pybind11::array_t< double > &b )
{
  Dune::Python::NumPyVector< double > x( a );
  switch( op )
  {
  case 0: x *= k; return x.one_norm();
  case 1: x[ i ] = k; return x.one_norm();
  case 2: { Dune::Python::NumPyVector< double > y( b ); x.axpy( k, y ); return x.one_norm(); }
  case 3: { Dune::Python::NumPyVector< double > y( b ); x += y; return x.one_norm(); }
  case 4: for( std::size_t j = 0; j < x.size(); ++j ) x[ j ] += j; return x.one_norm();
  case 5: return x.one_norm();
  case 6: return x.infinity_norm();
  case 7: return x.two_norm2();
  case 8: return x.size();
  case 9: return x[ i ];
  }
  return -1;
}
"""

NPV2_CODE = r"""
#include <cstddef>
#include <dune/python/common/numpyvector.hh>
// a NumPyVector that allocates its own array (the size constructor): y = k * x, handed back as the NumPy array y owns
pybind11::array_t< double > c20npvnew ( pybind11::array_t< double > &a, double k )
{
  Dune::Python::NumPyVector< double > x( a );
  Dune::Python::NumPyVector< double > y( x.size() );
  for( std::size_t j = 0; j < y.size(); ++j )
    y[ j ] = 0;
  y.axpy( k, x );
  return y;
}
"""

NPV3_CODE = r"""
#include <cstddef>
#include <dune/python/common/numpyvector.hh>
// NumPyVector<double> over a buffer of another item type (int64): the vector wraps a *converted copy* of the buffer; it
// shows the converted numbers, and writes do not reach the integer array.   op as in c20npv (0, 5, 6, 7, 8, 9)
double c20npvint ( pybind11::array_t< long > &a, int op, double k, int i )
{
  Dune::Python::NumPyVector< double > x( a );
  switch( op )
  {
  case 0: x *= k; return x.one_norm();
  case 5: return x.one_norm();
  case 6: return x.infinity_norm();
  case 7: return x.two_norm2();
  case 8: return x.size();
  case 9: return x[ i ];
  }
  return -1;
}
"""

HELPER_CODE = r"""
#include <cstddef>
#include <dune/python/common/numpyvector.hh>
#include <dune/python/pybind11/pybind11.h>
#include <dune/python/pybind11/numpy.h>
// the same operations as c20npv, but the NumPyVector is constructed from the Python buffer object itself (NumPy array of
// any dtype, array.array, FieldVector, ...), i.e. through NumPyVector( pybind11::buffer ): a buffer of doubles is
// wrapped (shared memory), a buffer of another item type is converted into an array the vector owns
static double npvbuf ( pybind11::buffer a, int op, double k, int i, pybind11::buffer b )
{
  Dune::Python::NumPyVector< double > x( a );
  switch( op )
  {
  case 0: x *= k; return x.one_norm();
  case 1: x[ i ] = k; return x.one_norm();
  case 2: { Dune::Python::NumPyVector< double > y( b ); x.axpy( k, y ); return x.one_norm(); }
  case 3: { Dune::Python::NumPyVector< double > y( b ); x += y; return x.one_norm(); }
  case 4: for( std::size_t j = 0; j < x.size(); ++j ) x[ j ] += j; return x.one_norm();
  case 5: return x.one_norm();
  case 6: return x.infinity_norm();
  case 7: return x.two_norm2();
  case 8: return x.size();
  case 9: return x[ i ];
  }
  return -1;
}

// third path: the members of NumPyVector that hand out its storage -- `coefficients()` (the wrapped / owned array; only the
// non-const overload: the const one returns a non-const reference to a member and is ill-formed when instantiated), `data()` (address of entry 0, const and non-const overload) and the const element access:
//   op 1: x[i] = k written through *coefficients().mutable_data(i) (i > 0) or *data() (i == 0); returns the one norm seen by x
//   op 9: x[i] read through the const overloads: *coefficients().data(i) / *data(), which must agree with const operator[]
static double npvcoef ( pybind11::buffer a, int op, double k, int i, pybind11::buffer )
{
  Dune::Python::NumPyVector< double > x( a );
  const Dune::Python::NumPyVector< double > &cx = x;
  switch( op )
  {
  case 1:
    if( i == 0 )
      *x.data() = k;
    else
      *x.coefficients().mutable_data( i ) = k;     // byte-accurate (array_t::mutable_at divides the byte offset by the item size)
    return x.one_norm();
  case 9:
    {
      const double viaArray = *x.coefficients().data( i );   // (the const overload of coefficients() does not compile)
      const double viaIndex = cx[ i ];
      const double viaData = (i == 0 ? *cx.data() : viaIndex);
      if( (viaArray != viaIndex) || (viaData != viaIndex) || (cx.vec_access( i ) != viaIndex) || (cx.vec_size() != cx.size()) )
        return -12345678.5;       // the accessors disagree: no entry has this value (entries are integers)
      return viaArray;
    }
  }
  return -1;
}

PYBIND11_MODULE( c20helper, module )
{
  module.def( "npvbuf", &npvbuf );
  module.def( "npvcoef", &npvcoef );
}
"""

# element types of the buffers handed to the bindings: name -> (code of the Lean model, NumPy dtype | None,
# array.array typecode | None, smallest value, largest value, integer?)   code 0 = double, 8 = read-only doubles
DTYPES = {
    "f8": (0, "float64", None, -(1 << 24), 1 << 24, False), "i8": (1, "int64", None, -(1 << 24), 1 << 24, True),
    "i4": (2, "int32", None, -(1 << 24), 1 << 24, True), "i2": (3, "int16", None, -32768, 32767, True),
    "i1": (4, "int8", None, -128, 127, True), "u1": (5, "uint8", None, 0, 255, True),
    "u2": (6, "uint16", None, 0, 65535, True), "f4": (7, "float32", None, -(1 << 24), 1 << 24, False),
    "ro": (8, "float64", None, -(1 << 24), 1 << 24, False),
    "ad": (0, None, "d", -(1 << 24), 1 << 24, False), "al": (1, None, "l", -(1 << 24), 1 << 24, True),
    "ai": (2, None, "i", -(1 << 24), 1 << 24, True), "ah": (3, None, "h", -32768, 32767, True),
    "ab": (4, None, "b", -128, 127, True), "aB": (5, None, "B", 0, 255, True),
    "aH": (6, None, "H", 0, 65535, True), "af": (7, None, "f", -(1 << 24), 1 << 24, False),
    "e8": (9, ">f8", None, -(1 << 24), 1 << 24, False),       # doubles in the other byte order: not a buffer of (native) doubles
}
LAYOUTS = ("c", "s2", "col", "r", "r2")     # contiguous, every 2nd entry, column of a 2-d array, reversed, reversed every 2nd
# Record layouts `q<R>o<F>s[m]<K>`: the buffer is one field of a packed record array (structured dtype of R bytes per record, the
# field at byte offset F), every K-th record, `m` = walked backwards.  The byte stride +-K*R is in general NOT a multiple of the
# item size and the entries are not aligned: the buffer protocol describes such memory with strides in bytes.
_REC_LAYOUT = __import__("re").compile(r"^q(\d{1,2})o(\d{1,2})s(m?)(\d)$")
REC_LAYOUTS = ("q12o0s1", "q12o4s1", "q12o0sm1", "q9o0s1", "q9o1sm1", "q20o0sm1", "q20o12s1", "q10o2s2", "q10o0sm2", "q11o3s3",
               "q16o8s1", "q24o0sm1", "q12o4s2", "q13o5sm3", "q8o0s2", "q17o9s1")
ALIGN = 8       # alignment NumPy demands of an array of doubles before it calls it `aligned` (x86-64)


def rec_layout(lay):
    """None for the plain layouts; (record size, field offset, step in records) for a record layout"""
    if lay in LAYOUTS:
        return None
    m = _REC_LAYOUT.match(lay)
    if not m:
        raise ValueError("layout " + lay)
    R, fo, k = int(m.group(1)), int(m.group(2)), int(m.group(4))
    if not (1 <= R <= 64 and 1 <= k <= 4):
        raise ValueError("layout " + lay)
    return R, fo, (-k if m.group(3) else k)


def layout_fits(dt, lay):
    """does a field of element type dt fit into the records of layout lay?"""
    rl = rec_layout(lay)
    if rl is None:
        return True
    isz = {"f8": 8, "i8": 8, "i4": 4, "i2": 2, "i1": 1, "u1": 1, "u2": 2, "f4": 4, "ro": 8, "e8": 8}.get(dt)
    return isz is not None and rl[1] + isz <= rl[0]


def layout_unaligned(lay, n):
    """NumPy's verdict on a buffer of n doubles in layout lay (first byte of the allocation aligned): not aligned iff the
    array has entries and the address of the first one, or (more than one entry) the byte stride, is no multiple of ALIGN.
    A FieldVector is not constructible from such a buffer (NumPy exports the format `=d`), a NumPyVector shares it."""
    rl = rec_layout(lay)
    if rl is None or n == 0:
        return False
    R, fo, st = rl
    size = max(1, n * abs(st))
    first = fo + R * (size - 1 if st < 0 else 0)
    return first % ALIGN != 0 or (n > 1 and (R * st) % ALIGN != 0)


def make_buffer(np, dt, lay, vals):
    """a fresh Python buffer object of element type `dt` and memory layout `lay` showing the numbers `vals`"""
    code, npdt, tc, lo, hi, isint = DTYPES[dt]
    n = len(vals)
    conv = [int(v) for v in vals] if isint else [float(v) for v in vals]
    if tc is not None:
        if lay != "c":
            raise ValueError("layout of array.array")
        return pyarray.array(tc, conv)
    if lay == "c":
        arr = np.array(conv, dtype=npdt)
    elif lay == "s2":
        base = np.full(max(1, 2 * n), 77, dtype=npdt)
        arr = base[::2][:n]
        arr[...] = conv
    elif lay == "col":
        base = np.full((max(1, n), 3), 77, dtype=npdt)
        arr = base[:n, 1]
        arr[...] = conv
    elif lay == "r":
        base = np.full(max(1, n), 77, dtype=npdt)
        arr = base[::-1][:n]
        arr[...] = conv
    elif lay == "r2":
        base = np.full(max(1, 2 * n), 77, dtype=npdt)
        arr = base[::-2][:n]
        arr[...] = conv
    else:
        R, fo, st = rec_layout(lay)
        if not layout_fits(dt, lay):
            raise ValueError("layout " + lay)
        rdt = np.dtype({"names": ["x"], "formats": [npdt], "offsets": [fo], "itemsize": R})
        rec = np.zeros(max(1, n * abs(st)), dtype=rdt)
        rec.view(np.uint8)[...] = 77            # every byte of every record, padding included
        rec["x"] = 77
        arr = rec["x"][::st][:n]
        arr[...] = conv
    if dt == "ro":
        arr.flags.writeable = False
    return arr


class Guard:
    """oracle for `nothing but the entries of the buffer is ever written`: the bytes of the allocation behind a buffer object
    that do not belong to an entry the buffer shows (gaps of strided views, the other fields and the padding of records,
    the rows/columns not selected) must keep the values they had when the object was made"""

    def __init__(self, np, arr, what):
        self.what = what
        root = arr
        while isinstance(root.base, np.ndarray):
            root = root.base
        self.raw = root.reshape(-1).view(np.uint8)
        inside = np.zeros(self.raw.shape[0], dtype=bool)
        if arr.size:
            first = arr.__array_interface__["data"][0] - root.__array_interface__["data"][0]
            for j in range(arr.shape[0]):
                p = first + j * arr.strides[0]
                if p < 0 or p + arr.itemsize > inside.shape[0]:
                    raise RuntimeError("C20 harness: entry outside the allocation")
                inside[p:p + arr.itemsize] = True
        self.outside = np.flatnonzero(~inside)
        self.snap = self.raw[self.outside].copy()
        self.keep = (arr, root)

    def violated(self):
        now = self.raw[self.outside]
        if (now == self.snap).all():
            return None
        k = int((now != self.snap).argmax())
        return "%s: byte %d of the allocation, which is not part of any entry of the buffer, changed from %d to %d" % (
            self.what, int(self.outside[k]), int(self.snap[k]), int(now[k]))


STATE = types.SimpleNamespace(np=None, dc=None, FV={}, npv=None, npvnew=None, npvint=None, helper=None)


def prepare(need_sizes=FV_SIZES_ALL, need_shapes=TUP_SHAPES):
    """build everything, import the package, return"""
    t0 = time.time()
    stage_a()
    if PKG not in sys.path:
        sys.path.insert(0, PKG)
    import numpy as np
    import dune.common as dc
    import dune.generator
    assert os.path.realpath(dc.__file__).startswith(REPO + "/"), dc.__file__
    dune.generator.builder = BUILDER
    STATE.np, STATE.dc = np, dc
    from dune.generator import algorithm
    from io import StringIO

    def parallel(mods):
        jobs = [BUILDER.job(m) for m in mods]
        if jobs:
            with ThreadPoolExecutor(max_workers=int(os.environ.get("VERIF_C20_JOBS", "6"))) as ex:
                list(ex.map(lambda j: build_artefact(*j), jobs))

    # stage B: FieldVector<double,n> modules and the NumPyVector algorithm module, sources from the current generator
    BUILDER.collect = []
    for n in need_sizes:
        try:
            dc.FieldVector([0] * n)
        except Collected:
            pass
    dummy = np.zeros(1)
    try:
        algorithm.load("c20npv", StringIO(NPV_CODE), dummy, 0, 0.0, 0, dummy)
    except Collected:
        pass
    try:
        algorithm.load("c20npvnew", StringIO(NPV2_CODE), dummy, 0.0)
    except Collected:
        pass
    idummy = np.zeros(1, dtype=np.int64)
    try:
        algorithm.load("c20npvint", StringIO(NPV3_CODE), idummy, 0, 0.0, 0)
    except Collected:
        pass
    try:
        BUILDER.load("c20helper", HELPER_CODE)
    except Collected:
        pass
    mods, BUILDER.collect = BUILDER.collect, None
    parallel(mods)
    for n in need_sizes:
        STATE.FV[n] = type(dc.FieldVector([0] * n))
    STATE.npv = algorithm.load("c20npv", StringIO(NPV_CODE), dummy, 0, 0.0, 0, dummy)
    STATE.npvnew = algorithm.load("c20npvnew", StringIO(NPV2_CODE), dummy, 0.0)
    STATE.npvint = algorithm.load("c20npvint", StringIO(NPV3_CODE), idummy, 0, 0.0, 0)
    STATE.helper = BUILDER.load("c20helper", HELPER_CODE)
    # stage C: tuple vectors
    BUILDER.collect = []
    for shape, ref in need_shapes:
        try:
            dc.TupleVector(tuple(make_sources(shape, zero_values(shape))), allowByReference=(ref == "ref"))
        except Collected:
            pass
    mods, BUILDER.collect = BUILDER.collect, None
    parallel(mods)
    return time.time() - t0


# =========================================================================================================
# 2. op language helpers
# =========================================================================================================

BOUND = 1 << 24     # entries are integer-valued doubles with |e| <= 2^24: all arithmetic below stays exact
NV, NA, NT = 4, 3, 2


def shape_slots(shape):
    return shape.split(",")


def slot_width(s):
    return int(s[1:]) if s[0] == "F" else 1


def zero_values(shape):
    return [0] * sum(slot_width(s) for s in shape_slots(shape))


def make_sources(shape, vals):
    """fresh Python objects for a tuple vector: float / int / FieldVector"""
    out, p = [], 0
    for s in shape_slots(shape):
        w = slot_width(s)
        if s == "d":
            out.append(float(vals[p]))
        elif s == "i":
            out.append(int(vals[p]))
        else:
            out.append(STATE.dc.FieldVector([float(v) for v in vals[p:p + w]]))
        p += w
    return out


def fmt_list(l):
    return "[" + ",".join(str(x) for x in l) + "]"


def parse_list(s):
    if len(s) < 2 or s[0] != "[" or s[-1] != "]":
        raise ValueError("list")
    inner = s[1:-1]
    if not inner:
        return []
    return [int(t) for t in inner.split(",")]


def canon(v):
    """integer-valued float/np.float64/int -> decimal string; anything else is made visible"""
    try:
        f = float(v)
        if f == int(f):
            return str(int(f))
        return "NONINT(%r)" % f
    except Exception:
        return "NAN(%r)" % (v,)


def err_of(ex):
    if isinstance(ex, IndexError):
        return "ERR:Index"
    if isinstance(ex, ValueError):
        return "ERR:Value"
    if isinstance(ex, TypeError):
        return "ERR:Type"
    if isinstance(ex, AttributeError):
        return "ERR:Attribute"
    if isinstance(ex, RuntimeError):
        return "ERR:Runtime"
    return "ERR:Other(%s)" % type(ex).__name__


class Skip(Exception):
    def __init__(self, tag, extra=""):
        self.tag = tag
        self.extra = extra      # finding of the non-dyadic side run (Exec.nd_probe) made before the case was skipped


# Non-dyadic side run (round five, late).  The op language and the Lean model live on integer-valued doubles, where every
# operation is exact and `e / k` is only run when k divides e -- there `e / k` and `e * (1 / k)` round the same.  So every
# arithmetic segment additionally runs the same bound operation on FRESH vectors holding non-dyadic images of the segment's
# numbers (tenths, thirds, 0.3, 49, 103, ...) and compares every entry BIT FOR BIT (float.hex) with the entry-wise IEEE
# result computed on Python floats (= C++ double arithmetic, one correctly rounded operation per entry).
ND_ENT = (lambda e: e / 10.0, lambda e: e / 3.0, lambda e: e * 0.3, lambda e: float(e), lambda e: e + 1.0 / 3.0,
          lambda e: e * 49.0, lambda e: e * 103.0 + 0.1, lambda e: e * 0.7, lambda e: e * 3.0)
ND_SC = (lambda k: k * 10.0, lambda k: k / 10.0, lambda k: k / 3.0, lambda k: k * 49.0, lambda k: k + 0.3,
         lambda k: k * 3.0, lambda k: k * 0.7, lambda k: k * 7.0, lambda k: float(k))
ND_ISC = (lambda k: k * 10, lambda k: k * 49, lambda k: k * 3, lambda k: k, lambda k: k * 7)
ND_OPS = {      # name -> (on the bound objects, on two Python floats, in place?)
    "add": (lambda a, b: a + b, lambda p, q: p + q, False), "sub": (lambda a, b: a - b, lambda p, q: p - q, False),
    "radd": (lambda a, b: b + a, lambda p, q: q + p, False), "rsub": (lambda a, b: b - a, lambda p, q: q - p, False),
    "mul": (lambda a, b: a * b, lambda p, q: p * q, False), "rmul": (lambda a, b: b * a, lambda p, q: p * q, False),
    "div": (lambda a, b: a / b, lambda p, q: p / q, False), "ldiv": (lambda a, b: a.__div__(b), lambda p, q: p / q, False),
    "neg": (lambda a, b: -a, lambda p, q: p * -1.0, False),
    "iadd": (operator.iadd, lambda p, q: p + q, True), "isub": (operator.isub, lambda p, q: p - q, True),
    "imul": (operator.imul, lambda p, q: p * q, True), "idiv": (operator.itruediv, lambda p, q: p / q, True),
}


def ok_vals(vals):
    return all(abs(v) <= BOUND for v in vals)


def idx_tok(t):
    return None if t == "_" else int(t)


# =========================================================================================================
# 3. shadow (independent oracle): plain Python lists; aliasing is Python's own object identity
# =========================================================================================================

class SView:
    """shadow of a numpy view: block (a Python list object) + range of indices into it"""

    def __init__(self, blk, rng, dt="f8"):
        self.blk, self.rng, self.dt = blk, rng, dt

    def code(self):
        return DTYPES[self.dt][0]

    def fits(self, k):
        return DTYPES[self.dt][3] <= k <= DTYPES[self.dt][4]

    def vals(self):
        return [self.blk[i] for i in self.rng]


def py_index(i, n):
    """Python index semantics: position for -n <= i < n, None otherwise"""
    if -n <= i < n:
        return i % n if n else None
    return None


class Shadow:
    def __init__(self, kind, n, shape=None, ref=None):
        self.kind, self.n, self.shape, self.ref = kind, n, shape, ref
        self.x = [None] * NV
        self.a = [None] * NA
        self.t = [None] * NT      # tuple vectors: list of ['d',val] | ['i',val] | ['F',blocklist]
        self.s = [None] * NT      # their Python-side sources

    def construct(self, L, kind=None):
        if kind == "npb0" and L:  # a broadcast buffer (byte stride 0) shows its one number len(L) times
            L = [L[-1]] * len(L)
        if self.kind == "fv":
            return (list(L) + [0] * self.n)[:self.n]
        return list(L)

    def sm(self):
        return self.kind == "fv" and self.n == 1


# =========================================================================================================
# 4. executor: runs one program on the real bindings and on the shadow, returns (impl line, verdict)
# =========================================================================================================

def reg(tok, letter, count):
    if len(tok) < 2 or tok[0] != letter:
        raise ValueError("register " + tok)
    k = int(tok[1:])
    if not (0 <= k < count):
        raise ValueError("register " + tok)
    return k


def stat_index(i, n):
    """distribution of the indices handed to __getitem__/__setitem__ of a vector with n entries"""
    if 0 <= i < n:
        stat("idx_nonneg_in_range")
    elif -n <= i < 0:
        stat("idx_negative_in_range")
    elif i in (n, -n - 1):
        stat("idx_first_out_of_range")
    elif -(1 << 63) <= i < (1 << 63):
        stat("idx_out_of_range")
    else:
        stat("idx_beyond_ssize_t")


def line_variant(head):
    """which build of the package an op line (by the first token of its header) is executed with"""
    return "pre" if head in ("pfv", "ptup") else "jit"


class Delegate:
    """a child interpreter holding the other build of the package: lines are piped to it one by one"""

    def __init__(self, variant):
        cmd = [sys.executable, "-S", "-E", os.path.abspath(__file__), "--serve", "1", "--variant", variant]
        self.p = subprocess.Popen(cmd, stdin=subprocess.PIPE, stdout=subprocess.PIPE, text=True, bufsize=1)

    def execute(self, line):
        try:
            self.p.stdin.write(line.replace("\n", " ") + "\n")
            self.p.stdin.flush()
            ans = self.p.stdout.readline()
        except (BrokenPipeError, OSError):
            ans = ""
        if not ans.endswith("\n") or "\x1f" not in ans:
            # the child died on this line (or could not build): die as well, the line is the last one in BASE.ops
            print("C20: the %s-variant child process failed on: %s\n%s" % (line_variant(line.split(" ")[0]), line, ans))
            sys.stdout.flush()
            os._exit(3)
        impl, orc = ans[:-1].split("\x1f", 1)
        return impl, orc


DELEGATES = {}


class Exec:
    def __init__(self, header):
        hs = header.split()
        if not hs or line_variant(hs[0]) != VARIANT:
            raise ValueError("header")
        self.kind = {"pfv": "fv", "ptup": "tup"}.get(hs[0], hs[0])
        np = STATE.np
        if self.kind in ("fv", "dyn"):
            self.n = int(hs[1])
            if len(hs) != 2:
                raise ValueError("header")
            if self.kind == "fv":
                if self.n not in STATE.FV:
                    raise ValueError("size not built")
                self.T = STATE.FV[self.n]
            else:
                self.T = STATE.dc.DynamicVector
            self.sh = Shadow(self.kind, self.n)
        elif self.kind == "tup":
            if len(hs) != 3 or (hs[1], hs[2]) not in TUP_SHAPES:
                raise ValueError("header")
            self.shape, self.ref = hs[1], hs[2]
            self.n = 0
            self.sh = Shadow("tup", 0, self.shape, self.ref)
        else:
            raise ValueError("kind")
        self.x = [None] * NV
        self.a = [None] * NA
        self.t = [None] * NT
        self.s = [None] * NT
        self.np = np
        self.trivial = True
        self.guards = []          # see class Guard

    # ----- reading real objects ---------------------------------------------------------------------------
    def vlist(self, v):
        return fmt_list([canon(v[i]) for i in range(len(v))])

    def alist(self, a):
        return fmt_list([canon(e) for e in a.tolist()])

    # ----- one segment: returns (impl_obs, expected_obs) ----------------------------------------------------
    def seg(self, seg):
        tk = seg.split(" ")
        if not tk or not tk[0]:
            raise ValueError("empty segment")
        op = tk[0]
        f = getattr(self, "op_" + op, None)
        if f is None:
            raise ValueError("unknown op " + op)
        try:
            return f(tk)
        except Skip as s:
            if s.extra:
                self.trivial = False
            return (s.tag + s.extra, s.tag)

    # helper: evaluate `impl()` on the real code mapping exceptions to ERR:*, `exp()` on the shadow
    def both(self, impl, exp, nd=""):
        try:
            e = exp()
        except Skip:
            raise
        try:
            i = impl()
        except Exception as ex:  # noqa
            i = err_of(ex)
        self.trivial = False
        return (i + nd, e)

    def nd_probe(self, op, A, B=None, k=None, isint=False, asfloat=False):
        """non-dyadic side run of one arithmetic operation (see ND_ENT): `op` from ND_OPS, A the entries of the left vector,
        B the entries of a vector / list operand (kind 'v' / 'l') or k the scalar (Python int if isint).  asfloat: the
        bindings return a float (FieldVector<K,1> * int).  Returns "" or a marker naming the first entry that differs in
        any bit from the IEEE result.  Works on fresh objects only."""
        if not A or len(A) > 32:
            return ""
        bop, fop, inplace = ND_OPS[op]
        if B is not None:
            kind, B = B
            if len(B) != len(A):
                return ""
        stat("nd_" + op)
        salt = sum(A) * 7 + len(A) + (sum(B) if B is not None else (k or 0)) * 3
        for j in range(4):
            s = salt + 5 * j
            fa = [ND_ENT[(s + i) % len(ND_ENT)](e) for i, e in enumerate(A)]
            if B is not None:
                fb = [ND_ENT[(s // 3 + 2 * i + 1) % len(ND_ENT)](e) for i, e in enumerate(B)]
                want = [fop(p, q) for p, q in zip(fa, fb)]
                shown = fb
            else:
                sc = 0 if k is None else ND_ISC[(s // 2) % len(ND_ISC)](k) if isint else ND_SC[(s // 2) % len(ND_SC)](k)
                if op in ("div", "ldiv", "idiv") and sc == 0:
                    continue
                want = [fop(p, sc) for p in fa]
                shown = sc
            stat("nd_runs")
            try:
                a = self.T(fa)
                b = (self.T(fb) if kind == "v" else list(fb)) if B is not None else sc
                v = bop(a, b)
                if inplace and v is not a:
                    return " NONDYADIC(%s of %r and %r gave a new object)" % (op, fa, shown)
                if asfloat and type(v) is float:     # a dot product: the sum starts from +0.0 (matters for -0.0 only)
                    got, want = [v], [0.0 + w for w in want]
                else:
                    got = [float(v[i]) for i in range(len(v))]
            except Exception as ex:  # noqa
                return " NONDYADIC(%s of %r and %r raised %s)" % (op, fa, shown, err_of(ex))
            if len(got) != len(want) or any(g.hex() != float(w).hex() for g, w in zip(got, want)):
                stat("nd_mismatch")
                return (" NONDYADIC(%s of %r and %r gave %r instead of the entry-wise IEEE result %r)"
                        % (op, fa, shown, got, [float(w) for w in want])).replace(";", ",").replace("|", "/")
        return ""

    def need(self, *conds):
        for c in conds:
            if c is None:
                raise Skip("unbound")

    def only(self, *kinds):
        if self.kind not in kinds:
            raise Skip("na")

    # ----------------------------------------------------------------------------------------- constructors
    CTOR_KINDS = ("list", "tuple", "args", "np", "nps2", "nps3", "npsm1", "npsm2", "npb0", "buf", "zero", "fac",
                  "ilist", "ituple", "iargs", "npi", "npf32", "np2d")
    OPERAND_KINDS = ("list", "ilist", "tuple", "np", "nps2", "npsm1", "npb0", "buf")

    def operand(self, kind, L):
        """the Python object of kind `kind` holding the numbers L (a fresh object every time)"""
        np = self.np
        fl = [float(v) for v in L]
        if kind == "list":
            return fl
        if kind == "ilist":
            return [int(v) for v in L]
        if kind == "tuple":
            return tuple(fl)
        if kind == "ituple":
            return tuple(int(v) for v in L)
        if kind == "np":
            return np.array(fl, dtype=np.float64)
        if kind in ("nps2", "nps3"):
            s = int(kind[3:])
            base = np.full(max(1, len(fl) * s), 77.0)
            for j, e in enumerate(fl):
                base[j * s] = e
            return base[::s][:len(fl)]
        if kind in ("npsm1", "npsm2"):
            s = int(kind[4:])
            base = np.full(max(1, len(fl) * s), 77.0)
            for j, e in enumerate(fl):
                base[len(base) - 1 - j * s] = e
            return base[::-s][:len(fl)]
        if kind == "npb0":      # read-only broadcast view: len(L) entries, byte stride 0, all showing the last number of L
            return np.broadcast_to(np.float64(fl[-1]), (len(fl),)) if fl else np.zeros(0)
        if kind == "buf":
            return pyarray.array("d", fl)
        if kind == "npi":
            return np.array([int(v) for v in L], dtype=np.int64)
        if kind == "npf32":
            return np.array(fl, dtype=np.float32)
        if kind == "np2d":
            return np.array([fl, fl], dtype=np.float64)
        raise ValueError("operand kind " + kind)

    def op_new(self, tk):
        self.only("fv", "dyn")
        x = reg(tk[1], "x", NV)
        how = tk[2]
        L = parse_list(tk[3]) if how != "zero" else []
        if how == "zero" and len(tk) != 3 or how != "zero" and len(tk) != 4:
            raise ValueError("new")
        nb = None
        if how.startswith("nb_"):            # nb_<element type>_<layout>: a buffer object from make_buffer
            parts = how.split("_")
            if len(parts) != 3 or parts[1] not in DTYPES:
                raise ValueError("new kind")
            rec_layout(parts[2])                  # ValueError for an unknown layout
            nb = (parts[1], parts[2])
            if (DTYPES[nb[0]][2] is not None or nb[0] == "ro") and nb[1] != "c":
                raise Skip("na")
            if not layout_fits(nb[0], nb[1]):
                raise Skip("na")
        elif how not in self.CTOR_KINDS:
            raise ValueError("new kind")
        if self.kind == "dyn" and how in ("args", "iargs", "fac"):
            raise Skip("na")
        if not ok_vals(L):
            raise Skip("skip")
        if nb and not all(DTYPES[nb[0]][3] <= e <= DTYPES[nb[0]][4] for e in L):
            raise Skip("skip")
        if how == "fac" and len(L) != self.n:
            raise Skip("skip")
        T = self.T
        # which constructor calls are rejected: DynamicVector is constructible from a list only;
        # the FieldVector buffer constructor wants a one-dimensional buffer of doubles
        if self.kind == "dyn":
            bad = None if how in ("list", "ilist", "zero") else "ERR:Type"
        elif nb:
            bad = None if DTYPES[nb[0]][0] in (0, 8) else "ERR:Value"
        else:
            bad = "ERR:Value" if how in ("npi", "npf32", "np2d") else None
        # a buffer of doubles NumPy does not call aligned (a field of packed records): the constructor may reject it
        # (ValueError; it does: the exported format is `=d`) or construct the vector with exactly the buffer's numbers --
        # never anything else.  Either way the register stays as it is.
        unal = bool(nb) and bad is None and self.kind == "fv" and layout_unaligned(nb[1], len(L))
        if unal:
            stat("ctor_unaligned")

        def impl_unaligned():
            buf = make_buffer(self.np, nb[0], nb[1], L)
            if buf.flags.aligned:
                return "HARNESS(alignment rule: NumPy calls %s with %d entries aligned)" % (nb[1], len(L))
            try:
                v = T(buf)
            except ValueError:
                return "unaligned-ok"
            got = self.vlist(v)
            return "unaligned-ok" if got == fmt_list(self.sh.construct(L)) else got

        def impl():
            if unal:
                return impl_unaligned()
            if how in ("args", "iargs"):
                v = T(*self.operand("list" if how == "args" else "ilist", L))
            elif how == "zero":
                v = T()
            elif how == "fac":
                v = STATE.dc.FieldVector([float(e) for e in L])
                if type(v) is not T:
                    return "WRONGCLASS(%s)" % type(v).__name__
            elif nb:
                v = T(make_buffer(self.np, nb[0], nb[1], L))
            else:
                v = T(self.operand(how, L))
            if type(v) is not T:
                return "WRONGCLASS(%s)" % type(v).__name__
            self.x[x] = v
            return self.vlist(v)

        def exp():
            if bad:
                return bad
            if unal:
                return "unaligned-ok"
            blk = self.sh.construct(L, how)
            self.sh.x[x] = blk
            return fmt_list(blk)
        return self.both(impl, exp)

    def op_copy(self, tk):
        self.only("fv", "dyn")
        x, y = reg(tk[1], "x", NV), reg(tk[2], "x", NV)
        if len(tk) != 3:
            raise ValueError("copy")
        self.only("fv")
        self.need(self.sh.x[y])

        def impl():
            v = self.T(self.x[y])
            self.x[x] = v
            return self.vlist(v)

        def exp():
            self.sh.x[x] = list(self.sh.x[y])
            return fmt_list(self.sh.x[x])
        return self.both(impl, exp)

    def op_mcopy(self, tk):
        self.only("fv", "dyn")
        x, y = reg(tk[1], "x", NV), reg(tk[2], "x", NV)
        if len(tk) != 3:
            raise ValueError("mcopy")
        self.only("fv")
        self.need(self.sh.x[y])

        def impl():
            v = self.x[y].copy()
            if type(v) is not self.T:
                return "WRONGCLASS(%s)" % type(v).__name__
            self.x[x] = v
            return self.vlist(v)

        def exp():
            self.sh.x[x] = list(self.sh.x[y])
            return fmt_list(self.sh.x[x])
        return self.both(impl, exp)

    def op_mcopya(self, tk):
        """v.copy(*numbers): a new vector from the numbers (first n, zero-filled); v.copy() when no numbers are given"""
        self.only("fv", "dyn")
        x, y, L = reg(tk[1], "x", NV), reg(tk[2], "x", NV), parse_list(tk[3])
        if len(tk) != 4:
            raise ValueError("mcopya")
        self.only("fv")
        self.need(self.sh.x[y])
        if not ok_vals(L):
            raise Skip("skip")

        def impl():
            v = self.x[y].copy(*[float(e) for e in L])
            if type(v) is not self.T:
                return "WRONGCLASS(%s)" % type(v).__name__
            self.x[x] = v
            return self.vlist(v)

        def exp():
            self.sh.x[x] = self.sh.construct(L) if L else list(self.sh.x[y])
            return fmt_list(self.sh.x[x])
        return self.both(impl, exp)

    def op_alias(self, tk):
        self.only("fv", "dyn")
        x, y = reg(tk[1], "x", NV), reg(tk[2], "x", NV)
        if len(tk) != 3:
            raise ValueError("alias")
        self.need(self.sh.x[y])

        def impl():
            v = +self.x[y]
            self.x[x] = v
            return self.vlist(v)

        def exp():
            self.sh.x[x] = self.sh.x[y]
            return fmt_list(self.sh.x[x])
        return self.both(impl, exp)

    # ------------------------------------------------------------------------------------------- arithmetic
    def _binvv(self, tk, pyop, shop, ndop):
        self.only("fv", "dyn")
        x, y, z = reg(tk[1], "x", NV), reg(tk[2], "x", NV), reg(tk[3], "x", NV)
        if len(tk) != 4:
            raise ValueError("binvv")
        self.need(self.sh.x[y], self.sh.x[z])
        A, B = self.sh.x[y], self.sh.x[z]
        if len(A) != len(B):
            raise Skip("skip")
        nd = self.nd_probe(ndop, A, ("v", B))
        R = [shop(p, q) for p, q in zip(A, B)]
        if not ok_vals(R):
            raise Skip("skip", nd)

        def impl():
            v = pyop(self.x[y], self.x[z])
            self.x[x] = v
            return self.vlist(v)

        def exp():
            self.sh.x[x] = R
            return fmt_list(R)
        return self.both(impl, exp, nd)

    def op_add(self, tk):
        return self._binvv(tk, lambda a, b: a + b, lambda p, q: p + q, "add")

    def op_sub(self, tk):
        return self._binvv(tk, lambda a, b: a - b, lambda p, q: p - q, "sub")

    def operand_status(self, kind, reflected=False):
        """how the bindings treat an operand of Python kind `kind` standing for a vector:
        'ok' (converted through the constructor), 'type' (TypeError), 'na' (not an operation of the bindings)"""
        if kind not in self.OPERAND_KINDS:
            raise ValueError("operand kind " + kind)
        stat("okind_" + kind + ("_reflected" if reflected else ""))
        if kind in ("list", "ilist"):
            return "ok"
        if kind == "tuple":
            # FieldVector: implicit conversion tuple -> vector exists for the left operand's overloads only
            return "type" if (self.kind == "dyn" or reflected) else "ok"
        # buffers: FieldVector converts them implicitly; with a DynamicVector or as left operand NumPy/array take over
        return "ok" if (self.kind == "fv" and not reflected) else "na"

    def _binvl(self, tk, pyop, shop, listfirst, kinded=False):
        self.only("fv", "dyn")
        x = reg(tk[1], "x", NV)
        if len(tk) != (5 if kinded else 4):
            raise ValueError("binvl")
        kind = "list"
        if kinded:
            kind = tk[2]
            tk = tk[:2] + tk[3:]
        if listfirst:
            L, y = parse_list(tk[2]), reg(tk[3], "x", NV)
        else:
            y, L = reg(tk[2], "x", NV), parse_list(tk[3])
        status = self.operand_status(kind, listfirst)
        if status == "na":
            raise Skip("na")
        self.need(self.sh.x[y])
        A = self.sh.x[y]
        if not ok_vals(L):
            raise Skip("skip")
        if self.kind == "dyn" and len(L) != len(A):
            raise Skip("skip")
        B = self.sh.construct(L, kind)
        R = [shop(q, p) if listfirst else shop(p, q) for p, q in zip(A, B)]
        # side run with a list of floats as the other operand (accepted on both sides by both vector classes)
        nd = self.nd_probe(("r" if listfirst else "") + ("add" if shop(5, 3) == 8 else "sub"), A, ("l", B))
        if not ok_vals(R):
            raise Skip("skip", nd)

        def impl():
            o = self.operand(kind, L)
            v = pyop(o, self.x[y]) if listfirst else pyop(self.x[y], o)
            if type(v) is not self.T:
                return "WRONGCLASS(%s)" % type(v).__name__
            self.x[x] = v
            return self.vlist(v)

        def exp():
            if status == "type":
                return "ERR:Type"
            self.sh.x[x] = R
            return fmt_list(R)
        return self.both(impl, exp, nd)

    def op_addl(self, tk):
        return self._binvl(tk, lambda a, b: a + b, lambda p, q: p + q, False)

    def op_subl(self, tk):
        return self._binvl(tk, lambda a, b: a - b, lambda p, q: p - q, False)

    def op_raddl(self, tk):
        return self._binvl(tk, lambda a, b: a + b, lambda p, q: p + q, True)

    def op_rsubl(self, tk):
        return self._binvl(tk, lambda a, b: a - b, lambda p, q: p - q, True)

    # the same with an operand kind:  addo x KIND y L  /  raddo x KIND L y
    def op_addo(self, tk):
        return self._binvl(tk, lambda a, b: a + b, lambda p, q: p + q, False, True)

    def op_subo(self, tk):
        return self._binvl(tk, lambda a, b: a - b, lambda p, q: p - q, False, True)

    def op_raddo(self, tk):
        return self._binvl(tk, lambda a, b: a + b, lambda p, q: p + q, True, True)

    def op_rsubo(self, tk):
        return self._binvl(tk, lambda a, b: a - b, lambda p, q: p - q, True, True)

    def _scal(self, tk, which, isint=False):
        """vector * scalar, scalar * vector, vector / scalar, vector.__div__(scalar), -vector; the scalar is a Python float
        or (isint) a Python int.  FieldVector<K,1> * int is the dot product with the vector the int converts to: a float."""
        self.only("fv", "dyn")
        x = reg(tk[1], "x", NV)
        if which == "neg":
            if len(tk) != 3:
                raise ValueError("neg")
            y, k = reg(tk[2], "x", NV), -1
        elif which == "rmul":
            if len(tk) != 4:
                raise ValueError("rmul")
            k, y = int(tk[2]), reg(tk[3], "x", NV)
        else:
            if len(tk) != 4:
                raise ValueError(which)
            y, k = reg(tk[2], "x", NV), int(tk[3])
        self.need(self.sh.x[y])
        A = self.sh.x[y]
        if abs(k) > BOUND:
            raise Skip("skip")
        asdot = isint and self.sh.sm() and which in ("mul", "rmul")
        nd = self.nd_probe(which, A, None, None if which == "neg" else k, isint, asdot)
        if which in ("div", "ldiv"):
            if k == 0 or any(e % k for e in A):
                raise Skip("skip", nd)
            R = [e // k for e in A]
        else:
            R = [e * k for e in A]
        if not ok_vals(R):
            raise Skip("skip", nd)
        kk = int(k) if isint else float(k)

        def impl():
            o = self.x[y]
            v = {"mul": lambda: o * kk, "rmul": lambda: kk * o, "div": lambda: o / kk, "ldiv": lambda: o.__div__(kk),
                 "neg": lambda: -o}[which]()
            if asdot and type(v) is float:
                return "f:" + canon(v)
            if type(v) is not self.T:
                return "WRONGCLASS(%s)" % type(v).__name__
            self.x[x] = v
            return self.vlist(v)

        def exp():
            if asdot:
                return "f:" + str(R[0])
            self.sh.x[x] = R
            return fmt_list(R)
        return self.both(impl, exp, nd)

    def op_mul(self, tk):
        return self._scal(tk, "mul")

    def op_rmul(self, tk):
        return self._scal(tk, "rmul")

    def op_div(self, tk):
        return self._scal(tk, "div")

    def op_ldiv(self, tk):
        return self._scal(tk, "ldiv")

    def op_neg(self, tk):
        return self._scal(tk, "neg")

    def op_muli(self, tk):
        return self._scal(tk, "mul", True)

    def op_rmuli(self, tk):
        return self._scal(tk, "rmul", True)

    def op_divi(self, tk):
        return self._scal(tk, "div", True)

    def _intscal(self, tk, which, isfloat=False):
        """vector (+|-) Python int and reflected: entry arithmetic for FieldVector<K,1>; for every other vector only
        the neutral int 0 is accepted (returning the vector itself, or its negation for 0 - v), else ValueError.
        With a Python float (isfloat): entry arithmetic for FieldVector<K,1>, TypeError for every other vector."""
        self.only("fv", "dyn")
        x = reg(tk[1], "x", NV)
        if len(tk) != 4:
            raise ValueError(which)
        if which in ("raddi", "rsubi"):
            k, y = int(tk[2]), reg(tk[3], "x", NV)
        else:
            y, k = reg(tk[2], "x", NV), int(tk[3])
        self.need(self.sh.x[y])
        A = self.sh.x[y]
        if abs(k) > BOUND:
            raise Skip("skip")
        sm = self.sh.sm()
        nd = ""
        if sm:
            nd = self.nd_probe({"addi": "add", "subi": "sub", "raddi": "radd", "rsubi": "rsub"}[which], A, None, k, not isfloat)
            R = [{"addi": A[0] + k, "subi": A[0] - k, "raddi": k + A[0], "rsubi": k - A[0]}[which]]
            if not ok_vals(R):
                raise Skip("skip", nd)
        kk = float(k) if isfloat else int(k)

        def impl():
            o = self.x[y]
            v = {"addi": lambda: o + kk, "subi": lambda: o - kk, "raddi": lambda: kk + o, "rsubi": lambda: kk - o}[which]()
            if type(v) is not self.T:
                return "WRONGCLASS(%s)" % type(v).__name__
            self.x[x] = v
            return self.vlist(v)

        def exp():
            if sm:
                self.sh.x[x] = R
            elif isfloat:
                return "ERR:Type"
            elif k != 0:
                return "ERR:Value"
            elif which == "rsubi":
                self.sh.x[x] = [-e for e in A]
            else:
                self.sh.x[x] = A          # the very same object
            return fmt_list(self.sh.x[x])
        return self.both(impl, exp, nd)

    def op_addi(self, tk):
        return self._intscal(tk, "addi")

    def op_subi(self, tk):
        return self._intscal(tk, "subi")

    def op_raddi(self, tk):
        return self._intscal(tk, "raddi")

    def op_rsubi(self, tk):
        return self._intscal(tk, "rsubi")

    def op_addf(self, tk):
        return self._intscal(tk, "addi", True)

    def op_subf(self, tk):
        return self._intscal(tk, "subi", True)

    def op_raddf(self, tk):
        return self._intscal(tk, "raddi", True)

    def op_rsubf(self, tk):
        return self._intscal(tk, "rsubi", True)

    # --------------------------------------------------------------------------------------------- in place
    def _inplace(self, tk, which, kinded=False, isint=False):
        self.only("fv", "dyn")
        x = reg(tk[1], "x", NV)
        if len(tk) != (4 if kinded else 3):
            raise ValueError(which)
        okind = "list"
        if kinded:
            okind = tk[2]
            tk = tk[:2] + tk[3:]
        self.need(self.sh.x[x])
        A = self.sh.x[x]
        rhs = None
        status = "ok"
        if which in ("iadd", "isub"):
            y = reg(tk[2], "x", NV)
            self.need(self.sh.x[y])
            B = list(self.sh.x[y])
            if len(B) != len(A):
                raise Skip("skip")
            rhs = ("v", y)
        elif which in ("iaddl", "isubl"):
            L = parse_list(tk[2])
            status = self.operand_status(okind)
            if status == "na":
                raise Skip("na")
            if not ok_vals(L):
                raise Skip("skip")
            if self.kind == "dyn" and len(L) != len(A):
                raise Skip("skip")
            B = self.sh.construct(L, okind)
            rhs = ("l", L)
        else:
            k = int(tk[2])
            if abs(k) > BOUND:
                raise Skip("skip")
            B = [k] * len(A)
            rhs = ("s", int(k) if isint else float(k))
        ndop = {"iadd": "iadd", "iaddl": "iadd", "iadds": "iadd", "isub": "isub", "isubl": "isub", "isubs": "isub",
                "imuls": "imul", "idivs": "idiv"}[which]
        if rhs[0] == "s":
            nd = self.nd_probe(ndop, A, None, k, isint)
        else:
            nd = self.nd_probe(ndop, A, (rhs[0], B[:len(A)]))
        if which in ("iadd", "iaddl", "iadds"):
            R = [p + q for p, q in zip(A, B)]
        elif which in ("isub", "isubl", "isubs"):
            R = [p - q for p, q in zip(A, B)]
        elif which == "imuls":
            R = [p * q for p, q in zip(A, B)]
        else:
            if k == 0 or any(e % k for e in A):
                raise Skip("skip", nd)
            R = [e // k for e in A]
        if not ok_vals(R):
            raise Skip("skip", nd)

        def impl():
            o = self.x[x]
            r = self.x[rhs[1]] if rhs[0] == "v" else self.operand(okind, rhs[1]) if rhs[0] == "l" else rhs[1]
            if which in ("iadd", "iaddl", "iadds"):
                o += r
            elif which in ("isub", "isubl", "isubs"):
                o -= r
            elif which == "imuls":
                o *= r
            else:
                o /= r
            if o is not self.x[x]:
                return "NEWOBJECT(%s)" % type(o).__name__
            return self.vlist(o)

        def exp():
            if status == "type":
                return "ERR:Type"
            A[:] = R          # in place: every alias and view sees it
            return fmt_list(A)
        return self.both(impl, exp, nd)

    def op_iadd(self, tk):
        return self._inplace(tk, "iadd")

    def op_isub(self, tk):
        return self._inplace(tk, "isub")

    def op_iaddl(self, tk):
        return self._inplace(tk, "iaddl")

    def op_isubl(self, tk):
        return self._inplace(tk, "isubl")

    def op_iaddo(self, tk):
        return self._inplace(tk, "iaddl", True)

    def op_isubo(self, tk):
        return self._inplace(tk, "isubl", True)

    def op_iadds(self, tk):
        return self._inplace(tk, "iadds")

    def op_isubs(self, tk):
        return self._inplace(tk, "isubs")

    def op_imuls(self, tk):
        return self._inplace(tk, "imuls")

    def op_idivs(self, tk):
        return self._inplace(tk, "idivs")

    def op_iaddi(self, tk):
        return self._inplace(tk, "iadds", isint=True)

    def op_isubi(self, tk):
        return self._inplace(tk, "isubs", isint=True)

    def op_imuli(self, tk):
        return self._inplace(tk, "imuls", isint=True)

    def op_idivi(self, tk):
        return self._inplace(tk, "idivs", isint=True)

    def op_assign(self, tk):
        self.only("fv", "dyn")
        x, y = reg(tk[1], "x", NV), reg(tk[2], "x", NV)
        if len(tk) != 3:
            raise ValueError("assign")
        self.need(self.sh.x[x], self.sh.x[y])

        def impl():
            self.x[x].assign(self.x[y])
            return self.vlist(self.x[x])

        def exp():
            self.sh.x[x][:] = list(self.sh.x[y])
            return fmt_list(self.sh.x[x])
        return self.both(impl, exp)

    def op_assigno(self, tk):
        """v.assign(<list|tuple|buffer>): the argument is converted to a vector first"""
        self.only("fv", "dyn")
        x, okind, L = reg(tk[1], "x", NV), tk[2], parse_list(tk[3])
        if len(tk) != 4:
            raise ValueError("assigno")
        status = self.operand_status(okind)
        if status == "na":
            raise Skip("na")
        self.need(self.sh.x[x])
        if not ok_vals(L):
            raise Skip("skip")

        def impl():
            self.x[x].assign(self.operand(okind, L))
            return self.vlist(self.x[x])

        def exp():
            if status == "type":
                return "ERR:Type"
            self.sh.x[x][:] = self.sh.construct(L, okind)
            return fmt_list(self.sh.x[x])
        return self.both(impl, exp)

    def _set(self, tk, npidx):
        self.only("fv", "dyn")
        x, i, k = reg(tk[1], "x", NV), int(tk[2]), int(tk[3])
        if len(tk) != 4:
            raise ValueError("set")
        self.need(self.sh.x[x])
        if abs(k) > BOUND:
            raise Skip("skip")
        if npidx and not (-(1 << 63) <= i < (1 << 63)):
            raise Skip("skip")
        ii = self.np.int64(i) if npidx else i
        stat_index(i, len(self.sh.x[x]))

        def impl():
            self.x[x][ii] = float(k)
            return self.vlist(self.x[x])

        def exp():
            A = self.sh.x[x]
            p = py_index(i, len(A))
            if p is None:
                return "ERR:Index"
            A[p] = k
            return fmt_list(A)
        return self.both(impl, exp)

    def op_set(self, tk):
        return self._set(tk, False)

    def op_setn(self, tk):
        return self._set(tk, True)

    # ----------------------------------------------------------------------------------------- observations
    def _get(self, tk, npidx):
        self.only("fv", "dyn")
        x, i = reg(tk[1], "x", NV), int(tk[2])
        if len(tk) != 3:
            raise ValueError("get")
        self.need(self.sh.x[x])
        if npidx and not (-(1 << 63) <= i < (1 << 63)):
            raise Skip("skip")
        ii = self.np.int64(i) if npidx else i
        stat_index(i, len(self.sh.x[x]))

        def impl():
            r = self.x[x][ii]
            if type(r) is not float:
                return "BADTYPE(%s)" % type(r).__name__
            return canon(r)

        def exp():
            A = self.sh.x[x]
            p = py_index(i, len(A))
            return "ERR:Index" if p is None else str(A[p])
        return self.both(impl, exp)

    def op_get(self, tk):
        return self._get(tk, False)

    def op_getn(self, tk):
        return self._get(tk, True)

    def op_len(self, tk):
        self.only("fv", "dyn")
        x = reg(tk[1], "x", NV)
        if len(tk) != 2:
            raise ValueError("len")
        self.need(self.sh.x[x])
        return self.both(lambda: str(len(self.x[x])), lambda: str(len(self.sh.x[x])))

    def op_iter(self, tk):
        self.only("fv", "dyn")
        x = reg(tk[1], "x", NV)
        if len(tk) != 2:
            raise ValueError("iter")
        self.need(self.sh.x[x])
        return self.both(lambda: fmt_list([canon(e) for e in self.x[x]]), lambda: fmt_list(self.sh.x[x]))

    def op_str(self, tk):
        """str() and repr() (FieldVector) / repr() (DynamicVector): '(' entries printed with %f, joined by ', ' ')';
        the observation is that string with every number canonicalised, e.g. `(1, -2, 0)`"""
        self.only("fv", "dyn")
        x = reg(tk[1], "x", NV)
        if len(tk) != 2:
            raise ValueError("str")
        self.need(self.sh.x[x])
        import re

        def impl():
            o = self.x[x]
            if self.kind == "fv":
                s = str(o)
                r = repr(o)
                if r != "Dune::FieldVector<%d>%s" % (self.n, s):
                    return "BADREPR(%s)" % r
            else:
                s = repr(o)
                if not s.startswith("Dune::DynamicVector: "):
                    return "BADREPR(%s)" % s
                s = s[len("Dune::DynamicVector: "):]
            # keep the structure of the string (parentheses, delimiters), canonicalise the %f-printed numbers in it
            return re.sub(r"-?\d+\.\d{6}(?!\d)", lambda m: canon(float(m.group(0))), s)
        return self.both(impl, lambda: "(" + ", ".join(str(e) for e in self.sh.x[x]) + ")")

    def op_slice(self, tk):
        self.only("fv", "dyn")
        x = reg(tk[1], "x", NV)
        if len(tk) != 5:
            raise ValueError("slice")
        i, j, s = idx_tok(tk[2]), idx_tok(tk[3]), idx_tok(tk[4])
        self.only("fv")
        self.need(self.sh.x[x])
        if s == 0:
            raise Skip("skip")
        return self.both(lambda: self.alist(self.x[x][i:j:s]), lambda: fmt_list(self.sh.x[x][i:j:s]))

    def _cmpv(self, tk, neg):
        self.only("fv", "dyn")
        x, y = reg(tk[1], "x", NV), reg(tk[2], "x", NV)
        if len(tk) != 3:
            raise ValueError("cmp")
        self.need(self.sh.x[x], self.sh.x[y])
        if len(self.sh.x[x]) != len(self.sh.x[y]):
            raise Skip("skip")

        def impl():
            r = (self.x[x] != self.x[y]) if neg else (self.x[x] == self.x[y])
            return "true" if r is True else "false" if r is False else "NOTBOOL(%r)" % (r,)
        return self.both(impl, lambda: "true" if ((self.sh.x[x] == self.sh.x[y]) != neg) else "false")

    def op_eq(self, tk):
        return self._cmpv(tk, False)

    def op_ne(self, tk):
        return self._cmpv(tk, True)

    def _cmpl(self, tk, neg, kinded=False):
        self.only("fv", "dyn")
        x = reg(tk[1], "x", NV)
        if len(tk) != (4 if kinded else 3):
            raise ValueError("cmpl")
        okind = "list"
        if kinded:
            okind = tk[2]
            tk = tk[:2] + tk[3:]
        L = parse_list(tk[2])
        if self.operand_status(okind) != "ok":
            raise Skip("na")          # Python falls back to comparing identities: not an operation of the bindings
        self.need(self.sh.x[x])
        if not ok_vals(L):
            raise Skip("skip")
        if self.kind == "dyn" and len(L) != len(self.sh.x[x]):
            raise Skip("skip")

        def impl():
            o = self.operand(okind, L)
            r = (self.x[x] != o) if neg else (self.x[x] == o)
            return "true" if r is True else "false" if r is False else "NOTBOOL(%r)" % (r,)
        return self.both(impl, lambda: "true" if ((self.sh.x[x] == self.sh.construct(L, okind)) != neg) else "false")

    def op_eql(self, tk):
        return self._cmpl(tk, False)

    def op_nel(self, tk):
        return self._cmpl(tk, True)

    def op_eqo(self, tk):
        return self._cmpl(tk, False, True)

    def op_neo(self, tk):
        return self._cmpl(tk, True, True)

    def op_norms(self, tk):
        self.only("fv", "dyn")
        x = reg(tk[1], "x", NV)
        if len(tk) != 2:
            raise ValueError("norms")
        self.need(self.sh.x[x])

        def impl():
            o = self.x[x]
            two2 = o.two_norm2
            if o.two_norm != math.sqrt(two2):
                return "BADTWONORM(%r,%r)" % (o.two_norm, two2)
            if o.one_norm_real != o.one_norm or o.infinity_norm_real != o.infinity_norm:
                return "BADREALNORM"
            return fmt_list([canon(o.one_norm), canon(o.infinity_norm), canon(two2)])

        def exp():
            A = self.sh.x[x]
            return fmt_list([sum(abs(e) for e in A), max([abs(e) for e in A] + [0]), sum(e * e for e in A)])
        return self.both(impl, exp)

    def op_dot(self, tk):
        self.only("fv", "dyn")
        x, y = reg(tk[1], "x", NV), reg(tk[2], "x", NV)
        if len(tk) != 3:
            raise ValueError("dot")
        self.need(self.sh.x[x], self.sh.x[y])
        if len(self.sh.x[x]) != len(self.sh.x[y]):
            raise Skip("skip")
        return self.both(lambda: canon(self.x[x] * self.x[y]),
                         lambda: str(sum(p * q for p, q in zip(self.sh.x[x], self.sh.x[y]))))

    def _dotl(self, tk, reflected, kinded=False):
        self.only("fv", "dyn")
        x = reg(tk[1], "x", NV)
        if len(tk) != (4 if kinded else 3):
            raise ValueError("dotl")
        okind = "list"
        if kinded:
            okind = tk[2]
            tk = tk[:2] + tk[3:]
        L = parse_list(tk[2])
        status = self.operand_status(okind)
        if status == "na":
            raise Skip("na")
        self.need(self.sh.x[x])
        if not ok_vals(L):
            raise Skip("skip")
        if self.kind == "dyn" and len(L) != len(self.sh.x[x]):
            raise Skip("skip")

        def impl():
            o = self.operand(okind, L)
            r = (o * self.x[x]) if reflected else (self.x[x] * o)
            if type(r) is not float:
                return "BADTYPE(%s)" % type(r).__name__
            return canon(r)

        def exp():
            if status == "type":
                return "ERR:Type"
            return str(sum(p * q for p, q in zip(self.sh.x[x], self.sh.construct(L, okind))))
        return self.both(impl, exp)

    def op_dotl(self, tk):
        return self._dotl(tk, False)

    def op_rdotl(self, tk):
        return self._dotl(tk, True)

    def op_doto(self, tk):
        return self._dotl(tk, False, True)

    def op_float(self, tk):
        self.only("fv", "dyn")
        x = reg(tk[1], "x", NV)
        if len(tk) != 2:
            raise ValueError("float")
        if not self.sh.sm():
            raise Skip("na")
        self.need(self.sh.x[x])
        return self.both(lambda: canon(float(self.x[x])), lambda: str(self.sh.x[x][0]))

    # ----------------------------------------------------------------------------------- numpy views / copies
    def op_view(self, tk):
        self.only("fv", "dyn")
        a, x = reg(tk[1], "a", NA), reg(tk[2], "x", NV)
        if len(tk) != 3:
            raise ValueError("view")
        self.only("fv")
        self.need(self.sh.x[x])

        def impl():
            arr = self.np.array(self.x[x], copy=False)
            self.a[a] = arr
            return self.alist(arr)

        def exp():
            blk = self.sh.x[x]
            self.sh.a[a] = SView(blk, range(len(blk)))
            return fmt_list(blk)
        return self.both(impl, exp)

    def op_npcopy(self, tk):
        self.only("fv", "dyn")
        a, x = reg(tk[1], "a", NA), reg(tk[2], "x", NV)
        if len(tk) != 3:
            raise ValueError("npcopy")
        self.need(self.sh.x[x])

        def impl():
            arr = self.np.array(self.x[x])
            if arr.dtype != self.np.float64 or arr.ndim != 1:
                return "BADARRAY(%s,%d)" % (arr.dtype, arr.ndim)
            self.a[a] = arr
            return self.alist(arr)

        def exp():
            blk = list(self.sh.x[x])
            self.sh.a[a] = SView(blk, range(len(blk)))
            return fmt_list(blk)
        return self.both(impl, exp)

    def op_sl(self, tk):
        self.only("fv", "dyn")
        a, x = reg(tk[1], "a", NA), reg(tk[2], "x", NV)
        if len(tk) != 6:
            raise ValueError("sl")
        i, j, s = idx_tok(tk[3]), idx_tok(tk[4]), idx_tok(tk[5])
        self.only("fv")
        self.need(self.sh.x[x])
        if s == 0:
            raise Skip("skip")

        def impl():
            arr = self.x[x][i:j:s]
            self.a[a] = arr
            return self.alist(arr)

        def exp():
            blk = self.sh.x[x]
            self.sh.a[a] = SView(blk, range(len(blk))[i:j:s])
            return fmt_list(self.sh.a[a].vals())
        return self.both(impl, exp)

    def op_aget(self, tk):
        self.only("fv", "dyn")
        a, i = reg(tk[1], "a", NA), int(tk[2])
        if len(tk) != 3:
            raise ValueError("aget")
        self.need(self.sh.a[a])
        if abs(i) > (1 << 40):
            raise Skip("skip")

        def exp():
            v = self.sh.a[a]
            p = py_index(i, len(v.rng))
            return "ERR:Index" if p is None else str(v.blk[v.rng[p]])
        return self.both(lambda: canon(self.a[a][i]), exp)

    def op_aset(self, tk):
        self.only("fv", "dyn")
        a, i, k = reg(tk[1], "a", NA), int(tk[2]), int(tk[3])
        if len(tk) != 4:
            raise ValueError("aset")
        self.need(self.sh.a[a])
        v = self.sh.a[a]
        if abs(k) > BOUND or abs(i) > (1 << 40) or not v.fits(k):
            raise Skip("skip")
        kk = int(k) if DTYPES[v.dt][5] else float(k)

        def impl():
            self.a[a][i] = kk
            return self.alist(self.a[a])

        def exp():
            if v.code() == 8:
                return "ERR:Value"            # assignment destination is read-only
            p = py_index(i, len(v.rng))
            if p is None:
                return "ERR:Index"
            v.blk[v.rng[p]] = k
            return fmt_list(v.vals())
        return self.both(impl, exp)

    def op_alist(self, tk):
        self.only("fv", "dyn")
        a = reg(tk[1], "a", NA)
        if len(tk) != 2:
            raise ValueError("alist")
        self.need(self.sh.a[a])
        return self.both(lambda: self.alist(self.a[a]), lambda: fmt_list(self.sh.a[a].vals()))

    def op_ndt(self, tk):
        """array register a := a fresh buffer object of element type DT and layout LAY holding the numbers of register b
        (NumPy arrays of the common dtypes incl. a read-only one, array.array of several typecodes)"""
        self.only("fv", "dyn")
        a, b, dt, lay = reg(tk[1], "a", NA), reg(tk[2], "a", NA), tk[3], tk[4]
        if len(tk) != 5 or dt not in DTYPES:
            raise ValueError("ndt")
        rec_layout(lay)                       # ValueError for an unknown layout
        if (DTYPES[dt][2] is not None or dt == "ro") and lay != "c":
            raise Skip("na")
        if not layout_fits(dt, lay):
            raise Skip("na")
        self.need(self.sh.a[b])
        A = self.sh.a[b].vals()
        if not all(DTYPES[dt][3] <= e <= DTYPES[dt][4] for e in A):
            raise Skip("skip")

        def impl():
            arr = make_buffer(self.np, dt, lay, [float(e) for e in self.a[b].tolist()])
            if isinstance(arr, self.np.ndarray):
                self.guards.append(Guard(self.np, arr, "a%d (ndt %s %s)" % (a, dt, lay)))
            self.a[a] = arr
            return self.alist(arr)

        def exp():
            blk = list(A)
            self.sh.a[a] = SView(blk, range(len(blk)), dt)
            return fmt_list(blk)
        return self.both(impl, exp)

    # -------------------------------------------------- NumPy-backed C++ vector (NumPyVector in a generated module)
    def _npv(self, pathb, a, op, k=0.0, i=0, b=None):
        """path A: algorithm module generated by dune.generator (argument pybind11::array_t<double>&: pybind11 converts a
        buffer of another element type before the call); path B: NumPyVector( pybind11::buffer ) on the object itself"""
        arr = self.a[a]
        f = STATE.helper.npvcoef if pathb == "c" else (STATE.helper.npvbuf if pathb else STATE.npv)
        return f(arr, op, float(k), int(i), arr if b is None else self.a[b])

    def _nvec(self, tk, which, pathb):
        """operations of a NumPyVector<double> over array register a.  The vector shares the memory of a buffer of
        doubles; of a buffer of another element type it holds a converted copy: it shows the same numbers, what it
        writes is seen through the vector (the returned one norm) but never reaches the buffer; a read-only buffer is
        rejected with ValueError."""
        self.only("fv", "dyn")
        a = reg(tk[1], "a", NA)
        nargs = {"nscale": 3, "nset": 4, "nget": 3, "nnorms": 2, "naxpy": 4, "nadd": 3, "nrun": 2}[which]
        if len(tk) != nargs:
            raise ValueError(which)
        k, i, b = 0, 0, None
        if which == "nscale":
            k = int(tk[2])
        elif which == "nset":
            i, k = int(tk[2]), int(tk[3])
        elif which == "nget":
            i = int(tk[2])
        elif which == "naxpy":
            k, b = int(tk[2]), reg(tk[3], "a", NA)
        elif which == "nadd":
            b = reg(tk[2], "a", NA)
        self.need(self.sh.a[a])
        if b is not None:
            self.need(self.sh.a[b])
        va = self.sh.a[a]
        vb = self.sh.a[b] if b is not None else None
        A = va.vals()
        R = None
        if which == "nscale":
            R = [e * k for e in A]
            if abs(k) > BOUND or not ok_vals(R):
                raise Skip("skip")
        elif which == "nset":
            if abs(k) > BOUND or not (0 <= i < len(A)):      # operator[] of the C++ vector is unchecked
                raise Skip("skip")
            R = list(A)
            R[i] = k
        elif which == "nget":
            if not (0 <= i < len(A)):
                raise Skip("skip")
        elif which in ("naxpy", "nadd"):
            if len(va.rng) != len(vb.rng) or abs(k) > BOUND:
                raise Skip("skip")
            if va.blk is vb.blk and va.rng != vb.rng:       # overlapping but different views: order dependent
                raise Skip("skip")
            kk = k if which == "naxpy" else 1
            R = [p + kk * q for p, q in zip(A, vb.vals())]
            if not ok_vals(R):
                raise Skip("skip")
        elif which == "nrun":
            R = [e + j for j, e in enumerate(A)]
            if not ok_vals(R):
                raise Skip("skip")
        readonly = va.code() == 8 or (vb is not None and vb.code() == 8)
        opno = {"nscale": 0, "nset": 1, "naxpy": 2, "nadd": 3, "nrun": 4}.get(which)

        def impl():
            if which == "nget":
                return canon(self._npv(pathb, a, 9, 0, i))
            if which == "nnorms":
                return fmt_list([canon(self._npv(pathb, a, 8)), canon(self._npv(pathb, a, 5)), canon(self._npv(pathb, a, 6)),
                                 canon(self._npv(pathb, a, 7))])
            ret = self._npv(pathb, a, opno, k, i, b)
            if va.code() == 0:
                if canon(ret) != str(sum(abs(e) for e in R)):
                    return "BADRET(%s)" % canon(ret)
                return self.alist(self.a[a])
            return "w:%s:%s" % (canon(ret), self.alist(self.a[a]))

        def exp():
            if readonly:
                return "ERR:Value"
            if which == "nget":
                return str(A[i])
            if which == "nnorms":
                return fmt_list([len(A), sum(abs(e) for e in A), max([abs(e) for e in A] + [0]), sum(e * e for e in A)])
            if va.code() == 0:
                for p, r in zip(va.rng, R):
                    va.blk[p] = r
                return fmt_list(va.vals())
            return "w:%d:%s" % (sum(abs(e) for e in R), fmt_list(A))
        return self.both(impl, exp)

    def op_nnew(self, tk):
        """a NumPyVector constructed with a size owns a fresh array: a := k * b as a new, independent array of doubles"""
        self.only("fv", "dyn")
        a, b, k = reg(tk[1], "a", NA), reg(tk[2], "a", NA), int(tk[3])
        if len(tk) != 4:
            raise ValueError("nnew")
        self.need(self.sh.a[b])
        vb = self.sh.a[b]
        R = [k * q for q in vb.vals()]
        if abs(k) > BOUND or not ok_vals(R):
            raise Skip("skip")

        def impl():
            arr = STATE.npvnew(self.a[b], float(k))
            if type(arr) is not self.np.ndarray or arr.dtype != self.np.float64 or arr.ndim != 1:
                return "BADARRAY(%s)" % type(arr).__name__
            self.a[a] = arr
            return self.alist(arr)

        def exp():
            if vb.code() == 8:
                return "ERR:Value"
            self.sh.a[a] = SView(R, range(len(R)))
            return fmt_list(R)
        return self.both(impl, exp)

    def op_nint(self, tk):
        """NumPyVector<double> over an int64 copy of the array: shows the same numbers (size, norms, entries); `x *= k`
        on it works on the converted copy, the integer array keeps its values"""
        self.only("fv", "dyn")
        a, k = reg(tk[1], "a", NA), int(tk[2])
        if len(tk) != 3:
            raise ValueError("nint")
        self.need(self.sh.a[a])
        A = self.sh.a[a].vals()
        R = [e * k for e in A]
        if abs(k) > BOUND or not ok_vals(R):
            raise Skip("skip")

        def impl():
            ia = self.np.asarray(self.a[a]).astype(self.np.int64)
            f = STATE.npvint
            res = [canon(f(ia, 8, 0.0, 0)), canon(f(ia, 5, 0.0, 0)), canon(f(ia, 6, 0.0, 0)), canon(f(ia, 7, 0.0, 0))]
            res += [canon(f(ia, 9, 0.0, j)) for j in range(len(ia))]
            res.append(canon(f(ia, 0, float(k), 0)))          # one norm of the scaled (copied) vector
            return fmt_list(res + [str(int(e)) for e in ia.tolist()])

        def exp():
            return fmt_list([len(A), sum(abs(e) for e in A), max([abs(e) for e in A] + [0]), sum(e * e for e in A)] + A
                            + [sum(abs(e) for e in R)] + A)
        return self.both(impl, exp)

    def op_nvscale(self, tk):
        """NumPyVector<double> constructed directly over the vector object x (a FieldVector is a buffer of doubles: the
        C++ vector shares its cells; a DynamicVector is no buffer): x *= k through the NumPy-backed vector"""
        self.only("fv", "dyn")
        x, k = reg(tk[1], "x", NV), int(tk[2])
        if len(tk) != 3:
            raise ValueError("nvscale")
        self.need(self.sh.x[x])
        A = self.sh.x[x]
        R = [e * k for e in A]
        if abs(k) > BOUND or not ok_vals(R):
            raise Skip("skip")

        def impl():
            o = self.x[x]
            ret = STATE.helper.npvbuf(o, 0, float(k), 0, o)
            if canon(ret) != str(sum(abs(e) for e in R)):
                return "BADRET(%s)" % canon(ret)
            return self.vlist(o)

        def exp():
            if self.kind == "dyn":
                return "ERR:Type"
            A[:] = R
            return fmt_list(A)
        return self.both(impl, exp)

    # ---------------------------------------------------------------------------------------- tuple vectors
    def tdump_real(self, t):
        out = []
        for i in range(len(t)):
            out.append(self.telem_real(t[i]))
        return "[" + ",".join(out) + "]"

    def telem_real(self, e):
        if type(e) is float:
            return "d:" + canon(e)
        if type(e) is int:
            return "i:" + str(e)
        for n, cls in STATE.FV.items():
            if type(e) is cls:
                return "F%d:%s" % (n, self.vlist(e))
        return "UNKNOWN(%s)" % type(e).__name__

    @staticmethod
    def telem_sh(s):
        if s[0] == "F":
            return "F%d:%s" % (len(s[1]), fmt_list(s[1]))
        return "%s:%d" % (s[0], s[1])

    def tdump_sh(self, t):
        return "[" + ",".join(self.telem_sh(s) for s in t) + "]"

    def _tnew(self, tk, args_style):
        self.only("tup")
        t, V = reg(tk[1], "t", NT), parse_list(tk[2])
        if len(tk) != 3:
            raise ValueError("tnew")
        slots = shape_slots(self.shape)
        if len(V) != sum(slot_width(s) for s in slots) or not ok_vals(V):
            raise Skip("skip")
        byref = self.ref == "ref"

        def impl():
            src = make_sources(self.shape, V)
            if args_style:
                tv = STATE.dc.TupleVector(*src, allowByReference=byref)
            else:
                tv = STATE.dc.TupleVector(tuple(src), allowByReference=byref)
            self.t[t], self.s[t] = tv, src
            return self.tdump_real(tv)

        def exp():
            src, tv, p = [], [], 0
            for s in slots:
                w = slot_width(s)
                if s[0] == "F":
                    blk = list(V[p:p + w])
                    src.append(["F", blk])
                    tv.append(["F", blk if byref else list(blk)])
                else:
                    src.append([s, V[p]])
                    tv.append([s, V[p]])
                p += w
            self.sh.t[t], self.sh.s[t] = tv, src
            return self.tdump_sh(tv)
        return self.both(impl, exp)

    def op_tnew(self, tk):
        return self._tnew(tk, False)

    def op_tnewa(self, tk):
        return self._tnew(tk, True)

    def op_tlen(self, tk):
        self.only("tup")
        t = reg(tk[1], "t", NT)
        if len(tk) != 2:
            raise ValueError("tlen")
        self.need(self.sh.t[t])
        return self.both(lambda: str(len(self.t[t])), lambda: str(len(self.sh.t[t])))

    def op_tget(self, tk):
        self.only("tup")
        t, i = reg(tk[1], "t", NT), int(tk[2])
        if len(tk) != 3:
            raise ValueError("tget")
        self.need(self.sh.t[t])

        def exp():
            T = self.sh.t[t]
            if i < 0 or i >= (1 << 64):
                return "ERR:Type"             # the index is a std::size_t
            return self.telem_sh(T[i]) if i < len(T) else "ERR:Index"
        return self.both(lambda: self.telem_real(self.t[t][i]), exp)

    def op_tlist(self, tk):
        self.only("tup")
        t = reg(tk[1], "t", NT)
        if len(tk) != 2:
            raise ValueError("tlist")
        self.need(self.sh.t[t])
        return self.both(lambda: self.tdump_real(self.t[t]), lambda: self.tdump_sh(self.sh.t[t]))

    def _tset(self, tk, what):
        self.only("tup")
        t, i = reg(tk[1], "t", NT), int(tk[2])
        if len(tk) != 4:
            raise ValueError("tset")
        self.need(self.sh.t[t])
        T = self.sh.t[t]
        if what in ("f", "l"):
            L = parse_list(tk[3])
            if not ok_vals(L) or len(L) not in (2, 3):       # the tuple shapes have FieldVector entries of size 2 and 3
                raise Skip("skip")
            if 0 <= i < len(T) and T[i][0] == "F" and len(T[i][1]) != len(L):
                raise Skip("skip")           # different FieldVector size: conversion through the buffer, not modelled
            if what == "f":
                val = lambda: STATE.dc.FieldVector([float(v) for v in L])   # noqa: E731
            else:
                val = lambda: [float(v) for v in L]   # noqa: E731    (a list converts to the FieldVector entry)
        else:
            k = int(tk[3])
            if abs(k) > BOUND:
                raise Skip("skip")
            val = (lambda: float(k)) if what == "d" else (lambda: int(k))

        def impl():
            self.t[t][i] = val()
            return self.tdump_real(self.t[t])

        def exp():
            if i < 0 or i >= (1 << 64):
                return "ERR:Type"             # the index is a std::size_t
            if i >= len(T):
                return "ERR:Index"
            kind = T[i][0]
            if what in ("f", "l"):
                if kind != "F":
                    return "ERR:Runtime"
                T[i][1][:] = L
            elif kind == "F":
                return "ERR:Runtime"
            elif kind == "i" and what == "d":
                return "ERR:Runtime"        # a Python float is not accepted for an int entry
            else:
                T[i][1] = k
            return self.tdump_sh(T)
        return self.both(impl, exp)

    def op_tsetd(self, tk):
        return self._tset(tk, "d")

    def op_tseti(self, tk):
        return self._tset(tk, "i")

    def op_tsetf(self, tk):
        return self._tset(tk, "f")

    def op_tsetl(self, tk):
        return self._tset(tk, "l")

    def _elem(self, tk, src):
        """t[i][j] = k   resp.   source_of_t[i][j] = k : writes through the element handle / the Python-side object"""
        self.only("tup")
        t, i, j, k = reg(tk[1], "t", NT), int(tk[2]), int(tk[3]), int(tk[4])
        if len(tk) != 5:
            raise ValueError("elem")
        self.need(self.sh.t[t])
        T = (self.sh.s if src else self.sh.t)[t]
        if not (0 <= i < len(T)) or abs(k) > BOUND:
            raise Skip("skip")
        if T[i][0] != "F":
            raise Skip("skip")

        def impl():
            h = (self.s if src else self.t)[t][i]
            h[j] = float(k)
            return self.tdump_real(self.t[t])

        def exp():
            blk = T[i][1]
            p = py_index(j, len(blk))
            if p is None:
                return "ERR:Index"
            blk[p] = k
            return self.tdump_sh(self.sh.t[t])
        return self.both(impl, exp)

    def op_tsetel(self, tk):
        return self._elem(tk, False)

    def op_srcset(self, tk):
        return self._elem(tk, True)

    def op_tcopy(self, tk):
        self.only("tup")
        t, u = reg(tk[1], "t", NT), reg(tk[2], "t", NT)
        if len(tk) != 3:
            raise ValueError("tcopy")
        self.need(self.sh.t[u])
        byref = self.ref == "ref"

        def impl():
            c = self.t[u].copy()
            if type(c) is not type(self.t[u]):
                return "WRONGCLASS(%s)" % type(c).__name__
            self.t[t], self.s[t] = c, self.s[u]
            return self.tdump_real(c)

        def exp():
            U = self.sh.t[u]
            self.sh.t[t] = [[s[0], (s[1] if byref else list(s[1]))] if s[0] == "F" else [s[0], s[1]] for s in U]
            self.sh.s[t] = self.sh.s[u]
            return self.tdump_sh(self.sh.t[t])
        return self.both(impl, exp)

    def op_tassign(self, tk):
        self.only("tup")
        t, u = reg(tk[1], "t", NT), reg(tk[2], "t", NT)
        if len(tk) != 3:
            raise ValueError("tassign")
        self.need(self.sh.t[t], self.sh.t[u])

        def impl():
            self.t[t].assign(self.t[u])
            return self.tdump_real(self.t[t])

        def exp():
            T, U = self.sh.t[t], self.sh.t[u]
            for a, b in zip(T, U):
                if a[0] == "F":
                    a[1][:] = list(b[1])
                else:
                    a[1] = b[1]
            return self.tdump_sh(T)
        return self.both(impl, exp)

    # ------------------------------------------------------------------------------------------- final dump
    def dump(self):
        def one(impl, exp):
            try:
                i = impl()
            except Exception as ex:  # noqa
                i = err_of(ex)
            return i, exp()
        ii, ee = [], []
        if self.kind == "tup":
            for k in range(NT):
                if self.sh.t[k] is None:
                    i, e = "unbound", "unbound"
                else:
                    i, e = one(lambda: self.tdump_real(self.t[k]), lambda: self.tdump_sh(self.sh.t[k]))
                ii.append("t%d=%s" % (k, i))
                ee.append("t%d=%s" % (k, e))
                if self.sh.s[k] is None:
                    i, e = "unbound", "unbound"
                else:
                    i, e = one(lambda: "[" + ",".join(self.telem_real(o) for o in self.s[k]) + "]",
                               lambda: self.tdump_sh(self.sh.s[k]))
                ii.append("s%d=%s" % (k, i))
                ee.append("s%d=%s" % (k, e))
        else:
            for k in range(NV):
                if self.sh.x[k] is None:
                    i, e = "unbound", "unbound"
                else:
                    i, e = one(lambda: self.vlist(self.x[k]), lambda: fmt_list(self.sh.x[k]))
                ii.append("x%d=%s" % (k, i))
                ee.append("x%d=%s" % (k, e))
            for k in range(NA):
                if self.sh.a[k] is None:
                    i, e = "unbound", "unbound"
                else:
                    i, e = one(lambda: self.alist(self.a[k]), lambda: fmt_list(self.sh.a[k].vals()))
                ii.append("a%d=%s" % (k, i))
                ee.append("a%d=%s" % (k, e))
        return " ".join(ii), " ".join(ee)


def _install_nvec_ops():
    def mk(which, pathb):
        return lambda self, tk: self._nvec(tk, which, pathb)
    for which in ("nscale", "nset", "nget", "nnorms", "naxpy", "nadd", "nrun"):
        setattr(Exec, "op_" + which, mk(which, False))
        setattr(Exec, "op_" + which + "b", mk(which, True))
    for which in ("nset", "nget"):        # through coefficients() / data() / the const accessors (helper function npvcoef)
        setattr(Exec, "op_" + which + "c", mk(which, "c"))


_install_nvec_ops()

STATS = {}


def stat(k, by=1):
    STATS[k] = STATS.get(k, 0) + by


def execute(line):
    """returns (impl answer line, oracle verdict)"""
    try:
        if " : " not in line:
            raise ValueError("no header")
        header, rest = line.split(" : ", 1)
        lv = line_variant(header.strip().split(" ")[0])
        if lv != VARIANT:
            if lv not in DELEGATES:
                DELEGATES[lv] = Delegate(lv)
            return DELEGATES[lv].execute(line)
        ex = Exec(header.strip())
        segs = rest.split(";")
        obs_i, obs_e, bad = [], [], None
        for k, sg in enumerate(segs):
            i, e = ex.seg(sg)
            obs_i.append(i)
            obs_e.append(e)
            stat("obs_" + (e if e in ("skip", "na", "unbound") or e.startswith("ERR:") else "value"))
            if i != e and bad is None:
                bad = "segment %d `%s`: bindings gave %s, expected %s" % (k, sg, i, e)
            if bad is None:
                for g in ex.guards:
                    gv = g.violated()
                    if gv:
                        bad = "segment %d `%s`: memory outside the buffer was written: %s" % (k, sg, gv)
                        break
        di, de = ex.dump()
        if di != de and bad is None:
            bad = "final state: bindings %s, expected %s" % (di, de)
        impl = ";".join(obs_i) + " | " + di
        if bad:
            return impl, "FAIL " + bad
        return impl, ("ok trivial" if ex.trivial else "ok")
    except (ValueError, IndexError) as ve:
        return "bad-op", "ok trivial (unparsable: %s)" % ve


# =========================================================================================================
# 5. generator
# =========================================================================================================

class Rng:
    M = (1 << 64) - 1

    def __init__(self, seed):
        # NB: not the increment of next() as multiplier, otherwise seed+1 yields the same stream shifted by one draw
        self.s = (seed * 0xD1342543DE82EF95 + 0x1234567) & self.M

    def next(self):
        self.s = (self.s + 0x9E3779B97F4A7C15) & self.M
        z = self.s
        z = ((z ^ (z >> 30)) * 0xBF58476D1CE4E5B9) & self.M
        z = ((z ^ (z >> 27)) * 0x94D049BB133111EB) & self.M
        return z ^ (z >> 31)

    def below(self, n):
        return self.next() % n if n else 0

    def range(self, lo, hi):
        return lo + self.below(hi - lo + 1)

    def coin(self, num=1, den=2):
        return self.below(den) < num

    def pick(self, seq):
        return seq[self.below(len(seq))]

    def weighted(self, pairs):
        tot = sum(w for _, w in pairs)
        r = self.below(tot)
        for v, w in pairs:
            if r < w:
                return v
            r -= w
        return pairs[-1][0]


def gen_val(r):
    c = r.below(10)
    if c < 6:
        return r.range(-9, 9)
    if c < 8:
        return r.pick([0, 1, -1, 2, -2])
    return r.range(-99, 99)


def gen_list(r, n, exact=False):
    if exact:
        ln = n
    else:
        ln = r.weighted([(n, 6), (max(0, n - 1), 1), (n + 1, 1), (0, 1), (r.range(0, n + 3), 1)])
    return fmt_list([gen_val(r) for _ in range(ln)])


def gen_index(r, n):
    c = r.below(12)
    if c < 5:
        return r.range(-n, n - 1) if n else 0
    if c < 9:
        return r.pick([-n - 1, -n, -1, 0, n - 1, n, n + 1, -n - 2, n + 2])
    return r.pick([1 << 33, -(1 << 33), 1000, -1000, (1 << 63) - 1, 1 << 63, -(1 << 63), -(1 << 63) - 1, 1 << 64, -(1 << 64),
                   (1 << 31) - 1, 1 << 31, -(1 << 31), 1 << 32, (1 << 64) - 1, (1 << 64) + 1, 10 ** 30])


def gen_index_np(r, n):
    """indices for NumPy's own indexing (the views): NumPy, not the bindings, decides about integers beyond 2^63"""
    c = r.below(12)
    if c < 5:
        return r.range(-n, n - 1) if n else 0
    if c < 10:
        return r.pick([-n - 1, -n, -1, 0, n - 1, n, n + 1, -n - 2, n + 2])
    return r.pick([1 << 33, -(1 << 33), 1000, -1000])


def gen_slice_idx(r, n):
    c = r.below(10)
    if c < 2:
        return "_"
    if c < 8:
        return str(r.range(-n - 2, n + 2))
    return str(r.pick([-100, 100]))


def gen_scalar(r):
    return r.weighted([(2, 3), (-1, 2), (3, 2), (0, 1), (1, 1), (-2, 2), (-3, 1), (4, 1), (7, 1)])


def gen_program(r, idx, tier):
    kind = r.weighted([("fv", 6), ("dyn", 2), ("tup", 2)] if VARIANT == "jit" else [("fv", 7), ("tup", 2)])
    pre = "p" if VARIANT == "pre" else ""
    nseg = r.range(3, 14)
    if kind == "tup":
        shape, ref = r.pick(TUP_SHAPES)
        slots = shape_slots(shape)
        width = sum(slot_width(s) for s in slots)
        segs = ["%s t0 %s" % (r.pick(["tnew", "tnewa"]), fmt_list([gen_val(r) for _ in range(width)]))]
        bt = {0}
        while len(segs) < nseg:
            t = "t%d" % r.weighted([(0, 3), (1, 2)])
            u = "t%d" % r.weighted([(0, 3), (1, 2)])
            if int(u[1]) not in bt and not r.coin(1, 10):
                u = "t%d" % r.pick(sorted(bt))
            i = r.weighted([(r.below(len(slots)), 16), (len(slots), 2), (len(slots) + 1, 2), (-1, 1),
                            (r.pick([-len(slots), 1 << 63, 1 << 64, (1 << 64) - 1, -(1 << 63)]), 1)])
            w = slot_width(slots[i]) if 0 <= i < len(slots) else 2
            op = r.weighted([("tnew", 2), ("tnewa", 1), ("tlen", 1), ("tget", 4), ("tlist", 1), ("tsetd", 3), ("tseti", 3),
                             ("tsetf", 3), ("tsetl", 2), ("tsetel", 4), ("srcset", 4), ("tcopy", 3), ("tassign", 2)])
            if op not in ("tnew", "tnewa", "tcopy") and int(t[1]) not in bt and not r.coin(1, 10):
                t = "t%d" % r.pick(sorted(bt))
            if op in ("tnew", "tnewa", "tcopy"):
                bt.add(int(t[1]))
            stat("op_" + op)
            if op in ("tnew", "tnewa"):
                segs.append("%s %s %s" % (op, t, fmt_list([gen_val(r) for _ in range(width)])))
            elif op in ("tlen", "tlist"):
                segs.append("%s %s" % (op, t))
            elif op == "tget":
                segs.append("tget %s %d" % (t, i))
            elif op in ("tsetd", "tseti"):
                segs.append("%s %s %d %d" % (op, t, i, gen_val(r)))
            elif op in ("tsetf", "tsetl"):
                m = w if (0 <= i < len(slots) and slots[i][0] == "F") else r.pick([2, 3])
                segs.append("%s %s %d %s" % (op, t, i, fmt_list([gen_val(r) for _ in range(m)])))
            elif op in ("tsetel", "srcset"):
                segs.append("%s %s %d %d %d" % (op, t, i, gen_index(r, w), gen_val(r)))
            else:
                segs.append("%s %s %s" % (op, t, u))
        stat("kind_%stup_%s_%s" % (pre, shape, ref))
        return "%stup %s %s : %s" % (pre, shape, ref, ";".join(segs))

    n = (r.pick(FV_SIZES_ALL if tier == "thorough" else FV_SIZES) if kind == "fv"
         else r.weighted([(3, 4), (1, 1), (2, 2), (5, 2), (0, 1)]))
    stat("kind_%s%s_n%d" % (pre if kind == "fv" else "", kind, n))
    ctor_kinds = (["list", "tuple", "args", "np", "nps2", "nps3", "npsm1", "npsm2", "buf", "zero", "fac",
                   "list", "tuple", "args", "np", "nps2", "nps3", "npsm1", "npsm2", "buf", "zero", "fac",
                   "ilist", "ituple", "iargs", "iargs", "npi", "npf32", "np2d", "npb0"]
                  if kind == "fv" else ["list", "list", "list", "list", "zero", "zero", "ilist", "tuple", "np", "buf", "npi",
                                        "npb0"])
    dts = sorted(DTYPES)

    def pick_layout(dt):
        """memory layout of a buffer object: the plain ones (element strides) and fields of packed records (byte strides)"""
        if DTYPES[dt][2] is not None or dt == "ro":
            return "c"
        if r.coin(2, 5):
            fit = [q for q in REC_LAYOUTS if layout_fits(dt, q)]
            if fit:
                return r.pick(fit)
        return r.pick(LAYOUTS)
    for _ in range(8):       # buffers of every element type and layout
        dt = "f8" if r.coin(1, 4) else r.pick(dts)
        ctor_kinds.append("nb_%s_%s" % (dt, pick_layout(dt)))
    okinds_all = ["list", "ilist", "tuple", "np", "nps2", "npsm1", "buf", "npb0"]

    def okind():
        return r.pick(okinds_all if kind == "fv" else ["list", "ilist", "tuple", "tuple", "np"])

    bx, ba = set(), set()       # registers that are (probably) bound so far

    def xr(target=False):
        k = r.weighted([(0, 4), (1, 3), (2, 2), (3, 1)])
        if target:
            bx.add(k)
        elif bx and k not in bx and not r.coin(1, 12):
            k = r.pick(sorted(bx))
        return "x%d" % k

    def ar(target=False):
        k = r.weighted([(0, 3), (1, 2), (2, 1)])
        if target:
            ba.add(k)
        elif ba and k not in ba and not r.coin(1, 12):
            k = r.pick(sorted(ba))
        return "a%d" % k

    def ctor_valid(how):
        """does this constructor call (probably) yield a vector?"""
        if kind == "dyn":
            return how in ("list", "ilist", "zero")
        if how.startswith("nb_"):
            return DTYPES[how.split("_")[1]][0] in (0, 8)
        return how not in ("npi", "npf32", "np2d")

    def ctor(first=False):
        how = r.pick(ctor_kinds)
        while first and not ctor_valid(how):        # the first constructor of a program yields a vector
            how = r.pick(ctor_kinds)
        k = r.weighted([(0, 4), (1, 3), (2, 2), (3, 1)])
        if ctor_valid(how):
            bx.add(k)
        x = "x%d" % k
        stat("ctor_" + (how if not how.startswith("nb_") else "nb_" + how.split("_")[1]))
        if how == "zero":
            return "new %s zero" % x
        return "new %s %s %s" % (x, how, gen_list(r, n, exact=(how == "fac" or (kind == "dyn" and r.coin(3, 4)))))
    segs = [ctor(True)]
    if r.coin(2, 3):
        segs.append(ctor(True))
    ops = [("new", 6), ("copy", 3), ("mcopy", 3), ("mcopya", 2), ("alias", 3), ("add", 3), ("sub", 3), ("addl", 2), ("subl", 2),
           ("raddl", 2), ("rsubl", 3), ("addo", 2), ("subo", 2), ("raddo", 1), ("rsubo", 1),
           ("mul", 2), ("rmul", 2), ("div", 2), ("ldiv", 1), ("muli", 2), ("rmuli", 2), ("divi", 1), ("neg", 2),
           ("addi", 2), ("subi", 2), ("raddi", 2), ("rsubi", 3), ("addf", 1), ("subf", 1), ("raddf", 1), ("rsubf", 2),
           ("iadd", 3), ("isub", 3), ("iaddl", 2), ("isubl", 2), ("iaddo", 1), ("isubo", 1), ("iadds", 2), ("isubs", 2),
           ("imuls", 2), ("idivs", 2), ("iaddi", 1), ("isubi", 1), ("imuli", 1), ("idivi", 1), ("assign", 2), ("assigno", 2),
           ("set", 8), ("get", 8), ("setn", 1), ("getn", 2), ("len", 1), ("iter", 2), ("str", 2),
           ("slice", 4), ("eq", 2), ("ne", 2), ("eql", 2), ("nel", 2), ("eqo", 1), ("neo", 1), ("norms", 3), ("dot", 2),
           ("dotl", 2), ("rdotl", 2), ("doto", 1), ("float", 1),
           ("view", 5), ("npcopy", 3), ("sl", 6), ("aget", 3), ("aset", 6), ("alist", 1), ("nscale", 3), ("nset", 3),
           ("nget", 2), ("nnorms", 2), ("naxpy", 3), ("nadd", 2), ("nnew", 2), ("nint", 1), ("nrun", 2),
           ("ndt", 6), ("nvscale", 2)]
    while len(segs) < nseg:
        op = r.weighted(ops)
        if op in ("aget", "aset", "alist", "nscale", "nset", "nget", "nnorms", "naxpy", "nadd", "nnew", "nint", "nrun", "ndt") and not ba:
            op = r.pick(["view", "sl", "npcopy"]) if kind == "fv" else "npcopy"
        stat("op_" + op)
        if op == "new":
            segs.append(ctor())
        elif op in ("copy", "mcopy", "alias"):
            y = xr()
            segs.append("%s %s %s" % (op, xr(True), y))
        elif op == "mcopya":
            y = xr()
            segs.append("mcopya %s %s %s" % (xr(True), y, gen_list(r, n) if r.coin(5, 6) else "[]"))
        elif op in ("addo", "subo"):
            y = xr()
            segs.append("%s %s %s %s %s" % (op, xr(True), okind(), y, gen_list(r, n, kind == "dyn" and r.coin(4, 5))))
        elif op in ("raddo", "rsubo"):
            y = xr()
            segs.append("%s %s %s %s %s" % (op, xr(True), r.pick(["tuple", "tuple", "ilist", "np"]),
                                            gen_list(r, n, kind == "dyn" and r.coin(4, 5)), y))
        elif op in ("iaddo", "isubo", "eqo", "neo", "doto", "assigno"):
            segs.append("%s %s %s %s" % (op, xr(), okind(), gen_list(r, n, kind == "dyn" and r.coin(4, 5))))
        elif op in ("assign", "iadd", "isub", "eq", "ne", "dot"):
            segs.append("%s %s %s" % (op, xr(), xr()))
        elif op in ("add", "sub"):
            y, z = xr(), xr()
            segs.append("%s %s %s %s" % (op, xr(True), y, z))
        elif op in ("addl", "subl"):
            y = xr()
            segs.append("%s %s %s %s" % (op, xr(True), y, gen_list(r, n, kind == "dyn" and r.coin(4, 5))))
        elif op in ("raddl", "rsubl"):
            y = xr()
            segs.append("%s %s %s %s" % (op, xr(True), gen_list(r, n, kind == "dyn" and r.coin(4, 5)), y))
        elif op in ("mul", "div", "ldiv", "muli", "divi"):
            y = xr()
            segs.append("%s %s %s %d" % (op, xr(True), y, gen_scalar(r)))
        elif op in ("rmul", "rmuli"):
            y = xr()
            segs.append("%s %s %d %s" % (op, xr(True), gen_scalar(r), y))
        elif op == "neg":
            y = xr()
            segs.append("neg %s %s" % (xr(True), y))
        elif op in ("addi", "subi", "addf", "subf"):
            y = xr()
            segs.append("%s %s %s %d" % (op, xr(True), y, r.weighted([(0, 3), (gen_scalar(r), 2)])))
        elif op in ("raddi", "rsubi", "raddf", "rsubf"):
            y = xr()
            segs.append("%s %s %d %s" % (op, xr(True), r.weighted([(0, 3), (gen_scalar(r), 2)]), y))
        elif op in ("iaddl", "isubl", "eql", "nel", "dotl", "rdotl"):
            segs.append("%s %s %s" % (op, xr(), gen_list(r, n, kind == "dyn" and r.coin(4, 5))))
        elif op in ("iadds", "isubs", "imuls", "idivs", "iaddi", "isubi", "imuli", "idivi"):
            segs.append("%s %s %d" % (op, xr(), gen_scalar(r)))
        elif op in ("set", "setn"):
            segs.append("%s %s %d %d" % (op, xr(), gen_index(r, n), gen_val(r)))
        elif op in ("get", "getn"):
            segs.append("%s %s %d" % (op, xr(), gen_index(r, n)))
        elif op in ("len", "iter", "str", "norms", "float"):
            segs.append("%s %s" % (op, xr()))
        elif op == "slice":
            segs.append("slice %s %s %s %s" % (xr(), gen_slice_idx(r, n), gen_slice_idx(r, n),
                                               r.pick(["_", "1", "2", "-1", "-2", "3", "-3"])))
        elif op in ("view", "npcopy"):
            segs.append("%s %s %s" % (op, ar(True), xr()))
        elif op == "sl":
            segs.append("sl %s %s %s %s %s" % (ar(True), xr(), gen_slice_idx(r, n), gen_slice_idx(r, n),
                                               r.pick(["_", "1", "2", "-1", "-2", "3"])))
        elif op == "aget":
            segs.append("aget %s %d" % (ar(), gen_index_np(r, n)))
        elif op == "aset":
            segs.append("aset %s %d %d" % (ar(), gen_index_np(r, max(1, n - r.below(2))), gen_val(r)))
        elif op == "ndt":
            b = ar()
            dt = r.weighted([("f8", 3), (r.pick(dts), 9)])      # doubles are what a NumPyVector<double> shares
            stat("ndt_" + dt)
            lay = pick_layout(dt)
            stat("lay_" + ("rec" if rec_layout(lay) else lay))
            if dt == "f8" and rec_layout(lay):
                stat("lay_rec_f8" + ("_unaligned_stride" if (rec_layout(lay)[0] * rec_layout(lay)[2]) % 8 else ""))
            tgt = ar(True)
            segs.append("ndt %s %s %s %s" % (tgt, b, dt, lay))
            if r.coin():          # use the new buffer object right away: a NumPy-backed C++ vector over it
                pb = "b" if r.coin() else ""
                fo = r.weighted([("nnorms", 2), ("nscale", 3), ("nrun", 2), ("nget", 2), ("nset", 2), ("nadd", 1), ("naxpy", 1)])
                stat("op_" + fo)
                if fo in ("nnorms", "nrun"):
                    segs.append("%s%s %s" % (fo, pb, tgt))
                elif fo == "nscale":
                    segs.append("nscale%s %s %d" % (pb, tgt, gen_scalar(r)))
                elif fo == "nget":
                    segs.append("nget%s %s %d" % (pb, tgt, r.range(0, max(0, n - 1))))
                elif fo == "nset":
                    segs.append("nset%s %s %d %d" % (pb, tgt, r.range(0, max(0, n - 1)), gen_val(r)))
                elif fo == "nadd":
                    segs.append("nadd%s %s %s" % (pb, tgt, b))
                else:
                    segs.append("naxpy%s %s %d %s" % (pb, tgt, gen_scalar(r), b))
        elif op == "nvscale":
            segs.append("nvscale %s %d" % (xr(), gen_scalar(r)))
        elif op == "alist":
            segs.append("alist %s" % ar())
        elif op in ("nnorms", "nrun"):
            segs.append("%s%s %s" % (op, "b" if r.coin() else "", ar()))
        elif op == "nint":
            segs.append("nint %s %d" % (ar(), gen_scalar(r)))
        elif op == "nscale":
            segs.append("nscale%s %s %d" % ("b" if r.coin() else "", ar(), gen_scalar(r)))
        elif op == "nset":
            segs.append("nset%s %s %d %d" % (r.pick(["", "b", "c"]), ar(), r.range(0, max(0, n - 1)), gen_val(r)))
        elif op == "nget":
            segs.append("nget%s %s %d" % (r.pick(["", "b", "c"]), ar(), r.range(0, max(0, n - 1))))
        elif op == "naxpy":
            segs.append("naxpy%s %s %d %s" % ("b" if r.coin() else "", ar(), gen_scalar(r), ar()))
        elif op == "nadd":
            segs.append("nadd%s %s %s" % ("b" if r.coin() else "", ar(), ar()))
        elif op == "nnew":
            b = ar()
            segs.append("nnew %s %s %d" % (ar(True), b, gen_scalar(r)))
    return "%s%s %d : %s" % (pre if kind == "fv" else "", kind, n, ";".join(segs))


# =========================================================================================================
# 6. main
# =========================================================================================================

def serve():
    """child mode of Delegate: op lines on stdin, `impl <US> oracle` lines on stdout; everything else goes to stderr"""
    real_out = os.fdopen(os.dup(1), "w")
    os.dup2(2, 1)
    try:
        prepare()
    except Exception as ex:
        real_out.write("C20-BUILD-FAILED (tree %s, variant %s) %s\n" % (REPO, VARIANT, str(ex).replace("\n", " ")[:3000]))
        real_out.flush()
        return 3
    for line in sys.stdin:
        impl, orc = execute(line.rstrip("\n"))
        real_out.write(impl.replace("\n", " ").replace("\x1f", " ") + "\x1f" + orc.replace("\n", " ") + "\n")
        real_out.flush()
    return 0


def main(argv):
    a = {"seed": "1", "cases": "1000", "tier": "quick", "replay": "", "out": os.path.join(VERIF, "build", "c20_out")}
    i = 1
    while i < len(argv):
        k = argv[i]
        if k.startswith("--") and i + 1 < len(argv):
            a[k[2:]] = argv[i + 1]
            i += 2
        else:
            i += 1
    if a.get("serve"):
        return serve()
    out = a["out"]
    # tuplevector.hh reports rejected assignments on std::cerr; keep that chatter out of the crash log
    try:
        efd = os.open(out + ".stderr", os.O_WRONLY | os.O_CREAT | os.O_TRUNC, 0o644)
        os.dup2(efd, 2)
        os.close(efd)
    except OSError:
        pass
    fimpl = open(out + ".impl", "w")
    forac = open(out + ".oracle", "w")
    try:
        dt = prepare()
    except Exception as ex:
        # nothing could be executed: report on stdout (check.py keeps it as crash log) and fail
        print("C20-BUILD-FAILED (tree %s)\n%s" % (REPO, ex))
        sys.stdout.flush()
        fimpl.close()
        forac.close()
        return 3
    stat("build_seconds_x10", int(dt * 10))
    stat("modules_rebuilt", len(BUILD_LOG))
    if BUILD_LOG:
        print("C20 rebuilt from %s: %s" % (REPO, ", ".join(BUILD_LOG)))

    def do_one(line):
        impl, orc = execute(line)
        fimpl.write(impl.replace("\n", " ") + "\n")
        fimpl.flush()
        forac.write(orc.replace("\n", " ") + "\n")
        forac.flush()

    if a["replay"]:
        lines = open(a["replay"]).read().split("\n")
        if lines and lines[-1] == "":
            lines.pop()
        for line in lines:
            do_one(line)
    else:
        r = Rng(int(a["seed"]))
        with open(out + ".ops", "w") as fops:
            for c in range(int(a["cases"])):
                line = gen_program(r, c, a["tier"])
                fops.write(line + "\n")
                fops.flush()
                do_one(line)
    with open(out + ".stats", "w") as fh:
        json.dump(STATS, fh)
    fimpl.close()
    forac.close()
    return 0


if __name__ == "__main__":
    rc = main(sys.argv)
    sys.stdout.flush()
    os._exit(rc)      # skip interpreter teardown: extension modules of three generations share one pybind11 registry
