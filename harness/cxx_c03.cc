// C03 correspondence harness: Dune::ParallelIndexSet / GlobalLookupIndexSet vs. the Lean model, with a
// std::multimap oracle that replays the history and decides the property itself.
//
// One case = one line   `<CFG> : op;op;op`
//   CFG = N          ParallelIndexSet<long, ParallelLocalIndex<Flag>, N>   N in {0,1,2,3,4,5,8,100}  (chunk size of the
//                    underlying ArrayList; N = 0 is mapped to 1 by `(N>0) ? N : 1`)
//   CFG = NL         ParallelIndexSet<int, LocalIndex, N>                  N in {1,15,25}  (the instantiation of the repo's
//                    indexsettest: no attribute / public flag, generic LocalIndexComparator; A and P must be 0,
//                    global indices must fit an int)
//   b              beginResize()
//   a G L A P      add(G, ParallelLocalIndex(L, A, P))             A in 0..3, P in 0/1
//   ag G           add(G)                                          (default constructed local index)
//   aa G A P       add(G, ParallelLocalIndex(A, P))                (two-argument constructor: local number 0; not for NL)
//   c              snapshot = Set(set)      copy construction of a second object (replaces an earlier snapshot)
//   y              set = snapshot           copy assignment (`skip` without snapshot)
//   v              the snapshot as it is now: seqNo:state:[pairs]:eq|ne   (`eq` = snapshot == set via operator==; `skip` without)
//   d G A          markAsDeleted(iterator to the first entry with global G and attribute A); `none` if there is none
//   e              endResize()
//   r              renumberLocal()
//   x G            exists(G)
//   t G            at(G)            (const and non-const overload, must agree)
//   o G            operator[](G)    (both overloads; only called when the oracle holds G, else `skip`)
//   w G L          operator[](G).local() = L   (write through the returned reference; `skip` when G is absent)
//   w2 G L         operator[](G).setLocal(L)   (IndexPair::setLocal(int); `skip` when G is absent)
//   s | z | q      seqNo() | size() | state()
//   p              dump by iteration (const and non-const begin()/end(), must agree)
//   L              GlobalLookupIndexSet(set): size and pair(i) for all i < size (`?` where several pairs carry local number i)
//   L M            GlobalLookupIndexSet(set, M) (only when every local number is < M, else `skip`)
// Answer line: the observations after each op, joined by ';'.  A pair prints as g:l:a:p:v.
//
// The harness logic (parsing, oracle, checks) is written once against the type-erased `SetApi`; only the thin
// `SetImpl<Set>` is instantiated per configuration, which keeps the sanitizer build affordable for many chunk sizes.
#include <config.h>

#include <algorithm>
#include <climits>
#include <dune/common/exceptions.hh>
#include <dune/common/parallel/indexset.hh>
#include <dune/common/parallel/localindex.hh>
#include <dune/common/parallel/plocalindex.hh>
#include <map>
#include <memory>
#include <optional>
#include <set>
#include <unistd.h>

#include "hcommon.hh"

using namespace dv;

enum Flag { f0 = 0, f1 = 1, f2 = 2, f3 = 3 };
typedef Dune::ParallelLocalIndex<Flag> PLI;

struct Ent {
  long g;
  unsigned long l;
  int a;
  bool pub;
  bool valid;
  auto tup() const { return std::make_tuple(g, a, l, pub, valid); }
  bool operator==(const Ent& o) const { return tup() == o.tup(); }
  bool operator<(const Ent& o) const { return tup() < o.tup(); }
};
static std::string entStr(const Ent& e) {
  std::ostringstream os;
  os << e.g << ":" << e.l << ":" << e.a << ":" << (e.pub ? 1 : 0) << ":" << (e.valid ? 1 : 0);
  return os.str();
}
static std::string entsStr(const std::vector<Ent>& v) {
  std::vector<std::string> s;
  for (auto& e : v) s.push_back(entStr(e));
  return listStr(s);
}

// ---- local index traits: what differs between ParallelLocalIndex<Flag> and LocalIndex ------------------
template <class TL> struct LT;
template <> struct LT<PLI> {
  static constexpr bool hasAttr = true;
  static PLI make(unsigned long l, int a, bool p) { return PLI((size_t)l, (Flag)a, p); }
  static PLI make2(int a, bool p) { return PLI((Flag)a, p); }
  static int attr(const PLI& x) { return (int)x.attribute(); }
  static bool pub(const PLI& x) { return x.isPublic(); }
};
template <> struct LT<Dune::LocalIndex> {
  static constexpr bool hasAttr = false;
  static Dune::LocalIndex make(unsigned long l, int, bool) { return Dune::LocalIndex((std::size_t)l); }
  static Dune::LocalIndex make2(int, bool) { return Dune::LocalIndex(); }
  static int attr(const Dune::LocalIndex&) { return 0; }
  static bool pub(const Dune::LocalIndex&) { return false; }
};

struct Table {  // what one GlobalLookupIndexSet shows
  std::size_t size = 0;
  int seqNo = 0;
  std::vector<bool> isSet;     // pair(i) != nullptr
  std::vector<Ent> cell;       // *pair(i) where set
  std::vector<Ent> forward;    // lookup[pair(i)->global()] where set (the table's own operator[])
  std::vector<Ent> iter;       // begin()..end() of the table
};

struct SnapView {  // what the second object shows
  int seqNo = 0;
  bool resize = false;
  std::size_t size = 0;
  std::vector<Ent> iter;
  bool eq = false, ne = false, eqRev = false;  // snapshot == set, snapshot != set, set == snapshot
};

// ---- type-erased view of one instantiation ------------------------------------------------------------------
struct SetApi {
  virtual ~SetApi() = default;
  virtual bool hasAttr() const = 0;
  virtual bool globalFits(long g) const = 0;
  virtual int chunk() const = 0;
  virtual void beginResize() = 0;
  virtual void add(long g) = 0;
  virtual void add(long g, unsigned long l, int a, bool p) = 0;
  virtual bool seek(long g, int a) = 0;  // position the (non-const) cursor at the first entry with (g, a)
  virtual void markCursor() = 0;         // markAsDeleted(cursor)
  virtual void endResize() = 0;
  virtual void renumberLocal() = 0;
  virtual bool exists(long g) const = 0;
  virtual Ent atC(long g, const void*& addr) const = 0;
  virtual Ent atM(long g, const void*& addr) = 0;
  virtual Ent getC(long g, const void*& addr) const = 0;
  virtual Ent getM(long g, const void*& addr) = 0;
  virtual void assignLocal(long g, unsigned long l) = 0;
  virtual void setLocalInt(long g, int l) = 0;
  virtual int seqNo() const = 0;
  virtual std::size_t size() const = 0;
  virtual bool inResize() = 0;
  virtual std::vector<Ent> iterC() const = 0;
  virtual std::vector<Ent> iterM() = 0;
  virtual Table lookup(bool sized, std::size_t m) const = 0;
  virtual void addAttrOnly(long g, int a, bool p) = 0;   // add(g, TL(attribute, isPublic))
  virtual void snapshot() = 0;                            // copy construction
  virtual bool hasSnap() const = 0;
  virtual void restore() = 0;                             // copy assignment
  virtual SnapView snapView() const = 0;
};

template <class TG, class TL, int N>
struct SetImpl : SetApi {
  typedef Dune::ParallelIndexSet<TG, TL, N> Set;
  typedef Dune::GlobalLookupIndexSet<Set> Lookup;
  Set set;
  std::unique_ptr<Set> snap;
  typename Set::iterator cursor;
  SetImpl() : cursor(set.begin()) {}

  void addAttrOnly(long g, int a, bool p) override { set.add((TG)g, LT<TL>::make2(a, p)); }
  void snapshot() override { snap.reset(new Set(set)); }
  bool hasSnap() const override { return (bool)snap; }
  void restore() override {
    set = *snap;
    cursor = set.begin();  // iterators into the overwritten lists are gone
  }
  SnapView snapView() const override {
    SnapView v;
    Set& sn = *snap;  // state() is a non-const member
    v.seqNo = sn.seqNo();
    v.resize = sn.state() == Dune::RESIZE;
    v.size = sn.size();
    const Set& csn = sn;
    for (auto it = csn.begin(); it != csn.end(); ++it) v.iter.push_back(entOf(*it));
    v.eq = csn == set;
    v.ne = csn != set;
    v.eqRev = set == csn;
    return v;
  }

  template <class P>
  static Ent entOf(const P& p) {
    return Ent{(long)p.global(), (unsigned long)p.local().local(), LT<TL>::attr(p.local()), LT<TL>::pub(p.local()),
               p.local().state() == Dune::VALID};
  }
  bool hasAttr() const override { return LT<TL>::hasAttr; }
  bool globalFits(long g) const override { return (long)(TG)g == g; }
  int chunk() const override { return N; }
  void beginResize() override { set.beginResize(); }
  void add(long g) override { set.add((TG)g); }
  void add(long g, unsigned long l, int a, bool p) override { set.add((TG)g, LT<TL>::make(l, a, p)); }
  bool seek(long g, int a) override {
    cursor = set.begin();
    for (; cursor != set.end(); ++cursor)
      if ((long)cursor->global() == g && LT<TL>::attr(cursor->local()) == a) return true;
    return false;
  }
  void markCursor() override { set.markAsDeleted(cursor); }
  void endResize() override { set.endResize(); }
  void renumberLocal() override { set.renumberLocal(); }
  bool exists(long g) const override { return set.exists((TG)g); }
  Ent atC(long g, const void*& addr) const override { const auto& p = set.at((TG)g); addr = &p; return entOf(p); }
  Ent atM(long g, const void*& addr) override { auto& p = set.at((TG)g); addr = &p; return entOf(p); }
  Ent getC(long g, const void*& addr) const override { const auto& p = set[(TG)g]; addr = &p; return entOf(p); }
  Ent getM(long g, const void*& addr) override { auto& p = set[(TG)g]; addr = &p; return entOf(p); }
  void assignLocal(long g, unsigned long l) override { set[(TG)g].local() = (std::size_t)l; }
  void setLocalInt(long g, int l) override { set[(TG)g].setLocal(l); }
  int seqNo() const override { return set.seqNo(); }
  std::size_t size() const override { return set.size(); }
  bool inResize() override { return set.state() == Dune::RESIZE; }
  std::vector<Ent> iterC() const override {
    std::vector<Ent> r;
    for (auto it = set.begin(); it != set.end(); ++it) r.push_back(entOf(*it));
    return r;
  }
  std::vector<Ent> iterM() override {
    std::vector<Ent> r;
    for (auto it = set.begin(); it != set.end(); ++it) r.push_back(entOf(*it));
    return r;
  }
  Table lookup(bool sized, std::size_t m) const override {
    std::unique_ptr<Lookup> gl(sized ? new Lookup(set, m) : new Lookup(set));
    Table t;
    t.size = gl->size();
    t.seqNo = gl->seqNo();
    for (std::size_t i = 0; i < gl->size(); ++i) {
      const auto* p = gl->pair(i);
      t.isSet.push_back(p != nullptr);
      t.cell.push_back(p ? entOf(*p) : Ent{});
      t.forward.push_back(p ? entOf((*gl)[p->global()]) : Ent{});
    }
    for (auto it = gl->begin(); it != gl->end(); ++it) t.iter.push_back(entOf(*it));
    return t;
  }
};

// ---- the independent oracle: a multimap keyed by (global, attribute) replaying the history ------------
struct Oracle {
  typedef std::pair<long, int> Key;
  std::multimap<Key, Ent> cur;  // the set; during a resize phase entries marked deleted carry valid=false
  std::vector<Ent> added;       // entries added in the open resize phase
  bool resize = false;
  long seq = 0;
  bool outside = false;  // the history left the property's quantifier (two live entries with equal global AND attribute)
  std::string fail;
  // the second object, as it was when it was copied
  bool hasSnap = false;
  std::multimap<Key, Ent> snapCur;
  std::vector<Ent> snapAdded;
  bool snapResize = false;
  long snapSeq = 0;

  void bad(const std::string& m) {
    if (fail.empty()) fail = m;
  }
  bool dupGlobals() const {
    long last = 0;
    bool first = true;
    for (auto& kv : cur) {
      if (!first && kv.first.first == last) return true;
      first = false;
      last = kv.first.first;
    }
    return false;
  }
  // entries with this global, in key order
  std::vector<Ent> withGlobal(long g) const {
    std::vector<Ent> r;
    for (auto it = cur.lower_bound(Key(g, -1000)); it != cur.end() && it->first.first == g; ++it) r.push_back(it->second);
    return r;
  }
  std::vector<Ent> all() const {
    std::vector<Ent> r;
    for (auto& kv : cur) r.push_back(kv.second);
    return r;
  }
};

struct Runner {
  std::unique_ptr<SetApi> sp;
  SetApi& set;
  Oracle o;
  int opIndex = 0;
  int N;

  explicit Runner(SetApi* s) : sp(s), set(*s), N(std::max(1, s->chunk())) {}

  std::vector<Ent> implAll() const { return const_cast<const SetApi&>(set).iterC(); }

  void fail(const std::string& what) {
    std::ostringstream os;
    os << "op#" << opIndex << " " << what;
    o.bad(os.str());
  }

  // contents / order / state / seqNo as the oracle expects them
  void checkAll(const char* when) {
    std::vector<Ent> got = implAll();
    std::vector<Ent> want = o.all();
    bool dup = o.dupGlobals();
    for (size_t i = 1; i < got.size(); ++i) {
      auto ka = std::make_pair(got[i - 1].g, got[i - 1].a), kb = std::make_pair(got[i].g, got[i].a);
      if (kb < ka) fail(std::string(when) + ": iteration not ascending in (global,attribute): " + entsStr(got));
      if (!dup && !(got[i - 1].g < got[i].g)) fail(std::string(when) + ": iteration not strictly ascending in global: " + entsStr(got));
    }
    std::vector<Ent> gs = got, ws = want;
    std::sort(gs.begin(), gs.end());
    std::sort(ws.begin(), ws.end());
    if (!(gs == ws)) fail(std::string(when) + ": contents " + entsStr(got) + " expected " + entsStr(want));
    if (set.size() != want.size()) fail(std::string(when) + ": size() = " + std::to_string(set.size()) + " expected " + std::to_string(want.size()));
    if (set.inResize() != o.resize) fail(std::string(when) + ": state() wrong");
    if (set.seqNo() != o.seq) fail(std::string(when) + ": seqNo() = " + std::to_string(set.seqNo()) + " expected " + std::to_string(o.seq));
  }

  // has the history produced two live entries with the same (global, attribute)?  Then it is outside the property.
  void checkQuantifier() {
    std::set<Oracle::Key> seen;
    for (auto& kv : o.cur)
      if (kv.second.valid && !seen.insert(kv.first).second) o.outside = true;
    for (auto& e : o.added)
      if (!seen.insert(Oracle::Key(e.g, e.a)).second) o.outside = true;
  }

  // where a present global index sits in the set, for the distribution
  void statLookup(long g, const std::vector<Ent>& cand) {
    if (cand.empty()) { stat("lookup_absent"); return; }
    stat("lookup_present");
    if (o.resize) stat("lookup_in_resize");
    if (!cand[0].valid) stat("lookup_on_deleted_entry");
    if (o.cur.begin()->first.first == g) stat("lookup_hit_first");
    if (o.cur.rbegin()->first.first == g) stat("lookup_hit_last");
  }

  std::string one(const std::string& opText) {
    auto w = words(opText);
    if (w.empty()) return "bad-op";
    const std::string& op = w[0];
    bool numbersOk = true;
    auto L = [&](size_t i) -> long {
      try {
        size_t used = 0;
        long v = std::stol(w.at(i), &used);
        if (used != w.at(i).size()) numbersOk = false;
        return v;
      } catch (...) { numbersOk = false; return 0; }
    };
    const SetApi& cset = set;
    stat("op_" + op);
    stat(std::string("size_") + (set.size() == 0 ? "0" : set.size() == 1 ? "1" : set.size() == 2 ? "2" : set.size() <= (size_t)N ? "le_chunk" : "gt_chunk"));

    if (op == "b" && w.size() == 1) {
      bool threw = false;
      try { set.beginResize(); } catch (Dune::InvalidIndexSetState&) { threw = true; }
      if (o.resize) {
        if (!threw) fail("beginResize() in RESIZE state not rejected");
      } else {
        if (threw) fail("beginResize() in GROUND state rejected");
        o.resize = true;
        o.added.clear();
      }
      if (threw) stat("err_InvalidState");
      return threw ? "ERR:InvalidState" : "ok";
    }
    if (op == "c" && w.size() == 1) {
      set.snapshot();
      o.hasSnap = true;
      o.snapCur = o.cur;
      o.snapAdded = o.added;
      o.snapResize = o.resize;
      o.snapSeq = o.seq;
      stat(o.resize ? "snapshot_in_resize" : "snapshot_in_ground");
      return "ok";
    }
    if (op == "y" && w.size() == 1) {
      if (!o.hasSnap) return "skip";
      set.restore();
      o.cur = o.snapCur;
      o.added = o.snapAdded;
      o.resize = o.snapResize;
      o.seq = o.snapSeq;
      stat(o.resize ? "restore_to_resize" : "restore_to_ground");
      return "ok";
    }
    if (op == "v" && w.size() == 1) {
      if (!o.hasSnap) return "skip";
      SnapView v = cset.snapView();
      std::vector<Ent> want;
      for (auto& kv : o.snapCur) want.push_back(kv.second);
      std::vector<Ent> gs = v.iter, ws = want;
      std::sort(gs.begin(), gs.end());
      std::sort(ws.begin(), ws.end());
      if (!(gs == ws)) fail("the copy changed: it holds " + entsStr(v.iter) + " but was copied from " + entsStr(want));
      for (size_t i = 1; i < v.iter.size(); ++i)
        if (std::make_pair(v.iter[i].g, v.iter[i].a) < std::make_pair(v.iter[i - 1].g, v.iter[i - 1].a)) fail("the copy is not ascending: " + entsStr(v.iter));
      if (v.size != want.size()) fail("the copy's size() = " + std::to_string(v.size));
      if (v.seqNo != o.snapSeq) fail("the copy's seqNo() = " + std::to_string(v.seqNo) + " expected " + std::to_string(o.snapSeq));
      if (v.resize != o.snapResize) fail("the copy's state() is wrong");
      // operator== compares sizes, global indices and local indices (number, attribute, public flag) position by position
      auto keyOf = [](const Ent& e) { return std::make_tuple(e.g, e.l, e.a, e.pub); };
      std::vector<Ent> now = o.all();
      bool wantEq = want.size() == now.size();
      for (size_t i = 0; wantEq && i < want.size(); ++i) wantEq = keyOf(want[i]) == keyOf(now[i]);
      if (v.eq != wantEq) fail(std::string("snapshot == set gives ") + (v.eq ? "true" : "false"));
      if (v.ne == v.eq) fail("operator!= is not the negation of operator==");
      if (v.eqRev != v.eq) fail("operator== is not symmetric");
      stat(v.eq ? "view_equal" : "view_different");
      return std::to_string(v.seqNo) + ":" + (v.resize ? "R" : "G") + ":" + entsStr(v.iter) + ":" + (v.eq ? "eq" : "ne");
    }
    if ((op == "a" && w.size() == 5) || (op == "ag" && w.size() == 2) || (op == "aa" && w.size() == 4)) {
      long g = L(1);
      if (!numbersOk || !set.globalFits(g)) return "bad-op";
      Ent e{g, 0, 0, false, true};
      bool threw = false;
      if (op == "aa") {
        long a = L(2), p = L(3);
        if (!numbersOk || a < 0 || a > 3 || p < 0 || p > 1 || !set.hasAttr()) return "bad-op";
        e = Ent{g, 0, (int)a, p != 0, true};
      }
      if (op == "a") {
        long l = L(2), a = L(3), p = L(4);
        if (!numbersOk || l < 0 || a < 0 || a > 3 || p < 0 || p > 1) return "bad-op";
        if (!set.hasAttr() && (a != 0 || p != 0)) return "bad-op";
        e = Ent{g, (unsigned long)l, (int)a, p != 0, true};
      }
      if (g <= -(1L << 40) || g >= (1L << 40)) stat("global_extreme");
      try {
        if (op == "a") set.add(g, e.l, e.a, e.pub);
        else if (op == "aa") set.addAttrOnly(g, e.a, e.pub);
        else set.add(g);
      } catch (Dune::InvalidIndexSetState&) { threw = true; }
      if (!o.resize) {
        if (!threw) fail("add() in GROUND state not rejected");
      } else {
        if (threw) fail("add() in RESIZE state rejected");
        o.added.push_back(e);
      }
      if (threw) stat("err_InvalidState");
      return threw ? "ERR:InvalidState" : "ok";
    }
    if (op == "d" && w.size() == 3) {
      long g = L(1), a = L(2);
      if (!numbersOk) return "bad-op";
      bool found = set.seek(g, (int)a);
      auto range = o.cur.equal_range(Oracle::Key(g, (int)a));
      bool present = range.first != range.second;
      if (found != present) fail("entry to delete: presence differs from the oracle");
      if (!found) return "none";
      bool threw = false;
      try { set.markCursor(); } catch (Dune::InvalidIndexSetState&) { threw = true; }
      if (!o.resize) {
        if (!threw) fail("markAsDeleted() in GROUND state not rejected");
      } else {
        if (threw) fail("markAsDeleted() in RESIZE state rejected");
        if (present) {
          if (!range.first->second.valid) stat("delete_marked_twice");
          range.first->second.valid = false;
        }
      }
      if (threw) stat("err_InvalidState");
      return threw ? "ERR:InvalidState" : "ok";
    }
    if (op == "e" && w.size() == 1) {
      bool threw = false;
      try { set.endResize(); } catch (Dune::InvalidIndexSetState&) { threw = true; }
      if (!o.resize) {
        if (!threw) fail("endResize() in GROUND state not rejected");
      } else {
        if (threw) fail("endResize() in RESIZE state rejected");
        // which branch of merge() this phase takes, and what kind of phase it is (distribution only)
        size_t nDel = 0;
        for (auto& kv : o.cur) if (!kv.second.valid) ++nDel;
        if (o.cur.empty()) stat("merge_branch_old_empty");
        else if (o.added.empty() && nDel == 0) stat("merge_branch_nothing_to_do");
        else stat("merge_branch_three_way");
        if (!o.cur.empty() && nDel == o.cur.size()) stat("phase_deletes_everything");
        if (nDel > 0 && o.added.empty()) stat("phase_only_deletes");
        for (auto& e : o.added) {
          bool readd = false, below = !o.cur.empty() && e.g < o.cur.begin()->first.first,
               above = !o.cur.empty() && e.g > o.cur.rbegin()->first.first;
          for (auto& kv : o.cur) if (kv.first.first == e.g && !kv.second.valid) readd = true;
          if (readd) stat("phase_readds_deleted_global");
          if (below) stat("added_below_all_old");
          if (above) stat("added_above_all_old");
        }
        for (auto it = o.cur.begin(); it != o.cur.end();)
          if (!it->second.valid) it = o.cur.erase(it); else ++it;
        for (auto& e : o.added) o.cur.insert({Oracle::Key(e.g, e.a), e});
        stat("resize_added", (long)o.added.size());
        stat("resize_deleted", (long)nDel);
        o.added.clear();
        o.resize = false;
        o.seq++;
        stat(std::string("ground_size_") + (o.cur.size() == 0 ? "0" : o.cur.size() == 1 ? "1" : o.cur.size() <= (size_t)N ? "le_chunk" : "gt_chunk"));
        if (o.dupGlobals()) stat("ground_with_equal_globals");
      }
      if (threw) stat("err_InvalidState");
      return threw ? "ERR:InvalidState" : "ok";
    }
    if (op == "r" && w.size() == 1) {
      bool threw = false;
      try { set.renumberLocal(); } catch (Dune::InvalidIndexSetState&) { threw = true; }
      if (o.resize) {
        if (!threw) fail("renumberLocal() in RESIZE state not rejected");
      } else {
        if (threw) fail("renumberLocal() in GROUND state rejected");
        unsigned long i = 0;
        for (auto& kv : o.cur) kv.second.l = i++;
      }
      if (threw) stat("err_InvalidState");
      return threw ? "ERR:InvalidState" : "ok";
    }
    if (op == "x" && w.size() == 2) {
      long g = L(1);
      if (!numbersOk || !set.globalFits(g)) return "bad-op";
      bool got = cset.exists(g);
      auto cand = o.withGlobal(g);
      bool want = !cand.empty();
      statLookup(g, cand);
      if (got != want) fail("exists(" + w[1] + ") = " + (got ? "true" : "false") + " on a set of size " + std::to_string(set.size()));
      return got ? "true" : "false";
    }
    if (op == "t" && w.size() == 2) {
      long g = L(1);
      if (!numbersOk || !set.globalFits(g)) return "bad-op";
      std::string r1, r2;
      const void* p1 = nullptr;
      const void* p2 = nullptr;
      try { r1 = entStr(cset.atC(g, p1)); } catch (Dune::RangeError&) { r1 = "ERR:Range"; }
      try { r2 = entStr(set.atM(g, p2)); } catch (Dune::RangeError&) { r2 = "ERR:Range"; }
      if (r1 != r2 || p1 != p2) fail("at(" + w[1] + "): const and non-const overloads disagree: " + r1 + " / " + r2);
      auto cand = o.withGlobal(g);
      statLookup(g, cand);
      if (cand.empty()) {
        if (r1 != "ERR:Range") fail("at(" + w[1] + ") returned " + r1 + " for an absent global index");
        else stat("err_Range");
      } else if (cand.size() == 1) {
        if (r1 != entStr(cand[0])) fail("at(" + w[1] + ") = " + r1 + " expected " + entStr(cand[0]) + " on a set of size " + std::to_string(set.size()));
      } else {
        bool any = false;
        for (auto& c : cand) any = any || r1 == entStr(c);
        if (!any) fail("at(" + w[1] + ") = " + r1 + " is not a stored pair with this global index");
      }
      return r1;
    }
    if (op == "o" && w.size() == 2) {
      long g = L(1);
      if (!numbersOk || !set.globalFits(g)) return "bad-op";
      auto cand = o.withGlobal(g);
      if (cand.empty()) return "skip";
      statLookup(g, cand);
      const void* p1 = nullptr;
      const void* p2 = nullptr;
      std::string r1 = entStr(cset.getC(g, p1)), r2 = entStr(set.getM(g, p2));
      if (r1 != r2 || p1 != p2) fail("operator[](" + w[1] + "): const and non-const overloads disagree");
      bool any = false;
      for (auto& c : cand) any = any || r1 == entStr(c);
      if (!any) fail("operator[](" + w[1] + ") = " + r1 + " expected " + entStr(cand[0]) + " on a set of size " + std::to_string(set.size()));
      return r1;
    }
    if ((op == "w" || op == "w2") && w.size() == 3) {
      long g = L(1), l = L(2);
      if (!numbersOk || l < 0 || !set.globalFits(g)) return "bad-op";
      if (op == "w2" && l > INT_MAX) return "bad-op";
      auto it = o.cur.lower_bound(Oracle::Key(g, -1000));
      if (it == o.cur.end() || it->first.first != g) return "skip";
      if (op == "w") set.assignLocal(g, (unsigned long)l);  // ParallelLocalIndex::operator=(size_t)
      else set.setLocalInt(g, (int)l);                      // IndexPair::setLocal(int)
      it->second.l = (unsigned long)l;
      return "ok";
    }
    if (op == "s" && w.size() == 1) return std::to_string(set.seqNo());
    if (op == "z" && w.size() == 1) return std::to_string(set.size());
    if (op == "q" && w.size() == 1) return set.inResize() ? "R" : "G";
    if (op == "p" && w.size() == 1) {
      auto a = implAll(), b = set.iterM();
      if (!(a == b)) fail("const and non-const iteration disagree");
      return entsStr(a);
    }
    if (op == "L" && (w.size() == 1 || w.size() == 2)) {
      auto want = o.all();
      unsigned long maxl = 0;
      for (auto& e : want) maxl = std::max(maxl, e.l);
      if (maxl > 100000) return "skip";
      Table gl;
      if (w.size() == 2) {
        long m = L(1);
        if (!numbersOk || m < 0 || m > 100000) return "bad-op";
        if (!want.empty() && (unsigned long)m <= maxl) return "skip";
        gl = cset.lookup(true, (std::size_t)m);
        if (gl.size != (std::size_t)m) fail("GlobalLookupIndexSet(set, " + w[1] + ")::size() = " + std::to_string(gl.size));
        stat("lookup_tables_sized");
      } else {
        gl = cset.lookup(false, 0);
        if (gl.size != maxl + 1) fail("GlobalLookupIndexSet::size() = " + std::to_string(gl.size) + " expected " + std::to_string(maxl + 1));
      }
      stat("lookup_tables");
      if (o.resize) stat("lookup_tables_in_resize");
      if (gl.seqNo != set.seqNo()) fail("GlobalLookupIndexSet::seqNo() differs");
      std::map<unsigned long, std::vector<Ent>> byLocal;
      for (auto& e : want) byLocal[e.l].push_back(e);
      std::map<unsigned long, int> carriers;  // from the set itself: how many stored pairs carry this local number
      for (auto& e : implAll()) carriers[e.l]++;
      std::vector<std::string> cells;
      for (std::size_t i = 0; i < gl.size; ++i) {
        bool p = gl.isSet[i];
        // which of several pairs with the same local number the table keeps is not part of the property: printed as `?`
        cells.push_back(carriers[i] > 1 ? (p ? "?" : "-") : p ? entStr(gl.cell[i]) : "-");
        auto f = byLocal.find(i);
        if (f == byLocal.end()) {
          if (p) fail("reverse lookup: pair(" + std::to_string(i) + ") set although no pair has this local number");
        } else {
          bool any = false;
          for (auto& c : f->second) any = any || (p && entStr(gl.cell[i]) == entStr(c));
          if (!any) fail("reverse lookup: pair(" + std::to_string(i) + ") = " + (p ? entStr(gl.cell[i]) : std::string("null")) + " expected " + entStr(f->second[0]));
          // forward lookup through the table's operator[] gives the same pair again
          if (p && f->second.size() == 1 && !o.dupGlobals() && entStr(gl.forward[i]) != entStr(gl.cell[i]))
            fail("reverse lookup: operator[] of the lookup set disagrees with pair()");
        }
      }
      if (!(gl.iter == implAll())) fail("GlobalLookupIndexSet iteration differs from the index set");
      return std::to_string(gl.size) + ":" + listStr(cells);
    }
    return "bad-op";
  }

  Result run(const std::vector<std::string>& ops) {
    Result res;
    std::vector<std::string> obs;
    for (auto& opText : ops) {
      ++opIndex;
      // state before, to judge "a rejected call leaves the set unchanged"
      std::vector<Ent> before = implAll();
      int seqBefore = set.seqNo();
      bool resizeBefore = set.inResize();
      // the property quantifies over sets with pairwise distinct (global, attribute): decided when a phase is closed
      if (o.resize && words(opText) == std::vector<std::string>{"e"}) checkQuantifier();
      if (o.outside) break;
      std::string ob = one(opText);
      obs.push_back(ob);
      if (ob == "bad-op") { res.impl = "bad-op"; res.oracle = "FAIL harness cannot parse op '" + opText + "'"; return res; }
      if (ob == "ERR:InvalidState") {
        if (!(before == implAll()) || seqBefore != set.seqNo() || resizeBefore != set.inResize())
          fail("rejected call changed the index set");
      }
      checkAll(("after '" + opText + "'").c_str());
      if (!o.fail.empty()) break;
    }
    res.impl = join(obs.begin(), obs.end(), ";");
    if (!o.fail.empty()) res.oracle = "FAIL " + o.fail;
    else if (o.outside) { res.oracle = "ok trivial"; res.impl = "outside"; stat("outside_quantifier"); }
    else if (ops.size() < 2) res.oracle = "ok trivial";
    return res;
  }
};

// every instantiated configuration; the Lean driver accepts exactly the same header tokens
static SetApi* makeSet(const std::string& cfg) {
  if (cfg == "0") return new SetImpl<long, PLI, 0>();
  if (cfg == "1") return new SetImpl<long, PLI, 1>();
  if (cfg == "2") return new SetImpl<long, PLI, 2>();
  if (cfg == "3") return new SetImpl<long, PLI, 3>();
  if (cfg == "4") return new SetImpl<long, PLI, 4>();
  if (cfg == "5") return new SetImpl<long, PLI, 5>();
  if (cfg == "8") return new SetImpl<long, PLI, 8>();
  if (cfg == "100") return new SetImpl<long, PLI, 100>();
  if (cfg == "1L") return new SetImpl<int, Dune::LocalIndex, 1>();
  if (cfg == "15L") return new SetImpl<int, Dune::LocalIndex, 15>();
  if (cfg == "25L") return new SetImpl<int, Dune::LocalIndex, 25>();
  return nullptr;
}

Result exec(const std::string& line) {
  auto pos = line.find(" :");
  if (pos == std::string::npos) return Result{"bad-op", "FAIL malformed line"};
  auto hdr = words(line.substr(0, pos));
  if (hdr.size() != 1) return Result{"bad-op", "FAIL malformed header"};
  std::vector<std::string> ops;
  std::string rest = line.substr(pos + 2);
  for (auto& s : split(rest, ';')) {
    if (!words(s).empty()) ops.push_back(s);
  }
  SetApi* s = makeSet(hdr[0]);
  if (!s) return Result{"bad-op", "FAIL configuration not instantiated"};
  stat("histories");
  stat("chunk_" + hdr[0]);
  stat("ops_total", (long)ops.size());
  // the property promises termination of every lookup (theorem search_terminates): a case that runs for 20 s (normal: milliseconds) is a hang;
  // SIGALRM ends the process, check.py then reports this op line as the failing input instead of waiting for the batch timeout
  alarm(20);
  Result r = Runner(s).run(ops);
  alarm(0);
  return r;
}

// ---- generators ------------------------------------------------------------------------------------------
struct Shadow {  // what the generator believes the set holds (only used to steer towards interesting, well-formed histories)
  std::map<std::pair<long, int>, bool> live;  // key -> marked deleted in the open phase
  std::set<std::pair<long, int>> fresh;
  bool resize = false;
};

// global index values at the ends of the value range of `long` / `int` and around powers of two
static const long WIDE_LONG[] = {LONG_MIN, LONG_MIN + 1, -(1L << 62), -(1L << 32) - 1, -(1L << 31), -2, -1, 0, 1, 2,
                                 (1L << 31) - 1, 1L << 31, 1L << 32, (1L << 62), LONG_MAX - 1, LONG_MAX};
static const long WIDE_INT[] = {INT_MIN, INT_MIN + 1, -(1L << 30), -65536, -2, -1, 0, 1, 2, 65535, 1L << 30, INT_MAX - 1, INT_MAX};

static std::string randomHistory(Rng& r, bool big) {
  static const char* NS[] = {"1", "2", "3", "100", "1", "2", "3", "2", "0", "4", "5", "8", "1L", "15L", "25L", "1L"};
  static const char* BIG[] = {"100", "3", "100", "8", "15L", "25L"};
  std::string cfg = big ? BIG[r.below(6)] : NS[r.below(16)];
  bool plain = cfg.back() == 'L';  // LocalIndex: no attribute, no public flag, int globals
  int N = std::max(1, std::atoi(cfg.c_str()));
  std::ostringstream os;
  os << cfg << " :";
  bool dupMode = !big && !plain && r.coin(3, 20);
  bool wide = !big && r.coin(1, 8);  // global indices from the ends of the value range
  long lo = big ? 0 : r.range(-4, 3);
  long width = big ? r.range(120, 260) : r.range(1, 12);
  if (wide) { lo = 0; width = (plain ? sizeof(WIDE_INT) / sizeof(long) : sizeof(WIDE_LONG) / sizeof(long)) - 1; }
  long hi = lo + width;
  // index -> global index value
  auto val = [&](long i) -> long {
    if (!wide) return i;
    long n = width + 1;
    long k = ((i % n) + n) % n;
    return plain ? WIDE_INT[k] : WIDE_LONG[k];
  };
  int rounds = big ? (int)r.range(1, 3) : (int)r.range(1, 5);
  bool wrongState = r.coin(1, 3);
  Shadow sh;
  bool first = true;
  auto emit = [&](const std::string& s) { os << (first ? " " : ";") << s; first = false; };
  auto G = [&]() { return val(r.range(lo - 1, hi + 1)); };
  auto lookups = [&](int n) {
    for (int i = 0; i < n; ++i) {
      long g = G();
      if (!sh.live.empty() && r.coin()) {  // aim at a stored key, or just beside one
        auto it = sh.live.begin();
        std::advance(it, r.below(sh.live.size()));
        g = it->first.first;
        if (r.coin(1, 4)) {
          long d = r.range(-1, 1);
          if ((d < 0 && g > (plain ? INT_MIN : LONG_MIN)) || (d > 0 && g < (plain ? INT_MAX : LONG_MAX))) g += d;
        }
      }
      switch (r.below(16)) {
        case 0: case 1: case 2: case 3: case 4: case 5: emit("x " + std::to_string(g)); break;
        case 6: case 7: case 8: case 9: emit("t " + std::to_string(g)); break;
        case 10: case 11: emit("o " + std::to_string(g)); break;
        case 12: emit("w " + std::to_string(g) + " " + std::to_string(r.coin(1, 16) ? (1L << 40) + r.below(5) : r.below(9))); break;
        case 13: emit("w2 " + std::to_string(g) + " " + std::to_string(r.coin(1, 16) ? INT_MAX - (long)r.below(2) : r.below(9))); break;
        default: emit(r.coin() ? "z" : r.coin() ? "s" : "q"); break;
      }
    }
  };
  std::optional<Shadow> shSnap;  // what the generator believes the second object (the copy) holds
  auto finishPhase = [&]() {
    emit("e");
    sh.resize = false;
    for (auto it = sh.live.begin(); it != sh.live.end();)
      if (it->second) it = sh.live.erase(it); else ++it;
    for (auto& k : sh.fresh) sh.live[k] = false;
    sh.fresh.clear();
  };
  for (int round = 0; round < rounds; ++round) {
    if (wrongState && r.coin(1, 4)) emit(r.coin() ? "e" : r.coin() ? "a " + std::to_string(G()) + (plain ? " 1 0 0" : " 1 0 1") : "ag " + std::to_string(G()));
    if (wrongState && r.coin(1, 4) && !sh.live.empty()) {
      auto it = sh.live.begin();
      std::advance(it, r.below(sh.live.size()));
      emit("d " + std::to_string(it->first.first) + " " + std::to_string(it->first.second));
    }
    emit("b");
    sh.resize = true;
    sh.fresh.clear();
    if (r.coin(1, 25)) { emit("c"); shSnap = sh; }  // a copy of a set in RESIZE state, nothing pending yet
    // plan of this phase
    long nAdd;
    switch (r.below(6)) {
      case 0: nAdd = 0; break;
      case 1: nAdd = 1; break;
      case 2: nAdd = N <= 8 ? N + r.range(-1, 1) : 2; break;
      default: nAdd = r.range(0, std::min<long>(width + 1, big ? 260 : 9)); break;
    }
    if (big) nAdd = r.range(90, 230);
    int delStyle = (int)r.below(6);  // 0 none, 1 all, 2 all but one, else random
    std::vector<std::string> acts;
    for (auto& kv : sh.live) {
      bool del = delStyle == 0 ? false : delStyle == 1 ? true : delStyle == 2 ? true : r.coin(1, 3);
      if (del) acts.push_back("d " + std::to_string(kv.first.first) + " " + std::to_string(kv.first.second));
    }
    if (delStyle == 2 && !acts.empty()) acts.erase(acts.begin() + r.below(acts.size()));
    for (auto& a : acts) {
      auto w = words(a);
      sh.live[{std::stol(w[1]), std::stoi(w[2])}] = true;
    }
    if (!acts.empty() && r.coin(1, 10)) acts.push_back(acts[r.below(acts.size())]);  // the same entry marked twice
    for (long k = 0; k < nAdd; ++k) {
      // look for a global that is not live (or is deleted in this phase); in dupMode an equal global with another attribute
      for (int tries = 0; tries < 12; ++tries) {
        long g = val(r.range(lo, hi));
        int a = plain ? 0 : (int)r.below(4);
        bool globalTaken = false, keyTaken = false;
        for (auto& kv : sh.live)
          if (kv.first.first == g && !kv.second) { globalTaken = true; if (kv.first.second == a) keyTaken = true; }
        for (auto& k2 : sh.fresh)
          if (k2.first == g) { globalTaken = true; if (k2.second == a) keyTaken = true; }
        if (keyTaken || (globalTaken && !dupMode)) continue;
        if (globalTaken) stat("gen_equal_global_added");
        sh.fresh.insert({g, a});
        if (a == 0 && r.coin(1, 8)) { acts.push_back("ag " + std::to_string(g)); }
        else if (!plain && r.coin(1, 10)) acts.push_back("aa " + std::to_string(g) + " " + std::to_string(a) + " " + std::to_string(r.below(2)));
        else acts.push_back("a " + std::to_string(g) + " " + std::to_string(r.coin(1, 12) ? r.range(20, 45) : r.below(10)) + " " + std::to_string(a) + " " + std::to_string(plain ? 0 : r.below(2)));
        break;
      }
    }
    // adds and deletions interleaved in random order (an add of a key whose old entry is deleted may come first)
    for (size_t i = acts.size(); i > 1; --i) std::swap(acts[i - 1], acts[r.below(i)]);
    for (auto& a : acts) {
      emit(a);
      if (wrongState && r.coin(1, 10)) emit(r.coin() ? "b" : "r");
      if (r.coin(1, 12)) lookups(1);
      if (r.coin(1, 30)) emit("d " + std::to_string(G()) + " " + std::to_string(plain ? 0 : r.below(4)));  // mostly `none`
      if (r.coin(1, 40)) emit("L");  // reverse table while entries are marked DELETED
    }
    if (r.coin(1, 10)) emit("p");
    if (r.coin(1, 20)) { emit("c"); shSnap = sh; }  // a copy with pending additions and deletion marks
    if (shSnap && shSnap->resize && r.coin(1, 4)) {  // assign an earlier RESIZE-state copy back, then close ITS phase
      emit("y");
      sh = *shSnap;
      if (r.coin()) emit("v");
    }
    finishPhase();
    // ground-state observations
    if (r.coin(1, 3)) emit("r");
    lookups(big ? 6 : (int)r.range(1, 6));
    if (r.coin(1, 8)) { emit("c"); shSnap = sh; }
    if (shSnap && r.coin(1, 3)) emit("v");
    if (shSnap && r.coin(1, 5)) {
      emit("y");
      sh = *shSnap;
      if (sh.resize) { lookups(1); if (r.coin(1, 3)) emit("L"); finishPhase(); }
      lookups(2);
      if (r.coin()) emit("v");
      if (r.coin(1, 3)) emit("p");
    }
    if (!sh.live.empty() && r.coin(1, 3)) {  // the first and the last stored global index and their outer neighbours
      long gf = sh.live.begin()->first.first, gl = sh.live.rbegin()->first.first;
      emit((r.coin() ? "x " : "t ") + std::to_string(gf));
      emit((r.coin() ? "x " : "t ") + std::to_string(gl));
      if (gf > (plain ? INT_MIN : LONG_MIN)) emit((r.coin() ? "x " : "t ") + std::to_string(gf - 1));
      if (gl < (plain ? INT_MAX : LONG_MAX)) emit((r.coin() ? "x " : "t ") + std::to_string(gl + 1));
    }
    if (r.coin(1, 3)) emit("L");
    if (r.coin(1, 6)) emit("L " + std::to_string(r.coin() ? r.range(0, 12) : r.range(10, 60)));
    if (r.coin(1, 4)) emit("r");
    if (r.coin(1, 4)) emit("p");
    if (r.coin(1, 4)) emit("s");
    if (wrongState && r.coin(1, 5)) emit("e");
  }
  if (first) emit("q");
  return os.str();
}

// exhaustive family: globals {0,1,2,3}; round 1 adds a subset (two orders), round 2 deletes / re-adds / adds
// per global; every lookup on every global after each round.   6 * 16 * 2 * 81 = 15552 histories.
static const long ENUM_TOTAL = 6L * 16 * 2 * 81;
static std::string enumHistory(long idx) {
  static const char* NS[] = {"1", "2", "3", "100", "0", "5"};
  std::string N = NS[idx % 6]; idx /= 6;
  int subset = idx % 16; idx /= 16;
  int order = idx % 2; idx /= 2;
  int choice[4];
  for (int k = 0; k < 4; ++k) { choice[k] = idx % 3; idx /= 3; }
  std::ostringstream os;
  os << N << " :";
  bool first = true;
  auto emit = [&](const std::string& s) { os << (first ? " " : ";") << s; first = false; };
  auto observe = [&]() {
    for (int g = -1; g <= 4; ++g) { emit("x " + std::to_string(g)); emit("t " + std::to_string(g)); emit("o " + std::to_string(g)); }
    emit("L"); emit("s");
  };
  emit("x 0"); emit("t 0");
  emit("b");
  for (int i = 0; i < 4; ++i) {
    int g = order ? 3 - i : i;
    if (subset >> g & 1) emit("a " + std::to_string(g) + " " + std::to_string(7 - g) + " " + std::to_string(g % 3) + " " + std::to_string(g & 1));
  }
  emit("e");
  observe();
  emit("b");
  for (int i = 0; i < 4; ++i) {
    int g = order ? i : 3 - i;
    bool in = subset >> g & 1;
    int c = choice[g];
    if (in) {
      if (c == 2) emit("a " + std::to_string(g) + " " + std::to_string(g + 10) + " 3 1");  // re-added before the deletion is recorded
      if (c >= 1) emit("d " + std::to_string(g) + " " + std::to_string(g % 3));
    } else if (c >= 1) {
      emit("a " + std::to_string(g) + " " + std::to_string(g + 4) + " 1 0");
    }
  }
  emit("e");
  observe();
  emit("r"); emit("p"); emit("L");
  return os.str();
}

std::string gen(Rng& r, long i, const Args& a) {
  if (a.get("enum", 0)) return enumHistory((a.get("offset", 0) + i) % ENUM_TOTAL);
  bool big = r.coin(1, a.tier == "thorough" ? 25 : 40);
  return randomHistory(r, big);
}

int main(int argc, char** argv) { return dv::run(argc, argv, gen, exec); }
