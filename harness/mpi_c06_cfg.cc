// C06 harness, second translation unit: Dune::VariableSizeCommunicator compiled with
// DUNE_PARALLEL_MAX_COMMUNICATION_BUFFER_SIZE defined, i.e. the `#else` pair of default-buffer constructors of
// variablesizecommunicator.hh, which no other build in the repository or in this project instantiates.
// The class template is given another name in this translation unit so that its inline members do not collide with
// the ones of mpi_c06.cc (everything else the header defines lives in unnamed namespaces).
#include <config.h>

#include <mpi.h>

#include "mpi_c06_api.hh"

#define DUNE_PARALLEL_MAX_COMMUNICATION_BUFFER_SIZE 5
#define VariableSizeCommunicator VariableSizeCommunicatorWithConfiguredDefault
#include <dune/common/parallel/variablesizecommunicator.hh>
#undef VariableSizeCommunicator

C06_DEFINE_COMMUNICATE(C06_CFG_TYPES)

namespace c06 {
const long cfgFamilyMacroValue = DUNE_PARALLEL_MAX_COMMUNICATION_BUFFER_SIZE;
const Family& cfgFamily() {
  static const Family f = {DUNE_PARALLEL_MAX_COMMUNICATION_BUFFER_SIZE, "lcg", &makeComm<Dune::VariableSizeCommunicatorWithConfiguredDefault<>>};
  return f;
}
}  // namespace c06
