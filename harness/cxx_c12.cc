// C12 correspondence harness: Dune::ParameterTree / ParameterTreeParser vs. the Lean model, with independent
// reference oracles (a shadow tree built from the generated hierarchy, a strict recogniser of the documented
// INI dialect, strict recognisers of the numeric syntaxes).
//
// Op lines (byte strings as lower-case hex, "-" = empty), see lean/Driver/C12.lean:
//   ini <ow> <pre> <doc>            rt <ow> : item;item;…           hostile <doc>
//   opt <pre> <arg>…                nopt <req> <allowMore> <ow> <pre> <nkw> <kw>… <arg>…
//   get <T> <text>                  shw <int>                       tq k=v,… : probe;…
//   bads <ow> <n> <pre> <doc>       (stream that fails after n bytes)
#include <config.h>

#include <unistd.h>

#include <fstream>
#include <stdexcept>

#include <array>
#include <bitset>
#include <charconv>
#include <climits>
#include <cmath>
#include <locale>
#include <memory>
#include <optional>
#include <set>

#include <dune/common/exceptions.hh>
#include <dune/common/fvector.hh>
#include <dune/common/parametertree.hh>
#include <dune/common/parametertreeparser.hh>

#include "hcommon.hh"

using namespace dv;
using Dune::ParameterTree;
using Dune::ParameterTreeParser;

// ------------------------------------------------------------------------------------------------
// hex
// ------------------------------------------------------------------------------------------------
static std::string hx(const std::string& s) {
  if (s.empty()) return "-";
  static const char* d = "0123456789abcdef";
  std::string o;
  for (unsigned char c : s) { o.push_back(d[c >> 4]); o.push_back(d[c & 15]); }
  return o;
}
struct BadOp {};
static std::string unhex(const std::string& h) {
  if (h == "-") return "";
  if (h.empty() || h.size() % 2) throw BadOp();
  auto v = [](char c) -> int {
    if (c >= '0' && c <= '9') return c - '0';
    if (c >= 'a' && c <= 'f') return c - 'a' + 10;
    if (c >= 'A' && c <= 'F') return c - 'A' + 10;
    throw BadOp();
  };
  std::string o;
  for (size_t i = 0; i < h.size(); i += 2) o.push_back((char)(v(h[i]) * 16 + v(h[i + 1])));
  return o;
}

// ------------------------------------------------------------------------------------------------
// canonical dump of a ParameterTree through its public interface
// ------------------------------------------------------------------------------------------------
static std::string dumpTree(const ParameterTree& t) {
  std::string o = "{";
  bool first = true;
  for (auto& k : t.getValueKeys()) {
    if (!first) o += ",";
    first = false;
    o += hx(k) + "=";
    try { o += hx(t[k]); } catch (Dune::RangeError&) { o += "!"; }
  }
  o += "|";
  first = true;
  for (auto& k : t.getSubKeys()) {
    if (!first) o += ",";
    first = false;
    o += hx(k);
    try { o += dumpTree(t.sub(k)); } catch (Dune::RangeError&) { o += "!"; }
  }
  return o + "}";
}

// run f, map the exception classes of the code under test to the protocol's error enum
template <class F>
static std::string guarded(F&& f) {
  try { return f(); }
  catch (Dune::HelpRequest&) { return "ERR:Help"; }
  catch (Dune::ParameterTreeParserError&) { return "ERR:Parser"; }
  catch (Dune::RangeError&) { return "ERR:Range"; }
  catch (Dune::IOError&) { return "ERR:IO"; }
}
// scratch file prefix for the file-name overloads (derived from --out in main)
static std::string g_tmp = "build/c12_scratch";
// the overload cross-check costs two file writes and eight extra parses: when generating it runs on every 2nd
// (quick) / 8th (thorough) document, chosen by a hash of the document; a replay (corpus, shrinking, --replay)
// always checks, so a failure found in a generated batch is reproduced
static unsigned g_overloadEvery = 1;
static bool overloadSampled(const std::string& doc) {
  return g_overloadEvery <= 1 || std::hash<std::string>{}(doc) % g_overloadEvery == 0;
}

// ------------------------------------------------------------------------------------------------
// reference (shadow) tree: insertion-ordered vectors, written without any Dune code
// ------------------------------------------------------------------------------------------------
struct RTree {
  std::vector<std::pair<std::string, std::string>> vals;
  std::vector<std::pair<std::string, std::shared_ptr<RTree>>> subs;
  std::string* val(const std::string& k) { for (auto& e : vals) if (e.first == k) return &e.second; return nullptr; }
  RTree* sub(const std::string& k) { for (auto& e : subs) if (e.first == k) return e.second.get(); return nullptr; }
};
static std::vector<std::string> dotted(const std::string& key) { return split(key, '.'); }
enum RStat { RS_OK, RS_CONFLICT, RS_LEAF };
// find: out = the value, nullptr when the key is absent.  RS_CONFLICT when a name on the way is value and group at once
// (nothing is claimed then); RS_LEAF when the dotted key runs through a name that is a value only: such a key does not
// exist (hasKey/hasSub "otherwise false", get(key, default) "if not found default is returned"), reading it is an error
static RStat refFind(RTree& t, const std::vector<std::string>& path, std::string*& out) {
  RTree* cur = &t;
  out = nullptr;
  for (size_t i = 0; i + 1 < path.size(); ++i) {
    if (cur->val(path[i])) return cur->sub(path[i]) ? RS_CONFLICT : RS_LEAF;
    cur = cur->sub(path[i]);
    if (!cur) return RS_OK;
  }
  if (cur->sub(path.back())) return RS_CONFLICT;
  out = cur->val(path.back());
  return RS_OK;
}
static RStat refAssign(RTree& t, const std::vector<std::string>& path, const std::string& v) {
  RTree* cur = &t;
  for (size_t i = 0; i + 1 < path.size(); ++i) {
    if (cur->val(path[i])) return RS_CONFLICT;
    RTree* n = cur->sub(path[i]);
    if (!n) { cur->subs.push_back({path[i], std::make_shared<RTree>()}); n = cur->subs.back().second.get(); }
    cur = n;
  }
  if (cur->sub(path.back())) return RS_CONFLICT;
  if (auto* p = cur->val(path.back())) *p = v;
  else cur->vals.push_back({path.back(), v});
  return RS_OK;
}
static std::string refDump(const RTree& t) {
  std::string o = "{";
  for (size_t i = 0; i < t.vals.size(); ++i) o += (i ? "," : "") + hx(t.vals[i].first) + "=" + hx(t.vals[i].second);
  o += "|";
  for (size_t i = 0; i < t.subs.size(); ++i) o += (i ? "," : "") + hx(t.subs[i].first) + refDump(*t.subs[i].second);
  return o + "}";
}
using Entries = std::vector<std::pair<std::string, std::string>>;
// one configuration source applied to the shadow tree.  returns "" (fine), "ERR:Parser" (duplicate), "?" (no claim)
static std::string refSource(RTree& t, const Entries& es, bool overwrite) {
  std::set<std::string> seen;
  for (auto& e : es) {
    if (seen.count(e.first)) return "ERR:Parser";
    auto path = dotted(e.first);
    std::string* cur;
    if (refFind(t, path, cur) == RS_CONFLICT) return "?";
    if (overwrite || !cur)
      if (refAssign(t, path, e.second) == RS_CONFLICT) return "?";
    seen.insert(e.first);
  }
  return "";
}
// compare the real tree with the shadow entry by entry through dotted and grouped access
static std::string crossCheck(const ParameterTree& pt, const RTree& r, const std::string& prefix) {
  for (auto& e : r.vals) {
    std::string full = prefix + e.first;
    if (!pt.hasKey(full)) return "hasKey(" + full + ") false";
    if (pt[full] != e.second) return "value of " + full + " differs";
    if (pt.get<std::string>(full, "\x01") == "\x01") return "get(" + full + ",default) returned the default";
    auto dot = full.rfind('.');
    if (dot != std::string::npos) {
      std::string g = full.substr(0, dot), k = full.substr(dot + 1);
      if (!pt.hasSub(g)) return "hasSub(" + g + ") false";
      if (!pt.sub(g).hasKey(k) || pt.sub(g)[k] != e.second) return "sub(" + g + ")[" + k + "] differs from [" + full + "]";
    }
  }
  for (auto& s : r.subs) {
    std::string m = crossCheck(pt, *s.second, prefix + s.first + ".");
    if (!m.empty()) return m;
  }
  return "";
}

// ------------------------------------------------------------------------------------------------
// documents as items of the documented dialect
// ------------------------------------------------------------------------------------------------
struct Item {
  char kind = 'B';  // B C H A
  std::string ws1, ws2, ws3, ws4, text, key, value;  // H: key = prefix p, text = junk ; C: text ; A: text = comment
  char q = 'n';                                      // n s d
  bool hasCmt = false;
};
static std::string encItem(const Item& it) {
  switch (it.kind) {
    case 'B': return "B," + hx(it.ws1);
    case 'C': return "C," + hx(it.ws1) + "," + hx(it.text);
    case 'H': return "H," + hx(it.ws1) + "," + hx(it.ws2) + "," + hx(it.key) + "," + hx(it.ws3) + "," + hx(it.text);
    default:
      return "A," + hx(it.ws1) + "," + hx(it.key) + "," + hx(it.ws2) + "," + hx(it.ws3) + "," + std::string(1, it.q) + "," +
             hx(it.value) + "," + hx(it.ws4) + "," + (it.hasCmt ? "c" + hx(it.text) : "n");
  }
}
static Item decItem(const std::string& s) {
  auto f = split(s, ',');
  Item it;
  if (f[0] == "B" && f.size() == 2) { it.kind = 'B'; it.ws1 = unhex(f[1]); }
  else if (f[0] == "C" && f.size() == 3) { it.kind = 'C'; it.ws1 = unhex(f[1]); it.text = unhex(f[2]); }
  else if (f[0] == "H" && f.size() == 6) {
    it.kind = 'H'; it.ws1 = unhex(f[1]); it.ws2 = unhex(f[2]); it.key = unhex(f[3]); it.ws3 = unhex(f[4]); it.text = unhex(f[5]);
  } else if (f[0] == "A" && f.size() == 9) {
    it.kind = 'A'; it.ws1 = unhex(f[1]); it.key = unhex(f[2]); it.ws2 = unhex(f[3]); it.ws3 = unhex(f[4]);
    if (f[5] != "n" && f[5] != "s" && f[5] != "d") throw BadOp();
    it.q = f[5][0]; it.value = unhex(f[6]); it.ws4 = unhex(f[7]);
    if (f[8] == "n") it.hasCmt = false;
    else if (f[8][0] == 'c') { it.hasCmt = true; it.text = unhex(f[8].substr(1)); }
    else throw BadOp();
  } else throw BadOp();
  return it;
}
static std::string renderItem(const Item& it) {
  switch (it.kind) {
    case 'B': return it.ws1;
    case 'C': return it.ws1 + "#" + it.text;
    case 'H': return it.ws1 + "[" + it.ws2 + it.key + it.ws3 + "]" + it.text;
    default: {
      std::string v = it.q == 'n' ? it.value : it.q == 's' ? "'" + it.value + "'" : "\"" + it.value + "\"";
      return it.ws1 + it.key + it.ws2 + "=" + it.ws3 + v + it.ws4 + (it.hasCmt ? "#" + it.text : "");
    }
  }
}
static std::string renderDoc(const std::vector<Item>& items) {
  std::string d;
  for (size_t i = 0; i < items.size(); ++i) { if (i) d += "\n"; d += renderItem(items[i]); }
  return d;
}
static bool isBlankStr(const std::string& s) { return s.find_first_not_of(" \t\r") == std::string::npos; }
static bool has(const std::string& s, char c) { return s.find(c) != std::string::npos; }
static bool isWsCh(char c) { return c == ' ' || c == '\t' || c == '\n' || c == '\r'; }
static bool isTrimmed(const std::string& s) { return s.empty() || (!isWsCh(s.front()) && !isWsCh(s.back())); }
// lexical well-formedness (mirrors DV.C12.Item.wf, written independently)
static bool wfItem(const Item& it) {
  switch (it.kind) {
    case 'B': return isBlankStr(it.ws1);
    case 'C': return isBlankStr(it.ws1) && !has(it.text, '\n');
    case 'H':
      return isBlankStr(it.ws1) && isBlankStr(it.ws2) && isBlankStr(it.ws3) && !has(it.text, '\n') && !has(it.key, '\n') &&
             !has(it.key, ']') && isTrimmed(it.key);
    default: {
      if (!(isBlankStr(it.ws1) && isBlankStr(it.ws2) && isBlankStr(it.ws3) && isBlankStr(it.ws4))) return false;
      if (has(it.key, '=') || has(it.key, '#') || has(it.key, '\n') || !isTrimmed(it.key)) return false;
      if (!it.key.empty() && it.key[0] == '[') return false;
      if (it.hasCmt && has(it.text, '\n')) return false;
      if (it.q == 'n') {
        if (has(it.value, '#') || has(it.value, '\n') || !isTrimmed(it.value)) return false;
        if (!it.value.empty() && (it.value[0] == '\'' || it.value[0] == '"')) return false;
        return true;
      }
      char qc = it.q == 's' ? '\'' : '"';
      if (has(it.value, qc)) return false;
      std::string firstLine = it.value.substr(0, it.value.find('\n'));
      if (has(firstLine, '#')) return false;
      if (has(it.value, '\n') && it.hasCmt) return false;
      return true;
    }
  }
}
static Entries denote(const std::vector<Item>& items) {
  Entries es;
  std::string prefix;
  for (auto& it : items) {
    if (it.kind == 'H') prefix = it.key.empty() ? "" : it.key + ".";
    else if (it.kind == 'A') es.push_back({prefix + it.key, it.value});
  }
  return es;
}

// ------------------------------------------------------------------------------------------------
// strict recogniser of the documented INI dialect for raw documents (op `ini`); nullopt = outside the dialect
// ------------------------------------------------------------------------------------------------
static bool isKeyChar(char c) { return std::isalnum((unsigned char)c) || c == '_'; }
static bool isDottedKey(const std::string& k) {
  if (k.empty()) return false;
  for (auto& c : split(k, '.')) {
    if (c.empty()) return false;
    for (char ch : c) if (!isKeyChar(ch)) return false;
  }
  return true;
}
static std::string trimBlank(const std::string& s) {
  size_t a = 0, b = s.size();
  while (a < b && (s[a] == ' ' || s[a] == '\t' || s[a] == '\r')) ++a;
  while (b > a && (s[b - 1] == ' ' || s[b - 1] == '\t' || s[b - 1] == '\r')) --b;
  return s.substr(a, b - a);
}
static std::optional<Entries> strictParse(const std::string& doc) {
  auto lines = split(doc, '\n');
  Entries es;
  std::string prefix;
  for (size_t i = 0; i < lines.size(); ++i) {
    std::string l = trimBlank(lines[i]);
    if (l.empty() || l[0] == '#') continue;
    if (l[0] == '[') {
      size_t e = l.find(']');
      if (e == std::string::npos) return std::nullopt;
      std::string p = trimBlank(l.substr(1, e - 1));
      std::string after = trimBlank(l.substr(e + 1));
      if (!after.empty() && after[0] != '#') return std::nullopt;
      if (!p.empty() && !isDottedKey(p)) return std::nullopt;
      prefix = p.empty() ? "" : p + ".";
      continue;
    }
    size_t eq = l.find('=');
    if (eq == std::string::npos) return std::nullopt;
    std::string key = trimBlank(l.substr(0, eq));
    if (!isDottedKey(key)) return std::nullopt;
    std::string rhs = trimBlank(l.substr(eq + 1));
    std::string value;
    if (!rhs.empty() && (rhs[0] == '\'' || rhs[0] == '"')) {
      char q = rhs[0];
      // closing quote on this line, optionally followed by a comment?
      size_t close = rhs.find(q, 1);
      if (close != std::string::npos) {
        std::string after = trimBlank(rhs.substr(close + 1));
        if (!after.empty() && after[0] != '#') return std::nullopt;
        value = rhs.substr(1, close - 1);
        if (has(value, '#')) return std::nullopt;   // left undetermined by the documentation
      } else {
        if (has(rhs, '#')) return std::nullopt;
        // multi-line: keep the text after '=' as written (blanks after the opening quote included)
        std::string raw = lines[i].substr(lines[i].find('=') + 1);
        raw = raw.substr(raw.find(q) + 1);
        value = raw;
        bool closed = false;
        while (++i < lines.size()) {
          std::string t = lines[i];
          size_t c = t.find(q);
          if (c == std::string::npos) { value += "\n" + t; continue; }
          if (!trimBlank(t.substr(c + 1)).empty()) return std::nullopt;
          value += "\n" + t.substr(0, c);
          closed = true;
          break;
        }
        if (!closed) return std::nullopt;
      }
    } else {
      size_t h = rhs.find('#');
      value = trimBlank(h == std::string::npos ? rhs : rhs.substr(0, h));
      if (has(value, '\'') || has(value, '"')) return std::nullopt;
    }
    es.push_back({prefix + key, value});
  }
  return es;
}

// ------------------------------------------------------------------------------------------------
// two sources into one tree (shared by ini and rt)
// ------------------------------------------------------------------------------------------------
struct TwoRes { std::string impl; bool ok = false; ParameterTree pt; };
static TwoRes runTwo(const std::string& pre, const std::string& doc, bool ow) {
  TwoRes r;
  r.impl = guarded([&] {
    std::istringstream a(pre);
    ParameterTreeParser::readINITree(a, r.pt, true);
    std::istringstream b(doc);
    ParameterTreeParser::readINITree(b, r.pt, "stream", ow);
    r.ok = true;
    return dumpTree(r.pt);
  });
  return r;
}
// every way of handing the same bytes to readINITree must give the same result: the file-name overloads, the
// overloads returning a tree, the overload without srcname.  "" = agreement
static void writeFile(const std::string& name, const std::string& bytes) {
  std::ofstream f(name, std::ios::binary | std::ios::trunc);
  f.write(bytes.data(), (std::streamsize)bytes.size());
}
static std::string overloadCheck(const std::string& pre, const std::string& doc, bool ow, const std::string& impl) {
  const std::string f1 = g_tmp + ".pre.ini", f2 = g_tmp + ".doc.ini";
  writeFile(f1, pre);
  writeFile(f2, doc);
  std::string viaFile = guarded([&] {
    ParameterTree pt;
    ParameterTreeParser::readINITree(f1, pt, true);
    ParameterTreeParser::readINITree(f2, pt, ow);
    return dumpTree(pt);
  });
  if (viaFile != impl) return "readINITree(file, pt, overwrite) differs from the stream overload: " + viaFile.substr(0, 200);
  std::string via3 = guarded([&] {
    ParameterTree pt;
    std::istringstream a(pre), b(doc);
    ParameterTreeParser::readINITree(a, pt, true);
    ParameterTreeParser::readINITree(b, pt, ow);
    return dumpTree(pt);
  });
  if (via3 != impl) return "readINITree(stream, pt, overwrite) differs from the overload with srcname: " + via3.substr(0, 200);
  if (pre.empty() && ow) {
    std::string a = guarded([&] { return dumpTree(ParameterTreeParser::readINITree(f2)); });
    if (a != impl) return "readINITree(file) differs from the stream overload: " + a.substr(0, 200);
    std::string b = guarded([&] { std::istringstream in(doc); return dumpTree(ParameterTreeParser::readINITree(in)); });
    if (b != impl) return "readINITree(stream) differs from readINITree(stream, pt): " + b.substr(0, 200);
  }
  // default arguments: overwrite = true
  if (ow) {
    std::string c = guarded([&] {
      ParameterTree pt;
      std::istringstream a(pre), b(doc);
      ParameterTreeParser::readINITree(a, pt);
      ParameterTreeParser::readINITree(b, pt);
      return dumpTree(pt);
    });
    if (c != impl) return "readINITree(stream, pt) with default arguments differs: " + c.substr(0, 200);
    std::string d = guarded([&] {
      ParameterTree pt;
      ParameterTreeParser::readINITree(f1, pt);
      ParameterTreeParser::readINITree(f2, pt);
      return dumpTree(pt);
    });
    if (d != impl) return "readINITree(file, pt) with default arguments differs: " + d.substr(0, 200);
  }
  // a file that does not exist is an IOError
  std::string e = guarded([&] { ParameterTree pt; ParameterTreeParser::readINITree(g_tmp + ".does-not-exist", pt, ow); return std::string("returned"); });
  if (e != "ERR:IO") return "missing file not reported as IOError: " + e;
  std::string e2 = guarded([&] { return dumpTree(ParameterTreeParser::readINITree(g_tmp + ".does-not-exist")); });
  if (e2 != "ERR:IO") return "missing file not reported as IOError (returning overload): " + e2;
  stat("overload_checks");
  return "";
}

// oracle: expected outcome from the two assignment sequences; "" = agreement, "?" = no claim
static std::string judgeTwo(const TwoRes& got, const Entries& e1, const Entries& e2, bool ow) {
  RTree ref;
  std::string s = refSource(ref, e1, true);
  if (s.empty()) s = refSource(ref, e2, ow);
  if (s == "?") return "?";
  if (s == "ERR:Parser") return got.impl == "ERR:Parser" ? "" : "duplicate key in one source not rejected: got " + got.impl.substr(0, 200);
  if (!got.ok) return "well-formed document rejected with " + got.impl;
  std::string want = refDump(ref);
  if (got.impl != want) return "tree differs from the written hierarchy: got " + got.impl.substr(0, 300) + " want " + want.substr(0, 300);
  std::string m;
  try { m = crossCheck(got.pt, ref, ""); } catch (Dune::Exception& e) { m = "access threw"; }
  return m;
}

static Result execIni(const std::vector<std::string>& w) {
  if (w.size() != 4) throw BadOp();
  bool ow = w[1] == "1";
  std::string pre = unhex(w[2]), doc = unhex(w[3]);
  Result res;
  TwoRes got = runTwo(pre, doc, ow);
  res.impl = got.impl;
  if (overloadSampled(doc))
    if (std::string oc = overloadCheck(pre, doc, ow, got.impl); !oc.empty()) { res.oracle = "FAIL " + oc; return res; }
  auto e1 = strictParse(pre), e2 = strictParse(doc);
  if (!e1 || !e2) { res.oracle = "ok trivial"; stat("ini_outside_dialect"); return res; }
  std::string j = judgeTwo(got, *e1, *e2, ow);
  if (j == "?") { res.oracle = "ok trivial"; stat("ini_conflict"); }
  else if (!j.empty()) res.oracle = "FAIL " + j;
  else stat(got.ok ? "ini_ok" : "ini_dup");
  return res;
}

static Result execRt(const std::vector<std::string>& w, const std::string& tail) {
  if (w.size() != 2) throw BadOp();
  bool ow = w[1] == "1";
  std::vector<Item> pre, mainItems;
  bool sawP = false;
  std::vector<std::string> toks;
  for (auto& t : split(tail, ';')) if (!t.empty()) toks.push_back(t);
  for (auto& t : toks) if (t == "P") sawP = true;
  bool inPre = sawP;
  for (auto& t : toks) {
    if (t == "P" && inPre) { inPre = false; continue; }
    (inPre ? pre : mainItems).push_back(decItem(t));
  }
  bool wf = true;
  for (auto& it : pre) wf = wf && wfItem(it);
  for (auto& it : mainItems) wf = wf && wfItem(it);
  std::string d1 = renderDoc(pre), d2 = renderDoc(mainItems);
  Result res;
  TwoRes got = runTwo(d1, d2, ow);
  res.impl = std::string("wf=") + (wf ? "true" : "false") + " pre=" + hx(d1) + " doc=" + hx(d2) + " " + got.impl;
  if (overloadSampled(d2))
    if (std::string oc = overloadCheck(d1, d2, ow, got.impl); !oc.empty()) { res.oracle = "FAIL " + oc; return res; }
  if (!wf) { res.oracle = "ok trivial"; stat("rt_not_wf"); return res; }
  std::string j = judgeTwo(got, denote(pre), denote(mainItems), ow);
  if (j == "?") { res.oracle = "ok trivial"; stat("rt_conflict"); }
  else if (!j.empty()) res.oracle = "FAIL " + j;
  else stat(got.ok ? "rt_ok" : "rt_dup");
  stat("rt_items", (long)(pre.size() + mainItems.size()));
  // which spellings of the dialect were exercised
  for (const auto* v : {&pre, &mainItems})
    for (const auto& it : *v) {
      if (it.kind == 'A') {
        stat(it.q == 'n' ? "rt_value_bare" : it.q == 's' ? "rt_value_squote" : "rt_value_dquote");
        if (has(it.value, '\n')) stat("rt_value_multiline");
        if (it.hasCmt) stat("rt_trailing_comment");
        if (has(it.key, '.')) stat("rt_dotted_key");
        if (has(it.ws4, '\r') ) stat("rt_cr_at_line_end");
        if (it.value.empty()) stat("rt_value_empty");
      } else if (it.kind == 'H') {
        stat(it.key.empty() ? "rt_header_reset" : has(it.key, '.') ? "rt_header_dotted" : "rt_header_simple");
        if (!it.text.empty()) stat("rt_header_with_junk");
      }
    }
  if (!pre.empty()) stat(ow ? "rt_two_sources_overwrite" : "rt_two_sources_keep");
  return res;
}

// a stream that delivers `limit` bytes and then fails with a read error (underflow throws; the istream turns
// that into badbit) - what a directory opened as a file, or an I/O error in the middle of a file, looks like
struct FailBuf : std::streambuf {
  std::string data;
  FailBuf(const std::string& d, size_t limit) : data(d) {
    char* b = data.data();
    setg(b, b, b + std::min(limit, data.size()));
  }
  int_type underflow() override { throw std::runtime_error("simulated read error"); }
};
static Result execBads(const std::vector<std::string>& w) {
  if (w.size() != 5) throw BadOp();
  bool ow = w[1] == "1";
  size_t n = std::stoul(w[2]);
  std::string pre = unhex(w[3]), doc = unhex(w[4]);
  Result res;
  alarm(10);   // the defect repaired by fixes/C12_badstream.patch is an endless loop
  res.impl = guarded([&] {
    ParameterTree pt;
    std::istringstream a(pre);
    ParameterTreeParser::readINITree(a, pt, true);
    FailBuf fb(doc, n);
    std::istream in(&fb);
    ParameterTreeParser::readINITree(in, pt, "failing stream", ow);
    return dumpTree(pt);
  });
  stat("bads_" + res.impl.substr(0, 10));
  // the read error must be reported; an error in the text read so far may come first
  if (res.impl.rfind("ERR:", 0) != 0) { res.oracle = "FAIL read error of the input stream not reported: got " + res.impl.substr(0, 200); return res; }
  auto e1 = strictParse(pre), e2 = strictParse(doc.substr(0, std::min(n, doc.size())));
  if (!e1 || !e2) { res.oracle = "ok trivial"; return res; }
  RTree ref;
  std::string s = refSource(ref, *e1, true);
  if (s.empty()) s = refSource(ref, *e2, ow);
  if (s == "?") { res.oracle = "ok trivial"; return res; }
  std::string want = s.empty() ? "ERR:IO" : s;
  if (res.impl != want) res.oracle = "FAIL failing stream: got " + res.impl + " want " + want;
  return res;
}

static Result execHostile(const std::vector<std::string>& w) {
  if (w.size() != 2) throw BadOp();
  std::string doc = unhex(w[1]);
  Result res;
  res.impl = "done";
  try {
    std::istringstream in(doc);
    ParameterTree pt;
    ParameterTreeParser::readINITree(in, pt, "stream", true);
    // the resulting tree must be traversable (exceptions of the documented kind allowed)
    std::string d = dumpTree(pt);
    std::ostringstream os;
    pt.report(os);
    stat("hostile_parsed");
  } catch (Dune::Exception&) {
    stat("hostile_dune_exception");
  } catch (std::exception& e) {
    res.oracle = std::string("FAIL non-Dune exception: ") + e.what();
  }
  stat("hostile_bytes", (long)doc.size());
  return res;
}

// ------------------------------------------------------------------------------------------------
// command line
// ------------------------------------------------------------------------------------------------
struct Argv {
  std::vector<std::string> store;
  std::vector<char*> ptr;
  Argv(const std::vector<std::string>& args) : store(args) {
    store.insert(store.begin(), "prog");
    for (auto& s : store) ptr.push_back(s.data());
    ptr.push_back(nullptr);
  }
  int argc() const { return (int)store.size(); }
  char** argv() { return ptr.data(); }
};
static bool hasNul(const std::string& s) { return s.find('\0') != std::string::npos; }

static Result execOpt(const std::vector<std::string>& w) {
  if (w.size() < 2) throw BadOp();
  std::string pre = unhex(w[1]);
  std::vector<std::string> args;
  for (size_t i = 2; i < w.size(); ++i) { args.push_back(unhex(w[i])); if (hasNul(args.back())) throw BadOp(); }
  Result res;
  ParameterTree pt;
  bool ok = false;
  res.impl = guarded([&] {
    std::istringstream a(pre);
    ParameterTreeParser::readINITree(a, pt, true);
    Argv av(args);
    ParameterTreeParser::readOptions(av.argc(), av.argv(), pt);
    ok = true;
    return dumpTree(pt);
  });
  // reference: "-key value" pairs, everything else ignored
  auto e1 = strictParse(pre);
  if (!e1) { res.oracle = "ok trivial"; return res; }
  RTree ref;
  if (!refSource(ref, *e1, true).empty()) { res.oracle = "ok trivial"; return res; }
  std::string want;
  for (size_t i = 0; i < args.size(); ++i) {
    const std::string& a = args[i];
    if (a.size() >= 2 && a[0] == '-') {
      if (i + 1 == args.size()) { want = "ERR:Range"; break; }
      if (refAssign(ref, dotted(a.substr(1)), args[i + 1]) == RS_CONFLICT) { res.oracle = "ok trivial"; return res; }
      ++i;
    }
  }
  if (want.empty()) want = refDump(ref);
  if (res.impl != want) res.oracle = "FAIL readOptions: got " + res.impl.substr(0, 300) + " want " + want.substr(0, 300);
  stat(ok ? "opt_ok" : "opt_err");
  return res;
}

static Result execNopt(const std::vector<std::string>& w) {
  if (w.size() < 6) throw BadOp();
  unsigned long required = std::stoul(w[1]);
  bool allowMore = w[2] == "1", ow = w[3] == "1";
  std::string pre = unhex(w[4]);
  size_t nkw = std::stoul(w[5]);
  if (w.size() < 6 + nkw) throw BadOp();
  std::vector<std::string> kws, args;
  for (size_t i = 0; i < nkw; ++i) kws.push_back(unhex(w[6 + i]));
  for (size_t i = 6 + nkw; i < w.size(); ++i) { args.push_back(unhex(w[i])); if (hasNul(args.back())) throw BadOp(); }
  Result res;
  ParameterTree pt;
  bool ok = false;
  res.impl = guarded([&] {
    std::istringstream a(pre);
    ParameterTreeParser::readINITree(a, pt, true);
    Argv av(args);
    // help strings (fewer, as many, or more than there are keywords; some empty) must not influence the result
    std::vector<std::string> help;
    size_t nh = (args.size() * 7 + pre.size() + required) % (nkw + 3);
    for (size_t i = 0; i < nh; ++i) help.push_back(i % 3 == 1 ? "" : "help for #" + std::to_string(i));
    stat(nh > nkw ? "nopt_help_more" : nh == nkw ? "nopt_help_equal" : "nopt_help_fewer");
    if (nh == 0 && required >= UINT_MAX && allowMore && ow)
      ParameterTreeParser::readNamedOptions(av.argc(), av.argv(), pt, kws);   // all default arguments
    else
      ParameterTreeParser::readNamedOptions(av.argc(), av.argv(), pt, kws, (unsigned)std::min<unsigned long>(required, UINT_MAX),
                                            allowMore, ow, help);
    ok = true;
    return dumpTree(pt);
  });
  stat(ok ? "nopt_ok" : "nopt_" + res.impl.substr(4));
  // reference semantics of the documentation
  auto e1 = strictParse(pre);
  if (!e1) { res.oracle = "ok trivial"; return res; }
  RTree ref;
  if (!refSource(ref, *e1, true).empty()) { res.oracle = "ok trivial"; return res; }
  std::set<std::string> kwset(kws.begin(), kws.end());
  if (kwset.size() != kws.size()) { res.oracle = "ok trivial"; return res; }   // repeated keyword: not documented
  std::map<std::string, bool> given;
  std::string want;
  auto store = [&](const std::string& key, const std::string& value) -> bool {  // false: stop
    auto path = dotted(key);
    std::string* cur;
    if (refFind(ref, path, cur) == RS_CONFLICT) { want = "?"; return false; }
    if (!ow && cur && !cur->empty()) { want = "ERR:Parser"; return false; }
    if (refAssign(ref, path, value) == RS_CONFLICT) { want = "?"; return false; }
    return true;
  };
  for (auto& a : args) {
    if (a == "-h" || a == "--help") { want = "ERR:Help"; break; }
    if (a.rfind("--", 0) == 0) {
      size_t eq = a.find('=', 2);
      if (eq == std::string::npos) { want = "ERR:Parser"; break; }
      std::string key = a.substr(2, eq - 2), value = a.substr(eq + 1);
      if (!allowMore && !kwset.count(key)) { want = "ERR:Parser"; break; }
      if (!store(key, value)) break;
      if (kwset.count(key)) given[key] = true;
    } else {
      size_t j = 0;
      while (j < kws.size() && given[kws[j]]) ++j;
      if (j == kws.size()) { want = "ERR:Parser"; break; }
      if (!store(kws[j], a)) break;
      given[kws[j]] = true;
    }
  }
  if (want.empty())
    for (size_t i = 0; i < kws.size() && i < required; ++i) if (!given[kws[i]]) want = "ERR:Parser";
  if (want == "?") { res.oracle = "ok trivial"; return res; }
  if (want.empty()) want = refDump(ref);
  if (res.impl != want) res.oracle = "FAIL readNamedOptions: got " + res.impl.substr(0, 300) + " want " + want.substr(0, 300);
  return res;
}

// ------------------------------------------------------------------------------------------------
// typed retrieval
// ------------------------------------------------------------------------------------------------
static std::string showD(double d) {
  uint64_t b;
  std::memcpy(&b, &d, 8);
  char buf[32];
  std::snprintf(buf, sizeof buf, "d:%016llx", (unsigned long long)b);
  return buf;
}
template <class T> static std::string show1(const T& v) { return std::to_string(v); }
static std::string show1(const bool& v) { return v ? "true" : "false"; }
static std::string show1(const double& v) { return showD(v); }
static std::string show1(const float& v) {
  uint32_t b;
  std::memcpy(&b, &v, 4);
  char buf[32];
  std::snprintf(buf, sizeof buf, "f:%08x", (unsigned)b);
  return buf;
}
static std::string show1(const char& v) { return "c:" + hx(std::string(1, v)); }
static std::string show1(const signed char& v) { return "c:" + hx(std::string(1, (char)v)); }
static std::string show1(const unsigned char& v) { return "c:" + hx(std::string(1, (char)v)); }
static std::string show1(const std::string& v) { return hx(v); }
template <class C> static std::string showSeq(const C& c) {
  std::string o = "[";
  bool first = true;
  for (const auto& e : c) { if (!first) o += ","; first = false; o += show1(e); }
  return o + "]";
}
template <class T> struct IsSeq : std::false_type {};
template <class T, std::size_t n> struct IsSeq<std::array<T, n>> : std::true_type {};
template <class T, int n> struct IsSeq<Dune::FieldVector<T, n>> : std::true_type {};
template <class T> struct IsSeq<std::vector<T>> : std::true_type {};

struct CommaPunct : std::numpunct<char> {
  char do_decimal_point() const override { return ','; }
  char do_thousands_sep() const override { return '.'; }
  std::string do_grouping() const override { return "\3"; }
  std::string do_truename() const override { return "wahr"; }
  std::string do_falsename() const override { return "falsch"; }
};

// a ctype facet of a caseless script: tolower/toupper change nothing.  Parser<bool> must lower-case with the classic
// locale, so `YES` has to stay `true` when this is (part of) the global locale
struct CaselessCtype : std::ctype<char> {
  char do_tolower(char c) const override { return c; }
  const char* do_tolower(char*, const char* hi) const override { return hi; }
  char do_toupper(char c) const override { return c; }
  const char* do_toupper(char*, const char* hi) const override { return hi; }
};

template <class T> static std::string getOnce(const std::string& text) {
  ParameterTree pt;
  pt["k"] = text;
  return guarded([&]() -> std::string {
    T v = pt.get<T>("k");
    if constexpr (IsSeq<T>::value) return showSeq(v);
    else if constexpr (std::is_same_v<T, std::string>) return "s:" + hx(v);
    else return show1(v);
  });
}
template <std::size_t n> static std::string getBitset(const std::string& text) {
  ParameterTree pt;
  pt["k"] = text;
  return guarded([&]() -> std::string {
    auto v = pt.get<std::bitset<n>>("k");
    std::vector<bool> b;
    for (std::size_t i = 0; i < n; ++i) b.push_back(v[i]);
    return showSeq(b);
  });
}
// run under the classic global locale and under one with ',' as decimal point and '.' grouping
template <class F> static std::string bothLocales(F f, std::string& oracle) {
  static std::locale comma(std::locale(std::locale::classic(), new CommaPunct), new CaselessCtype);
  std::locale::global(std::locale::classic());
  std::string a = f();
  std::locale::global(comma);
  std::string b = f();
  std::locale::global(std::locale::classic());
  if (a != b) oracle = "FAIL result depends on the global locale: " + a + " vs " + b;
  return a;
}

// ---- reference syntaxes -------------------------------------------------------------------------
static bool isSpaceC(char c) { return c == ' ' || c == '\t' || c == '\n' || c == '\v' || c == '\f' || c == '\r'; }
static std::string stripC(const std::string& s) {
  size_t a = 0, b = s.size();
  while (a < b && isSpaceC(s[a])) ++a;
  while (b > a && isSpaceC(s[b - 1])) --b;
  return s.substr(a, b - a);
}
// decimal integer literal -> (negative, magnitude digits without leading zeros); nullopt = not a literal
static std::optional<std::pair<bool, std::string>> intLiteral(const std::string& t) {
  size_t i = 0;
  bool neg = false;
  if (i < t.size() && (t[i] == '+' || t[i] == '-')) { neg = t[i] == '-'; ++i; }
  if (i == t.size()) return std::nullopt;
  for (size_t j = i; j < t.size(); ++j) if (t[j] < '0' || t[j] > '9') return std::nullopt;
  while (i + 1 < t.size() && t[i] == '0') ++i;
  return std::make_pair(neg, t.substr(i));
}
static bool magLE(const std::string& a, const std::string& b) {  // decimal strings without leading zeros
  if (a.size() != b.size()) return a.size() < b.size();
  return a <= b;
}
// expected text for an integer type: value, "ERR:Range", or "?" (no claim)
static std::string refInt(const std::string& tok, bool isSigned, int bits) {
  auto lit = intLiteral(tok);
  if (!lit) return "ERR:Range";
  unsigned __int128 one = 1;
  unsigned __int128 maxMag = isSigned ? (lit->first ? (one << (bits - 1)) : (one << (bits - 1)) - 1) : (one << bits) - 1;
  std::string mm;
  for (unsigned __int128 m = maxMag; m; m /= 10) mm.insert(mm.begin(), char('0' + (int)(m % 10)));
  if (!isSigned && lit->first) return lit->second == "0" ? "0" : "?";     // negative literal for unsigned: undetermined
  if (!magLE(lit->second, mm)) return "ERR:Range";
  return (lit->first && lit->second != "0" ? "-" : "") + lit->second;
}
static std::string lowerC(std::string s) { for (auto& c : s) if (c >= 'A' && c <= 'Z') c = char(c + 32); return s; }
static std::string refBool(const std::string& text) {
  std::string l = lowerC(text);
  if (l == "yes" || l == "true") return "true";
  if (l == "no" || l == "false") return "false";
  std::string r = refInt(stripC(l), true, 32);
  if (r == "ERR:Range" || r == "?") return r;
  return r == "0" ? "false" : "true";
}
template <class F> static std::string refFloating(const std::string& tok) {
  // [sign] (digits [. digits*] | . digits) [e [sign] digits]
  size_t i = 0, n = tok.size();
  if (i < n && (tok[i] == '+' || tok[i] == '-')) ++i;
  size_t d0 = i;
  while (i < n && std::isdigit((unsigned char)tok[i])) ++i;
  size_t nd = i - d0;
  if (i < n && tok[i] == '.') { ++i; size_t f0 = i; while (i < n && std::isdigit((unsigned char)tok[i])) ++i; nd += i - f0; }
  if (nd == 0) return "ERR:Range";
  if (i < n && (tok[i] == 'e' || tok[i] == 'E')) {
    ++i;
    if (i < n && (tok[i] == '+' || tok[i] == '-')) ++i;
    size_t e0 = i;
    while (i < n && std::isdigit((unsigned char)tok[i])) ++i;
    if (i == e0) return "ERR:Range";
  }
  if (i != n) return "ERR:Range";
  std::string t = tok[0] == '+' ? tok.substr(1) : tok;
  F v = 0;
  auto r = std::from_chars(t.data(), t.data() + t.size(), v);
  if (r.ec == std::errc::result_out_of_range) {
    // overflow must be reported; underflow is not an error for operator>>
    long double lv = strtold(t.c_str(), nullptr);
    if (std::fabs(lv) > 1.0L) return "ERR:Range";
    return "?";
  }
  if (r.ec != std::errc() || r.ptr != t.data() + t.size()) return "?";
  return show1(v);
}
static std::string refDouble(const std::string& tok) { return refFloating<double>(tok); }
static std::string refChar(const std::string& tok) { return tok.size() == 1 ? show1(tok[0]) : "ERR:Range"; }
static std::vector<std::string> tokensBy(const std::string& s, bool (*ws)(char)) {
  std::vector<std::string> out;
  std::string cur;
  for (char c : s) {
    if (ws(c)) { if (!cur.empty()) out.push_back(cur); cur.clear(); }
    else cur.push_back(c);
  }
  if (!cur.empty()) out.push_back(cur);
  return out;
}
static std::string refScalar(char kind, const std::string& text, bool sg, int bits) {
  switch (kind) {
    case 'i': return refInt(stripC(text), sg, bits);
    case 'b': return refBool(text);
    case 'B': {  // `s >> bool` (no boolalpha): a literal that fits a long and has the value 0 or 1
      std::string r = refInt(stripC(text), true, 64);
      if (r == "0") return "false";
      if (r == "1") return "true";
      return "ERR:Range";
    }
    case 'd': return refDouble(stripC(text));
    case 'f': return refFloating<float>(stripC(text));
    case 'c': return refChar(stripC(text));
    default: {  // string: blanks " \t\n\r" removed at both ends
      size_t a = text.find_first_not_of(" \t\n\r");
      if (a == std::string::npos) return hx("");
      size_t b = text.find_last_not_of(" \t\n\r");
      return hx(text.substr(a, b - a + 1));
    }
  }
}
// length of the longest numeric literal at the start of t (0 = none):  [+-]?digits   or
// [+-]?(digits[.digits*]|.digits)([eE][+-]?digits)?
static size_t literalLen(const std::string& t, size_t i0, bool flt) {
  size_t i = i0, n = t.size();
  if (i < n && (t[i] == '+' || t[i] == '-')) ++i;
  size_t d0 = i;
  while (i < n && std::isdigit((unsigned char)t[i])) ++i;
  size_t nd = i - d0;
  if (!flt) return nd ? i - i0 : 0;
  if (i < n && t[i] == '.') {
    size_t save = i;
    ++i;
    size_t f0 = i;
    while (i < n && std::isdigit((unsigned char)t[i])) ++i;
    nd += i - f0;
    if (nd == 0) i = save;
  }
  if (nd == 0) return 0;
  if (i < n && (t[i] == 'e' || t[i] == 'E')) {
    size_t j = i + 1;
    if (j < n && (t[j] == '+' || t[j] == '-')) ++j;
    size_t e0 = j;
    while (j < n && std::isdigit((unsigned char)t[j])) ++j;
    if (j == e0) return 0;   // operator>> consumes the marker and then fails: no item here
    i = j;
  }
  return i - i0;
}
// sequence reference: tokens, each a scalar; count = n (n<0: any).  For fixed-size numeric ranges the items are read
// from one stream, so adjacent literals need no blank between them ("1-2" is 1 and -2): items = maximal literals
static std::string refSeq(char kind, const std::string& text, bool sg, int bits, long n, bool duneSplit) {
  auto toks0 = tokensBy(text, duneSplit ? isWsCh : isSpaceC);
  std::vector<std::string> toks;
  if (!duneSplit && kind == 'c') {   // characters read from one stream need no blank between them
    for (auto& t : toks0) for (char c : t) toks.push_back(std::string(1, c));
  } else if (!duneSplit && (kind == 'i' || kind == 'B' || kind == 'd' || kind == 'f')) {
    for (auto& t : toks0) {
      size_t i = 0;
      while (i < t.size()) {
        size_t l = literalLen(t, i, kind != 'i' && kind != 'B');
        if (l == 0) return "ERR:Range";
        toks.push_back(t.substr(i, l));
        i += l;
        if ((long)toks.size() > n) return "ERR:Range";
      }
    }
  } else toks = toks0;
  if (n >= 0 && (long)toks.size() != n) return "ERR:Range";
  std::string o = "[";
  bool unknown = false;
  for (size_t i = 0; i < toks.size(); ++i) {
    std::string r = refScalar(kind, toks[i], sg, bits);
    if (r == "ERR:Range") return r;
    if (r == "?") unknown = true;
    o += (i ? "," : "") + r;
  }
  return unknown ? "?" : o + "]";
}

static Result execGet(const std::vector<std::string>& w) {
  if (w.size() != 3) throw BadOp();
  const std::string& ty = w[1];
  std::string text = unhex(w[2]);
  Result res;
  std::string want = "?";
  auto run = [&](auto f) { res.impl = bothLocales(f, res.oracle); };
  auto numSuffix = [&](size_t pre) { return std::stol(ty.substr(pre)); };
#define SCALAR(NAME, T, KIND, SG, BITS)                                  \
  if (ty == NAME) { run([&] { return getOnce<T>(text); }); want = refScalar(KIND, text, SG, BITS); } else
#define ARR(PFX, T, KIND, SG, N)                                                                         \
  if (ty == PFX #N) { run([&] { return getOnce<std::array<T, N>>(text); }); want = refSeq(KIND, text, SG, 32, N, false); } else
#define ARRS(PFX, T, KIND, SG) ARR(PFX, T, KIND, SG, 0) ARR(PFX, T, KIND, SG, 1) ARR(PFX, T, KIND, SG, 2) ARR(PFX, T, KIND, SG, 3)
#define FD(N) if (ty == "fd" #N) { run([&] { return getOnce<Dune::FieldVector<double, N>>(text); }); want = refSeq('d', text, true, 32, N, false); } else
#define FV(N) if (ty == "fi" #N) { run([&] { return getOnce<Dune::FieldVector<int, N>>(text); }); want = refSeq('i', text, true, 32, N, false); } else
#define BS(N) if (ty == "bs" #N) { run([&] { return getBitset<N>(text); }); want = refSeq('b', text, true, 32, N, true); } else
#define VEC(NAME, T, KIND, SG) if (ty == NAME) { run([&] { return getOnce<std::vector<T>>(text); }); want = refSeq(KIND, text, SG, 32, -1, true); } else
  SCALAR("int", int, 'i', true, 32) SCALAR("uint", unsigned, 'i', false, 32) SCALAR("long", long long, 'i', true, 64)
  SCALAR("ulong", unsigned long long, 'i', false, 64) SCALAR("short", short, 'i', true, 16)
  SCALAR("ushort", unsigned short, 'i', false, 16) SCALAR("bool", bool, 'b', true, 32) SCALAR("dbl", double, 'd', true, 0)
  SCALAR("flt", float, 'f', true, 0) SCALAR("chr", char, 'c', true, 0)
  SCALAR("lng", long, 'i', true, 64) SCALAR("ulng", unsigned long, 'i', false, 64)
  SCALAR("schr", signed char, 'c', true, 0) SCALAR("uchr", unsigned char, 'c', true, 0)
  ARRS("ab", bool, 'B', true)
  ARRS("af", float, 'f', true) ARRS("ac", char, 'c', true) FD(1) FD(2)
  VEC("vf", float, 'f', true) VEC("vc", char, 'c', true)
  if (ty == "str") { run([&] { return getOnce<std::string>(text); }); want = "s:" + refScalar('s', text, true, 0); } else
  ARRS("ai", int, 'i', true) ARRS("au", unsigned, 'i', false) ARRS("as", std::string, 's', true) ARRS("ad", double, 'd', true)
  FV(1) FV(3) BS(0) BS(1) BS(3) BS(8)
  VEC("vi", int, 'i', true) VEC("vu", unsigned, 'i', false) VEC("vb", bool, 'b', true) VEC("vd", double, 'd', true)
  if (ty == "vs") { run([&] { return getOnce<std::vector<std::string>>(text); }); want = refSeq('s', text, true, 0, -1, true); } else
  throw BadOp();
  (void)numSuffix;
  stat("get_" + ty);
  // a negative literal for an unsigned target is left undetermined by the documentation (the library negates
  // modulo 2^n): the real code was run (no crash, no locale dependence), the answer itself is not compared
  if ((ty == "uint" || ty == "ulong" || ty == "ulng" || ty == "ushort" || ty == "vu" || ty.rfind("au", 0) == 0) && has(text, '-')) {
    stat("get_no_claim");
    if (res.oracle == "ok") res.oracle = "ok trivial";
    res.impl = "noclaim";
    return res;
  }
  stat(res.impl.rfind("ERR", 0) == 0 ? "get_rejected" : "get_converted");
  if (res.impl.rfind("ERR", 0) != 0) stat("getok_" + ty);   // every target type must see accepted texts, too
  if (res.oracle != "ok") return res;
  if (want == "?") { res.oracle = "ok trivial"; stat("get_no_claim"); }
  else if (want != res.impl) res.oracle = "FAIL get<" + ty + ">: got " + res.impl.substr(0, 200) + " want " + want.substr(0, 200);
  return res;
}

static Result execShw(const std::vector<std::string>& w) {
  if (w.size() != 2) throw BadOp();
  long long v = std::stoll(w[1]);
  std::ostringstream os;
  os.imbue(std::locale::classic());
  os << v;
  Result res;
  res.impl = hx(os.str());
  // the text converts back to the number, for every type wide enough
  ParameterTree pt;
  pt["k"] = os.str();
  if (pt.get<long long>("k") != v) res.oracle = "FAIL printed text does not convert back";
  if (v >= INT_MIN && v <= INT_MAX && pt.get<int>("k") != (int)v) res.oracle = "FAIL printed text does not convert back (int)";
  return res;
}

// ------------------------------------------------------------------------------------------------
// tree queries
// ------------------------------------------------------------------------------------------------
static std::string refSubDump(RTree& t, const std::vector<std::string>& path, bool failIfMissing) {
  RTree* cur = &t;
  static RTree emptyTree;
  for (size_t i = 0; i < path.size(); ++i) {
    if (cur->val(path[i])) return "?";
    RTree* n = cur->sub(path[i]);
    if (!n) { if (failIfMissing && i + 1 == path.size()) return "ERR:Range"; n = &emptyTree; }
    cur = n;
  }
  return refDump(*cur);
}
static Result execTq(const std::vector<std::string>& w, const std::string& tail) {
  if (w.size() != 2) throw BadOp();
  struct Build { std::string key, value; bool mkSub; };
  std::vector<Build> kvs;
  if (w[1] != "-")
    for (auto& kv : split(w[1], ',')) {
      auto p = split(kv, '=');
      if (p.size() != 2) throw BadOp();
      if (p[1] == "@") kvs.push_back({unhex(p[0]), "", true});
      else kvs.push_back({unhex(p[0]), unhex(p[1]), false});
    }
  Result res;
  ParameterTree pt;
  RTree ref;
  bool claim = true;
  try {
    for (auto& kv : kvs) {
      if (kv.mkSub) {
        // non-const sub(): creates the (empty) groups on the way
        pt.sub(kv.key);
        stat("tq_mksub");
        RTree* cur = &ref;
        for (auto& c : dotted(kv.key)) {
          if (cur->val(c)) { claim = false; break; }
          RTree* n = cur->sub(c);
          if (!n) { cur->subs.push_back({c, std::make_shared<RTree>()}); n = cur->subs.back().second.get(); }
          cur = n;
        }
        continue;
      }
      pt[kv.key] = kv.value;
      if (claim && refAssign(ref, dotted(kv.key), kv.value) == RS_CONFLICT) claim = false;
    }
  } catch (Dune::RangeError&) {
    res.impl = "ERR:Range";
    res.oracle = "ok trivial";
    return res;
  }
  const ParameterTree& cpt = pt;
  std::vector<std::string> answers;
  std::string bad;
  for (auto& pr : split(tail, ';')) {
    if (pr.empty()) continue;
    auto t = words(pr);
    if (t.size() < 2) throw BadOp();
    std::string key = unhex(t[1]);
    auto path = dotted(key);
    std::string ans, want = "?";
    std::string* cur = nullptr;
    RStat st = claim ? refFind(ref, path, cur) : RS_CONFLICT;
    stat("tq_" + t[0]);
    if (t[0] == "hk") {
      ans = guarded([&] { return std::string(cpt.hasKey(key) ? "true" : "false"); });
      if (st == RS_OK) want = cur ? "true" : "false";
      if (st == RS_LEAF) { want = "false"; stat("tq_through_leaf"); }
    } else if (t[0] == "hs") {
      ans = guarded([&] { return std::string(cpt.hasSub(key) ? "true" : "false"); });
      if (claim) {
        RTree* c = &ref;
        bool okp = true, found = true;
        for (size_t i = 0; i < path.size() && found; ++i) {
          if (c->val(path[i]) && c->sub(path[i])) { okp = false; break; }   // value and group at once: no claim
          c = c->sub(path[i]);       // a name that is a value only (or unknown) is not a group
          if (!c) found = false;
        }
        if (okp) want = found ? "true" : "false";
      }
    } else if (t[0] == "gs") {
      ans = guarded([&] { return hx(cpt[key]); });
      if (st == RS_OK) want = cur ? hx(*cur) : "ERR:Range";
      if (st == RS_LEAF) want = "ERR:Range";
    } else if (t[0] == "sk" || t[0] == "skf") {
      bool f = t[0] == "skf";
      ans = guarded([&] { return dumpTree(cpt.sub(key, f)); });
      if (claim) want = refSubDump(ref, path, f);
    } else if (t[0] == "gd") {
      if (t.size() != 3) throw BadOp();
      std::string d = unhex(t[2]);
      ans = guarded([&] { return hx(cpt.get(key, d)); });
      if (st == RS_OK) want = cur ? hx(*cur) : hx(d);
      if (st == RS_LEAF) want = hx(d);        // the key does not exist: the default, not an exception
      // the overload taking the default as const char* and the template with T = std::string (trimmed value)
      if (!hasNul(d)) {
        std::string a2 = guarded([&] { return hx(cpt.get(key, d.c_str())); });
        if (a2 != ans && bad.empty()) bad = "gd " + key + ": get(key, const char*) = " + a2.substr(0, 100) + " but get(key, std::string) = " + ans.substr(0, 100);
      }
      std::string a3 = guarded([&] { return hx(cpt.get<std::string>(key, d)); });
      if (st == RS_OK || st == RS_LEAF) {
        std::string w3 = cur ? refScalar('s', *cur, true, 0) : hx(d);
        if (a3 != w3 && bad.empty()) bad = "gd " + key + ": get<std::string>(key, default) = " + a3.substr(0, 100) + " want " + w3.substr(0, 100);
      }
    } else if (t[0] == "gi") {
      if (t.size() != 3) throw BadOp();
      int d = std::stoi(t[2]);
      ans = guarded([&] { return std::to_string(cpt.get<int>(key, d)); });
      if (st == RS_OK) want = cur ? refInt(stripC(*cur), true, 32) : std::to_string(d);
      if (st == RS_LEAF) want = std::to_string(d);
    } else throw BadOp();
    answers.push_back(ans);
    if (want != "?" && want != ans && bad.empty()) bad = t[0] + " " + key + ": got " + ans.substr(0, 100) + " want " + want.substr(0, 100);
  }
  res.impl = join(answers.begin(), answers.end(), ",");
  if (!bad.empty()) res.oracle = "FAIL " + bad;
  return res;
}

// ------------------------------------------------------------------------------------------------
// executor
// ------------------------------------------------------------------------------------------------
static Result exec(const std::string& line) {
  std::string head = line, tail;
  size_t p = line.find(" : ");
  bool hasTail = p != std::string::npos;
  if (hasTail) { head = line.substr(0, p); tail = line.substr(p + 3); }
  auto w = words(head);
  Result res;
  alarm(60);   // a hang is a violation of the property: SIGALRM kills the harness, check.py reports the op
  try {
    if (w.empty()) throw BadOp();
    stat("op_" + w[0]);
    if (w[0] == "ini" && !hasTail) res = execIni(w);
    else if (w[0] == "rt" && hasTail) res = execRt(w, tail);
    else if (w[0] == "hostile" && !hasTail) res = execHostile(w);
    else if (w[0] == "bads" && !hasTail) res = execBads(w);
    else if (w[0] == "opt" && !hasTail) res = execOpt(w);
    else if (w[0] == "nopt" && !hasTail) res = execNopt(w);
    else if (w[0] == "get" && !hasTail) res = execGet(w);
    else if (w[0] == "shw" && !hasTail) res = execShw(w);
    else if (w[0] == "tq" && hasTail) res = execTq(w, tail);
    else throw BadOp();
  } catch (BadOp&) {
    res.impl = "bad-op";
    res.oracle = "ok trivial";
  } catch (std::logic_error&) {  // stoul & co. on a malformed op line
    res.impl = "bad-op";
    res.oracle = "ok trivial";
  }
  alarm(0);
  return res;
}

// ------------------------------------------------------------------------------------------------
// generators
// ------------------------------------------------------------------------------------------------
static std::string pickBlank(Rng& r, bool allowCr = false) {
  static const std::vector<std::string> b = {"", "", "", " ", " ", "  ", "\t", " \t ", "    "};
  std::string s = r.pick(b);
  if (allowCr && r.coin(1, 12)) s += "\r";
  return s;
}
static std::string genName(Rng& r) {
  static const std::vector<std::string> names = {"a", "b", "c", "x", "y", "k1", "k2", "key", "Key", "x_y", "fruit", "apple",
                                                 "pear", "0", "42", "_", "A1b2", "a", "b", "long_component_name"};
  if (r.coin(1, 10)) {
    static const std::string al = "abcdefghijklmnopqrstuvwxyzABCDEFGHIJKLMNOPQRSTUVWXYZ0123456789_";
    std::string s;
    long n = r.range(1, 6);
    for (long i = 0; i < n; ++i) s.push_back(al[r.below(al.size())]);
    return s;
  }
  if (r.coin(1, 25)) {  // lexically legal though unusual components
    static const std::vector<std::string> odd = {"a-b", "a b", "x/y", "q'", "d\"", "a]b", "+", "*", "a\tb", "\xc3\xa4"};
    return r.pick(odd);
  }
  if (r.coin(1, 20)) {
    // round four: any byte the dialect allows in a key component — every printable ASCII character except the ones
    // with a meaning ('.', '=', '#'), not '[' in front, no blank at either end; inner blanks and high bytes are legal
    std::string s;
    long n = r.range(1, 4);
    for (long i = 0; i < n; ++i) {
      char c;
      do {
        c = r.coin(1, 12) ? (r.coin() ? ' ' : char(0x80 + r.below(128))) : char(33 + r.below(94));
      } while (c == '.' || c == '=' || c == '#' || (i == 0 && (c == '[' || c == ' ')) || (i == n - 1 && c == ' '));
      s.push_back(c);
    }
    stat("name_any_byte");
    return s;
  }
  return r.pick(names);
}
static std::string genValue(Rng& r) {
  static const std::vector<std::string> vals = {
      "", "1", "0", "-7", "42", "3.14", "yes", "no", "true", "red", "green/red/yellow", "a b c", "1 2 3", "x=y", "a = b", "[x]",
      "]", "it's", "say \"hi\"", " lead", "trail ", "  both  ", "\ttab\t", "line1\nline2", "a\n\nb", "\nstarts", "ends\n",
      "multi\n  indented\n\tlines ", "has # hash", "k = \"v\"", "[group]\nkey = value", "\r", "a\rb", "'", "\"", "1e5", "/path/to/file",
      "\xff\xfe", "v#", "# only"};
  if (r.coin(1, 6)) {
    static const std::string al = "abcXYZ019 _-+*/.,:;!?()[]{}<>=#'\"\t\n\\|~";
    std::string s;
    long n = r.range(0, 12);
    // round four: half of the random values draw from all printable ASCII characters (+ tab, newline, high bytes), so
    // that no character is excluded from the first / last position of a value by the choice of a hand-picked alphabet
    bool any = r.coin();
    for (long i = 0; i < n; ++i)
      s.push_back(!any ? al[r.below(al.size())] : r.coin(1, 10) ? "\t\n\r\xe9\xff"[r.below(5)] : char(32 + r.below(95)));
    if (any) stat("value_any_byte");
    return s;
  }
  return r.pick(vals);
}
static std::string genCommentText(Rng& r) {
  static const std::vector<std::string> c = {"", " comment", " key = value", " [group]", "# double", " 'quote", " \"dq\" = 1", "\t"};
  return r.pick(c);
}
// choose a legal spelling for (key text, value); returns false if none of the requested kind exists
static Item spellAssign(Rng& r, const std::string& key, const std::string& value) {
  Item it;
  it.kind = 'A';
  it.key = key;
  it.value = value;
  it.ws1 = pickBlank(r);
  it.ws2 = pickBlank(r);
  it.ws3 = pickBlank(r);
  it.ws4 = pickBlank(r, true);
  std::vector<char> qs;
  for (char q : {'n', 's', 'd'}) {
    it.q = q;
    it.hasCmt = false;
    if (wfItem(it)) qs.push_back(q);
  }
  if (qs.empty()) { it.q = 'x'; return it; }
  // prefer quoting sometimes even when not needed
  it.q = qs[r.below(qs.size())];
  if (r.coin(1, 4)) {
    it.hasCmt = true;
    it.text = genCommentText(r);
    if (!wfItem(it)) it.hasCmt = false;
  }
  return it;
}

struct GenDoc {
  std::vector<Item> items;
  Entries entries;
};
// a random hierarchy, flattened in an order compatible with first appearance, spelled item by item
static GenDoc genDoc(Rng& r, long maxEntries, bool allowDup, bool allowConflict) {
  GenDoc g;
  // 1. entries: paths over a small name pool so that groups are shared
  long n = r.range(0, maxEntries);
  std::vector<std::string> pool;
  long np = r.range(1, 5);
  for (long i = 0; i < np; ++i) pool.push_back(genName(r));
  std::vector<std::vector<std::string>> paths;
  for (long i = 0; i < n; ++i) {
    std::vector<std::string> p;
    long depth = r.coin(1, 3) ? 1 : r.range(1, 4);
    for (long d = 0; d < depth; ++d) p.push_back(r.coin(2, 3) ? r.pick(pool) : genName(r));
    bool bad = false;
    for (auto& c : p) if (has(c, '.')) bad = true;
    for (auto& q : paths) {
      size_t m = std::min(p.size(), q.size());
      bool pre = std::equal(p.begin(), p.begin() + m, q.begin());
      if (pre && p.size() == q.size() && !allowDup) bad = true;
      if (pre && p.size() != q.size() && !allowConflict) bad = true;
    }
    if (bad) continue;
    paths.push_back(p);
  }
  // 2. spell
  std::string curPrefix;  // group in force (dotted, without the trailing '.')
  auto joinPath = [](const std::vector<std::string>& p, size_t a, size_t b) {
    std::string s;
    for (size_t i = a; i < b; ++i) s += (i > a ? "." : "") + p[i];
    return s;
  };
  for (auto& p : paths) {
    while (r.coin(1, 5)) {
      Item c;
      if (r.coin()) { c.kind = 'B'; c.ws1 = pickBlank(r, true); }
      else { c.kind = 'C'; c.ws1 = pickBlank(r); c.text = genCommentText(r); }
      g.items.push_back(c);
    }
    std::string value = genValue(r);
    size_t splitAt = r.coin(1, 3) ? 0 : r.below(p.size());   // components that go into the [group]
    if (r.coin(1, 3) && !curPrefix.empty()) {
      // stay in the current group when it is a prefix of the path on a component boundary
      size_t cnt = std::count(curPrefix.begin(), curPrefix.end(), '.') + 1;
      if (cnt < p.size() && joinPath(p, 0, cnt) == curPrefix) splitAt = cnt;
    }
    std::string group = joinPath(p, 0, splitAt);
    if (group != curPrefix || r.coin(1, 8)) {
      Item h;
      h.kind = 'H';
      h.ws1 = pickBlank(r);
      h.ws2 = pickBlank(r);
      h.ws3 = pickBlank(r);
      h.key = group;
      if (r.coin(1, 4)) h.text = pickBlank(r) + (r.coin() ? "#" + genCommentText(r) : "");
      if (r.coin(1, 30)) h.text = " trailing junk ] [x]";
      if (!wfItem(h)) continue;
      g.items.push_back(h);
      curPrefix = group;
    }
    std::string keyText = joinPath(p, splitAt, p.size());
    Item a = spellAssign(r, keyText, value);
    if (a.q == 'x') {  // value not expressible with this key (e.g. contains both quote kinds and a newline): simplify
      value = "v";
      a = spellAssign(r, keyText, value);
      if (a.q == 'x') continue;
    }
    g.items.push_back(a);
    g.entries.push_back({joinPath(p, 0, p.size()), value});
  }
  if (r.coin(1, 3)) { Item b; b.kind = 'B'; g.items.push_back(b); }  // trailing newline
  return g;
}
static std::string encItems(const std::vector<Item>& items) {
  std::string s;
  for (size_t i = 0; i < items.size(); ++i) s += (i ? ";" : "") + encItem(items[i]);
  return s;
}

static std::string genRt(Rng& r, const Args& a) {
  long big = a.tier == "thorough" ? 14 : 9;
  bool dup = r.coin(1, 8), conflict = r.coin(1, 25);
  GenDoc m = genDoc(r, r.coin(1, 10) ? big * 2 : big, dup, conflict);
  std::string s = "rt " + std::string(r.coin(2, 3) ? "1" : "0") + " : ";
  if (r.coin(1, 2)) {
    GenDoc pre = genDoc(r, 6, false, false);
    // make overlaps with the main document likely
    if (!m.entries.empty() && r.coin(2, 3)) {
      auto& e = m.entries[r.below(m.entries.size())];
      Item it = spellAssign(r, e.first, r.coin() ? "" : genValue(r));
      Item h; h.kind = 'H';
      if (it.q != 'x' && wfItem(it)) { pre.items.push_back(h); pre.items.push_back(it); }
    }
    s += encItems(pre.items) + (pre.items.empty() ? "P;" : ";P;");
  }
  return s + encItems(m.items);
}

// raw documents: rendered dialect documents, hand-written ones, and small mutations of them
static std::string genIni(Rng& r, const Args& a) {
  static const std::vector<std::string> lits = {
      "# this file configures fruit colors in fruitsalad\n\n\n#these are no fruit but could also appear in fruit salad\n"
      "honeydewmelon = yellow\nwatermelon = green\n\nfruit.tropicalfruit.orange = orange\n\n[fruit]\nstrawberry = red\n"
      "pomegranate = red\n\n[fruit.pipfruit]\napple = green/red/yellow\npear = green\n\n[fruit.stonefruit]\ncherry = red\nplum = purple\n",
      "x = 1\n[a]\nx = 2\n[]\ny = 3\n", "a = 1\na = 2\n", "[g]\nk = 1\n[ g ]\nk = 2\n", "g.k = 1\n[g]\nk = 2\n", "k = \"", "k = '\n\n",
      "a = 1\na.b = 2\n", "a.b = 1\na = 2\n", "k = \"two\nlines\"\nz = 9", "k = 'x' # c\n", "", "\n", "[a.b]\nc.d = 1\n[a]\nb.c.e = 2\n",
      "k=v", " k = v \r\n[ s ]\r\n q = 'a b' \r\n"};
  std::string doc;
  if (r.coin(1, 3)) doc = r.pick(lits);
  else doc = renderDoc(genDoc(r, 8, r.coin(1, 6), r.coin(1, 12)).items);
  if (r.coin(1, 3) && !doc.empty()) {  // mutate: delete / duplicate / replace a byte, or duplicate a line
    long k = r.range(0, 3);
    size_t pos = r.below(doc.size());
    if (k == 0) doc.erase(pos, 1);
    else if (k == 1) doc.insert(pos, 1, doc[pos]);
    else if (k == 2) { static const std::string sp = "#=[]'\" \n.\t"; doc[pos] = sp[r.below(sp.size())]; }
    else { auto ls = split(doc, '\n'); size_t i = r.below(ls.size()); ls.insert(ls.begin() + i, ls[i]); doc = join(ls.begin(), ls.end(), "\n"); }
  }
  std::string pre;
  if (r.coin(1, 3)) pre = renderDoc(genDoc(r, 4, false, false).items);
  // documents outside the documented dialect (after the mutation) belong to the hostile stream: the only claim
  // there is "no crash, no hang" and the model is not compared (`--rawini 1` keeps them, for model development)
  if (a.get("rawini", 0) == 0 && (!strictParse(doc) || !strictParse(pre))) { stat("ini_to_hostile"); return "hostile " + hx(doc); }
  return "ini " + std::string(r.coin(2, 3) ? "1" : "0") + " " + hx(pre) + " " + hx(doc);
}

static std::string genHostile(Rng& r, const Args& a) {
  std::string doc;
  long kind = r.range(0, 7);
  long maxLen = a.tier == "thorough" ? 20000 : 3000;
  if (kind == 0) { long n = r.range(0, 300); for (long i = 0; i < n; ++i) doc.push_back((char)r.below(256)); }
  else if (kind == 1) {  // bytes from the syntax alphabet
    static const std::string al("=#[]'\" \t\r\n.ab\0\xff", 16);
    long n = r.range(0, 400);
    for (long i = 0; i < n; ++i) doc.push_back(al[r.below(al.size())]);
  } else if (kind == 2) {  // unbalanced quotes with many continuation lines
    doc = "k = " + std::string(r.coin() ? "\"" : "'");
    long n = r.range(0, 200);
    for (long i = 0; i < n; ++i) doc += r.coin(1, 5) ? "\n" : "\nx = 1 '";
  } else if (kind == 3) {  // one huge line
    doc = std::string(r.coin() ? "" : "[") + std::string((size_t)r.range(1000, maxLen), r.coin() ? '=' : 'a') + (r.coin() ? "=\"" : "");
  } else if (kind == 4) {  // deep dotted key
    long n = r.range(10, 400);
    for (long i = 0; i < n; ++i) doc += r.coin(1, 9) ? "." : "a.";
    doc += " = 1\n";
  } else if (kind == 5) {  // mutated dialect document
    Rng& rr = r;
    doc = renderDoc(genDoc(rr, 10, true, true).items);
    long m = r.range(1, 10);
    for (long i = 0; i < m && !doc.empty(); ++i) doc[r.below(doc.size())] = (char)r.below(256);
  } else if (kind == 6) {  // value/group clashes and empty components
    static const std::vector<std::string> parts = {"a = 1\n", "a.b = 2\n", "[a]\n", "[a.b]\n", "b = 3\n", ". = 4\n", ".. = 5\n", "[.]\n",
                                                   "= 6\n", "[]\n", "a. = 7\n", ".a = 8\n", "[a\n", "a]\n", "b.c.d = 1\n", "b.c = 2\n"};
    long n = r.range(1, 12);
    for (long i = 0; i < n; ++i) doc += r.pick(parts);
  } else {
    long n = r.range(0, 60);
    for (long i = 0; i < n; ++i) doc += std::string((size_t)r.range(0, 5), ' ') + "\n";
    doc += "k = '";
  }
  return "hostile " + hx(doc);
}

// a dialect document read from a stream that fails after n bytes
static std::string genBads(Rng& r, const Args&) {
  std::string doc = renderDoc(genDoc(r, 8, r.coin(1, 8), false).items);
  if (r.coin(1, 6)) doc = std::string(r.coin() ? "k = \"" : "k = 'open\n") + doc;   // fails inside an open quote
  std::string pre = r.coin(1, 4) ? renderDoc(genDoc(r, 3, false, false).items) : "";
  size_t n = r.below(doc.size() + 1);
  long k = r.range(0, 9);
  if (k == 0) n = 0;
  else if (k == 1) n = doc.size();
  else if (k == 2) n = doc.size() + (size_t)r.range(1, 5);       // limit beyond the data: the whole document, then the error
  else if (k == 3 && !doc.empty()) { size_t p = doc.find('\n', r.below(doc.size())); if (p != std::string::npos) n = p + (r.coin() ? 1 : 0); }
  return "bads " + std::string(r.coin(2, 3) ? "1" : "0") + " " + std::to_string(n) + " " + hx(pre) + " " + hx(doc);
}

static std::string genOptArgs(Rng& r, std::vector<std::string>& out, bool named) {
  long n = r.range(0, 6);
  for (long i = 0; i < n; ++i) {
    long k = r.range(0, 9);
    std::string key = genName(r);
    if (r.coin(1, 3)) key += "." + genName(r);
    std::string val = genValue(r);
    val.erase(std::remove(val.begin(), val.end(), '\0'), val.end());
    if (named) {
      if (k <= 3) out.push_back("--" + key + "=" + val);
      else if (k <= 7) out.push_back(val.rfind("--", 0) == 0 || val == "-h" ? "v" : val);
      else if (k == 8) out.push_back(r.coin(1, 4) ? (r.coin() ? "-h" : "--help") : "--" + key);
      else out.push_back("-" + key);
    } else {
      if (k <= 5) { out.push_back("-" + key); if (!(i + 1 == n && r.coin(1, 3))) out.push_back(val); }
      else if (k <= 7) out.push_back(val);
      else if (k == 8) out.push_back("-");
      else out.push_back("--" + key);
    }
  }
  std::string s;
  for (auto& a : out) s += " " + hx(a);
  return s;
}
static std::string genOpt(Rng& r, const Args&) {
  std::string pre = r.coin(1, 2) ? renderDoc(genDoc(r, 4, false, false).items) : "";
  std::vector<std::string> args;
  std::string s = genOptArgs(r, args, false);
  return "opt " + hx(pre) + s;
}
static std::string genNopt(Rng& r, const Args&) {
  std::string pre = r.coin(1, 2) ? renderDoc(genDoc(r, 4, false, false).items) : "";
  long nkw = r.range(0, 4);
  std::vector<std::string> kws;
  std::string ks;
  for (long i = 0; i < nkw; ++i) {
    std::string k = genName(r);
    if (r.coin(1, 5)) k += "." + genName(r);
    if (std::find(kws.begin(), kws.end(), k) != kws.end() && !r.coin(1, 10)) k += std::to_string(i);
    kws.push_back(k);
    ks += " " + hx(k);
  }
  // pre-existing entries for some keywords: empty ("not yet specified") or set
  if (!kws.empty() && r.coin(1, 2)) {
    pre.clear();
    for (auto& k : kws)
      if (isDottedKey(k) && r.coin(2, 3)) pre += k + " = " + (r.coin() ? "" : (r.coin() ? "set" : "\"\"")) + "\n";
  }
  std::vector<std::string> args;
  // positional arguments and named ones drawn from the keywords
  long n = r.range(0, 5);
  for (long i = 0; i < n; ++i) {
    long k = r.range(0, 11);
    std::string val = genValue(r);
    val.erase(std::remove(val.begin(), val.end(), '\0'), val.end());
    if (k <= 4 && r.coin(1, 6)) {
      // round four: positional arguments that merely look like options: `-c` / `-cc` for any printable character (only
      // -h, --help and --key=value have a meaning)
      std::string a = "-";
      a.push_back(char(33 + r.below(94)));
      if (r.coin(1, 3)) a.push_back(char(33 + r.below(94)));
      args.push_back(a.rfind("--", 0) == 0 ? "-x" : a);   // "-h" may come out: it is the help request, which the oracle knows
      stat("nopt_dashlike_positional");
    }
    else if (k <= 4) args.push_back(val.rfind("--", 0) == 0 || val == "-h" ? "v" : val);
    else if (k <= 8 && !kws.empty()) args.push_back("--" + r.pick(kws) + "=" + val);
    else if (k == 9) args.push_back("--" + genName(r) + "=" + val);
    else if (k == 10) args.push_back(r.coin(1, 3) ? "--help" : "--novalue");
    else args.push_back("-h");
  }
  std::string as;
  for (auto& a : args) as += " " + hx(a);
  long required = r.coin(1, 4) ? 4294967295L : r.range(0, nkw + 1);
  return "nopt " + std::to_string(required) + " " + (r.coin() ? "1" : "0") + " " + (r.coin() ? "1" : "0") + " " + hx(pre) + " " +
         std::to_string(nkw) + ks + as;
}

static std::string genIntText(Rng& r, int bits, bool sg) {
  static const std::vector<std::string> special = {"0", "1", "-1", "+1", "-0", "+0", "00", "007", "-007", "10", "99", "100"};
  auto pow2 = [](int b) { unsigned __int128 one = 1; return one << b; };
  auto dec = [](unsigned __int128 v) { std::string s; if (!v) s = "0"; for (; v; v /= 10) s.insert(s.begin(), char('0' + (int)(v % 10))); return s; };
  long k = r.range(0, 13);
  if (k >= 10) {   // a value the type can hold: its limits exactly, or uniform over a random number of bits
    int mb = sg ? bits - 1 : bits;
    unsigned __int128 hi = pow2(mb) - 1;
    bool neg = sg && r.coin();
    unsigned __int128 v;
    if (r.coin(1, 4)) v = neg ? hi + 1 : hi;              // lo or hi
    else if (r.coin(1, 6)) v = neg ? hi : hi - 1;          // next to them
    else v = (unsigned __int128)(r.next() >> r.below(64)) & (pow2((int)r.range(1, mb)) - 1);
    return std::string(neg ? "-" : (r.coin(1, 8) ? "+" : "")) + (r.coin(1, 10) ? "00" : "") + dec(v);
  }
  if (k <= 1) return r.pick(special);
  if (k <= 3) {  // around the limits of this and the neighbouring types
    static const std::vector<int> bs = {15, 16, 31, 32, 63, 64};
    int b = r.coin() ? (sg ? bits - 1 : bits) : r.pick(bs);
    unsigned __int128 v = pow2(b) + (unsigned __int128)r.range(0, 4) - 2;
    return (r.coin() ? "-" : (r.coin(1, 4) ? "+" : "")) + dec(v);
  }
  if (k == 4) { std::string s; long n = r.range(1, 30); for (long i = 0; i < n; ++i) s.push_back(char('0' + r.below(10))); return (r.coin(1, 3) ? "-" : "") + s; }
  long v = r.range(-100000, 100000);
  if (r.coin()) v = (long)(r.next() >> r.below(64));
  if (r.coin()) v = -v;
  return std::to_string(v);
}
static std::string genDblText(Rng& r) {
  static const std::vector<std::string> special = {
      "0", "-0", "1", "1.5", "-2.25", ".5", "5.", "1e5", "1E5", "1e+5", "1e-5", "1.e1", ".5e1", "00.50", "1e308", "1.7976931348623157e308",
      "1.7976931348623158e308", "1.7976931348623159e308", "1.797693134862315807e308", "1.797693134862315808e308", "2e308", "1e400", "-1e400",
      "4.9e-324", "2.4703282292062327e-324", "2.4703282292062328e-324", "2.5e-324", "1e-400", "0e999999", "1e999999999", "1e-999999999",
      "9007199254740993", "9007199254740992", "4503599627370496.5", "0.1", "0.30000000000000004", "123456789012345678901234567890",
      "3.14159", "1e", "1e+", ".", "+", "-", "e5", ".e5", "1.5.2", "1e5e3", "1e5.3", "inf", "nan", "0x1p3", "0x10", "1,5", "1.000,5", "1.000",
      "1 000", "1d5", "1f", "--1", "+-1", "1.5e3.0", "2.2250738585072014e-308", "2.2250738585072011e-308", "1.0000000000000002",
      "1.00000000000000011102230246251565404236316680908203125", "1.00000000000000011102230246251565404236316680908203124",
      "1.00000000000000011102230246251565404236316680908203126", "0.000000000000000000000000000001", "100000000000000000000000",
      // binary32 boundaries: max, overflow threshold (max + half ulp: tie rounds to even = infinity), min subnormal and its half, ties at 2^24
      "3.4028234e38", "3.4028235e38", "3.4028236e38", "340282346638528859811704183484516925440", "340282356779733661637539395458142568447",
      "340282356779733661637539395458142568448", "3.5e38", "1e39", "1.17549435e-38", "1.17549428e-38", "1.4e-45", "7.1e-46", "7.0e-46",
      "7.006492321624085e-46", "7.006492321624086e-46", "1e-46", "16777216", "16777217", "16777218", "16777219", "0.1", "1.00000005960464477539",
      "1.000000059604644775390625", "1.0000000596046447753906251", "1.00000017881393432617187", "1.000000178813934326171875"};
  if (r.coin(2, 3)) return r.pick(special);
  std::string s = r.coin(1, 4) ? "-" : "";
  long n = r.range(1, 18);
  for (long i = 0; i < n; ++i) s.push_back(char('0' + r.below(10)));
  if (r.coin()) { s += "."; long m = r.range(0, 20); for (long i = 0; i < m; ++i) s.push_back(char('0' + r.below(10))); }
  if (r.coin(1, 3)) s += (r.coin() ? "e" : "E") + std::string(r.coin() ? "-" : (r.coin() ? "+" : "")) + std::to_string(r.range(0, 330));
  return s;
}
static std::string padC(Rng& r) {
  static const std::vector<std::string> p = {"", "", "", " ", "  ", "\t", "\n", "\r", "\v", "\f", " \t\n"};
  return r.pick(p);
}
static std::string genScalarText(Rng& r, char kind, int bits, bool sg) {
  std::string t;
  if (kind == 'i') t = genIntText(r, bits, sg);
  else if (kind == 'd' || kind == 'f') t = genDblText(r);
  else if (kind == 'c') {
    static const std::vector<std::string> c = {"a", "Z", "1", "#", "-", "\xff", "\x01", " a", "a ", "\va\f", "ab", "a b", "", " ", "\t", "a\n", "''", "="};
    return r.pick(c);
  } else if (kind == 'b' || kind == 'B') {
    static const std::vector<std::string> b = {"yes", "no", "true", "false", "YES", "No", "TRUE", "fAlSe", "1", "0", "2", "-1", "10", "y", "n",
                                               "on", "off", "", "yess", "tru", "0x1", "1.0", "00", "+0", "yes ", " no", "-1", "-2", "-17",
                                               "+3", "-0", " 1", "1 ", "-2147483648", "2147483648"};
    t = r.pick(b);
    return t;
  } else {
    t = genValue(r);
    // round four: string targets also see the blanks of the classic locale (\v, \f are NOT stripped by Parser<string>)
    if (r.coin(1, 4)) return padC(r) + t + padC(r);
    return t;
  }
  // decorate / damage
  long k = r.range(0, 11);
  if (k <= 5) return padC(r) + t + padC(r);
  static const std::vector<std::string> garbage = {"x", ".", ",", "-", "+", " 1", " x", "e", "\0", "L", "u", ";", " -", " +", "\v1", ".0", "e0", " ."};
  if (k == 6) return t + r.pick(garbage);
  if (k == 7) return r.pick(garbage) + t;
  if (k == 8 && !t.empty()) { t[r.below(t.size())] = "x .-+e,"[r.below(7)]; return t; }
  if (k == 9) return "";
  if (k == 10) return padC(r);
  return t + " " + t;
}
static std::string genGet(Rng& r, const Args&) {
  static const std::vector<std::string> scal = {"int", "int", "uint", "long", "ulong", "short", "ushort", "bool", "str", "dbl", "dbl",
                                                "flt", "flt", "chr", "lng", "ulng", "schr", "uchr"};
  static const std::vector<std::string> seqs = {"ai0", "ai1", "ai2", "ai3", "au0", "au1", "au2", "au3", "as0", "as1", "as2", "as3", "ad0", "ad1",
                                                "ad2", "ad3", "fi1", "fi3", "bs0", "bs1", "bs3", "bs8", "vi", "vu", "vb", "vs", "vd",
                                                "af0", "af1", "af2", "af3", "ac0", "ac1", "ac2", "ac3", "fd1", "fd2", "vf", "vc", "ab0", "ab1", "ab2", "ab3", "ab2", "ab3"};
  std::string ty, text;
  // element kind / width / signedness of a target type name (explicit table: a positional test on the letters
  // once classified "bs3" and "ushort" as strings, so bitsets and unsigned shorts never saw their own literals)
  auto kindOf = [](const std::string& t, char& kind, int& bits, bool& sg) {
    auto starts = [&](const char* p) { return t.rfind(p, 0) == 0; };
    kind = 'i'; bits = 32; sg = true;
    if (t == "bool" || t == "vb" || starts("bs")) kind = 'b';
    else if (t == "str" || t == "vs" || starts("as")) kind = 's';
    else if (t == "dbl" || t == "vd" || starts("ad") || starts("fd")) kind = 'd';
    else if (t == "flt" || t == "vf" || starts("af")) kind = 'f';
    else if (t == "chr" || t == "schr" || t == "uchr" || t == "vc" || starts("ac")) kind = 'c';
    else if (starts("ab")) kind = 'B';
    else {
      if (t == "uint" || t == "vu" || starts("au")) sg = false;
      if (t == "long" || t == "lng") bits = 64;
      if (t == "ulong" || t == "ulng") { bits = 64; sg = false; }
      if (t == "short") bits = 16;
      if (t == "ushort") { bits = 16; sg = false; }
    }
  };
  char kind; int bits; bool sg;
  if (r.coin(2, 5)) {
    ty = r.pick(scal);
    kindOf(ty, kind, bits, sg);
    text = genScalarText(r, kind, bits, sg);
  } else {
    ty = r.pick(seqs);
    kindOf(ty, kind, bits, sg);
    long n = ty[0] == 'v' ? r.range(0, 5) : std::stol(ty.substr(2));
    // one case in three is a clean one (right number of well-formed items, nothing trailing), so that every
    // target type regularly sees a text it accepts and element order / count are observed
    bool clean = r.coin(1, 3);
    long delta = clean || r.coin(2, 3) ? 0 : r.range(-2, 2);
    long cnt = std::max(0L, n + delta);
    static const std::vector<std::string> seps = {" ", " ", " ", "  ", "\t", "\n", "\r", "\v", "\f", " \t "};
    text = r.coin(1, 4) ? padC(r) : "";
    for (long i = 0; i < cnt; ++i) {
      std::string t;
      if (kind == 's') { static const std::vector<std::string> ws = {"a", "b", "hello", "x=y", "'q'", "1", "#"}; t = r.pick(ws); }
      else if (clean) {
        if (kind == 'i') { int mb = sg ? bits - 1 : bits; long long v = (long long)((r.next() >> 1) & ((1ull << r.range(1, std::min(mb, 62))) - 1)); t = std::to_string(sg && r.coin(1, 3) ? -v : v); }
        else if (kind == 'd' || kind == 'f') { static const std::vector<std::string> d = {"0", "1", "-2.5", "3.25", ".5", "1e3", "-1E-2", "0.1", "16777217", "1e30", "7.", "+4"}; t = r.pick(d); }
        else if (kind == 'c') { static const std::vector<std::string> c = {"a", "b", "Z", "7", "#", "-"}; t = r.pick(c); }
        else if (kind == 'B') { static const std::vector<std::string> b = {"0", "1", "1", "0", "+1", "-0", "01", "000", "+0"}; t = r.pick(b); }
        else { static const std::vector<std::string> b = {"yes", "no", "true", "false", "1", "0", "TRUE", "No", "2", "-1", "fAlSe", "YES"}; t = r.pick(b); }
      }
      else if (r.coin(1, 12)) t = genScalarText(r, kind, bits, sg);
      else if (kind == 'i') t = genIntText(r, bits, sg);
      else if (kind == 'd' || kind == 'f') t = genDblText(r);
      else if (kind == 'c') { static const std::vector<std::string> c = {"a", "b", "Z", "7", "#", "ab", "\xe9", "-"}; t = r.pick(c); }
      else if (kind == 'B') { static const std::vector<std::string> b = {"0", "1", "1", "0", "2", "-1", "10", "yes", "true", "false", "x", "1.0", "-0", "+1", "9223372036854775808", "00000000000000000001", "1e0"}; t = r.pick(b); }
      else { static const std::vector<std::string> b = {"yes", "no", "true", "false", "1", "0", "TRUE", "No", "2", "x", "-1", "-3"}; t = r.pick(b); }
      text += (i ? r.pick(seps) : "") + t;
    }
    if (r.coin(1, 4)) text += padC(r);
    if (clean) return "get " + ty + " " + hx(text);
    if (r.coin(1, 12) && kind != 's' && kind != 'b' && kind != 'c') { static const std::vector<std::string> glue = {"1-2", "1+2", "3-4-5", "1.5.5", "1..5", "1e5.5", "+1+1", "7-", "1e", "-+1"}; text += (text.empty() ? "" : " ") + r.pick(glue); }
    if (r.coin(1, 8)) { static const std::vector<std::string> tails = {" -", " +", " .", " 1e", " x", "-", "+", " 99999999999999999999", " e", ","}; text += r.pick(tails); }
  }
  return "get " + ty + " " + hx(text);
}
static std::string genShw(Rng& r, const Args&) {
  long long v = (long long)(r.next() >> r.below(64));
  if (r.coin()) v = -v;
  if (r.coin(1, 6)) { static const std::vector<long long> s = {0, 1, -1, 9, 10, -10, 99, 100, INT_MAX, INT_MIN, LLONG_MAX, LLONG_MIN, 2147483648LL}; v = r.pick(s); }
  return "shw " + std::to_string(v);
}
static std::string genTq(Rng& r, const Args&) {
  GenDoc g = genDoc(r, 8, true, r.coin(1, 8));
  std::string kv;
  for (size_t i = 0; i < g.entries.size(); ++i) {
    // now and then create a group with the non-const sub() first: a prefix of the key, the key itself (clash), or a new name
    if (r.coin(1, 6)) {
      std::string gk = g.entries[i].first;
      long c = r.range(0, 3);
      if (c <= 1) { auto d = gk.rfind('.'); if (d != std::string::npos) gk = gk.substr(0, d); }
      else if (c == 2) gk = genName(r) + (r.coin() ? "." + genName(r) : "");
      kv += (kv.empty() ? "" : ",") + hx(gk) + "=@";
    }
    kv += (kv.empty() ? "" : ",") + hx(g.entries[i].first) + "=" + hx(g.entries[i].second);
  }
  if (r.coin(1, 3) && !g.entries.empty()) {  // numeric values for gi
    kv += "," + hx(g.entries[0].first) + "=" + hx(genScalarText(r, 'i', 32, true));
  }
  if (kv.empty()) kv = "-";
  std::string s = "tq " + kv + " : ";
  long n = r.range(1, 8);
  for (long i = 0; i < n; ++i) {
    static const std::vector<std::string> ops = {"hk", "hs", "gs", "sk", "skf", "gd", "gi", "hk", "gs", "gi"};
    std::string op = r.pick(ops);
    std::string key;
    long k = r.range(0, 5);
    if (k <= 2 && !g.entries.empty()) {
      key = g.entries[r.below(g.entries.size())].first;
      if (r.coin(1, 3)) { auto d = key.rfind('.'); if (d != std::string::npos) key = key.substr(0, d); }   // a group
      if (r.coin(1, 8)) key += "." + genName(r);
    } else {
      key = genName(r);
      if (r.coin(1, 3)) key += "." + genName(r);
      if (r.coin(1, 20)) key += ".";
    }
    s += (i ? ";" : "") + op + " " + hx(key);
    if (op == "gd") s += " " + hx(genValue(r));
    if (op == "gi") s += " " + std::to_string(r.range(-5, 5));
  }
  return s;
}

static std::string gen(Rng& r, long, const Args& a) {
  std::string only = a.gets("only", "");
  long k = r.range(0, 99);
  if (only == "rt" || (only.empty() && k < 34)) return genRt(r, a);
  if (only == "ini" || (only.empty() && k < 44)) return genIni(r, a);
  if (only == "hostile" || (only.empty() && k < 51)) return genHostile(r, a);
  if (only == "bads" || (only.empty() && k < 53)) return genBads(r, a);
  if (only == "opt" || (only.empty() && k < 58)) return genOpt(r, a);
  if (only == "nopt" || (only.empty() && k < 66)) return genNopt(r, a);
  if (only == "get" || (only.empty() && k < 90)) return genGet(r, a);
  if (only == "shw" || (only.empty() && k < 92)) return genShw(r, a);
  return genTq(r, a);
}

int main(int argc, char** argv) {
  for (int i = 1; i + 1 < argc; ++i) {
    if (std::string(argv[i]) == "--out") g_tmp = std::string(argv[i + 1]) + ".scratch";
    if (std::string(argv[i]) == "--tier") g_overloadEvery = std::string(argv[i + 1]) == "thorough" ? 8 : 2;
  }
  return dv::run(argc, argv, gen, exec);
}
