// C18 correspondence harness: dune/common/path.cc + stringutility.hh vs. the Lean model, with an
// independent component-resolver oracle (no std::filesystem, no code shared with path.cc).
//
// op lines (strings are one token: "-" = empty string; [A-Za-z0-9/._] literal; any other byte ~hh, also ~00):
//   u <p>             processPath / prettyPath(p,false) / prettyPath(p,true) / prettyPath(p) / pathIndicatesDirectory
//   b <x> <y>         concatPaths(x,y) / relativePath(x,y) / hasPrefix(x,y.c_str()) / hasSuffix(x,y.c_str())
//                     (the pattern of hasPrefix/hasSuffix is a C string: y up to its first NUL); the oracle also
//                     runs hasPrefix/hasSuffix on std::vector<char>, std::deque<char>, std::list<char>, std::string_view
//   f <fmt> <arg>...  formatString(fmt, args...);  arg = d:<int> | l:<long> | q:<long long> | u:<unsigned> | z:<size_t> |
//                     c:<char code> | w:<wint_t code> | s:<count>:<piece>;  answer = the text or ERR:Exception
//                     (conversion error).  Up to six int / const char* arguments, or up to two of any type.
//   tp <p> <r> / tq <p> <0|1> <r> / tc <base> <p> <r>
//                     one row of the example tables in the documentation of processPath / prettyPath / concatPaths
//                     (written by tools/checks/c18.py from the current path.hh): answer = what the code returns, the
//                     oracle compares it with the documented result <r>
//   F <width>         formatString("%<width>d", 7) for results too long to print: answer ok | ERR:Exception, the text is
//                     checked by the oracle only (width-1 blanks and '7')
//
// generator modes (--mode): u / b = exhaustive enumeration over the alphabet "/.ab" up to --maxlen
// (case i is the i-th string resp. pair), ur / br = random longer paths and related pairs, ul = long random paths,
// uh = paths of 76 000 - 80 000 characters (thorough tier),
// bl = long strings around the formatString buffer size for hasPrefix/hasSuffix, f = format lengths around
// --bufsize (the stack buffer size read from the current stringutility.hh), F = huge widths.
#include <config.h>

#include <algorithm>
#include <climits>
#include <clocale>
#include <cstdio>
#include <cstring>
#include <cwchar>
#include <deque>
#include <list>
#include <string>
#include <string_view>
#include <vector>

#include <dune/common/exceptions.hh>
#include <dune/common/path.hh>
#include <dune/common/stringutility.hh>

#include "hcommon.hh"

using namespace dv;
using std::string;

// ---- token encoding -----------------------------------------------------------------------------
static bool safeChar(unsigned char c) {
  return (c >= 'a' && c <= 'z') || (c >= 'A' && c <= 'Z') || (c >= '0' && c <= '9') || c == '/' || c == '.' || c == '_';
}
static string enc(const string& s) {
  if (s.empty()) return "-";
  static const char* hx = "0123456789abcdef";
  string o;
  for (unsigned char c : s) {
    if (safeChar(c)) o.push_back((char)c);
    else { o.push_back('~'); o.push_back(hx[c >> 4]); o.push_back(hx[c & 15]); }
  }
  return o;
}
static int hexv(char c) {
  if (c >= '0' && c <= '9') return c - '0';
  if (c >= 'a' && c <= 'f') return c - 'a' + 10;
  if (c >= 'A' && c <= 'F') return c - 'A' + 10;
  return -1;
}
static bool dec(const string& t, string& out) {
  out.clear();
  if (t == "-") return true;
  if (t.empty()) return false;
  for (size_t i = 0; i < t.size(); ++i) {
    if (t[i] == '~') {
      if (i + 2 >= t.size()) return false;
      int a = hexv(t[i + 1]), b = hexv(t[i + 2]);
      if (a < 0 || b < 0) return false;
      out.push_back((char)(a * 16 + b));
      i += 2;
    } else if (safeChar((unsigned char)t[i])) out.push_back(t[i]);
    else return false;
  }
  return true;
}

// ---- the independent oracle: locations as (absolute?, levels up, names) ---------------------------
struct Loc {
  bool abs = false;
  long ups = 0;
  std::vector<string> names;
  bool operator==(const Loc& o) const { return abs == o.abs && ups == o.ups && names == o.names; }
};
static std::vector<string> pieces(const string& p) {  // between the slashes; always >= 1 piece
  std::vector<string> v(1);
  for (char c : p) {
    if (c == '/') v.emplace_back();
    else v.back().push_back(c);
  }
  return v;
}
static Loc denote(const string& p) {
  Loc d;
  d.abs = !p.empty() && p[0] == '/';
  for (const string& c : pieces(p)) {
    if (c.empty() || c == ".") continue;
    if (c == "..") {
      if (!d.names.empty()) d.names.pop_back();
      else if (!d.abs) ++d.ups;
    } else d.names.push_back(c);
  }
  return d;
}
static string render(const Loc& d) {
  string s = d.abs ? "/" : "";
  for (long i = 0; i < d.ups; ++i) s += "../";
  for (auto& n : d.names) { s += n; s += "/"; }
  return s;
}
static string showLoc(const Loc& d) { return enc(render(d)); }
// the documented normal form, decided on the characters alone
static string normalFormDefect(const string& r) {
  if (r.empty()) return "";
  if (r.back() != '/') return "component without trailing slash";
  bool abs = r[0] == '/';
  size_t i = abs ? 1 : 0;
  bool namesStarted = false;
  while (i < r.size()) {
    size_t j = r.find('/', i);
    string c = r.substr(i, j - i);
    if (c.empty()) return "empty component";
    if (c == ".") return "component '.'";
    if (c == "..") {
      if (abs) return "'..' in an absolute path";
      if (namesStarted) return "'..' after a name";
    } else namesStarted = true;
    i = j + 1;
  }
  return "";
}
static string expectPretty(const Loc& d, bool isDir) {
  if (d.names.empty() && d.ups == 0) return d.abs ? "/" : ".";
  string body = render(d);
  body.pop_back();
  if (d.names.empty()) return body;  // ends in ".."
  return isDir ? body + "/" : body;
}
static bool expectIsDir(const string& p) {
  const string last = pieces(p).back();
  return last.empty() || last == "." || last == "..";
}
static string expectConcat(const string& base, const string& p) {
  if (p.empty()) return base;
  if (p[0] == '/') return p;
  if (base.empty()) return p;
  if (base.back() == '/') return base + p;
  return base + "/" + p;
}
static bool plainPrefix(const string& c, const string& pre) {
  if (pre.size() > c.size()) return false;
  for (size_t i = 0; i < pre.size(); ++i) if (c[i] != pre[i]) return false;
  return true;
}
static bool plainSuffix(const string& c, const string& suf) {
  if (suf.size() > c.size()) return false;
  for (size_t i = 0; i < suf.size(); ++i) if (c[c.size() - 1 - i] != suf[suf.size() - 1 - i]) return false;
  return true;
}

// ---- executors --------------------------------------------------------------------------------
static void fail(Result& r, const string& msg) {
  if (r.oracle == "ok") r.oracle = "FAIL " + msg;
}

static Result execU(const string& p) {
  Result res;
  stat("op_u");
  stat("u_len_" + std::to_string(std::min<size_t>(p.size(), 12)));
  const string r = Dune::processPath(p);
  const string p0 = Dune::prettyPath(p, false), p1 = Dune::prettyPath(p, true), pa = Dune::prettyPath(p);
  const bool dir = Dune::pathIndicatesDirectory(p);
  res.impl = enc(r) + " " + enc(p0) + " " + enc(p1) + " " + enc(pa) + " " + (dir ? "true" : "false");

  const Loc d = denote(p);
  string nf = normalFormDefect(r);
  if (!nf.empty()) fail(res, "processPath result " + enc(r) + " not in normal form: " + nf);
  const Loc dr = denote(r);
  if (!(dr == d)) fail(res, "processPath result " + enc(r) + " denotes " + showLoc(dr) + ", the input denotes " + showLoc(d));
  if (r != render(d)) fail(res, "processPath result " + enc(r) + " is not the normal form " + showLoc(d) + " of the input");
  const string rr = Dune::processPath(r);
  if (rr != r) fail(res, "processPath not idempotent: " + enc(r) + " -> " + enc(rr));
  if (d.abs && (r.empty() || r[0] != '/' || r.find("/../") != string::npos))
    fail(res, "absolute path escapes the root or loses its root: " + enc(r));
  if (p0 != expectPretty(d, false)) fail(res, "prettyPath(p,false) = " + enc(p0) + ", table says " + enc(expectPretty(d, false)));
  if (p1 != expectPretty(d, true)) fail(res, "prettyPath(p,true) = " + enc(p1) + ", table says " + enc(expectPretty(d, true)));
  const bool edir = expectIsDir(p);
  if (dir != edir) fail(res, string("pathIndicatesDirectory = ") + (dir ? "true" : "false"));
  if (pa != expectPretty(d, edir)) fail(res, "prettyPath(p) = " + enc(pa) + ", expected " + enc(expectPretty(d, edir)));

  // second use: the outputs fed back in (theorems pretty_idempotent, pretty_auto_stable, process_pretty)
  if (Dune::prettyPath(p0, false) != p0 || Dune::prettyPath(p1, true) != p1)
    fail(res, "prettyPath not idempotent: " + enc(p0) + " -> " + enc(Dune::prettyPath(p0, false)) + ", " + enc(p1) + " -> " + enc(Dune::prettyPath(p1, true)));
  if (Dune::prettyPath(p0) != p0 || Dune::prettyPath(p1) != p1 || Dune::prettyPath(pa) != pa)
    fail(res, "prettyPath(q) changes a pretty-printed q: " + enc(p0) + " -> " + enc(Dune::prettyPath(p0)) + ", " + enc(p1) + " -> " + enc(Dune::prettyPath(p1)));
  if (Dune::processPath(p0) != r || Dune::processPath(p1) != r)
    fail(res, "processPath(prettyPath(p)) differs from processPath(p) = " + enc(r));
  {
    string same;
    bool sthrew = false;
    try { same = Dune::relativePath(p, r); } catch (Dune::NotImplemented&) { sthrew = true; }
    if (sthrew || !same.empty()) fail(res, "relativePath(p, processPath(p)) is not the empty path: " + (sthrew ? string("ERR:NotImplemented") : enc(same)));
  }

  if (r != p + "/") stat("u_rewritten");
  if (d.ups > 0) stat("u_leading_ups");
  if (p.find("..") != string::npos && d.ups == 0) stat("u_dotdot_resolved_or_name");
  if (d.abs) stat("u_abs");
  if (r.empty() || r == "/") stat("u_result_trivial_dir");
  return res;
}

static string cstrOf(const string& y) { return string(y.c_str()); }  // what a const char* parameter sees

template <class C>
static void otherContainer(Result& res, const char* what, const C& c, const char* pat, bool expP, bool expS) {
  const bool hp = Dune::hasPrefix(c, pat), hs = Dune::hasSuffix(c, pat);
  if (hp != expP) fail(res, string("hasPrefix on ") + what + " = " + (hp ? "true" : "false"));
  if (hs != expS) fail(res, string("hasSuffix on ") + what + " = " + (hs ? "true" : "false"));
}

static Result execB(const string& x, const string& y) {
  Result res;
  stat("op_b");
  const string c = Dune::concatPaths(x, y);
  string rel;
  bool threw = false;
  try {
    rel = Dune::relativePath(x, y);
  } catch (Dune::NotImplemented&) {
    threw = true;
  }
  const bool hp = Dune::hasPrefix(x, y.c_str()), hs = Dune::hasSuffix(x, y.c_str());
  res.impl = enc(c) + " " + (threw ? string("ERR:NotImplemented") : enc(rel)) + " " + (hp ? "true" : "false") + " " +
             (hs ? "true" : "false");

  if (c != expectConcat(x, y)) fail(res, "concatPaths = " + enc(c) + ", table says " + enc(expectConcat(x, y)));
  // a two-step history: joining three paths gives the same text whichever pair is joined first (theorem concat_assoc)
  for (const string* z : {&x, &y, &c}) {
    const string l = Dune::concatPaths(c, *z), rr = Dune::concatPaths(x, Dune::concatPaths(y, *z));
    if (l != rr) fail(res, "concatPaths not associative with third operand " + enc(*z) + ": " + enc(l) + " vs " + enc(rr));
  }
  const string pat = cstrOf(y);
  const bool ep = plainPrefix(x, pat), es = plainSuffix(x, pat);
  if (hp != ep) fail(res, string("hasPrefix = ") + (hp ? "true" : "false"));
  if (hs != es) fail(res, string("hasSuffix = ") + (hs ? "true" : "false"));
  // the templates are documented for any character container with begin()/size()/const_iterator
  otherContainer(res, "std::vector<char>", std::vector<char>(x.begin(), x.end()), y.c_str(), ep, es);
  otherContainer(res, "std::deque<char>", std::deque<char>(x.begin(), x.end()), y.c_str(), ep, es);
  otherContainer(res, "std::list<char>", std::list<char>(x.begin(), x.end()), y.c_str(), ep, es);
  otherContainer(res, "std::string_view", std::string_view(x), y.c_str(), ep, es);
  if (pat.size() != y.size()) stat("b_pattern_truncated_at_nul");
  if (x.find('\0') != string::npos) stat("b_container_with_nul");
  const Loc dx = denote(x), dy = denote(y);
  const bool mustThrow = dx.abs != dy.abs || dx.ups > dy.ups;
  if (threw) {
    stat("rel_err");
    stat(dx.abs != dy.abs ? "rel_err_mixed" : "rel_err_too_many_ups");
    if (!mustThrow) fail(res, "relativePath reports no relative path although one exists");
  } else {
    stat("rel_ok");
    if (mustThrow) fail(res, "relativePath = " + enc(rel) + " although the documented precondition fails");
    // the round trip, with the oracle's concatenation and with the real one
    const Loc back = denote(expectConcat(x, rel)), back2 = denote(Dune::concatPaths(x, rel));
    if (!(back == dy) || !(back2 == dy))
      fail(res, "relativePath = " + enc(rel) + ": base+result denotes " + showLoc(back) + ", target denotes " + showLoc(dy));
    if (!rel.empty() && rel[0] == '/') fail(res, "relativePath result is absolute: " + enc(rel));
    string nf = normalFormDefect(rel);
    if (!nf.empty()) fail(res, "relativePath result " + enc(rel) + " not sanitized: " + nf);
    // the exact documented result: drop the longest common list of leading components (a leading ".." counts as a
    // component), one "../" per remaining base component, then the remaining target components
    {
      std::vector<string> B((size_t)dx.ups, ".."), P((size_t)dy.ups, "..");
      B.insert(B.end(), dx.names.begin(), dx.names.end());
      P.insert(P.end(), dy.names.begin(), dy.names.end());
      size_t k = 0;
      while (k < B.size() && k < P.size() && B[k] == P[k]) ++k;
      string expect;
      for (size_t i = k; i < B.size(); ++i) expect += "../";
      for (size_t i = k; i < P.size(); ++i) expect += P[i] + "/";
      if (rel != expect) fail(res, "relativePath = " + enc(rel) + ", the shortest relative path is " + enc(expect));
      if (k > 0) stat("rel_common_components");
      if (k < B.size() && k < P.size() && (plainPrefix(B[k], P[k]) || plainPrefix(P[k], B[k]))) stat("rel_component_is_prefix_of_other");
    }
    // string-level round trip (theorem relative_roundtrip_sanitized)
    if (Dune::processPath(Dune::concatPaths(x, rel)) != Dune::processPath(y))
      fail(res, "processPath(concatPaths(base, relativePath(base,p))) = " + enc(Dune::processPath(Dune::concatPaths(x, rel))) + " differs from processPath(p)");
    if (rel.find("../") == 0) stat("rel_goes_up");
    if (rel.empty()) stat("rel_empty");
  }
  stat(hp ? "hasPrefix_true" : "hasPrefix_false");
  stat(hs ? "hasSuffix_true" : "hasSuffix_false");
  if (x.size() >= 990) stat("b_long");
  return res;
}

// ---- formatString ---------------------------------------------------------------------------
struct FArg {
  char kind = 'd';  // d int, l long, q long long, u unsigned, z size_t, c char, w wint_t, s const char*
  long long i = 0;
  unsigned long long z = 0;
  string s;
};
// up to six int / const char* arguments
template <class... A>
static string callFmt(const string& f, const std::vector<FArg>& a, size_t k, const A&... done) {
  if (k == a.size()) return Dune::formatString(f, done...);
  if constexpr (sizeof...(A) < 6) {
    if (a[k].kind == 'd') return callFmt(f, a, k + 1, done..., (int)a[k].i);
    if (a[k].kind == 's') return callFmt(f, a, k + 1, done..., a[k].s.c_str());
  }
  throw std::runtime_error("argument list outside the harness's dispatch table");
}
// up to two arguments of any modelled type
template <class... A>
static string callFmt2(const string& f, const std::vector<FArg>& a, size_t k, const A&... done) {
  if (k == a.size()) return Dune::formatString(f, done...);
  if constexpr (sizeof...(A) < 2) {
    switch (a[k].kind) {
      case 'd': return callFmt2(f, a, k + 1, done..., (int)a[k].i);
      case 'l': return callFmt2(f, a, k + 1, done..., (long)a[k].i);
      case 'q': return callFmt2(f, a, k + 1, done..., (long long)a[k].i);
      case 'z': return callFmt2(f, a, k + 1, done..., (std::size_t)a[k].z);
      case 'u': return callFmt2(f, a, k + 1, done..., (unsigned)a[k].i);
      case 'c': return callFmt2(f, a, k + 1, done..., (char)a[k].i);
      case 'w': return callFmt2(f, a, k + 1, done..., (wint_t)a[k].i);
      case 's': return callFmt2(f, a, k + 1, done..., a[k].s.c_str());
    }
  }
  throw std::runtime_error("argument list outside the harness's dispatch table");
}
enum IdealKind { TEXT, CONVERROR, OUTSIDE };
// the printf subset, written out by hand:
//   %%  %[-][+][0][width|*]{d,ld,lld}  %[-][0][width|*]{u,zu,x,X,o}  %[-][width|*][.prec]s  %[-][width|*]{c,lc}
static IdealKind idealFormat(const string& f, const std::vector<FArg>& a, string& out) {
  out.clear();
  size_t k = 0;
  bool convError = false;
  for (size_t i = 0; i < f.size(); ++i) {
    if (f[i] != '%') { out.push_back(f[i]); continue; }
    ++i;
    if (i < f.size() && f[i] == '%') { out.push_back('%'); continue; }
    bool left = false, zero = false, plus = false, hasPrec = false;
    if (i < f.size() && f[i] == '-') { left = true; ++i; }
    if (i < f.size() && f[i] == '+') { plus = true; ++i; }
    if (i < f.size() && f[i] == '0') { zero = true; ++i; }
    size_t w = 0, prec = 0;
    if (i < f.size() && f[i] == '*') {  // the width is the next argument, an int; negative = '-' flag and |width|
      if (k >= a.size() || a[k].kind != 'd') return OUTSIDE;
      long long v = a[k].i;
      if (v < 0) { left = true; v = -v; }
      w = (size_t)v;
      ++k;
      ++i;
      stat("f_star_width");
    } else
      while (i < f.size() && f[i] >= '0' && f[i] <= '9') { w = w * 10 + (size_t)(f[i] - '0'); ++i; }
    if (i < f.size() && f[i] == '.') {
      hasPrec = true;
      ++i;
      while (i < f.size() && f[i] >= '0' && f[i] <= '9') { prec = prec * 10 + (size_t)(f[i] - '0'); ++i; }
    }
    if (i >= f.size() || k >= a.size()) return OUTSIDE;
    string body, sign;
    auto radix = [&](unsigned long long v, unsigned base, const char* digits) {
      if (v == 0) body = "0";
      while (v > 0) { body.insert(body.begin(), digits[v % base]); v /= base; }
    };
    auto rest = [&](const char* t) { return f.compare(i, std::strlen(t), t) == 0; };
    const char kind = a[k].kind;
    bool isSigned = false, isUnsigned = false;
    if ((rest("d") && kind == 'd') || (rest("ld") && kind == 'l') || (rest("lld") && kind == 'q')) {
      i += kind == 'd' ? 0 : kind == 'l' ? 1 : 2;
      isSigned = true;
      long long v = a[k].i;
      if (v < 0) { sign = "-"; radix(0ull - (unsigned long long)v, 10, "0123456789"); }
      else { if (plus) sign = "+"; radix((unsigned long long)v, 10, "0123456789"); }
    } else if (rest("u") && kind == 'u') {
      isUnsigned = true;
      radix((unsigned long long)a[k].i, 10, "0123456789");
    } else if (rest("zu") && kind == 'z') {
      ++i;
      isUnsigned = true;
      radix(a[k].z, 10, "0123456789");
    } else if (rest("x") && kind == 'u') {
      isUnsigned = true;
      radix((unsigned long long)a[k].i, 16, "0123456789abcdef");
    } else if (rest("X") && kind == 'u') {
      isUnsigned = true;
      radix((unsigned long long)a[k].i, 16, "0123456789ABCDEF");
    } else if (rest("o") && kind == 'u') {
      isUnsigned = true;
      radix((unsigned long long)a[k].i, 8, "01234567");
    } else if (rest("s") && kind == 's' && !zero && !plus) {
      body = hasPrec ? a[k].s.substr(0, prec) : a[k].s;
      if (hasPrec) stat(prec < a[k].s.size() ? "f_precision_truncates" : "f_precision_idle");
    } else if (rest("c") && kind == 'c' && !zero && !plus && !hasPrec && a[k].i >= 1 && a[k].i <= 255) {
      body = string(1, (char)a[k].i);
    } else if (rest("lc") && kind == 'w' && !zero && !plus && !hasPrec && a[k].i >= 1) {
      ++i;
      if (a[k].i >= 128) convError = true;  // the classic locale cannot encode it: snprintf returns -1 (EILSEQ)
      else body = string(1, (char)a[k].i);
    } else return OUTSIDE;
    if ((isSigned || isUnsigned) && hasPrec) return OUTSIDE;
    if (isUnsigned && plus) return OUTSIDE;
    ++k;
    if (left) zero = false;
    size_t len = body.size() + sign.size();
    if (len >= w) out += sign + body;
    else if (left) out += sign + body + string(w - len, ' ');
    else if (zero) out += sign + string(w - len, '0') + body;
    else out += string(w - len, ' ') + sign + body;
  }
  if (k != a.size()) return OUTSIDE;
  return convError ? CONVERROR : TEXT;
}

static long g_bufsize = 1000;  // --bufsize: the stack buffer size of formatString in the tree under test

static Result execF(const std::vector<string>& w) {
  Result res;
  stat("op_f");
  string fmt;
  if (!dec(w[1], fmt) || fmt.find('\0') != string::npos) return Result{"bad-op", "FAIL malformed format token"};
  std::vector<FArg> args;
  bool onlyDS = true;
  for (size_t i = 2; i < w.size(); ++i) {
    auto parts = split(w[i], ':');
    FArg a;
    if (parts.size() == 2 && parts[0] == "z") {
      if (parts[1].empty() || parts[1].size() > 20 || parts[1].find_first_not_of("0123456789") != string::npos) return Result{"bad-op", "FAIL malformed size_t argument"};
      if (parts[1].size() == 20 && parts[1] > "18446744073709551615") return Result{"bad-op", "FAIL size_t argument out of range"};
      a.kind = 'z';
      a.z = std::stoull(parts[1]);
      onlyDS = false;
    } else if (parts.size() == 2 && parts[0].size() == 1 && string("dlqucw").find(parts[0][0]) != string::npos) {
      a.kind = parts[0][0];
      a.i = std::stoll(parts[1]);
      if (a.kind == 'd' && (a.i < INT_MIN || a.i > INT_MAX)) return Result{"bad-op", "FAIL int argument out of range"};
      if ((a.kind == 'u' || a.kind == 'w') && (a.i < 0 || a.i > 0xffffffffll)) return Result{"bad-op", "FAIL unsigned argument out of range"};
      if (a.kind == 'c' && (a.i < 1 || a.i > 255)) return Result{"bad-op", "FAIL char argument out of range"};
      if (a.kind != 'd') onlyDS = false;
    } else if (parts.size() == 3 && parts[0] == "s") {
      string piece;
      if (!dec(parts[2], piece) || piece.find('\0') != string::npos) return Result{"bad-op", "FAIL malformed string argument"};
      long n = std::stol(parts[1]);
      if (n < 0 || n > 10000000) return Result{"bad-op", "FAIL repeat count"};
      a.kind = 's';
      for (long j = 0; j < n; ++j) a.s += piece;
    } else return Result{"bad-op", "FAIL malformed argument"};
    stat(string("f_arg_") + a.kind);
    args.push_back(a);
  }
  if ((onlyDS && args.size() > 6) || (!onlyDS && args.size() > 2)) return Result{"bad-op", "FAIL too many arguments"};
  stat("f_nargs_" + std::to_string(args.size()));
  string ideal;
  const IdealKind kind = idealFormat(fmt, args, ideal);
  if (kind == OUTSIDE) return Result{"bad-op", "FAIL format outside the modelled subset"};
  string got;
  bool threw = false;
  try {
    got = onlyDS ? callFmt(fmt, args, 0) : callFmt2(fmt, args, 0);
  } catch (Dune::Exception&) {
    threw = true;
  }
  if (kind == CONVERROR) {
    stat("f_conversion_error");
    res.impl = threw ? "ERR:Exception" : enc(got);
    if (!threw) fail(res, "formatString returned " + enc(got) + " although snprintf cannot convert the arguments");
    return res;
  }
  if (threw) {
    res.impl = "ERR:Exception";
    res.oracle = "FAIL formatString threw for ideal length " + std::to_string(ideal.size());
    return res;
  }
  res.impl = enc(got);
  if (got != ideal) {
    size_t k = 0;
    while (k < got.size() && k < ideal.size() && got[k] == ideal[k]) ++k;
    fail(res, "formatString result of length " + std::to_string(got.size()) + " differs from the ideal text of length " +
                  std::to_string(ideal.size()) + " at offset " + std::to_string(k));
  }
  const long L = (long)ideal.size(), N = g_bufsize;
  stat(L < N - 1 ? "f_len_lt_cap-1" : L == N - 1 ? "f_len_eq_cap-1" : L == N ? "f_len_eq_cap" : L == N + 1 ? "f_len_eq_cap+1" : "f_len_gt_cap+1");
  return res;
}

// results too long to print: formatString("%<width>d", 7)
static Result execBig(const string& wtok) {
  Result res;
  stat("op_F");
  if (wtok.empty() || wtok.size() > 18 || wtok.find_first_not_of("0123456789") != string::npos) return Result{"bad-op", "FAIL malformed width"};
  const long long w = std::stoll(wtok);
  if (w < 1) return Result{"bad-op", "FAIL width must be positive"};
  const string fmt = "%" + wtok + "d";
  string got;
  bool threw = false;
  try {
    got = Dune::formatString(fmt, 7);
  } catch (Dune::Exception&) {
    threw = true;
  }
  res.impl = threw ? "ERR:Exception" : "ok";
  if (w > (long long)INT_MAX) {
    stat("F_beyond_int_max");
    if (!threw) fail(res, "formatString returned a text of length " + std::to_string(got.size()) + " for a width that does not fit in int");
    return res;
  }
  stat(w == (long long)INT_MAX ? "F_eq_int_max" : w >= (1ll << 30) ? "F_ge_2^30" : "F_large");
  if (threw) { fail(res, "formatString threw for the representable result length " + wtok); return res; }
  bool good = (long long)got.size() == w && got.back() == '7';
  if (good) {
    const size_t nb = got.find_first_not_of(' ');
    good = nb == got.size() - 1;
  }
  if (!good) fail(res, "formatString result of length " + std::to_string(got.size()) + " is not " + std::to_string(w - 1) + " blanks and '7'");
  return res;
}

Result exec(const string& line) {
  auto w = words(line);
  if (w.empty()) return Result{"bad-op", "FAIL empty line"};
  if (w[0] == "u" && w.size() == 2) {
    string p;
    if (!dec(w[1], p)) return Result{"bad-op", "FAIL malformed string token"};
    return execU(p);
  }
  if (w[0] == "b" && w.size() == 3) {
    string x, y;
    if (!dec(w[1], x) || !dec(w[2], y)) return Result{"bad-op", "FAIL malformed string token"};
    return execB(x, y);
  }
  if ((w[0] == "tp" && w.size() == 3) || (w[0] == "tq" && w.size() == 4) || (w[0] == "tc" && w.size() == 4)) {
    std::vector<string> v;
    for (size_t i = 1; i < w.size(); ++i) {
      string t;
      if (w[0] == "tq" && i == 2) {
        if (w[i] != "0" && w[i] != "1") return Result{"bad-op", "FAIL malformed isDirectory"};
        t = w[i];
      } else if (!dec(w[i], t)) return Result{"bad-op", "FAIL malformed string token"};
      v.push_back(t);
    }
    stat("op_doc_row");
    const string got = w[0] == "tp" ? Dune::processPath(v[0]) : w[0] == "tq" ? Dune::prettyPath(v[0], v[1] == "1") : Dune::concatPaths(v[0], v[1]);
    Result res;
    res.impl = enc(got);
    if (got != v.back())
      fail(res, string(w[0] == "tp" ? "processPath" : w[0] == "tq" ? "prettyPath" : "concatPaths") + " returns " + enc(got) +
                    ", the table in the documentation (path.hh) says " + enc(v.back()));
    return res;
  }
  if (w[0] == "f" && w.size() >= 2) return execF(w);
  if (w[0] == "F" && w.size() == 2) return execBig(w[1]);
  return Result{"bad-op", "FAIL harness does not know op"};
}

// ---- generators -------------------------------------------------------------------------------
static const char ALPHA[] = {'/', '.', 'a', 'b'};
static long countUpTo(int L) {  // number of strings of length <= L over 4 letters
  long n = 0, p = 1;
  for (int l = 0; l <= L; ++l) { n += p; p *= 4; }
  return n;
}
static string unrank(long i) {  // i-th string in length-then-lexicographic order
  int len = 0;
  long p = 1;
  while (i >= p) { i -= p; p *= 4; ++len; }
  string s((size_t)len, '/');
  for (int k = len - 1; k >= 0; --k) { s[(size_t)k] = ALPHA[i & 3]; i >>= 2; }
  return s;
}

static const std::vector<string> COMP = {"", "", ".", ".", "..", "..", "..", "a", "b", "ab", "a", "...", ".a", "a.", "..a",
                                         "a..", "c d", "x-y", "~", "%s", "a;b", ".. ", "\\", "\xc3\xa9", "\xff", "..\xff",
                                         string("a\0b", 3), string("\0", 1), string("..\0", 3), "lib", "lib64", "a", "..", "A", "Ab", "aB", "LIB"};
static string randomPath(Rng& r) {
  if (r.coin(1, 4)) {  // unstructured over the small alphabet, '/' and '.' heavy
    size_t n = (size_t)r.range(9, 28);
    string s;
    for (size_t i = 0; i < n; ++i) s.push_back("//..ab/."[r.below(8)]);
    return s;
  }
  int n = (int)r.range(0, 12);
  string s = r.coin(1, 3) ? "/" : "";
  for (int i = 0; i < n; ++i) {
    s += r.pick(COMP);
    if (i + 1 < n || r.coin()) s += r.coin(1, 8) ? "//" : "/";
  }
  return s;
}
static string longPath(Rng& r) {  // hundreds of components, deep "../" runs, long names
  const size_t target = (size_t)(r.coin(1, 4) ? r.range(2900, 3100) : r.range(200, 2500));
  string s = r.coin(1, 3) ? "/" : "";
  while (s.size() < target) {
    switch (r.below(8)) {
      case 0: s += string((size_t)r.range(1, 300), "ab."[r.below(3)]); break;  // one long component (also "....")
      case 1: for (long k = r.range(1, 40); k > 0; --k) s += "../"; continue;
      case 2: for (long k = r.range(1, 40); k > 0; --k) s += r.coin() ? "a/" : "bb/"; continue;
      case 3: s += string((size_t)r.range(1, 50), '/'); continue;
      case 4: for (long k = r.range(1, 30); k > 0; --k) s += "./"; continue;
      default: s += r.pick(COMP); break;
    }
    s += "/";
  }
  return s;
}
static string hugePath(Rng& r) {  // longer than any 16-bit index: 76 000 - 80 000 characters
  const size_t target = (size_t)r.range(76000, 80000);  // still > 65536 after the "//" and "/./" are gone (about 10 %)
  string s = r.coin(1, 3) ? "/" : "";
  static const std::vector<string> C = {"a/", "../", "./", "//", "bb/", "a.b/", ".../", "a/", "lib/", "a/", "../", "./", "b/", "bb/", "a.b/", ".../", "a/", "lib/"};
  while (s.size() < target) s += r.pick(C);
  return s;
}
static string longString(Rng& r, size_t n) {
  string s;
  for (size_t i = 0; i < n; ++i) s.push_back("ab/.ab"[r.below(6)]);
  return s;
}

// lengths the generator visits one by one before it goes random: every length up to min(2*cap+100, 4200), and the
// neighbourhoods of cap and 2*cap
static std::vector<long> sweepLengths(long N) {
  std::vector<long> v;
  const long top = std::min<long>(2 * N + 100, 4200);
  for (long t = 0; t <= top; ++t) v.push_back(t);
  for (long c : {N, 2 * N})
    for (long t = c - 8; t <= c + 8; ++t)
      if (t > top && t >= 0) v.push_back(t);
  return v;
}

static string genFormat(Rng& r, long i) {
  const long N = g_bufsize;
  static const std::vector<long> sweep = sweepLengths(N);
  // target length of the result
  long T = i < (long)sweep.size() ? sweep[(size_t)i] : (r.coin(3, 4) ? r.range(std::max<long>(0, N - 6), N + 6) : r.range(std::max<long>(0, 2 * N - 10), 2 * N + 10));
  std::ostringstream os;
  os << "f ";
  auto W = [](long t) { return t > 0 ? std::to_string(t) : string(); };  // a width of 0 would read as the '0' flag
  auto strArg = [&](long len) {
    std::ostringstream a;
    static const std::vector<string> P = {"a", "ab", "a/b", "x y", "%d", "-", "\xc3\xa9", "\xff"};
    string piece = r.pick(P);
    if (len % (long)piece.size() != 0) piece = "z";
    a << "s:" << len / (long)piece.size() << ":" << enc(piece);
    return a.str();
  };
  switch (r.below(19)) {
    case 0: os << enc("%s") << " " << strArg(T); break;
    case 1: {
      long v = r.coin() ? r.range(-99999, 99999) : r.range(-9, 9);
      string pre = "x=", num = std::to_string(v);
      long rest = T - (long)pre.size() - (long)num.size() - 1;
      if (rest < 0) rest = 0;
      os << enc(pre + "%d;%s") << " d:" << v << " " << strArg(rest);
      break;
    }
    case 2: {
      long v = r.coin(1, 8) ? (r.coin() ? INT_MIN : INT_MAX) : r.range(-1000, 1000);
      string flags = r.coin(1, 3) ? "-" : r.coin() ? "0" : r.coin(1, 4) ? "-0" : "";
      os << enc("%" + flags + W(T) + "d") << " d:" << v;
      break;
    }
    case 3: {
      long k = T > 0 ? r.range(0, T) : 0;
      os << enc("%s%s") << " " << strArg(k) << " " << strArg(T - k);
      break;
    }
    case 4: {
      long k = r.range(0, 5);
      os << enc(string("%") + (r.coin() ? "-" : "") + W(T) + "s") << " " << strArg(k);
      break;
    }
    case 5: {  // literal text only, with some %%
      string f;
      while ((long)f.size() - (long)std::count(f.begin(), f.end(), '%') / 2 < T) {
        if (r.coin(1, 10)) f += "%%";
        else f.push_back("ab c/"[r.below(5)]);
      }
      os << enc(f);
      break;
    }
    case 6: {
      long k = T / 3;
      os << enc("%s|%5d|%s|%-3d") << " " << strArg(k) << " d:" << r.range(-5, 5000) << " " << strArg(T > 2 * k + 12 ? T - k - 12 : 0)
         << " d:" << r.range(0, 99);
      break;
    }
    case 7: {  // long: values beyond the int range
      long long v = r.coin(1, 4) ? (r.coin() ? LLONG_MIN : LLONG_MAX) : (long long)r.range(-4000000000000l, 4000000000000l);
      string num = std::to_string(v);
      if (r.coin()) os << enc("%" + string(r.coin() ? "0" : "") + W(T) + "ld") << " l:" << v;
      else os << enc("%ld%s") << " l:" << v << " " << strArg(std::max<long>(0, T - (long)num.size()));
      break;
    }
    case 8: {  // unsigned, decimal and hexadecimal
      unsigned long v = r.coin(1, 4) ? 4294967295ul : (unsigned long)r.range(0, r.coin() ? 300 : 4294967295l);
      const char* conv = r.coin() ? "u" : "x";
      if (r.coin()) os << enc("%" + string(r.coin(1, 3) ? "-" : r.coin() ? "0" : "") + W(T) + conv) << " u:" << v;
      else os << enc(string("%s%") + conv) << " " << strArg(std::max<long>(0, T - 8)) << " u:" << v;
      break;
    }
    case 9: {  // a single char
      long c = r.coin(1, 3) ? r.range(128, 255) : r.range(33, 126);
      if (r.coin()) os << enc("%" + string(r.coin() ? "-" : "") + W(T) + "c") << " c:" << c;
      else os << enc("%s%c") << " " << strArg(std::max<long>(0, T - 1)) << " c:" << c;
      break;
    }
    case 10: {  // a wide char: codes >= 128 cannot be converted in the classic locale -> snprintf fails -> exception
      long c = r.coin(1, 3) ? r.pick(std::vector<long>{128, 233, 255, 256, 8364, 0x10ffff, 0xd800}) : r.range(1, 127);
      if (r.coin()) os << enc("%" + W(T) + "lc") << " w:" << c;
      else os << enc("%s%lc") << " " << strArg(std::max<long>(0, T - 1)) << " w:" << c;
      break;
    }
    case 11: {  // `*`: the width is an argument (negative = left-justified)
      long v = r.range(-1000, 1000);
      const bool neg = r.coin(1, 3) && T > 0;
      string flags = neg ? "" : r.coin(1, 3) ? "-" : r.coin(1, 3) ? "0" : r.coin(1, 3) ? "+" : "";
      if (r.coin(2, 3)) os << enc("%" + flags + "*d") << " d:" << (neg ? -T : T) << " d:" << v;
      else {
        long k = T > 0 ? r.range(0, T) : 0;
        os << enc("%s%" + flags + "*d") << " " << strArg(k) << " d:" << (neg ? -(T - k) : T - k) << " d:" << v;
      }
      break;
    }
    case 12: {  // `*` with a string, and two stars
      if (r.coin()) os << enc(string("%") + (r.coin(1, 3) ? "-" : "") + "*s") << " d:" << (r.coin(1, 4) ? -T : T) << " " << strArg(r.range(0, 5));
      else {
        long k = T > 0 ? r.range(0, T) : 0;
        os << enc("%*d%*s") << " d:" << (r.coin(1, 4) ? -k : k) << " d:" << r.range(-9, 9) << " d:" << (T - k) << " " << strArg(r.range(0, 3));
      }
      break;
    }
    case 13: {  // precision: the string argument is longer than what is printed
      long extra = r.coin(1, 4) ? 0 : r.range(1, 40);
      if (r.coin()) os << enc("%." + std::to_string(T) + "s") << " " << strArg(T + extra);
      else {
        long k = T > 0 ? r.range(0, T) : 0;  // printed part k, padded to T
        os << enc(string("%") + (r.coin() ? "-" : "") + W(T) + "." + std::to_string(k) + "s") << " " << strArg(k + extra);
      }
      break;
    }
    case 14: {  // the '+' flag
      long v = r.coin(1, 6) ? 0 : r.coin(1, 6) ? (r.coin() ? INT_MIN : INT_MAX) : r.range(-1000, 1000);
      string flags = r.coin(1, 3) ? "-+" : r.coin() ? "+0" : "+";
      if (r.coin()) os << enc("%" + flags + W(T) + "d") << " d:" << v;
      else os << enc("%+ld%s") << " l:" << v << " " << strArg(std::max<long>(0, T - (long)std::to_string(v).size() - (v >= 0 ? 1 : 0)));
      break;
    }
    case 15: {  // long long and size_t
      if (r.coin()) {
        long long v = r.coin(1, 4) ? (r.coin() ? LLONG_MIN : LLONG_MAX) : (long long)r.range(-4000000000000l, 4000000000000l);
        if (r.coin()) os << enc("%" + string(r.coin() ? "0" : r.coin() ? "-" : "") + W(T) + "lld") << " q:" << v;
        else os << enc("%s%lld") << " " << strArg(std::max<long>(0, T - (long)std::to_string(v).size())) << " q:" << v;
      } else {
        unsigned long long v = r.coin(1, 4) ? ULLONG_MAX : r.coin() ? (unsigned long long)r.range(0, 5000) : (unsigned long long)r.range(0, 4000000000000000000l) * 4ull + r.below(4);
        if (r.coin()) os << enc("%" + string(r.coin() ? "0" : r.coin() ? "-" : "") + W(T) + "zu") << " z:" << v;
        else os << enc("%zu%s") << " z:" << v << " " << strArg(std::max<long>(0, T - (long)std::to_string(v).size()));
      }
      break;
    }
    case 16: {  // upper-case hexadecimal and octal
      unsigned long v = r.coin(1, 4) ? 4294967295ul : (unsigned long)r.range(0, r.coin() ? 300 : 4294967295l);
      const char* conv = r.coin() ? "X" : "o";
      if (r.coin()) os << enc("%" + string(r.coin(1, 3) ? "-" : r.coin() ? "0" : "") + W(T) + conv) << " u:" << v;
      else os << enc(string("%s%") + conv) << " " << strArg(std::max<long>(0, T - 11)) << " u:" << v;
      break;
    }
    case 17: {  // five and six arguments
      long k = T / 4;
      if (r.coin()) os << enc("%s%d%s%d%s") << " " << strArg(k) << " d:" << r.range(-99, 99) << " " << strArg(k) << " d:" << r.range(0, 9) << " " << strArg(std::max<long>(0, T - 2 * k - 4));
      else os << enc("%d%s%d%s%d%s") << " d:" << r.range(0, 9) << " " << strArg(k) << " d:" << r.range(-9, 9) << " " << strArg(k) << " d:" << r.range(10, 99) << " " << strArg(std::max<long>(0, T - 2 * k - 5));
      break;
    }
    default: {  // conversion error behind a text that already fills the stack buffer
      os << enc("%s%lc") << " " << strArg(T) << " w:" << r.pick(std::vector<long>{128, 255, 8364});
      break;
    }
  }
  return os.str();
}

std::string gen(Rng& r, long i, const Args& a) {
  const string mode = a.gets("mode", "ur");
  g_bufsize = a.get("bufsize", 1000);
  if (i == 0 && a.get("trfallbacks", -1) >= 0) {
    stat("translator_fallbacks", a.get("trfallbacks", 0));
    stat("translator_items", a.get("tritems", 0));
  }
  const int L = (int)a.get("maxlen", 4);
  const long first = a.get("first", 0);
  if (mode == "u") return "u " + enc(unrank(first + i));
  if (mode == "b") {
    long N = countUpTo(L);
    long k = first + i;
    return "b " + enc(unrank(k / N)) + " " + enc(unrank(k % N));
  }
  if (mode == "ur") return "u " + enc(randomPath(r));
  if (mode == "ul") return "u " + enc(longPath(r));
  if (mode == "uh") { stat("u_huge"); return "u " + enc(hugePath(r)); }
  if (mode == "F") {
    // widths beyond what int can hold must throw; --big 1 adds the boundary INT_MAX-1, INT_MAX (2 GiB results)
    static const std::vector<string> W = {"2147483648", "2147483649", "4294967296", "4294967303", "99999999999", "3000000", "70000"};
    static const std::vector<string> WB = {"2147483647", "2147483646"};
    const bool big = a.get("big", 0) != 0;
    const size_t n = W.size() + (big ? WB.size() : 0);
    const size_t k = (size_t)i % n;
    return "F " + (k < W.size() ? W[k] : WB[k - W.size()]);
  }
  if (mode == "br") {
    string x = r.coin(1, 40) ? longPath(r) : randomPath(r), y;
    if (x.size() > 150) stat("br_long_pair");
    switch (r.below(7)) {
      case 6: {  // the same text with the case of one letter changed
        y = x;
        for (int tries = 0; tries < 8 && !y.empty(); ++tries) {
          size_t k = (size_t)r.below(y.size());
          if ((y[k] >= 'a' && y[k] <= 'z') || (y[k] >= 'A' && y[k] <= 'Z')) { y[k] ^= 0x20; break; }
        }
        break;
      }
      case 0: y = randomPath(r); break;
      case 1: y = x + "/" + randomPath(r); break;
      case 2: {  // shares some leading components
        auto pc = pieces(x);
        size_t k = (size_t)r.below(pc.size() + 1);
        y = join(pc.begin(), pc.begin() + (long)k, "/");
        string t = randomPath(r);
        if (!t.empty() && t[0] == '/') t = t.substr(1);
        y += "/" + t;
        break;
      }
      case 3: y = x; break;
      case 4: y = x.substr(0, (size_t)r.below(x.size() + 1)); break;
      default: y = x.substr((size_t)r.below(x.size() + 1)); break;
    }
    // mostly both absolute or both relative
    if (r.coin(3, 4) && !x.empty() && x[0] == '/' && (y.empty() || y[0] != '/')) y = "/" + y;
    if (r.coin()) std::swap(x, y);
    return "b " + enc(x) + " " + enc(y);
  }
  if (mode == "bl") {
    const long N = g_bufsize;
    const std::vector<long> LEN = {0, 1, 2, 3, std::max<long>(0, N - 2), std::max<long>(0, N - 1), N, N + 1, N + 2, 2 * N, 4100, 5000};
    string x = longString(r, (size_t)r.pick(LEN)), y;
    size_t k = (size_t)r.below(x.size() + 1);
    if (r.coin(1, 3)) k = r.coin() ? x.size() - std::min<size_t>(x.size(), r.below(3)) : std::min<size_t>(x.size(), r.below(3));
    switch (r.below(10)) {
      case 8: case 9: {  // prefix / suffix with the case of one letter changed
        y = r.coin() ? x.substr(0, k) : x.substr(k);
        for (int tries = 0; tries < 8 && !y.empty(); ++tries) {
          size_t j = (size_t)r.below(y.size());
          if (y[j] >= 'a' && y[j] <= 'z') { y[j] ^= 0x20; stat("bl_case_flipped"); break; }
        }
        break;
      }
      case 0: y = x.substr(0, k); break;
      case 1: y = x.substr(k); break;
      case 2: y = x.substr(0, k); if (!y.empty()) y[r.below(y.size())] ^= 1; break;
      case 3: y = x.substr(k); if (!y.empty()) y[r.below(y.size())] ^= 1; break;
      case 4: y = x + "a"; break;
      case 5: y = "a" + x; break;
      case 6: y = x; break;
      default: y = x.substr(0, k); if (!y.empty()) y.back() ^= 3; break;
    }
    for (auto& c : y) if (c == 0) c = 'q';
    if (r.coin(1, 8) && !y.empty()) y[r.below(y.size())] = '\0';  // the C-string pattern ends here
    if (r.coin(1, 10) && !x.empty()) x[r.below(x.size())] = '\0';  // NUL inside the container
    return "b " + enc(x) + " " + enc(y);
  }
  if (mode == "f") return genFormat(r, first + i);
  return "bad-mode";
}

int main(int argc, char** argv) { return dv::run(argc, argv, gen, exec); }
