
#ifndef DUNE_COMMON_CONFIG_HH
#define DUNE_COMMON_CONFIG_HH

/* Define to 1 if you have module dune-common available */
#ifndef HAVE_DUNE_COMMON
#define HAVE_DUNE_COMMON 1
#endif



/* Define to the version of dune-common */
#define DUNE_COMMON_VERSION "2.11-git"

/* Define to the major version of dune-common */
#define DUNE_COMMON_VERSION_MAJOR 2

/* Define to the minor version of dune-common */
#define DUNE_COMMON_VERSION_MINOR 11

/* Define to the revision of dune-common */
#define DUNE_COMMON_VERSION_REVISION 0

/* Standard debug streams with a level below will collapse to doing nothing */
#define DUNE_MINIMAL_DEBUG_LEVEL 4

/* does the standard library provide experimental::is_detected ? */
#define DUNE_HAVE_CXX_EXPERIMENTAL_IS_DETECTED 1

/* does the language support lambdas in unevaluated contexts ? */
/* #undef DUNE_HAVE_CXX_UNEVALUATED_CONTEXT_LAMBDA */

/* does the standard library provide identity ? */
/* #undef DUNE_HAVE_CXX_STD_IDENTITY */

/* Define if you have a BLAS library. */
#define HAVE_BLAS 1

/* Define if you have LAPACK library. */
#define HAVE_LAPACK 1

/* Define to 1 if you have the Threading Building Blocks (TBB) library */
#define HAVE_TBB 1




/* old feature support macros which were tested until 2.10, kept around for one more release */
/* none for 2.10 */

/* Define to ENABLE_UMFPACK if the UMFPack library is available. */
/// \deprecated Use HAVE_SUITESPARSE_UMFPACK instead
#define HAVE_UMFPACK HAVE_SUITESPARSE_UMFPACK

/* Used to call lapack functions */
#define LAPACK_NEEDS_UNDERLINE

/* If enabled certain Python modules will be precompiled */
/* #undef DUNE_ENABLE_PYTHONMODULE_PRECOMPILE */






#endif // DUNE_COMMON_CONFIG_HH


#ifndef DUNE_COMMON_CONFIG_BOTTOM_HH
#define DUNE_COMMON_CONFIG_BOTTOM_HH



#endif // DUNE_COMMON_CONFIG_BOTTOM_HH
