// C17 correspondence harness: Dune::FloatCmp (eq..le, round, trunc, FloatCmpOps), power/factorial/binomial/sign and the
// isNaN/isInf/isFinite classifiers against the Lean model, with an independent oracle (GMP rationals / integers,
// the documented definitions and laws evaluated directly).
//
// Numbers travel as exact dyadics `m:e` (= m * 2^e); never as decimal floats.  Op lines: see lean/Driver/C17.lean.
#include <config.h>
#include <gmpxx.h>

#include <cmath>
#include <complex>
#include <cstring>
#include <limits>
#include <type_traits>

#include <dune/common/float_cmp.hh>
#include <dune/common/fvector.hh>
#include <dune/common/math.hh>

#include "hcommon.hh"

using namespace dv;
namespace FC = Dune::FloatCmp;

// ------------------------------------------------------------------------------------------------
// 8-bit IEEE-like minifloat (1 sign, 4 exponent, 3 mantissa bits, bias 7).  The value is kept as the double it
// denotes; every operation is the exact double operation (all of them are exact for these operands) followed by one
// rounding to the format (nearest, ties to even, overflow to infinity).
// ------------------------------------------------------------------------------------------------
namespace mf {
inline double rnd(double x) {
  if (std::isnan(x) || std::isinf(x) || x == 0) return x;
  int ex;
  std::frexp(std::fabs(x), &ex);
  int E = ex - 1;
  if (E < -6) E = -6;
  int u = E - 3;
  double q = std::ldexp(std::fabs(x), -u);
  double N = std::nearbyint(q);  // default rounding mode: to nearest, ties to even
  double mag = std::ldexp(N, u);
  if (mag > 240.0) mag = std::numeric_limits<double>::infinity();
  return std::copysign(mag, x);
}
struct MF8 {
  double v;
  MF8() : v(0) {}
  MF8(int i) : v(rnd((double)i)) {}
  MF8(long i) : v(rnd((double)i)) {}
  struct Raw {};
  MF8(double d, Raw) : v(d) {}
  explicit operator int() const { return (int)v; }
  explicit operator long() const { return (long)v; }
};
inline MF8 operator-(MF8 a, MF8 b) { return MF8(rnd(a.v - b.v), MF8::Raw{}); }
inline MF8 operator-(MF8 a) { return MF8(-a.v, MF8::Raw{}); }
inline MF8 operator*(MF8 a, MF8 b) { return MF8(rnd(a.v * b.v), MF8::Raw{}); }
inline bool operator<(MF8 a, MF8 b) { return a.v < b.v; }
inline bool operator>(MF8 a, MF8 b) { return a.v > b.v; }
inline bool operator<=(MF8 a, MF8 b) { return a.v <= b.v; }
inline bool operator>=(MF8 a, MF8 b) { return a.v >= b.v; }
inline MF8 abs(MF8 a) { return MF8(std::fabs(a.v), MF8::Raw{}); }
inline MF8 decode(unsigned code) {
  bool neg = (code >> 7) & 1;
  unsigned e = (code >> 3) & 15, m = code & 7;
  double mag;
  if (e == 15) mag = m == 0 ? std::numeric_limits<double>::infinity() : std::numeric_limits<double>::quiet_NaN();
  else if (e == 0) mag = std::ldexp((double)m, -9);
  else mag = std::ldexp((double)(8 + m), (int)e - 10);
  return MF8(neg ? -mag : mag, MF8::Raw{});
}
inline bool finiteCode(unsigned c) { return c < 256 && ((c >> 3) & 15) != 15; }
}  // namespace mf

// ------------------------------------------------------------------------------------------------
// exact dyadics
// ------------------------------------------------------------------------------------------------
struct Dy {
  mpz_class m = 0;  // odd, or 0
  long e = 0;
  bool ok = false;
};
static void normalise(Dy& d) {
  if (d.m == 0) { d.e = 0; return; }
  while (mpz_even_p(d.m.get_mpz_t())) { d.m /= 2; d.e += 1; }
}
static Dy parseDy(const std::string& s) {
  Dy d;
  auto p = s.find(':');
  if (p == std::string::npos || p == 0 || p + 1 >= s.size()) return d;
  try {
    if (d.m.set_str(s.substr(0, p), 10) != 0) return d;
    size_t used = 0;
    d.e = std::stol(s.substr(p + 1), &used);
    if (used != s.size() - p - 1 || d.e < -100000 || d.e > 100000) return d;
  } catch (...) { return d; }
  normalise(d);
  d.ok = true;
  return d;
}
static long bitlen(const mpz_class& m) { return m == 0 ? 0 : (long)mpz_sizeinbase(m.get_mpz_t(), 2); }
static mpq_class toQ(const Dy& d) {
  mpq_class q(d.m);
  if (d.e >= 0) q *= mpq_class(mpz_class(1) << d.e);
  else q /= mpq_class(mpz_class(1) << (-d.e));
  return q;
}
template <class T> T toT(const Dy& d) { return std::ldexp((T)d.m.get_d(), (int)d.e); }
template <class T> mpq_class qOf(T x) { return mpq_class((double)x); }  // exact: float/double only
// exact dyadic string of a finite floating value
template <class T> std::string dyStr(T x) {
  if (x == 0) return "0:0";
  int ex;
  double f = std::frexp((double)x, &ex);  // exact
  double mant = std::ldexp(f, 53);
  mpz_class m;
  mpz_set_d(m.get_mpz_t(), mant);
  Dy d;
  d.m = m;
  d.e = ex - 53;
  normalise(d);
  return d.m.get_str(10) + ":" + std::to_string(d.e);
}

struct FT { long mb, me, ew, prec; };
static bool parseFT(const std::string& t, FT& ft) {
  if (t == "f32") { ft = FT{12, 12, 11, 24}; return true; }
  if (t == "f64") { ft = FT{26, 26, 26, 53}; return true; }
  return false;
}
static bool okVal(const FT& ft, const Dy& d) {
  if (d.m == 0) return true;
  long bl = bitlen(d.m);
  return bl <= ft.mb && -ft.ew <= d.e && d.e + bl <= ft.ew;
}
static bool okEps(const FT& ft, const Dy& d) {
  if (d.m == 0) return true;
  long bl = bitlen(d.m);
  return d.m > 0 && bl <= ft.me && -60 <= d.e && d.e + bl <= 20;
}

static const char* STYLES[] = {"relativeWeak", "relativeStrong", "absolute"};
static const char* RSTYLES[] = {"towardZero", "towardInf", "downward", "upward"};
static int styleIdx(const std::string& s) { for (int i = 0; i < 3; ++i) if (s == STYLES[i]) return i; return -1; }
static int rstyleIdx(const std::string& s) { for (int i = 0; i < 4; ++i) if (s == RSTYLES[i]) return i; return -1; }
static constexpr FC::CmpStyle CS[] = {FC::relativeWeak, FC::relativeStrong, FC::absolute};
static constexpr FC::RoundingStyle RS[] = {FC::towardZero, FC::towardInf, FC::downward, FC::upward};

template <class F> auto withStyle(int s, F&& f) {
  switch (s) {
    case 0: return f(std::integral_constant<int, 0>{});
    case 1: return f(std::integral_constant<int, 1>{});
    default: return f(std::integral_constant<int, 2>{});
  }
}
template <class F> auto withRStyle(int s, F&& f) {
  switch (s) {
    case 0: return f(std::integral_constant<int, 0>{});
    case 1: return f(std::integral_constant<int, 1>{});
    case 2: return f(std::integral_constant<int, 2>{});
    default: return f(std::integral_constant<int, 3>{});
  }
}

static std::string bs(bool b) { return b ? "true" : "false"; }
struct Six {
  bool eq, ne, lt, gt, le, ge;
  std::string str() const {
    return "eq=" + bs(eq) + " ne=" + bs(ne) + " lt=" + bs(lt) + " gt=" + bs(gt) + " le=" + bs(le) + " ge=" + bs(ge);
  }
  bool operator==(const Six& o) const { return eq == o.eq && ne == o.ne && lt == o.lt && gt == o.gt && le == o.le && ge == o.ge; }
};
template <class T, FC::CmpStyle cs, class E> Six sixOf(const T& a, const T& b, E eps) {
  return Six{FC::eq<T, cs>(a, b, eps), FC::ne<T, cs>(a, b, eps), FC::lt<T, cs>(a, b, eps),
             FC::gt<T, cs>(a, b, eps), FC::le<T, cs>(a, b, eps), FC::ge<T, cs>(a, b, eps)};
}
// the algebraic laws of the property on one pair of results (r = (a,b), sw = (b,a))
static std::string lawCheck(const Six& r, const Six& sw) {
  if (r.eq != sw.eq) return "eq is not symmetric";
  if (r.ne != !r.eq) return "ne is not the negation of eq";
  if ((int)r.lt + (int)r.eq + (int)r.gt != 1) return "not exactly one of lt/eq/gt holds";
  if (r.le != (r.lt || r.eq)) return "le differs from lt||eq";
  if (r.ge != (r.gt || r.eq)) return "ge differs from gt||eq";
  if (r.lt != sw.gt || r.gt != sw.lt) return "lt(a,b) differs from gt(b,a)";
  return "";
}

// documented definition of eq, exact rational arithmetic
static bool eqDoc(int style, const mpq_class& a, const mpq_class& b, const mpq_class& eps) {
  mpq_class d = abs(a - b);
  mpq_class aa = abs(a), ab = abs(b);
  if (style == 0) return d <= eps * (aa < ab ? ab : aa);
  if (style == 1) return d <= eps * (aa < ab ? aa : ab);
  return d <= eps;
}
static Six sixDoc(int style, const mpq_class& a, const mpq_class& b, const mpq_class& eps) {
  bool e = eqDoc(style, a, b, eps);
  return Six{e, !e, !e && a < b, !e && a > b, e || a < b, e || a > b};
}

// ------------------------------------------------------------------------------------------------
// cmp / cmpv / laws
// ------------------------------------------------------------------------------------------------
template <class T> Result execCmp(int style, const Dy& da, const Dy& db, const Dy& de) {
  Result res;
  T a = toT<T>(da), b = toT<T>(db), eps = toT<T>(de);
  mpq_class A = toQ(da), B = toQ(db), E = toQ(de);
  // the domain predicate promises exact intermediates; re-check that promise
  if (qOf<T>(a) != A || qOf<T>(b) != B || qOf<T>(eps) != E || qOf<T>(a - b) != A - B ||
      qOf<T>(eps * std::max(std::abs(a), std::abs(b))) != E * std::max(abs(A), abs(B))) {
    res.impl = "skip";
    res.oracle = "FAIL harness: operands promised exact are not";
    return res;
  }
  Six r{}, sw{}, viaOps{};
  withStyle(style, [&](auto S) {
    constexpr FC::CmpStyle cs = CS[decltype(S)::value];
    r = sixOf<T, cs>(a, b, eps);
    sw = sixOf<T, cs>(b, a, eps);
    Dune::FloatCmpOps<T, cs> ops(eps);
    viaOps = Six{ops.eq(a, b), ops.ne(a, b), ops.lt(a, b), ops.gt(a, b), ops.le(a, b), ops.ge(a, b)};
    return 0;
  });
  res.impl = r.str();
  Six doc = sixDoc(style, A, B, E);
  if (!(r == doc)) res.oracle = "FAIL differs from the documented definition: expected " + doc.str();
  else if (!(viaOps == r)) res.oracle = "FAIL FloatCmpOps members differ from the free functions: " + viaOps.str();
  else {
    std::string l = lawCheck(r, sw);
    if (!l.empty()) res.oracle = "FAIL " + l;
  }
  if (style == 0 && res.oracle == "ok") {  // overloads without explicit style use the default style relativeWeak
    Six d{FC::eq(a, b, eps), FC::ne(a, b, eps), FC::lt(a, b, eps), FC::gt(a, b, eps), FC::le(a, b, eps), FC::ge(a, b, eps)};
    if (!(d == r)) res.oracle = "FAIL default-style overloads differ from relativeWeak";
  }
  stat(std::string("cmp_eq_") + (r.eq ? "true" : "false"));
  return res;
}

static bool parseDyList(const std::string& s, std::vector<Dy>& out) {
  if (s.size() < 2 || s.front() != '[' || s.back() != ']') return false;
  std::string in = s.substr(1, s.size() - 2);
  if (in.empty()) return true;
  for (auto& w : split(in, ',')) {
    Dy d = parseDy(w);
    if (!d.ok) return false;
    out.push_back(d);
  }
  return true;
}

template <class T, int n, int st>
void fvEq(const std::vector<T>& a, const std::vector<T>& b, T eps, bool& eq, bool& ne, bool& eqsw) {
  Dune::FieldVector<T, n> fa, fb;
  for (int i = 0; i < n; ++i) { fa[i] = a[i]; fb[i] = b[i]; }
  constexpr FC::CmpStyle cs = CS[st];
  eq = FC::eq<Dune::FieldVector<T, n>, cs>(fa, fb, eps);
  ne = FC::ne<Dune::FieldVector<T, n>, cs>(fa, fb, eps);
  eqsw = FC::eq<Dune::FieldVector<T, n>, cs>(fb, fa, eps);
  Dune::FloatCmpOps<Dune::FieldVector<T, n>, cs> ops(eps);
  if (ops.eq(fa, fb) != eq || ops.ne(fa, fb) != ne) eqsw = !eq;  // reported as asymmetry below
}

template <class T> Result execCmpV(const std::string& kind, int style, const std::vector<Dy>& da, const std::vector<Dy>& db, const Dy& de) {
  Result res;
  std::vector<T> a, b;
  std::vector<mpq_class> A, B;
  for (auto& d : da) { a.push_back(toT<T>(d)); A.push_back(toQ(d)); }
  for (auto& d : db) { b.push_back(toT<T>(d)); B.push_back(toQ(d)); }
  T eps = toT<T>(de);
  mpq_class E = toQ(de);
  // oracle: conjunction over components of the documented scalar definition (sizes must agree)
  bool eqd = A.size() == B.size();
  for (size_t i = 0; eqd && i < A.size(); ++i) eqd = eqDoc(style, A[i], B[i], E);
  stat("cmpv_" + kind + "_n" + std::to_string(a.size()));
  if (kind == "std") {
    using V = std::vector<T>;
    Six r{}, sw{};
    withStyle(style, [&](auto S) {
      constexpr FC::CmpStyle cs = CS[decltype(S)::value];
      r = sixOf<V, cs>(a, b, eps);
      sw = sixOf<V, cs>(b, a, eps);
      return 0;
    });
    res.impl = r.str();
    bool lexlt = std::lexicographical_compare(A.begin(), A.end(), B.begin(), B.end());
    bool lexgt = std::lexicographical_compare(B.begin(), B.end(), A.begin(), A.end());
    Six doc{eqd, !eqd, !eqd && lexlt, !eqd && lexgt, eqd || lexlt, eqd || lexgt};
    if (r.eq != eqd) res.oracle = "FAIL vector eq is not the conjunction over the components";
    else if (!(r == doc)) res.oracle = "FAIL differs from the documented definition: expected " + doc.str();
    else {
      std::string l = lawCheck(r, sw);
      if (!l.empty()) res.oracle = "FAIL " + l;
    }
    return res;
  }
  if (kind == "fv") {
    size_t n = a.size();
    if (n != b.size() || n < 1 || n > 4) { res.impl = "bad-op"; res.oracle = "FAIL malformed line"; return res; }
    bool eq = false, ne = false, eqsw = false;
    withStyle(style, [&](auto S) {
      constexpr int st = decltype(S)::value;
      switch (n) {
        case 1: fvEq<T, 1, st>(a, b, eps, eq, ne, eqsw); break;
        case 2: fvEq<T, 2, st>(a, b, eps, eq, ne, eqsw); break;
        case 3: fvEq<T, 3, st>(a, b, eps, eq, ne, eqsw); break;
        default: fvEq<T, 4, st>(a, b, eps, eq, ne, eqsw); break;
      }
      return 0;
    });
    res.impl = "eq=" + bs(eq) + " ne=" + bs(ne);
    if (eq != eqd) res.oracle = "FAIL vector eq is not the conjunction over the components";
    else if (ne != !eq) res.oracle = "FAIL ne is not the negation of eq";
    else if (eqsw != eq) res.oracle = "FAIL eq is not symmetric / FloatCmpOps differs";
    return res;
  }
  res.impl = "bad-op";
  res.oracle = "FAIL malformed line";
  return res;
}

// arbitrary finite bit patterns: only the algebraic laws are decided (the rational model does not apply)
template <class T, class U> Result execLaws(int style, const std::string& ha, const std::string& hb, const std::string& he) {
  Result res;
  res.impl = "n/a";
  auto conv = [](const std::string& h) { U u = (U)std::stoull(h, nullptr, 16); T x; std::memcpy(&x, &u, sizeof x); return x; };
  T a = conv(ha), b = conv(hb), eps = conv(he);
  if (!std::isfinite(a) || !std::isfinite(b) || !std::isfinite(eps) || std::signbit(eps)) { res.oracle = "ok trivial"; return res; }
  Six r{}, sw{};
  withStyle(style, [&](auto S) {
    constexpr FC::CmpStyle cs = CS[decltype(S)::value];
    r = sixOf<T, cs>(a, b, eps);
    sw = sixOf<T, cs>(b, a, eps);
    return 0;
  });
  std::string l = lawCheck(r, sw);
  if (!l.empty()) res.oracle = "FAIL " + l + " (" + r.str() + ")";
  return res;
}

// ------------------------------------------------------------------------------------------------
// round / trunc
// ------------------------------------------------------------------------------------------------
static mpz_class floorQ(const mpq_class& q) {
  mpz_class f;
  mpz_fdiv_q(f.get_mpz_t(), q.get_num_mpz_t(), q.get_den_mpz_t());
  return f;
}
static mpz_class truncQ(const mpq_class& q) {
  mpz_class f;
  mpz_tdiv_q(f.get_mpz_t(), q.get_num_mpz_t(), q.get_den_mpz_t());
  return f;
}

// laws for r = round(x): see Props/C17.lean round_within / round_nearest / round_tie
static std::string roundLaws(int style, int rstyle, const mpq_class& x, const mpq_class& eps, const mpz_class& r) {
  mpq_class R(r);
  mpq_class dist = abs(R - x);
  if (dist >= 1) return "result is not within distance 1 of the argument";
  bool snapped = eqDoc(style, R, x, eps);
  if (!snapped && dist > mpq_class(1, 2) + eps / 2) return "result farther than 1/2 + epsilon/2 and not equal within epsilon";
  mpz_class l = floorQ(x);
  if (mpq_class(l) == x) return r == l ? "" : "integer argument not returned unchanged";
  if (eqDoc(style, mpq_class(truncQ(x)), x, eps)) return "";   // argument equals its integer part within epsilon
  mpq_class p = x - mpq_class(l), q = mpq_class(l + 1) - x;
  bool tie = eqDoc(style, p, q, eps);
  int dir = rstyle;  // 2 down, 3 up
  if (rstyle == 0) dir = x > 0 ? 2 : 3;
  if (rstyle == 1) dir = x > 0 ? 3 : 2;
  mpz_class expect = tie ? (dir == 2 ? l : mpz_class(l + 1)) : (p < q ? l : mpz_class(l + 1));
  if (r != expect) return tie ? "tie within epsilon not resolved in the documented direction" : "result is not the nearest integer";
  return "";
}
static std::string truncLaws(int style, int rstyle, bool uns, const mpq_class& x, const mpq_class& eps, const mpz_class& r) {
  mpz_class l = floorQ(x);
  if (uns && eqDoc(style, x, 0, eps))  // unsigned target: an argument equal to 0 within epsilon gives 0
    return r == 0 ? "" : "unsigned target: argument equal to 0 within epsilon did not give 0";
  int dir = rstyle;
  if (rstyle == 0) dir = x > 0 ? 2 : 3;
  if (rstyle == 1) dir = x > 0 ? 3 : 2;
  if (r != l && r != l + 1) return "result is neither floor nor floor+1 of the argument";
  bool eqL = eqDoc(style, mpq_class(l), x, eps), eqU = eqDoc(style, mpq_class(l + 1), x, eps);
  if (dir == 2) {
    if (r == l + 1 && !eqU) return "downward: result above the argument without being equal within epsilon";
    if (r == l && eqU) return "downward: argument equal to the next integer within epsilon, but not snapped to it";
  } else {
    if (r == l && !eqL) return "upward: result below the argument without being equal within epsilon";
    if (r == l + 1 && mpq_class(l) == x && !eqU) return "upward: integer argument moved away";
    if (r == l + 1 && eqL && !eqU) return "upward: argument equal to the integer below within epsilon, but not snapped to it";
  }
  return "";
}

template <class T, class I> Result execRT(bool isRound, int style, int rstyle, const Dy& dv_, const Dy& de) {
  Result res;
  T val = toT<T>(dv_), eps = toT<T>(de);
  mpq_class X = toQ(dv_), E = toQ(de);
  I r = 0, viaOps = 0;
  withStyle(style, [&](auto S) {
    constexpr FC::CmpStyle cs = CS[decltype(S)::value];
    return withRStyle(rstyle, [&](auto R) {
      constexpr FC::RoundingStyle rs = RS[decltype(R)::value];
      Dune::FloatCmpOps<T, cs, rs> ops(eps);
      if (isRound) { r = FC::round<I, T, cs, rs>(val, eps); viaOps = ops.template round<I>(val); }
      else { r = FC::trunc<I, T, cs, rs>(val, eps); viaOps = ops.template trunc<I>(val); }
      return 0;
    });
  });
  res.impl = std::to_string(r);
  mpz_class R(std::to_string(r));
  std::string l = isRound ? roundLaws(style, rstyle, X, E, R) : truncLaws(style, rstyle, !std::numeric_limits<I>::is_signed, X, E, R);
  if (!l.empty()) res.oracle = "FAIL " + l;
  else if (viaOps != r) res.oracle = "FAIL FloatCmpOps member differs from the free function";
  stat(std::string(isRound ? "round_" : "trunc_") + RSTYLES[rstyle]);
  return res;
}

// ------------------------------------------------------------------------------------------------
// minifloat
// ------------------------------------------------------------------------------------------------
static Result execMf(int style, unsigned ca, unsigned cb, unsigned ce) {
  Result res;
  using mf::MF8;
  MF8 a = mf::decode(ca), b = mf::decode(cb), eps = mf::decode(ce);
  Six r{}, sw{};
  withStyle(style, [&](auto S) {
    constexpr FC::CmpStyle cs = CS[decltype(S)::value];
    r = sixOf<MF8, cs>(a, b, eps);
    sw = sixOf<MF8, cs>(b, a, eps);
    return 0;
  });
  res.impl = r.str();
  std::string l = lawCheck(r, sw);
  if (!l.empty()) res.oracle = "FAIL " + l;
  return res;
}
static int mfFiniteCode(long i);
// one line = one (style, a, eps) against every finite b: 240 results, two hex digits each (eq ne lt gt le ge as bits 5..0)
static Result execMfRow(int style, unsigned ca, unsigned ce) {
  Result res;
  using mf::MF8;
  MF8 a = mf::decode(ca), eps = mf::decode(ce);
  static const char* HEX = "0123456789abcdef";
  std::string out;
  withStyle(style, [&](auto S) {
    constexpr FC::CmpStyle cs = CS[decltype(S)::value];
    for (long i = 0; i < 240; ++i) {
      unsigned cb = (unsigned)mfFiniteCode(i);
      MF8 b = mf::decode(cb);
      Six r = sixOf<MF8, cs>(a, b, eps), sw = sixOf<MF8, cs>(b, a, eps);
      unsigned byte = (r.eq << 5) | (r.ne << 4) | (r.lt << 3) | (r.gt << 2) | (r.le << 1) | (unsigned)r.ge;
      out.push_back(HEX[byte >> 4]);
      out.push_back(HEX[byte & 15]);
      std::string l = lawCheck(r, sw);
      if (!l.empty() && res.oracle == "ok") res.oracle = "FAIL b=" + std::to_string(cb) + ": " + l + " (" + r.str() + ")";
    }
    return 0;
  });
  res.impl = out;
  return res;
}
static Result execMfr(int style, int rstyle, unsigned cv, unsigned ce) {
  Result res;
  using mf::MF8;
  MF8 v = mf::decode(cv), eps = mf::decode(ce);
  int r = 0, t = 0;
  withStyle(style, [&](auto S) {
    constexpr FC::CmpStyle cs = CS[decltype(S)::value];
    return withRStyle(rstyle, [&](auto R) {
      constexpr FC::RoundingStyle rs = RS[decltype(R)::value];
      r = FC::round<int, MF8, cs, rs>(v, eps);
      t = FC::trunc<int, MF8, cs, rs>(v, eps);
      return 0;
    });
  });
  res.impl = "round=" + std::to_string(r) + " trunc=" + std::to_string(t);
  double fl = std::floor(v.v);
  if (!(std::fabs(r - v.v) < 1)) res.oracle = "FAIL round result not within distance 1";
  else if (!(t == fl || t == fl + 1)) res.oracle = "FAIL trunc result is neither floor nor floor+1";
  return res;
}

template <class T> Result execDefEps(int style) {
  Result res;
  T v = 0;
  withStyle(style, [&](auto S) { v = FC::DefaultEpsilon<T, CS[decltype(S)::value]>::value(); return 0; });
  res.impl = dyStr(v);
  T expect = style == 2 ? std::max<T>(std::numeric_limits<T>::epsilon(), (T)1e-6) : std::numeric_limits<T>::epsilon() * 8;
  if (!(v == expect) || !(v >= 0)) res.oracle = "FAIL default epsilon differs from the documented value";
  return res;
}

// ------------------------------------------------------------------------------------------------
// integer helpers
// ------------------------------------------------------------------------------------------------
template <class I> bool fitsI(const mpz_class& v) {
  mpz_class lo, hi;
  if (std::numeric_limits<I>::is_signed) {
    hi = (mpz_class(1) << (std::numeric_limits<I>::digits)) - 1;
    lo = -hi - 1;
  } else {
    lo = 0;
    hi = (mpz_class(1) << (std::numeric_limits<I>::digits)) - 1;
  }
  return lo <= v && v <= hi;
}
template <class I> I fromZ(const mpz_class& v) {
  if (std::numeric_limits<I>::is_signed) return (I)std::stoll(v.get_str(10));
  return (I)std::stoull(v.get_str(10));
}
template <class I> mpz_class zOf(I v) { return mpz_class(std::to_string(v)); }

static mpz_class chooseZ(const mpz_class& n, const mpz_class& k) {  // 0 <= k <= n, multiplicative formula, exact
  mpz_class kk = k;
  if (kk > n - kk) kk = n - kk;
  mpz_class r = 1;
  for (mpz_class i = 1; i <= kk; ++i) {
    r *= (n - kk + i);
    r /= i;
    if (mpz_sizeinbase(r.get_mpz_t(), 2) > 200) break;  // far beyond any machine type
  }
  return r;
}

template <class B, class X> Result execPow(const mpz_class& m, const mpz_class& p) {
  Result res;
  if (!fitsI<B>(m) || !fitsI<X>(p)) { res.impl = "bad-op"; res.oracle = "FAIL malformed line"; return res; }
  mpz_class ap = abs(p);
  if (ap > 4096 || (p < 0 && m == 0)) { res.impl = "skip"; res.oracle = "ok trivial"; return res; }
  if (p < 0 && !fitsI<X>(-p)) { res.impl = "unrep"; res.oracle = "ok trivial"; return res; }
  mpz_class pw;
  mpz_pow_ui(pw.get_mpz_t(), m.get_mpz_t(), ap.get_ui());
  if (!fitsI<B>(pw)) { res.impl = "unrep"; res.oracle = "ok trivial"; return res; }
  B r = Dune::power(fromZ<B>(m), fromZ<X>(p));
  res.impl = std::to_string(r);
  mpz_class expect = pw;
  if (p < 0) mpz_tdiv_q(expect.get_mpz_t(), mpz_class(1).get_mpz_t(), pw.get_mpz_t());
  if (zOf(r) != expect) res.oracle = "FAIL power gave " + res.impl + " expected " + expect.get_str(10);
  else if (p < 0) res.oracle = "ok trivial";  // documented as unsupported for integer bases
  return res;
}

template <class T> Result execPowF(const FT& ft, const Dy& dm, long p) {
  Result res;
  long ap = p < 0 ? -p : p;
  if (ap > 4096 || !(bitlen(dm.m) * ap <= ft.prec && std::labs(dm.e) * ap <= 100) || (p < 0 && abs(dm.m) != 1)) {
    res.impl = "skip"; res.oracle = "ok trivial"; return res;
  }
  T m = toT<T>(dm);
  T r = Dune::power(m, (int)p);
  res.impl = dyStr(r);
  mpq_class M = toQ(dm), e = 1;
  for (long i = 0; i < ap; ++i) e *= M;
  if (p < 0) e = 1 / e;
  if (!std::isfinite(r) || qOf<T>(r) != e) res.oracle = "FAIL power differs from the exact value m^p";
  return res;
}

template <class I> Result execFact(const mpz_class& n) {
  Result res;
  if (!fitsI<I>(n)) { res.impl = "bad-op"; res.oracle = "FAIL malformed line"; return res; }
  mpz_class f = 1;
  for (mpz_class i = 2; i <= n && mpz_sizeinbase(f.get_mpz_t(), 2) < 200; ++i) f *= i;
  if (!fitsI<I>(f)) { res.impl = "unrep"; res.oracle = "ok trivial"; return res; }
  I r = Dune::factorial(fromZ<I>(n));
  res.impl = std::to_string(r);
  if (zOf(r) != f) res.oracle = "FAIL factorial gave " + res.impl + " expected " + f.get_str(10);
  else if (n >= 1) {  // recurrence n! = n (n-1)!
    I r1 = Dune::factorial((I)(fromZ<I>(n) - 1));
    if (zOf(r1) * n != f) res.oracle = "FAIL factorial recurrence violated";
  }
  return res;
}

template <class I> Result execBinom(const mpz_class& n, const mpz_class& k) {
  Result res;
  if (!fitsI<I>(n) || !fitsI<I>(k)) { res.impl = "bad-op"; res.oracle = "FAIL malformed line"; return res; }
  bool inRange = k >= 0 && k <= n;
  mpz_class c = inRange ? chooseZ(n, k) : mpz_class(0);
  if (!fitsI<I>(c)) { res.impl = "unrep"; res.oracle = "ok trivial"; return res; }
  I N = fromZ<I>(n), K = fromZ<I>(k);
  I r = Dune::binomial(N, K);
  res.impl = std::to_string(r);
  if (zOf(r) != c) { res.oracle = "FAIL binomial gave " + res.impl + " expected " + c.get_str(10); return res; }
  if (!inRange) { stat("binom_outside"); return res; }
  // symmetry and Pascal's rule on the implementation's own values
  I rs = Dune::binomial(N, (I)(N - K));
  if (rs != r) { res.oracle = "FAIL binomial(n,k) != binomial(n,n-k)"; return res; }
  if (k >= 1 && k <= n - 1) {
    I p1 = Dune::binomial((I)(N - 1), (I)(K - 1)), p2 = Dune::binomial((I)(N - 1), K);
    if (zOf(p1) + zOf(p2) != c) res.oracle = "FAIL Pascal's rule violated";
  }
  return res;
}

static Result execStatic() {
  // only the (n,n) overload, which does not call binomial(): a constant-evaluated call of the general overload would
  // turn a defect of binomial() into a compile error of this harness instead of a replayable failing input
  using std::integral_constant;
  Result res;
  auto b77 = Dune::binomial(integral_constant<int, 7>{}, integral_constant<int, 7>{});
  auto bm = Dune::binomial(integral_constant<int, -1>{}, integral_constant<int, -1>{});
  std::ostringstream os;
  os << decltype(b77)::value << " " << decltype(bm)::value;
  res.impl = os.str();
  if (res.impl != "1 0") res.oracle = "FAIL integral_constant overload binomial(n,n) gives " + res.impl;
  return res;
}

template <class F> auto withIType(const std::string& t, F&& f) {
  if (t == "i32") return f((int)0);
  if (t == "i64") return f((long)0);
  if (t == "u32") return f((unsigned)0);
  return f((unsigned long)0);
}
static bool isIType(const std::string& t) { return t == "i32" || t == "i64" || t == "u32" || t == "u64"; }

// ------------------------------------------------------------------------------------------------
// classifiers
// ------------------------------------------------------------------------------------------------
template <class T, class U> T fromBits(unsigned long long b) { U u = (U)b; T x; std::memcpy(&x, &u, sizeof x); return x; }
// class from the bit pattern alone: 0 finite, 1 inf, 2 nan
static int clsBits(bool f32, unsigned long long b) {
  unsigned long long e = f32 ? (b >> 23) & 0xff : (b >> 52) & 0x7ff;
  unsigned long long m = f32 ? b & 0x7fffff : b & 0xfffffffffffffull;
  unsigned long long emax = f32 ? 0xff : 0x7ff;
  return e != emax ? 0 : (m == 0 ? 1 : 2);
}
static std::string three(bool a, bool b, bool c) { return "nan=" + bs(a) + " inf=" + bs(b) + " fin=" + bs(c); }

template <class T, class U, int n> std::string clsFV(const std::vector<unsigned long long>& bits) {
  Dune::FieldVector<T, n> v;
  for (int i = 0; i < n; ++i) v[i] = fromBits<T, U>(bits[i]);
  return three(Dune::isNaN(v), Dune::isInf(v), Dune::isFinite(v));
}
template <class T, class U, int n> std::string clsFVC(const std::vector<unsigned long long>& bits) {
  Dune::FieldVector<std::complex<T>, n> v;
  for (int i = 0; i < n; ++i) v[i] = std::complex<T>(fromBits<T, U>(bits[2 * i]), fromBits<T, U>(bits[2 * i + 1]));
  return three(Dune::isNaN(v), Dune::isInf(v), Dune::isFinite(v));
}

template <class T, class U> Result execCls(const std::string& kind, bool f32, const std::vector<unsigned long long>& bits) {
  Result res;
  size_t n = bits.size();
  bool anyNaN = false, anyInf = false, allFin = true;
  for (auto b : bits) {
    int c = clsBits(f32, b);
    anyNaN |= c == 2; anyInf |= c == 1; allFin &= c == 0;
  }
  std::string expect = three(anyNaN, anyInf, allFin);
  if (kind == "fv" && n >= 1 && n <= 4) {
    res.impl = n == 1 ? clsFV<T, U, 1>(bits) : n == 2 ? clsFV<T, U, 2>(bits) : n == 3 ? clsFV<T, U, 3>(bits) : clsFV<T, U, 4>(bits);
  } else if (kind == "cx" && n == 2) {
    std::complex<T> z(fromBits<T, U>(bits[0]), fromBits<T, U>(bits[1]));
    res.impl = three(Dune::isNaN(z), Dune::isInf(z), Dune::isFinite(z));
  } else if (kind == "fvcx" && n % 2 == 0 && n >= 2 && n <= 6) {
    res.impl = n == 2 ? clsFVC<T, U, 1>(bits) : n == 4 ? clsFVC<T, U, 2>(bits) : clsFVC<T, U, 3>(bits);
  } else if (kind == "un" && n == 2) {
    Dune::FieldVector<T, 1> a(fromBits<T, U>(bits[0])), b(fromBits<T, U>(bits[1]));
    res.impl = "unordered=" + bs(Dune::isUnordered(a, b));
    expect = "unordered=" + bs(anyNaN);
    if (Dune::isUnordered(a[0], b[0]) != anyNaN) res.oracle = "FAIL scalar isUnordered wrong";
  } else {
    res.impl = "bad-op"; res.oracle = "FAIL malformed line"; return res;
  }
  if (res.impl != expect) res.oracle = "FAIL classifier is not the any/all over the components: expected " + expect;
  if (anyNaN) stat("cls_nan");
  if (anyInf) stat("cls_inf");
  if (allFin) stat("cls_allfinite");
  return res;
}

// ------------------------------------------------------------------------------------------------
// executor
// ------------------------------------------------------------------------------------------------
static Result bad(const std::string& why = "malformed line") { return Result{"bad-op", "FAIL " + why}; }
static Result skip() { return Result{"skip", "ok trivial"}; }
static bool parseZ(const std::string& s, mpz_class& z) {
  if (s.empty()) return false;
  size_t i = (s[0] == '-' || s[0] == '+') ? 1 : 0;
  if (i >= s.size()) return false;
  for (size_t j = i; j < s.size(); ++j) if (!isdigit((unsigned char)s[j])) return false;
  return z.set_str(s[0] == '+' ? s.substr(1) : s, 10) == 0;
}
static bool parseU(const std::string& s, unsigned& u) {
  if (s.empty() || s.size() > 4) return false;
  for (char c : s) if (!isdigit((unsigned char)c)) return false;
  u = (unsigned)std::stoul(s);
  return true;
}

Result exec(const std::string& line) {
  auto w = words(line);
  if (w.empty()) return bad();
  const std::string& op = w[0];
  stat("op_" + op);
  FT ft;
  if (op == "cmp" && w.size() == 6) {
    int st = styleIdx(w[2]);
    Dy a = parseDy(w[3]), b = parseDy(w[4]), e = parseDy(w[5]);
    if (!parseFT(w[1], ft) || st < 0 || !a.ok || !b.ok || !e.ok) return bad();
    if (!(okVal(ft, a) && okVal(ft, b) && okEps(ft, e))) return skip();
    stat(std::string("style_") + STYLES[st]);
    return w[1] == "f32" ? execCmp<float>(st, a, b, e) : execCmp<double>(st, a, b, e);
  }
  if (op == "cmpv" && w.size() == 7) {
    int st = styleIdx(w[3]);
    std::vector<Dy> a, b;
    Dy e = parseDy(w[6]);
    if (!parseFT(w[1], ft) || st < 0 || !parseDyList(w[4], a) || !parseDyList(w[5], b) || !e.ok) return bad();
    bool ok = okEps(ft, e);
    for (auto& d : a) ok = ok && okVal(ft, d);
    for (auto& d : b) ok = ok && okVal(ft, d);
    if (!ok) return skip();
    return w[1] == "f32" ? execCmpV<float>(w[2], st, a, b, e) : execCmpV<double>(w[2], st, a, b, e);
  }
  if ((op == "round" || op == "trunc") && w.size() == 7) {
    int st = styleIdx(w[3]), rs = rstyleIdx(w[4]);
    Dy v = parseDy(w[5]), e = parseDy(w[6]);
    if (!parseFT(w[1], ft) || !isIType(w[2]) || st < 0 || rs < 0 || !v.ok || !e.ok) return bad();
    if (!(okVal(ft, v) && okEps(ft, e))) return skip();
    bool uns = w[2][0] == 'u';
    if (uns && v.m < 0) return skip();
    bool isRound = op == "round";
    stat("rt_" + w[2]);
    return withIType(w[2], [&](auto I0) {
      using I = decltype(I0);
      return w[1] == "f32" ? execRT<float, I>(isRound, st, rs, v, e) : execRT<double, I>(isRound, st, rs, v, e);
    });
  }
  if (op == "laws" && w.size() == 6) {
    int st = styleIdx(w[2]);
    if (!parseFT(w[1], ft) || st < 0) return bad();
    try {
      return w[1] == "f32" ? execLaws<float, uint32_t>(st, w[3], w[4], w[5]) : execLaws<double, uint64_t>(st, w[3], w[4], w[5]);
    } catch (std::exception&) { return bad(); }
  }
  if (op == "mf" && w.size() == 5) {
    int st = styleIdx(w[1]);
    unsigned a, b, e;
    if (st < 0 || !parseU(w[2], a) || !parseU(w[3], b) || !parseU(w[4], e)) return bad();
    if (!(mf::finiteCode(a) && mf::finiteCode(b) && mf::finiteCode(e)) || e >= 128) return skip();
    return execMf(st, a, b, e);
  }
  if (op == "mfrow" && w.size() == 4) {
    int st = styleIdx(w[1]);
    unsigned a, e;
    if (st < 0 || !parseU(w[2], a) || !parseU(w[3], e)) return bad();
    if (!(mf::finiteCode(a) && mf::finiteCode(e)) || e >= 128) return skip();
    return execMfRow(st, a, e);
  }
  if (op == "mfr" && w.size() == 5) {
    int st = styleIdx(w[1]), rs = rstyleIdx(w[2]);
    unsigned v, e;
    if (st < 0 || rs < 0 || !parseU(w[3], v) || !parseU(w[4], e)) return bad();
    if (!(mf::finiteCode(v) && mf::finiteCode(e)) || e >= 128) return skip();
    return execMfr(st, rs, v, e);
  }
  if (op == "defeps" && w.size() == 3) {
    int st = styleIdx(w[2]);
    if (!parseFT(w[1], ft) || st < 0) return bad();
    return w[1] == "f32" ? execDefEps<float>(st) : execDefEps<double>(st);
  }
  if (op == "pow" && w.size() == 5) {
    mpz_class m, p;
    if (!isIType(w[1]) || !isIType(w[2]) || !parseZ(w[3], m) || !parseZ(w[4], p)) return bad();
    return withIType(w[1], [&](auto B0) {
      return withIType(w[2], [&](auto X0) { return execPow<decltype(B0), decltype(X0)>(m, p); });
    });
  }
  if (op == "powf" && w.size() == 4) {
    Dy m = parseDy(w[2]);
    mpz_class p;
    if (!parseFT(w[1], ft) || !m.ok || !parseZ(w[3], p)) return bad();
    if (abs(p) > 4096) return skip();
    return w[1] == "f32" ? execPowF<float>(ft, m, p.get_si()) : execPowF<double>(ft, m, p.get_si());
  }
  if (op == "fact" && w.size() == 3) {
    mpz_class n;
    if (!isIType(w[1]) || !parseZ(w[2], n)) return bad();
    return withIType(w[1], [&](auto I0) { return execFact<decltype(I0)>(n); });
  }
  if (op == "binom" && w.size() == 4) {
    mpz_class n, k;
    if (!isIType(w[1]) || !parseZ(w[2], n) || !parseZ(w[3], k)) return bad();
    return withIType(w[1], [&](auto I0) { return execBinom<decltype(I0)>(n, k); });
  }
  if (op == "static" && w.size() == 1) return execStatic();
  if (op == "sign" && w.size() == 3) {
    Result res;
    if (isIType(w[1])) {
      mpz_class x;
      if (!parseZ(w[2], x)) return bad();
      return withIType(w[1], [&](auto I0) {
        using I = decltype(I0);
        Result r;
        if (!fitsI<I>(x)) return bad();
        int s = Dune::sign(fromZ<I>(x));
        r.impl = std::to_string(s);
        if (s != (x < 0 ? -1 : 1)) r.oracle = "FAIL sign wrong";
        return r;
      });
    }
    if (!parseFT(w[1], ft)) return bad();
    int s, expect;
    if (w[2] == "nz") {
      s = w[1] == "f32" ? Dune::sign(-0.0f) : Dune::sign(-0.0);
      expect = 1;
    } else {
      Dy x = parseDy(w[2]);
      if (!x.ok) return bad();
      // any finite dyadic: the sign survives rounding as long as the value does not underflow to zero
      if (x.m != 0 && (bitlen(x.m) + x.e < -100 || bitlen(x.m) + x.e > 100)) return bad("sign operand out of range");
      s = w[1] == "f32" ? Dune::sign((float)std::ldexp(x.m.get_d(), (int)x.e)) : Dune::sign(std::ldexp(x.m.get_d(), (int)x.e));
      expect = x.m < 0 ? -1 : 1;
    }
    res.impl = std::to_string(s);
    if (s != expect) res.oracle = "FAIL sign wrong";
    return res;
  }
  if (op == "cls" && w.size() == 4) {
    const std::string& l = w[3];
    if (l.size() < 2 || l.front() != '[' || l.back() != ']') return bad();
    std::vector<unsigned long long> bits;
    std::string in = l.substr(1, l.size() - 2);
    bool f32 = w[2] == "f32";
    if (!f32 && w[2] != "f64") return bad();
    if (!in.empty())
      for (auto& h : split(in, ',')) {
        if (h.empty() || h.size() > 16) return bad();
        for (char c : h) if (!isxdigit((unsigned char)c)) return bad();
        unsigned long long b = std::stoull(h, nullptr, 16);
        if (f32 && b > 0xffffffffull) return bad();
        bits.push_back(b);
      }
    return f32 ? execCls<float, uint32_t>(w[1], true, bits) : execCls<double, uint64_t>(w[1], false, bits);
  }
  return bad("harness does not know op " + op);
}

// ------------------------------------------------------------------------------------------------
// generator
// ------------------------------------------------------------------------------------------------
struct GD {  // generator-side dyadic m * 2^e (not normalised)
  mpz_class m;
  long e;
};
static GD gAdd(const GD& a, const GD& b, int sgn = 1) {
  long e = std::min(a.e, b.e);
  mpz_class ma = a.m << (a.e - e), mb = b.m << (b.e - e);
  return GD{sgn > 0 ? mpz_class(ma + mb) : mpz_class(ma - mb), e};
}
static GD gMul(const GD& a, const GD& b) { return GD{a.m * b.m, a.e + b.e}; }
static GD gAbs(const GD& a) { return GD{abs(a.m), a.e}; }
static std::string gStr(const GD& a) {
  Dy d; d.m = a.m; d.e = a.e; normalise(d);
  return d.m.get_str(10) + ":" + std::to_string(d.e);
}
static Dy gDy(const GD& a) { Dy d; d.m = a.m; d.e = a.e; normalise(d); d.ok = true; return d; }

static GD genEps(Rng& r, bool f32) {
  switch (r.below(10)) {
    case 0: return GD{0, 0};
    case 1: return GD{1, 0};                                        // epsilon 1
    case 2: return GD{(long)r.range(2, 6), -(long)r.below(2)};      // epsilon >= 1
    case 3: return GD{1, -1};
    default: return GD{(long)r.range(1, 7), -(long)r.range(1, f32 ? 5 : 12)};
  }
}
static GD genX(Rng& r, bool f32) {
  long bits = f32 ? 5 : 10;
  long m = r.coin(1, 4) ? (long)r.range(1, 3) : (long)r.range(1, (1l << bits) - 1);
  if (r.coin()) m = -m;
  long e = f32 ? r.range(-4, 3) : r.range(-8, 8);
  if (r.coin(1, 12)) m = 0;
  return GD{m, e};
}
// (a,b) related through the tolerance threshold of the style
static void genPair(Rng& r, bool f32, int style, const GD& eps, GD& a, GD& b) {
  FT ft; parseFT(f32 ? "f32" : "f64", ft);
  for (int tries = 0; tries < 30; ++tries) {
    GD x = genX(r, f32), y;
    GD unit{1, -ft.ew};
    switch (r.below(8)) {
      case 0: y = x; break;
      case 1: case 2: case 3: {
        GD t = style == 2 ? eps : gMul(eps, gAbs(x));
        int which = (int)r.below(4);
        GD td = which == 0 ? t : which == 1 ? gAdd(t, unit) : which == 2 ? gAdd(t, unit, -1) : gAdd(t, t);
        y = gAdd(x, td, r.coin() ? 1 : -1);
        break;
      }
      case 4: y = gAdd(x, unit, r.coin() ? 1 : -1); break;
      case 5: y = r.coin() ? GD{-x.m, x.e} : GD{0, 0}; break;
      default: y = genX(r, f32); break;
    }
    if (!okVal(ft, gDy(x)) || !okVal(ft, gDy(y))) continue;
    if (r.coin()) { a = x; b = y; } else { a = y; b = x; }
    return;
  }
  a = GD{1, 0}; b = GD{1, 0};
}

static const std::vector<std::string> ITYPES = {"i32", "i64", "u32", "u64"};
static mpz_class typeMax(const std::string& t) {
  if (t == "i32") return (mpz_class(1) << 31) - 1;
  if (t == "i64") return (mpz_class(1) << 63) - 1;
  if (t == "u32") return (mpz_class(1) << 32) - 1;
  return (mpz_class(1) << 64) - 1;
}
// largest n with choose(n, k) <= max   (k >= 1)
static mpz_class maxNForK(const std::string& t, long k) {
  static std::map<std::string, mpz_class> cache;
  std::string key = t + ":" + std::to_string(k);
  auto it = cache.find(key);
  if (it != cache.end()) return it->second;
  mpz_class mx = typeMax(t), lo = 2 * k, hi = mx;
  if (chooseZ(lo, k) > mx) { cache[key] = -1; return -1; }
  while (lo < hi) {
    mpz_class mid = (lo + hi + 1) / 2;
    if (chooseZ(mid, k) <= mx) lo = mid; else hi = mid - 1;
  }
  cache[key] = lo;
  return lo;
}
// largest m >= 0 with m^p <= max
static mpz_class maxRoot(const std::string& t, long p) {
  mpz_class r;
  mpz_class mx = typeMax(t);
  mpz_root(r.get_mpz_t(), mx.get_mpz_t(), (unsigned long)p);
  return r;
}

static std::string genFloatBits(Rng& r, bool f32, int cls) {  // cls 0 finite, 1 inf, 2 nan
  unsigned long long sign = r.below(2), e, m;
  int eb = f32 ? 8 : 11, mb = f32 ? 23 : 52;
  unsigned long long emax = (1ull << eb) - 1, mmask = (1ull << mb) - 1;
  if (cls == 0) {
    switch (r.below(5)) {
      case 0: e = 0; m = r.coin() ? 0 : r.next() & mmask; break;         // zero / subnormal
      case 1: e = emax - 1; m = mmask; break;                             // largest finite
      default: e = r.below(emax); m = r.next() & mmask; break;
    }
  } else if (cls == 1) { e = emax; m = 0; }
  else { e = emax; m = r.coin() ? (1ull << (mb - 1)) : (r.next() & mmask); if (m == 0) m = 1; }
  unsigned long long b = (sign << (eb + mb)) | (e << mb) | m;
  char buf[32];
  std::snprintf(buf, sizeof buf, "%llx", b);
  return buf;
}

static std::string genInt(Rng& r) {
  std::ostringstream os;
  std::string t = r.pick(ITYPES);
  bool sg = t[0] == 'i';
  switch (r.below(10)) {
    case 0: {  // factorial
      long hi = t == "i32" || t == "u32" ? 14 : 23;
      os << "fact " << t << " " << (sg && r.coin(1, 8) ? -(long)r.range(1, 5) : (long)r.range(0, hi));
      return os.str();
    }
    case 1: case 2: case 3: {  // power
      std::string te = r.pick(ITYPES);
      long p = r.coin(1, 6) ? (long)r.range(0, 2) : (long)r.range(0, t == "i32" || t == "u32" ? 33 : 65);
      mpz_class m;
      if (p >= 1 && r.coin(2, 3)) m = maxRoot(t, p) + (long)r.range(-2, 1);
      else m = (long)r.range(0, 12);
      if (sg && r.coin()) m = -m - (r.coin(1, 4) ? 1 : 0);
      if (!sg && m < 0) m = 0;
      if (m > typeMax(t)) m = typeMax(t);
      if (sg && m < -typeMax(t) - 1) m = -typeMax(t) - 1;
      if (te[0] == 'i' && sg && r.coin(1, 12) && m != 0) p = -(long)r.range(1, 3);
      if (r.coin(1, 20)) { m = r.coin() ? 1 : (sg ? -1 : 0); p = (long)r.range(0, 3000); }
      os << "pow " << t << " " << te << " " << m.get_str(10) << " " << p;
      return os.str();
    }
    case 4: os << "sign " << t << " " << (sg ? (long)r.range(-3, 3) : (long)r.range(0, 3)); return os.str();
    case 5: if (r.coin(1, 50)) return "static"; [[fallthrough]];
    default: {  // binomial
      mpz_class n, k;
      int mode = (int)r.below(10);
      if (mode == 0) { n = (long)r.range(sg ? -3 : 0, 12); k = (long)r.range(sg ? -3 : 0, 14); }
      else if (mode <= 2) { n = (long)r.range(0, 70); k = (long)r.range(0, 70); if (k > n) std::swap(n, k); }
      else {
        long kk = mode <= 4 ? (long)r.range(1, 3) : (long)r.range(1, t == "i32" || t == "u32" ? 17 : 34);
        mpz_class nm = maxNForK(t, kk);
        if (nm < 0) { n = 2 * kk; } else n = nm + (long)r.range(-3, 1);
        if (n > typeMax(t)) n = typeMax(t);
        if (n < 0) n = 0;
        k = r.coin() ? mpz_class(kk) : mpz_class(n - kk);
        if (k < 0) k = 0;
      }
      os << "binom " << t << " " << n.get_str(10) << " " << k.get_str(10);
      return os.str();
    }
  }
}

static std::string genRT(Rng& r) {
  bool f32 = r.coin(1, 3);
  static const std::vector<std::string> IT = {"i32", "i64", "u32", "u64", "i32", "i64"};
  std::string it = r.pick(IT);
  int st = (int)r.below(3), rs = (int)r.below(4);
  GD eps;
  switch (r.below(8)) {
    case 0: eps = GD{0, 0}; break;
    case 1: eps = GD{1, -1}; break;
    case 2: eps = GD{(long)r.range(1, 3), 0}; break;
    default: eps = GD{(long)r.range(1, 3), -(long)r.range(1, f32 ? 5 : 10)}; break;
  }
  long nb = f32 ? 4 : 11;
  long n = r.coin(2, 3) ? (long)r.range(-6, 6) : (long)r.range(-(1l << nb), (1l << nb));
  long j = (long)r.range(1, f32 ? 6 : 12);
  GD f;
  GD half{1, -1}, tiny{1, -j};
  switch (r.below(9)) {
    case 0: f = GD{0, 0}; break;
    case 1: f = half; break;
    case 2: f = gAdd(half, tiny, r.coin() ? 1 : -1); break;
    case 3: f = tiny; break;
    case 4: f = gAdd(GD{1, 0}, tiny, -1); break;
    case 5: {  // tie boundary of the tolerant comparison of the two distances: |2f-1| ~ eps * scale
      GD h = GD{eps.m, eps.e - 1};
      f = gAdd(half, h, r.coin() ? 1 : -1);
      if (r.coin()) f = gAdd(f, GD{1, -(f32 ? 7 : 14)}, r.coin() ? 1 : -1);
      break;
    }
    case 6: f = eps; break;                                       // distance eps from the integer below
    case 7: f = gAdd(GD{1, 0}, eps, -1); break;                   // distance eps from the integer above
    default: f = GD{(long)r.range(0, (1l << j) - 1), -j}; break;
  }
  GD val = gAdd(GD{n, 0}, f);
  if (it[0] == 'u' && val.m < 0) val.m = -val.m;
  FT ft; parseFT(f32 ? "f32" : "f64", ft);
  if (!okVal(ft, gDy(val)) || !okEps(ft, gDy(eps))) { val = GD{n < 0 && it[0] == 'u' ? -n : n, 0}; val = gAdd(val, half); eps = GD{1, -3}; }
  std::ostringstream os;
  os << (r.coin() ? "round " : "trunc ") << (f32 ? "f32 " : "f64 ") << it << " " << STYLES[st] << " " << RSTYLES[rs] << " " << gStr(val) << " "
     << gStr(eps);
  return os.str();
}

static std::string genCmp(Rng& r, bool vec) {
  bool f32 = r.coin(1, 3);
  int st = (int)r.below(3);
  GD eps = genEps(r, f32);
  std::ostringstream os;
  if (!vec) {
    GD a, b;
    genPair(r, f32, st, eps, a, b);
    os << "cmp " << (f32 ? "f32 " : "f64 ") << STYLES[st] << " " << gStr(a) << " " << gStr(b) << " " << gStr(eps);
    return os.str();
  }
  bool stdv = r.coin();
  int n = stdv ? (int)r.range(0, 5) : (int)r.range(1, 4);
  std::vector<std::string> A, B;
  int differ = r.coin(1, 3) ? -1 : (int)r.below(n ? n : 1);  // mostly-equal vectors with one interesting component
  for (int i = 0; i < n; ++i) {
    GD a, b;
    genPair(r, f32, st, eps, a, b);
    if (i != differ && r.coin(2, 3)) b = a;
    A.push_back(gStr(a));
    B.push_back(gStr(b));
  }
  if (stdv && r.coin(1, 6)) { if (r.coin() && !A.empty()) A.pop_back(); else B.push_back("1:0"); }
  os << "cmpv " << (f32 ? "f32 " : "f64 ") << (stdv ? "std " : "fv ") << STYLES[st] << " " << listStr(A) << " " << listStr(B) << " " << gStr(eps);
  return os.str();
}

static std::string genLaws(Rng& r) {
  bool f32 = r.coin(1, 3);
  auto bitsOf = [&](int mode, unsigned long long base) -> unsigned long long {
    unsigned long long mask = f32 ? 0xffffffffull : ~0ull;
    unsigned long long top = f32 ? 0x7f7fffffull : 0x7fefffffffffffffull;
    unsigned long long signbit = f32 ? 0x80000000ull : 0x8000000000000000ull;
    unsigned long long x;
    switch (mode) {
      case 0: x = base; break;
      case 1: x = base + 1; break;
      case 2: x = base ? base - 1 : 0; break;
      case 3: x = base ^ signbit; break;
      case 4: x = r.coin() ? 0 : signbit; break;
      case 5: x = r.below(4); break;  // subnormals
      case 6: x = top - r.below(2); break;
      default: x = r.next() & mask; break;
    }
    x &= mask;
    if ((x & ~signbit) > top) x = (x & signbit) | (top - r.below(1000));  // keep finite
    return x;
  };
  unsigned long long a = bitsOf(7, 0), b = bitsOf((int)r.below(8), a);
  unsigned long long e;
  switch (r.below(8)) {
    case 0: e = 0; break;
    case 1: e = f32 ? 0x35800000ull : 0x3ce0000000000000ull; break;  // 8 * machine epsilon
    case 2: e = f32 ? 0x3f800000ull : 0x3ff0000000000000ull; break;  // 1
    case 3: e = f32 ? 0x7f7fffffull : 0x7fefffffffffffffull; break;
    case 4: e = 1; break;                                             // smallest subnormal
    default: e = bitsOf(7, 0) & (f32 ? 0x7fffffffull : 0x7fffffffffffffffull); break;
  }
  char buf[128];
  std::snprintf(buf, sizeof buf, "laws %s %s %llx %llx %llx", f32 ? "f32" : "f64", STYLES[r.below(3)], a, b, e);
  return buf;
}

static std::string genCls(Rng& r) {
  bool f32 = r.coin(1, 3);
  static const std::vector<std::string> KINDS = {"fv", "fv", "cx", "fvcx", "un"};
  std::string kind = r.pick(KINDS);
  int n = kind == "fv" ? (int)r.range(1, 4) : kind == "cx" || kind == "un" ? 2 : 2 * (int)r.range(1, 3);
  std::vector<std::string> v;
  int special = r.coin(1, 3) ? -1 : (int)r.below(n);  // often exactly one non-finite component
  for (int i = 0; i < n; ++i) {
    int c = i == special ? (int)r.range(1, 2) : (r.coin(1, 8) ? (int)r.range(1, 2) : 0);
    v.push_back(genFloatBits(r, f32, c));
  }
  return "cls " + kind + (f32 ? " f32 " : " f64 ") + listStr(v);
}

static int mfFiniteCode(long i) { return (int)(i < 120 ? i : i + 8); }  // i in [0,240): the finite codes in order

static const std::vector<std::string>& intAll(const std::string& tier) {
  static std::vector<std::string> v;
  if (!v.empty()) return v;
  bool full = tier == "thorough";
  v.push_back("static");
  for (auto& t : ITYPES) {
    bool sg = t[0] == 'i', w32 = t[1] == '3';
    for (long n = sg ? -3 : 0; n <= 25; ++n) v.push_back("fact " + t + " " + std::to_string(n));
    for (auto& ft : {std::string("f32"), std::string("f64")})
      for (auto& st : STYLES) v.push_back("defeps " + ft + " " + st);
    // binomial: every (n,k) with min(k,n-k) = kk >= kmin and a representable value, plus the first unrepresentable n
    long kmin = full ? (w32 ? 2 : 5) : (w32 ? 4 : 8);
    for (long kk = 0; kk <= 35; ++kk) {
      mpz_class nm = maxNForK(t, kk == 0 ? 1 : kk);
      if (kk == 0) nm = 40;
      if (nm < 0) break;
      mpz_class from = 2 * kk;
      if (kk < kmin && nm - from > 60) from = nm - 60;  // small kk: only the top of the range
      for (mpz_class n = from; n <= nm + 1 && n <= typeMax(t); ++n) {
        v.push_back("binom " + t + " " + n.get_str(10) + " " + std::to_string(kk));
        if (n - kk != kk) v.push_back("binom " + t + " " + n.get_str(10) + " " + mpz_class(n - kk).get_str(10));
      }
    }
    // extreme n with k at both ends of the row
    for (long dn = 0; dn <= 2; ++dn)
      for (long dk = 0; dk <= 2; ++dk) {
        mpz_class n = typeMax(t) - dn;
        v.push_back("binom " + t + " " + n.get_str(10) + " " + std::to_string(dk));
        v.push_back("binom " + t + " " + n.get_str(10) + " " + mpz_class(n - dk).get_str(10));
      }
    // small triangle incl. the arguments outside 0<=k<=n
    for (long n = sg ? -2 : 0; n <= 12; ++n)
      for (long k = sg ? -2 : 0; k <= 14; ++k) v.push_back("binom " + t + " " + std::to_string(n) + " " + std::to_string(k));
    // power: every (m,p) with p >= pmin and a representable value, plus the neighbours beyond
    long pmin = full ? (w32 ? 2 : 4) : (w32 ? 3 : 6);
    for (long p = 0; p <= (w32 ? 33 : 65); ++p) {
      mpz_class rt = p == 0 ? mpz_class(3) : maxRoot(t, p);
      mpz_class lo = sg ? mpz_class(-rt - 1) : mpz_class(0), hi = rt + 1;
      if (lo < -typeMax(t) - 1) lo = -typeMax(t) - 1;
      if (hi > typeMax(t)) hi = typeMax(t);
      if (p < pmin && rt > 40) {
        for (mpz_class m = rt - 20; m <= hi; ++m) v.push_back("pow " + t + " i32 " + m.get_str(10) + " " + std::to_string(p));
        if (sg) for (mpz_class m = lo; m <= -rt + 20; ++m) v.push_back("pow " + t + " i32 " + m.get_str(10) + " " + std::to_string(p));
        for (long m = -20; m <= 20; ++m) if (sg || m >= 0) v.push_back("pow " + t + " i32 " + std::to_string(m) + " " + std::to_string(p));
      } else {
        for (mpz_class m = lo; m <= hi; ++m) v.push_back("pow " + t + " u32 " + m.get_str(10) + " " + std::to_string(p));
      }
    }
  }
  return v;
}

std::string gen(Rng& r, long i, const Args& a) {
  std::string kind = a.gets("kind", "mix");
  long from = a.get("from", 0);
  long idx = from + i;
  if (kind == "mfall") {  // exhaustive: style x eps x a  (one row over all b per line)
    char buf[64];
    std::snprintf(buf, sizeof buf, "mfrow %s %d %d", STYLES[idx % 3], mfFiniteCode((idx / 3) % 240), (int)((idx / 720) % 120));
    return buf;
  }
  if (kind == "mfrall") {  // exhaustive: style x rstyle x val x eps
    char buf[96];
    std::snprintf(buf, sizeof buf, "mfr %s %s %d %d", STYLES[idx % 3], RSTYLES[(idx / 3) % 4], mfFiniteCode((idx / 12) % 240),
                  (int)((idx / 2880) % 120));
    return buf;
  }
  if (kind == "intall") {
    const auto& v = intAll(a.tier);
    return v[(size_t)idx % v.size()];
  }
  switch (r.below(20)) {
    case 0: case 1: case 2: case 3: case 4: return genCmp(r, false);
    case 5: case 6: return genCmp(r, true);
    case 7: case 8: case 9: case 10: return genRT(r);
    case 11: return genLaws(r);
    case 12: case 13: {
      char buf[64];
      std::snprintf(buf, sizeof buf, "mf %s %d %d %d", STYLES[r.below(3)], mfFiniteCode((long)r.below(240)), mfFiniteCode((long)r.below(240)),
                    (int)r.below(120));
      return buf;
    }
    case 14: {
      char buf[96];
      std::snprintf(buf, sizeof buf, "mfr %s %s %d %d", STYLES[r.below(3)], RSTYLES[r.below(4)], mfFiniteCode((long)r.below(240)), (int)r.below(120));
      return buf;
    }
    case 15: return genCls(r);
    case 16: {
      bool f32 = r.coin();
      std::ostringstream os;
      if (r.coin(1, 4)) { os << "sign " << (f32 ? "f32 " : "f64 ") << (r.coin(1, 3) ? std::string("nz") : gStr(GD{(long)r.range(-3, 3), (long)r.range(-90, 90)})); return os.str(); }
      long mb = r.coin() ? 1 : (long)r.range(1, 15);
      long p = (long)r.range(-12, 12);
      os << "powf " << (f32 ? "f32 " : "f64 ") << gStr(GD{r.coin() ? mb : -mb, (long)r.range(-6, 6)}) << " " << p;
      return os.str();
    }
    default: return genInt(r);
  }
}

int main(int argc, char** argv) {
  std::cout << std::unitbuf;
  Args a = parseArgs(argc, argv);
  std::vector<std::string> av(argv, argv + argc);
  std::string kind = a.gets("kind", "mix");
  long total = -1;
  if (kind == "mfall") total = 3l * 240 * 120;
  if (kind == "mfrall") total = 3l * 4 * 240 * 120;
  if (kind == "intall") total = (long)intAll(a.tier).size();
  if (total >= 0 && a.replay.empty()) {
    long want = a.cases <= 0 ? total - a.get("from", 0) : std::min(a.cases, total - a.get("from", 0));
    if (want < 0) want = 0;
    bool found = false;
    for (size_t i = 0; i + 1 < av.size(); ++i) if (av[i] == "--cases") { av[i + 1] = std::to_string(want); found = true; }
    if (!found) { av.push_back("--cases"); av.push_back(std::to_string(want)); }
  }
  std::vector<char*> cv;
  for (auto& s : av) cv.push_back(s.data());
  return run((int)cv.size(), cv.data(), gen, exec);
}
