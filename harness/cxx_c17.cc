// C17 correspondence harness: Dune::FloatCmp (eq..le, round, trunc, FloatCmpOps), power/factorial/binomial/sign and the
// isNaN/isInf/isFinite classifiers against the Lean model, with an independent oracle (GMP rationals / integers,
// the documented definitions and laws evaluated directly).
//
// Numbers travel as exact dyadics `m:e` (= m * 2^e); never as decimal floats.  Op lines: see lean/Driver/C17.lean.
#include <config.h>
#ifdef DV_C17_PROBE_ONLY
// compile probe (tools/checks/c17.py, `g++ -fsyntax-only -DDV_C17_PROBE_ONLY`): can FloatCmp::round / trunc be instantiated for
// std::vector and FieldVector in the tree under test?  If not, the harness is compiled with -DDV_C17_VECRT=0 and the ops
// fvround / fvtrunc answer FAIL (fixes/C17_vector_round_trunc.patch).
#include <vector>
#include <dune/common/float_cmp.hh>
#include <dune/common/fvector.hh>
void dv_c17_probe() {
  namespace FC = Dune::FloatCmp;
  std::vector<double> v{0.5};
  Dune::FieldVector<float, 2> f{0.5f, 1.5f};
  (void)FC::round<std::vector<int>, std::vector<double>, FC::absolute, FC::downward>(v, 0.1);
  (void)FC::trunc<std::vector<long>, std::vector<double>, FC::relativeWeak, FC::upward>(v, 0.1);
  (void)FC::round<Dune::FieldVector<int, 2>, Dune::FieldVector<float, 2>, FC::relativeStrong, FC::towardInf>(f, 0.1f);
  (void)FC::trunc<Dune::FieldVector<short, 2>, Dune::FieldVector<float, 2>, FC::absolute, FC::towardZero>(f, 0.1f);
  (void)Dune::FloatCmpOps<std::vector<double>>(0.1).round<std::vector<int>>(v);
}
#else
#ifndef DV_C17_VECRT
#define DV_C17_VECRT 1
#endif
#include <gmpxx.h>

#include <cmath>
#include <complex>
#include <cstring>
#include <limits>
#include <ostream>
#include <type_traits>

#include <dune/common/float_cmp.hh>
#include <dune/common/fvector.hh>
#include <dune/common/math.hh>

#include "hcommon.hh"

using namespace dv;
namespace FC = Dune::FloatCmp;

// ------------------------------------------------------------------------------------------------
// 8-bit IEEE-like minifloats: 1 sign, EB exponent, MB mantissa bits (EB + MB = 7), bias 2^(EB-1) - 1.  The value is kept as
// the double it denotes; every operation is the exact double operation (all of them are exact for these operands)
// followed by one rounding to the format (nearest, ties to even, overflow to infinity).
//   MF8  = <4,3>: largest number 240, non-integers below 8, smallest subnormal 2^-9
//   MF8B = <5,2>: largest number 57344 (so that T(255), the largest unsigned char, is finite), smallest subnormal 2^-16
// ------------------------------------------------------------------------------------------------
namespace mf {
template <int EB, int MB> struct F {
  static constexpr int bias = (1 << (EB - 1)) - 1, emin = 1 - bias, emax = bias, efield = (1 << EB) - 1;
  static double maxv() { return std::ldexp(2.0 - std::ldexp(1.0, -MB), emax); }
  static double rnd(double x) {
    if (std::isnan(x) || std::isinf(x) || x == 0) return x;
    int ex;
    std::frexp(std::fabs(x), &ex);
    int E = ex - 1;
    if (E < emin) E = emin;
    int u = E - MB;
    double q = std::ldexp(std::fabs(x), -u);
    double N = std::nearbyint(q);  // default rounding mode: to nearest, ties to even
    double mag = std::ldexp(N, u);
    if (mag > maxv()) mag = std::numeric_limits<double>::infinity();
    return std::copysign(mag, x);
  }
  static double value(unsigned code) {
    bool neg = (code >> 7) & 1;
    unsigned e = (code >> MB) & (unsigned)efield, m = code & ((1u << MB) - 1);
    double mag;
    if (e == (unsigned)efield) mag = m == 0 ? std::numeric_limits<double>::infinity() : std::numeric_limits<double>::quiet_NaN();
    else if (e == 0) mag = std::ldexp((double)m, emin - MB);
    else mag = std::ldexp((double)((1 << MB) + m), (int)e - bias - MB);
    return neg ? -mag : mag;
  }
  static bool finiteCode(unsigned c) { return c < 256 && ((c >> MB) & (unsigned)efield) != (unsigned)efield; }
  static constexpr int nFinite = 2 * (efield << MB);                 // number of finite codes (with both zeros)
  static int finiteIdx(long i) { return (int)(i < nFinite / 2 ? i : i + 128 - nFinite / 2); }   // i in [0,nFinite): the finite codes in order
};
inline double rnd(double x) { return F<4, 3>::rnd(x); }
// MFx is a complete arithmetic type (construction from / explicit conversion to every arithmetic type, + - * /,
// compound assignment, comparisons, abs, classification, std::numeric_limits) so that it keeps compiling whatever
// operations of T float_cmp.cc uses: a harness that no longer compiles cannot produce a failing input.
template <int EB, int MB> struct MFx {
  using Fm = F<EB, MB>;
  double v;
  constexpr MFx() : v(0) {}
  template <class A, std::enable_if_t<std::is_arithmetic<A>::value, int> = 0>
  MFx(A a) : v(Fm::rnd((double)a)) {}
  struct Raw {};
  constexpr MFx(double d, Raw) : v(d) {}
  template <class A, std::enable_if_t<std::is_arithmetic<A>::value, int> = 0>
  explicit operator A() const { return (A)v; }
  // hidden friends: found by ADL, and an arithmetic operand on the other side converts implicitly (`epsilon() * 8.`)
  friend MFx operator-(MFx a, MFx b) { return MFx(Fm::rnd(a.v - b.v), Raw{}); }
  friend MFx operator+(MFx a, MFx b) { return MFx(Fm::rnd(a.v + b.v), Raw{}); }
  friend MFx operator-(MFx a) { return MFx(-a.v, Raw{}); }
  friend MFx operator+(MFx a) { return a; }
  friend MFx operator*(MFx a, MFx b) { return MFx(Fm::rnd(a.v * b.v), Raw{}); }
  friend MFx operator/(MFx a, MFx b) { return MFx(Fm::rnd(a.v / b.v), Raw{}); }
  friend MFx& operator+=(MFx& a, MFx b) { return a = a + b; }
  friend MFx& operator-=(MFx& a, MFx b) { return a = a - b; }
  friend MFx& operator*=(MFx& a, MFx b) { return a = a * b; }
  friend MFx& operator/=(MFx& a, MFx b) { return a = a / b; }
  friend bool operator<(MFx a, MFx b) { return a.v < b.v; }
  friend bool operator>(MFx a, MFx b) { return a.v > b.v; }
  friend bool operator<=(MFx a, MFx b) { return a.v <= b.v; }
  friend bool operator>=(MFx a, MFx b) { return a.v >= b.v; }
  friend bool operator==(MFx a, MFx b) { return a.v == b.v; }
  friend bool operator!=(MFx a, MFx b) { return a.v != b.v; }
  friend MFx abs(MFx a) { return MFx(std::fabs(a.v), Raw{}); }
  friend MFx fabs(MFx a) { return abs(a); }
  friend bool isnan(MFx a) { return std::isnan(a.v); }
  friend bool isinf(MFx a) { return std::isinf(a.v); }
  friend bool isfinite(MFx a) { return std::isfinite(a.v); }
  friend std::ostream& operator<<(std::ostream& os, MFx a) { return os << a.v; }
};
using MF8 = MFx<4, 3>;
using MF8B = MFx<5, 2>;
inline MF8 decode(unsigned code) { return MF8(F<4, 3>::value(code), MF8::Raw{}); }
inline bool finiteCode(unsigned c) { return F<4, 3>::finiteCode(c); }
}  // namespace mf
namespace std {
template <int EB, int MB> struct numeric_limits<mf::MFx<EB, MB>> {
  using M = mf::MFx<EB, MB>;
  using Fm = mf::F<EB, MB>;
  static constexpr bool is_specialized = true, is_signed = true, is_integer = false, is_exact = false, has_infinity = true,
                        has_quiet_NaN = true, has_signaling_NaN = false, is_iec559 = false, is_bounded = true, is_modulo = false,
                        traps = false, tinyness_before = false, has_denorm_loss = false;
  static constexpr float_denorm_style has_denorm = denorm_present;
  static constexpr float_round_style round_style = round_to_nearest;
  static constexpr int digits = MB + 1, digits10 = 0, max_digits10 = 3, radix = 2, min_exponent = Fm::emin + 1, min_exponent10 = -1,
                       max_exponent = Fm::emax + 1, max_exponent10 = 2;
  static M min() { return M(std::ldexp(1.0, Fm::emin), typename M::Raw{}); }
  static M max() { return M(Fm::maxv(), typename M::Raw{}); }
  static M lowest() { return M(-Fm::maxv(), typename M::Raw{}); }
  static M epsilon() { return M(std::ldexp(1.0, -MB), typename M::Raw{}); }
  static M round_error() { return M(0.5, typename M::Raw{}); }
  static M denorm_min() { return M(std::ldexp(1.0, Fm::emin - MB), typename M::Raw{}); }
  static M infinity() { return M(numeric_limits<double>::infinity(), typename M::Raw{}); }
  static M quiet_NaN() { return M(numeric_limits<double>::quiet_NaN(), typename M::Raw{}); }
  static M signaling_NaN() { return quiet_NaN(); }
};
}  // namespace std

// ------------------------------------------------------------------------------------------------
// exact dyadics
// ------------------------------------------------------------------------------------------------
struct Dy {
  mpz_class m = 0;  // odd, or 0
  long e = 0;
  bool ok = false;
};
static void normalise(Dy& d) {
  if (d.m == 0) { d.e = 0; return; }
  while (mpz_even_p(d.m.get_mpz_t())) { d.m /= 2; d.e += 1; }
}
static Dy parseDy(const std::string& s) {
  Dy d;
  auto p = s.find(':');
  if (p == std::string::npos || p == 0 || p + 1 >= s.size()) return d;
  try {
    if (d.m.set_str(s.substr(0, p), 10) != 0) return d;
    size_t used = 0;
    d.e = std::stol(s.substr(p + 1), &used);
    if (used != s.size() - p - 1 || d.e < -100000 || d.e > 100000) return d;
  } catch (...) { return d; }
  normalise(d);
  d.ok = true;
  return d;
}
static long bitlen(const mpz_class& m) { return m == 0 ? 0 : (long)mpz_sizeinbase(m.get_mpz_t(), 2); }
static mpq_class toQ(const Dy& d) {
  mpq_class q(d.m);
  if (d.e >= 0) q *= mpq_class(mpz_class(1) << d.e);
  else q /= mpq_class(mpz_class(1) << (-d.e));
  return q;
}
static mpq_class pow2q(long e) {
  if (e >= 0) return mpq_class(mpz_class(1) << e);
  return mpq_class(1) / mpq_class(mpz_class(1) << (-e));
}
template <class T> struct FTr;
template <> struct FTr<float> { static constexpr const char* name = "f32"; };
template <> struct FTr<double> { static constexpr const char* name = "f64"; };
template <> struct FTr<long double> { static constexpr const char* name = "f80"; };
// exact rational value of a finite float / double / long double
template <class T> mpq_class qOf(T x) {
  if (x == 0) return 0;
  int ex;
  T f = std::frexp(x, &ex);      // |f| in [1/2, 1)
  T m = std::ldexp(f, 64);       // an integer below 2^64 in magnitude, exact
  bool neg = m < 0;
  if (neg) m = -m;
  unsigned long u = (unsigned long)m;
  mpz_class z;
  mpz_set_ui(z.get_mpz_t(), u);
  mpq_class q(z);
  q *= pow2q((long)ex - 64);
  return neg ? mpq_class(-q) : q;
}
// the value m * 2^e in T (rounded by the conversion if it is not a value of T: see representable)
template <class T> T toT(const Dy& d) {
  mpz_class a = abs(d.m);
  if (bitlen(a) > 64) return std::numeric_limits<T>::quiet_NaN();
  unsigned long u = mpz_get_ui(a.get_mpz_t());
  T x = std::ldexp((T)u, (int)d.e);
  return d.m < 0 ? -x : x;
}
template <class T> bool representable(const Dy& d) {
  if (d.e < -40000 || d.e > 40000) return false;
  T x = toT<T>(d);
  return std::isfinite(x) && qOf<T>(x) == toQ(d);
}
// exact dyadic string of a finite floating value
template <class T> std::string dyStr(T x) {
  mpq_class q = qOf<T>(x);
  Dy d;
  d.m = q.get_num();
  d.e = -(bitlen(q.get_den()) - 1);
  normalise(d);
  return d.m.get_str(10) + ":" + std::to_string(d.e);
}

struct FT { long mb, me, ew, prec; };
static bool parseFT(const std::string& t, FT& ft) {
  if (t == "f32") { ft = FT{12, 12, 11, 24}; return true; }
  if (t == "f64") { ft = FT{26, 26, 26, 53}; return true; }
  return false;
}
static bool okVal(const FT& ft, const Dy& d) {
  if (d.m == 0) return true;
  long bl = bitlen(d.m);
  return bl <= ft.mb && -ft.ew <= d.e && d.e + bl <= ft.ew;
}
static bool okEps(const FT& ft, const Dy& d) {
  if (d.m == 0) return true;
  long bl = bitlen(d.m);
  return d.m > 0 && bl <= ft.me && -60 <= d.e && d.e + bl <= 20;
}

static const char* STYLES[] = {"relativeWeak", "relativeStrong", "absolute"};
static const char* RSTYLES[] = {"towardZero", "towardInf", "downward", "upward"};
static int styleIdx(const std::string& s) { for (int i = 0; i < 3; ++i) if (s == STYLES[i]) return i; return -1; }
static int rstyleIdx(const std::string& s) { for (int i = 0; i < 4; ++i) if (s == RSTYLES[i]) return i; return -1; }
static constexpr FC::CmpStyle CS[] = {FC::relativeWeak, FC::relativeStrong, FC::absolute};
static constexpr FC::RoundingStyle RS[] = {FC::towardZero, FC::towardInf, FC::downward, FC::upward};

template <class F> auto withStyle(int s, F&& f) {
  switch (s) {
    case 0: return f(std::integral_constant<int, 0>{});
    case 1: return f(std::integral_constant<int, 1>{});
    default: return f(std::integral_constant<int, 2>{});
  }
}
template <class F> auto withRStyle(int s, F&& f) {
  switch (s) {
    case 0: return f(std::integral_constant<int, 0>{});
    case 1: return f(std::integral_constant<int, 1>{});
    case 2: return f(std::integral_constant<int, 2>{});
    default: return f(std::integral_constant<int, 3>{});
  }
}

static std::string bs(bool b) { return b ? "true" : "false"; }
struct Six {
  bool eq, ne, lt, gt, le, ge;
  std::string str() const {
    return "eq=" + bs(eq) + " ne=" + bs(ne) + " lt=" + bs(lt) + " gt=" + bs(gt) + " le=" + bs(le) + " ge=" + bs(ge);
  }
  bool operator==(const Six& o) const { return eq == o.eq && ne == o.ne && lt == o.lt && gt == o.gt && le == o.le && ge == o.ge; }
};
template <class T, FC::CmpStyle cs, class E> Six sixOf(const T& a, const T& b, E eps) {
  return Six{FC::eq<T, cs>(a, b, eps), FC::ne<T, cs>(a, b, eps), FC::lt<T, cs>(a, b, eps),
             FC::gt<T, cs>(a, b, eps), FC::le<T, cs>(a, b, eps), FC::ge<T, cs>(a, b, eps)};
}
// the algebraic laws of the property on one pair of results (r = (a,b), sw = (b,a))
static std::string lawCheck(const Six& r, const Six& sw) {
  if (r.eq != sw.eq) return "eq is not symmetric";
  if (r.ne != !r.eq) return "ne is not the negation of eq";
  if ((int)r.lt + (int)r.eq + (int)r.gt != 1) return "not exactly one of lt/eq/gt holds";
  if (r.le != (r.lt || r.eq)) return "le differs from lt||eq";
  if (r.ge != (r.gt || r.eq)) return "ge differs from gt||eq";
  if (r.lt != sw.gt || r.gt != sw.lt) return "lt(a,b) differs from gt(b,a)";
  return "";
}

// documented definition of eq, exact rational arithmetic
static bool eqDoc(int style, const mpq_class& a, const mpq_class& b, const mpq_class& eps) {
  mpq_class d = abs(a - b);
  mpq_class aa = abs(a), ab = abs(b);
  if (style == 0) return d <= eps * (aa < ab ? ab : aa);
  if (style == 1) return d <= eps * (aa < ab ? aa : ab);
  return d <= eps;
}
static Six sixDoc(int style, const mpq_class& a, const mpq_class& b, const mpq_class& eps) {
  bool e = eqDoc(style, a, b, eps);
  return Six{e, !e, !e && a < b, !e && a > b, e || a < b, e || a > b};
}

// ------------------------------------------------------------------------------------------------
// cmp / cmpv / laws
// ------------------------------------------------------------------------------------------------
template <class T> Result execCmp(int style, const Dy& da, const Dy& db, const Dy& de) {
  Result res;
  T a = toT<T>(da), b = toT<T>(db), eps = toT<T>(de);
  mpq_class A = toQ(da), B = toQ(db), E = toQ(de);
  // the domain predicate promises exact intermediates; re-check that promise
  if (qOf<T>(a) != A || qOf<T>(b) != B || qOf<T>(eps) != E || qOf<T>(a - b) != A - B ||
      qOf<T>(eps * std::max(std::abs(a), std::abs(b))) != E * std::max(abs(A), abs(B))) {
    res.impl = "skip";
    res.oracle = "FAIL harness: operands promised exact are not";
    return res;
  }
  Six r{}, sw{}, viaOps{}, viaSet{};
  bool getterOk = true;
  withStyle(style, [&](auto S) {
    constexpr FC::CmpStyle cs = CS[decltype(S)::value];
    r = sixOf<T, cs>(a, b, eps);
    sw = sixOf<T, cs>(b, a, eps);
    Dune::FloatCmpOps<T, cs> ops(eps);
    viaOps = Six{ops.eq(a, b), ops.ne(a, b), ops.lt(a, b), ops.gt(a, b), ops.le(a, b), ops.ge(a, b)};
    Dune::FloatCmpOps<T, cs> ops2;  // default epsilon, then set
    ops2.epsilon(eps);
    viaSet = Six{ops2.eq(a, b), ops2.ne(a, b), ops2.lt(a, b), ops2.gt(a, b), ops2.le(a, b), ops2.ge(a, b)};
    getterOk = ops.epsilon() == eps && ops2.epsilon() == eps;
    return 0;
  });
  res.impl = r.str();
  Six doc = sixDoc(style, A, B, E);
  if (!(r == doc)) res.oracle = "FAIL differs from the documented definition: expected " + doc.str();
  else if (!(viaOps == r)) res.oracle = "FAIL FloatCmpOps members differ from the free functions: " + viaOps.str();
  else if (!(viaSet == r) || !getterOk) res.oracle = "FAIL FloatCmpOps::epsilon(e) / epsilon() do not set / return the epsilon in use";
  else {
    std::string l = lawCheck(r, sw);
    if (!l.empty()) res.oracle = "FAIL " + l;
  }
  if (style == 0 && res.oracle == "ok") {  // overloads without explicit style use the default style relativeWeak
    Six d{FC::eq(a, b, eps), FC::ne(a, b, eps), FC::lt(a, b, eps), FC::gt(a, b, eps), FC::le(a, b, eps), FC::ge(a, b, eps)};
    if (!(d == r)) res.oracle = "FAIL default-style overloads differ from relativeWeak";
  }
  stat(std::string("cmp_eq_") + (r.eq ? "true" : "false"));
  {  // how close to the threshold of the documented definition was this case?
    mpq_class aa = abs(A), ab = abs(B), D = abs(A - B);
    mpq_class tolq = style == 2 ? E : E * (style == 0 ? (aa < ab ? ab : aa) : (aa < ab ? aa : ab));
    if (D == tolq) stat(D == 0 ? "cmp_at_threshold_zero" : "cmp_at_threshold");
    else if (abs(D - tolq) * 1024 <= tolq) stat("cmp_near_threshold");
    if (E >= 1) stat("cmp_eps_ge_1");
    if (E == 0) stat("cmp_eps_zero");
    if ((A < 0) != (B < 0)) stat("cmp_opposite_signs");
    if (A == 0 || B == 0) stat("cmp_with_zero");
  }
  return res;
}

static bool parseDyList(const std::string& s, std::vector<Dy>& out) {
  if (s.size() < 2 || s.front() != '[' || s.back() != ']') return false;
  std::string in = s.substr(1, s.size() - 2);
  if (in.empty()) return true;
  for (auto& w : split(in, ',')) {
    Dy d = parseDy(w);
    if (!d.ok) return false;
    out.push_back(d);
  }
  return true;
}

template <class T, int n, int st>
void fvEq(const std::vector<T>& a, const std::vector<T>& b, T eps, bool& eq, bool& ne, bool& eqsw) {
  Dune::FieldVector<T, n> fa, fb;
  for (int i = 0; i < n; ++i) { fa[i] = a[i]; fb[i] = b[i]; }
  constexpr FC::CmpStyle cs = CS[st];
  eq = FC::eq<Dune::FieldVector<T, n>, cs>(fa, fb, eps);
  ne = FC::ne<Dune::FieldVector<T, n>, cs>(fa, fb, eps);
  eqsw = FC::eq<Dune::FieldVector<T, n>, cs>(fb, fa, eps);
  Dune::FloatCmpOps<Dune::FieldVector<T, n>, cs> ops(eps);
  if (ops.eq(fa, fb) != eq || ops.ne(fa, fb) != ne) eqsw = !eq;  // reported as asymmetry below
}

template <class T> Result execCmpV(const std::string& kind, int style, const std::vector<Dy>& da, const std::vector<Dy>& db, const Dy& de) {
  Result res;
  std::vector<T> a, b;
  std::vector<mpq_class> A, B;
  for (auto& d : da) { a.push_back(toT<T>(d)); A.push_back(toQ(d)); }
  for (auto& d : db) { b.push_back(toT<T>(d)); B.push_back(toQ(d)); }
  T eps = toT<T>(de);
  mpq_class E = toQ(de);
  // oracle: conjunction over components of the documented scalar definition (sizes must agree)
  bool eqd = A.size() == B.size();
  for (size_t i = 0; eqd && i < A.size(); ++i) eqd = eqDoc(style, A[i], B[i], E);
  stat("cmpv_" + kind + "_n" + std::to_string(a.size()));
  if (kind == "std") {
    using V = std::vector<T>;
    Six r{}, sw{};
    withStyle(style, [&](auto S) {
      constexpr FC::CmpStyle cs = CS[decltype(S)::value];
      r = sixOf<V, cs>(a, b, eps);
      sw = sixOf<V, cs>(b, a, eps);
      return 0;
    });
    res.impl = r.str();
    bool lexlt = std::lexicographical_compare(A.begin(), A.end(), B.begin(), B.end());
    bool lexgt = std::lexicographical_compare(B.begin(), B.end(), A.begin(), A.end());
    Six doc{eqd, !eqd, !eqd && lexlt, !eqd && lexgt, eqd || lexlt, eqd || lexgt};
    if (r.eq != eqd) res.oracle = "FAIL vector eq is not the conjunction over the components";
    else if (!(r == doc)) res.oracle = "FAIL differs from the documented definition: expected " + doc.str();
    else {
      std::string l = lawCheck(r, sw);
      if (!l.empty()) res.oracle = "FAIL " + l;
    }
    return res;
  }
  if (kind == "fv") {
    size_t n = a.size();
    if (n != b.size() || n < 1 || n > 4) { res.impl = "bad-op"; res.oracle = "FAIL malformed line"; return res; }
    bool eq = false, ne = false, eqsw = false;
    withStyle(style, [&](auto S) {
      constexpr int st = decltype(S)::value;
      switch (n) {
        case 1: fvEq<T, 1, st>(a, b, eps, eq, ne, eqsw); break;
        case 2: fvEq<T, 2, st>(a, b, eps, eq, ne, eqsw); break;
        case 3: fvEq<T, 3, st>(a, b, eps, eq, ne, eqsw); break;
        default: fvEq<T, 4, st>(a, b, eps, eq, ne, eqsw); break;
      }
      return 0;
    });
    res.impl = "eq=" + bs(eq) + " ne=" + bs(ne);
    if (eq != eqd) res.oracle = "FAIL vector eq is not the conjunction over the components";
    else if (ne != !eq) res.oracle = "FAIL ne is not the negation of eq";
    else if (eqsw != eq) res.oracle = "FAIL eq is not symmetric / FloatCmpOps differs";
    return res;
  }
  res.impl = "bad-op";
  res.oracle = "FAIL malformed line";
  return res;
}

// arbitrary finite bit patterns: only the algebraic laws are decided (the rational model does not apply)
template <class T, class U> Result execLaws(int style, const std::string& ha, const std::string& hb, const std::string& he) {
  Result res;
  res.impl = "n/a";
  auto conv = [](const std::string& h) { U u = (U)std::stoull(h, nullptr, 16); T x; std::memcpy(&x, &u, sizeof x); return x; };
  T a = conv(ha), b = conv(hb), eps = conv(he);
  if (!std::isfinite(a) || !std::isfinite(b) || !std::isfinite(eps) || std::signbit(eps)) { res.oracle = "ok trivial"; return res; }
  Six r{}, sw{};
  withStyle(style, [&](auto S) {
    constexpr FC::CmpStyle cs = CS[decltype(S)::value];
    r = sixOf<T, cs>(a, b, eps);
    sw = sixOf<T, cs>(b, a, eps);
    return 0;
  });
  std::string l = lawCheck(r, sw);
  if (!l.empty()) res.oracle = "FAIL " + l + " (" + r.str() + ")";
  return res;
}

// ------------------------------------------------------------------------------------------------
// round / trunc
// ------------------------------------------------------------------------------------------------
static mpz_class floorQ(const mpq_class& q) {
  mpz_class f;
  mpz_fdiv_q(f.get_mpz_t(), q.get_num_mpz_t(), q.get_den_mpz_t());
  return f;
}
static mpz_class truncQ(const mpq_class& q) {
  mpz_class f;
  mpz_tdiv_q(f.get_mpz_t(), q.get_num_mpz_t(), q.get_den_mpz_t());
  return f;
}

// laws for r = round(x): see Props/C17.lean round_within / round_nearest / round_tie
static std::string roundLaws(int style, int rstyle, const mpq_class& x, const mpq_class& eps, const mpz_class& r) {
  mpq_class R(r);
  mpq_class dist = abs(R - x);
  if (dist >= 1) return "result is not within distance 1 of the argument";
  bool snapped = eqDoc(style, R, x, eps);
  if (!snapped && dist > mpq_class(1, 2) + eps / 2) return "result farther than 1/2 + epsilon/2 and not equal within epsilon";
  mpz_class l = floorQ(x);
  if (mpq_class(l) == x) return r == l ? "" : "integer argument not returned unchanged";
  if (eqDoc(style, mpq_class(truncQ(x)), x, eps)) return "";   // argument equals its integer part within epsilon
  mpq_class p = x - mpq_class(l), q = mpq_class(l + 1) - x;
  bool tie = eqDoc(style, p, q, eps);
  int dir = rstyle;  // 2 down, 3 up
  if (rstyle == 0) dir = x > 0 ? 2 : 3;
  if (rstyle == 1) dir = x > 0 ? 3 : 2;
  mpz_class expect = tie ? (dir == 2 ? l : mpz_class(l + 1)) : (p < q ? l : mpz_class(l + 1));
  if (r != expect) return tie ? "tie within epsilon not resolved in the documented direction" : "result is not the nearest integer";
  return "";
}
// the integer target type as the oracles see it
struct IRange {
  mpz_class lo, hi;
  bool uns;
  bool has(const mpz_class& v) const { return lo <= v && v <= hi; }
};
// `unrep` is set when the documented result is not a value of the target type (argument in (-1,0) truncated downward to an
// unsigned type, or upward while equal to -1 within epsilon; argument beyond the largest value truncated upward; ...):
// nothing is required then.  Otherwise the laws hold as they stand; `r` is the integer the returned value stands for (resultZ):
// e.g. an argument in (-1,0) truncated upward to an unsigned type must give 0 = floor+1, and r = -1 means that the code
// returned the largest value of the type
static std::string truncLaws(int style, int rstyle, const IRange& ir, const mpq_class& x, const mpq_class& eps, const mpz_class& r, const mpz_class& raw, bool& unrep, bool& byGuard) {
  const bool uns = ir.uns;
  mpz_class l = floorQ(x);
  unrep = false;
  byGuard = false;
  if (uns && eqDoc(style, x, 0, eps)) {  // unsigned target: an argument equal to 0 within epsilon gives 0 (the returned value itself)
    byGuard = true;
    return raw == 0 ? "" : "unsigned target: argument equal to 0 within epsilon did not give 0";
  }
  int dir = rstyle;
  if (rstyle == 0) dir = x > 0 ? 2 : 3;
  if (rstyle == 1) dir = x > 0 ? 3 : 2;
  bool eqL = eqDoc(style, mpq_class(l), x, eps), eqU = eqDoc(style, mpq_class(l + 1), x, eps);
  {  // the documented result (Props/C17.lean trunc_downward_spec / trunc_upward_spec)
    mpz_class D = mpq_class(l) == x ? l : eqU ? mpz_class(l + 1) : dir == 2 ? l : eqL ? l : mpz_class(l + 1);
    if (!ir.has(D)) { unrep = true; return ""; }
  }
  if (r != l && r != l + 1) return "result is neither floor nor floor+1 of the argument";
  if (mpq_class(l) == x) return r == l ? "" : "integer argument not returned unchanged";
  if (dir == 2) {
    if (r == l + 1 && !eqU) return "downward: result above the argument without being equal within epsilon";
    if (r == l && eqU) return "downward: argument equal to the next integer within epsilon, but not snapped to it";
  } else {
    if (r == l && !eqL)
      return !ir.has(l) ? "upward: the integer below the argument is not a value of the target type: the result must be the integer above, got the one below wrapped around"
                        : "upward: result below the argument without being equal within epsilon";
    if (r == l + 1 && mpq_class(l) == x && !eqU) return "upward: integer argument moved away";
    if (r == l + 1 && eqL && !eqU) return "upward: argument equal to the integer below within epsilon, but not snapped to it";
  }
  return "";
}

// the largest value of an integer type
template <class I> mpz_class maxOfI() { return mpz_class(std::to_string(std::numeric_limits<I>::max())); }
template <class I> constexpr int bitsOfI() { return std::numeric_limits<I>::digits + (std::numeric_limits<I>::is_signed ? 1 : 0); }
// int and wider signed types: overflow is undefined, the harness keeps two values away from the ends of the range;
// all other types reduce modulo 2^bits (well defined) and are exercised up to the ends
template <class I> constexpr bool wideSigned() { return std::numeric_limits<I>::is_signed && bitsOfI<I>() >= 32; }
template <class I> IRange rangeOfI() {
  IRange ir;
  ir.uns = !std::numeric_limits<I>::is_signed;
  ir.hi = maxOfI<I>();
  ir.lo = ir.uns ? mpz_class(0) : mpz_class(-ir.hi - 1);
  return ir;
}
// the integer a returned value stands for: unsigned and narrow types reduce modulo 2^bits, so it is the integer congruent
// to r that is nearest to the argument (for an argument in (-1,0) the largest unsigned value stands for -1, for an
// argument above the largest value 0 stands for max+1, ...)
template <class I> mpz_class resultZ(I r, const mpq_class& x) {
  mpz_class R(std::to_string(r));
  if (!wideSigned<I>()) {
    mpz_class m = mpz_class(1) << bitsOfI<I>();
    mpz_class k = floorQ((x - mpq_class(R)) / mpq_class(m) + mpq_class(1, 2));
    R += k * m;
  }
  return R;
}
// domain of round / trunc in terms of tr = I(val) as an integer: I(val) must be a value of I; int and wider signed types
// additionally keep lower-1 and upper+1 inside the type (signed overflow is undefined behaviour)
template <class I> bool rtDomain(const mpz_class& tr) {
  IRange ir = rangeOfI<I>();
  if (wideSigned<I>()) return -(ir.hi - 2) <= tr && tr <= ir.hi - 2;
  return ir.has(tr);
}
// which branch of the rounding algorithm does the (exact) argument take?  counters only
static void rtBranchStats(bool isRound, int style, const mpq_class& x, const mpq_class& eps) {
  mpz_class l;
  mpz_fdiv_q(l.get_mpz_t(), x.get_num_mpz_t(), x.get_den_mpz_t());
  mpz_class t;
  mpz_tdiv_q(t.get_mpz_t(), x.get_num_mpz_t(), x.get_den_mpz_t());
  if (mpq_class(l) == x) { stat(isRound ? "round_arg_integer" : "trunc_arg_integer"); }
  if (isRound) {
    if (eqDoc(style, mpq_class(t), x, eps)) { stat("round_branch_equals_integer_part"); return; }
    mpq_class pp = x - l, qq = l + 1 - x;
    if (eqDoc(style, pp, qq, eps)) stat(pp == qq ? "round_branch_exact_tie" : "round_branch_tie_within_eps");
    else stat("round_branch_nearest");
  } else {
    bool eqL = eqDoc(style, mpq_class(l), x, eps), eqU = eqDoc(style, mpq_class(l + 1), x, eps);
    if (eqU) stat("trunc_branch_snap_up");
    else if (eqL) stat("trunc_branch_near_below");
    else stat("trunc_branch_plain");
  }
}

// calls round / trunc through every overload that applies and through FloatCmpOps; `dflt` = the epsilon argument is omitted
template <class T, class I, FC::CmpStyle cs, FC::RoundingStyle rs, class E = T>
I callRT(bool isRound, bool dflt, const T& val, E eps, std::string& ovl) {
  I r;
  auto same = [&](I other, const char* what) { if (other != r && ovl.empty()) ovl = what; };
  if (dflt) {
    r = isRound ? FC::round<I, T, cs, rs>(val) : FC::trunc<I, T, cs, rs>(val);
    Dune::FloatCmpOps<T, cs, rs> ops;
    same(isRound ? ops.template round<I>(val) : ops.template trunc<I>(val), "default-constructed FloatCmpOps member differs from the free function");
    if (!(ops.epsilon() == eps)) ovl = "default-constructed FloatCmpOps does not hold the default epsilon";
    if constexpr (cs == FC::defaultCmpStyle)
      same(isRound ? FC::round<I, T, rs>(val) : FC::trunc<I, T, rs>(val), "overload without comparison style differs (default epsilon)");
    if constexpr (rs == FC::defaultRoundingStyle)
      same(isRound ? FC::round<I, T, cs>(val) : FC::trunc<I, T, cs>(val), "overload without rounding style differs (default epsilon)");
    if constexpr (cs == FC::defaultCmpStyle && rs == FC::defaultRoundingStyle)
      same(isRound ? FC::round<I, T>(val) : FC::trunc<I, T>(val), "overload without styles differs (default epsilon)");
  } else {
    r = isRound ? FC::round<I, T, cs, rs>(val, eps) : FC::trunc<I, T, cs, rs>(val, eps);
    Dune::FloatCmpOps<T, cs, rs> ops(eps);
    same(isRound ? ops.template round<I>(val) : ops.template trunc<I>(val), "FloatCmpOps member differs from the free function");
    Dune::FloatCmpOps<T, cs, rs> ops2;
    ops2.epsilon(eps);
    same(isRound ? ops2.template round<I>(val) : ops2.template trunc<I>(val), "FloatCmpOps::epsilon(e) does not set the epsilon in use");
    if constexpr (cs == FC::defaultCmpStyle)
      same(isRound ? FC::round<I, T, rs>(val, eps) : FC::trunc<I, T, rs>(val, eps), "overload without comparison style differs");
    if constexpr (rs == FC::defaultRoundingStyle)
      same(isRound ? FC::round<I, T, cs>(val, eps) : FC::trunc<I, T, cs>(val, eps), "overload without rounding style differs");
    if constexpr (cs == FC::defaultCmpStyle && rs == FC::defaultRoundingStyle)
      same(isRound ? FC::round<I, T>(val, eps) : FC::trunc<I, T>(val, eps), "overload without styles differs");
  }
  return r;
}
template <class T, class I> I callRTdyn(bool isRound, int style, int rstyle, bool dflt, const T& val, T eps, std::string& ovl) {
  I r = 0;
  withStyle(style, [&](auto S) {
    constexpr FC::CmpStyle cs = CS[decltype(S)::value];
    return withRStyle(rstyle, [&](auto R) {
      constexpr FC::RoundingStyle rs = RS[decltype(R)::value];
      r = callRT<T, I, cs, rs>(isRound, dflt, val, eps, ovl);
      return 0;
    });
  });
  return r;
}

template <class T, class I> Result execRT(bool isRound, int style, int rstyle, const Dy& dv_, const Dy& de) {
  Result res;
  T val = toT<T>(dv_), eps = toT<T>(de);
  mpq_class X = toQ(dv_), E = toQ(de);
  std::string ovl;
  I r = callRTdyn<T, I>(isRound, style, rstyle, false, val, eps, ovl);
  res.impl = std::to_string(r);
  mpz_class R = resultZ<I>(r, X);
  bool unrep = false, byGuard = false;
  const IRange ir = rangeOfI<I>();
  std::string l = isRound ? roundLaws(style, rstyle, X, E, R) : truncLaws(style, rstyle, ir, X, E, R, mpz_class(std::to_string(r)), unrep, byGuard);
  if (!l.empty()) res.oracle = "FAIL " + l;
  else if (!ovl.empty()) res.oracle = "FAIL " + ovl;
  else if (unrep || (!ir.has(R) && !byGuard)) res.oracle = "ok trivial";  // the documented integer is not a value of I
  // trunc, unsigned target, documented result -1: what the code returns there is not behaviour the property talks about; it is
  // not compared with the model either (the driver evaluates the same predicate and prints `unrep`)
  if (unrep && l.empty()) res.impl = "unrep";
  stat(std::string(isRound ? "round_" : "trunc_") + RSTYLES[rstyle]);
  if (!std::numeric_limits<I>::is_signed && X < 0) {
    stat(std::string(isRound ? "round" : "trunc") + "_unsigned_arg_in_(-1,0)");
    if (res.oracle == "ok") stat(std::string(isRound ? "round" : "trunc") + "_unsigned_arg_in_(-1,0)_result_0_required");
  }
  if (X > mpq_class(ir.hi) || X < mpq_class(ir.lo)) {
    stat(std::string(isRound ? "round" : "trunc") + "_arg_beyond_range_end");
    if (res.oracle == "ok") stat(std::string(isRound ? "round" : "trunc") + "_arg_beyond_range_end_decided");
  }
  rtBranchStats(isRound, style, X, E);
  return res;
}

// ------------------------------------------------------------------------------------------------
// the same operations on ARBITRARY finite values of float / double / long double (op kinds fcmp, fcmpv, fround, ftrunc):
// the Lean model evaluates them in the rounding arithmetic of the format, so the answers are compared bit for bit;
// the oracle decides the documented definitions "up to rounding" (three-valued) and the algebraic laws exactly.
// ------------------------------------------------------------------------------------------------
struct EpsArg {
  bool ok = false, dflt = false;
  Dy d;
};
static EpsArg parseEps(const std::string& s) {
  EpsArg e;
  if (s == "def") { e.ok = e.dflt = true; return e; }
  e.d = parseDy(s);
  e.ok = e.d.ok;
  return e;
}
// documented default epsilon, written down independently of float_cmp.cc
template <class T> T docDefaultEps(int style) {
  return style == 2 ? std::max<T>(std::numeric_limits<T>::epsilon(), (T)1e-6) : (T)(std::numeric_limits<T>::epsilon() * 8);
}

// tolerant equality up to rounding: 1 = true however the operations round, 0 = false however they round, -1 = open.
// The code compares fl(|a-b|) with fl(eps * max/min(|a|,|b|)): one rounding on each side (relative error below 2^(1-p),
// absolute error below the smallest subnormal).  absErr: additional absolute uncertainty of a and b themselves.
template <class T> int eqSlack(int style, const mpq_class& a, const mpq_class& b, const mpq_class& eps, const mpq_class& absErr = 0) {
  static const mpq_class u = pow2q(2 - std::numeric_limits<T>::digits);
  static const mpq_class eta = qOf<T>(std::numeric_limits<T>::denorm_min());
  static const mpq_class big = qOf<T>(std::numeric_limits<T>::max());
  mpq_class D = abs(a - b), aa = abs(a), ab = abs(b);
  mpq_class M = style == 0 ? (aa < ab ? ab : aa) : style == 1 ? (aa < ab ? aa : ab) : mpq_class(1);
  mpq_class TOL = eps * M, tolErr = style == 2 ? mpq_class(0) : mpq_class(eps * absErr);
  if (D >= big || TOL >= big) return -1;
  if (D == 0 && absErr == 0) return 1;  // 0 <= eps * anything for eps >= 0
  mpq_class lo = (TOL - tolErr) * (1 - u) - eta, hi = (TOL + tolErr) * (1 + u) + eta;
  if (D * (1 + u) + 2 * absErr <= lo) return 1;
  if (D * (1 - u) - 2 * absErr > hi) return 0;
  return -1;
}

template <class T, FC::CmpStyle cs> Six sixDefault(const T& a, const T& b) {
  return Six{FC::eq<T, cs>(a, b), FC::ne<T, cs>(a, b), FC::lt<T, cs>(a, b), FC::gt<T, cs>(a, b), FC::le<T, cs>(a, b), FC::ge<T, cs>(a, b)};
}

template <class T> Result execFCmp(int style, const Dy& da, const Dy& db, const EpsArg& ea) {
  Result res;
  if (!representable<T>(da) || !representable<T>(db) || (!ea.dflt && (!representable<T>(ea.d) || ea.d.m < 0)))
    return Result{"bad-op", "FAIL malformed line: operand is not a (non-negative, for epsilon) value of the type"};
  T a = toT<T>(da), b = toT<T>(db);
  T eps = ea.dflt ? docDefaultEps<T>(style) : toT<T>(ea.d);
  mpq_class A = toQ(da), B = toQ(db), E = qOf<T>(eps);
  Six r{}, sw{}, viaOps{}, viaSet{}, dfl{};
  bool getterOk = true, defEpsOk = true;
  withStyle(style, [&](auto S) {
    constexpr FC::CmpStyle cs = CS[decltype(S)::value];
    using V = T;
    if (ea.dflt) {
      defEpsOk = FC::DefaultEpsilon<T, cs>::value() == eps;
      r = sixDefault<V, cs>(a, b);
      sw = sixDefault<V, cs>(b, a);
      Dune::FloatCmpOps<T, cs> ops;
      viaOps = Six{ops.eq(a, b), ops.ne(a, b), ops.lt(a, b), ops.gt(a, b), ops.le(a, b), ops.ge(a, b)};
      getterOk = ops.epsilon() == eps;
      if constexpr (cs == FC::defaultCmpStyle) dfl = Six{FC::eq(a, b), FC::ne(a, b), FC::lt(a, b), FC::gt(a, b), FC::le(a, b), FC::ge(a, b)};
    } else {
      r = sixOf<T, cs>(a, b, eps);
      sw = sixOf<T, cs>(b, a, eps);
      Dune::FloatCmpOps<T, cs> ops(eps);
      viaOps = Six{ops.eq(a, b), ops.ne(a, b), ops.lt(a, b), ops.gt(a, b), ops.le(a, b), ops.ge(a, b)};
      getterOk = ops.epsilon() == eps;
      if constexpr (cs == FC::defaultCmpStyle)
        dfl = Six{FC::eq(a, b, eps), FC::ne(a, b, eps), FC::lt(a, b, eps), FC::gt(a, b, eps), FC::le(a, b, eps), FC::ge(a, b, eps)};
    }
    Dune::FloatCmpOps<T, cs> ops2(eps + T(1));
    ops2.epsilon(eps);
    viaSet = Six{ops2.eq(a, b), ops2.ne(a, b), ops2.lt(a, b), ops2.gt(a, b), ops2.le(a, b), ops2.ge(a, b)};
    getterOk = getterOk && ops2.epsilon() == eps;
    return 0;
  });
  res.impl = r.str();
  int dec = eqSlack<T>(style, A, B, E);
  stat(dec < 0 ? "fcmp_definition_open_rounding" : dec ? "fcmp_definition_true" : "fcmp_definition_false");
  if (ea.dflt) stat("fcmp_default_eps");
  std::string l = lawCheck(r, sw);
  if (!defEpsOk) res.oracle = "FAIL default epsilon differs from the documented value";
  else if (dec >= 0 && !(r == Six{dec == 1, dec != 1, dec != 1 && A < B, dec != 1 && A > B, dec == 1 || A < B, dec == 1 || A > B}))
    res.oracle = std::string("FAIL differs from the documented definition beyond rounding: eq must be ") + (dec ? "true" : "false");
  else if (!l.empty()) res.oracle = "FAIL " + l;
  else if (!(viaOps == r)) res.oracle = "FAIL FloatCmpOps members differ from the free functions: " + viaOps.str();
  else if (!(viaSet == r) || !getterOk) res.oracle = "FAIL FloatCmpOps::epsilon(e) / epsilon() do not set / return the epsilon in use";
  else if (style == 0 && !(dfl == r)) res.oracle = "FAIL default-style overloads differ from relativeWeak";
  return res;
}

template <class T, int n, int st>
void fvEqF(const std::vector<T>& a, const std::vector<T>& b, bool dflt, T eps, bool& eq, bool& ne, bool& eqsw, bool& opsOk) {
  using V = Dune::FieldVector<T, n>;
  V fa, fb;
  for (int i = 0; i < n; ++i) { fa[i] = a[i]; fb[i] = b[i]; }
  constexpr FC::CmpStyle cs = CS[st];
  if (dflt) {
    eq = FC::eq<V, cs>(fa, fb); ne = FC::ne<V, cs>(fa, fb); eqsw = FC::eq<V, cs>(fb, fa);
    Dune::FloatCmpOps<V, cs> ops;
    opsOk = ops.eq(fa, fb) == eq && ops.ne(fa, fb) == ne && ops.epsilon() == eps;
  } else {
    eq = FC::eq<V, cs>(fa, fb, eps); ne = FC::ne<V, cs>(fa, fb, eps); eqsw = FC::eq<V, cs>(fb, fa, eps);
    Dune::FloatCmpOps<V, cs> ops(eps);
    opsOk = ops.eq(fa, fb) == eq && ops.ne(fa, fb) == ne && ops.epsilon() == eps;
  }
}

template <class T> Result execFCmpV(const std::string& kind, int style, const std::vector<Dy>& da, const std::vector<Dy>& db, const EpsArg& ea) {
  Result res;
  bool okr = ea.dflt || (representable<T>(ea.d) && ea.d.m >= 0);
  for (auto& d : da) okr = okr && representable<T>(d);
  for (auto& d : db) okr = okr && representable<T>(d);
  if (!okr) return Result{"bad-op", "FAIL malformed line: operand is not a value of the type"};
  std::vector<T> a, b;
  std::vector<mpq_class> A, B;
  for (auto& d : da) { a.push_back(toT<T>(d)); A.push_back(toQ(d)); }
  for (auto& d : db) { b.push_back(toT<T>(d)); B.push_back(toQ(d)); }
  T eps = ea.dflt ? docDefaultEps<T>(style) : toT<T>(ea.d);
  mpq_class E = qOf<T>(eps);
  // conjunction over the components of the documented scalar definition, three-valued
  int eqd = A.size() == B.size() ? 1 : 0;
  for (size_t i = 0; eqd != 0 && i < A.size(); ++i) {
    int c = eqSlack<T>(style, A[i], B[i], E);
    if (c == 0) eqd = 0;
    else if (c < 0) eqd = -1;
  }
  if (eqd == -1)  // a component that is certainly unequal decides the conjunction
    for (size_t i = 0; i < A.size(); ++i) if (eqSlack<T>(style, A[i], B[i], E) == 0) eqd = 0;
  stat("fcmpv_" + kind + "_n" + std::to_string(a.size()));
  stat(eqd < 0 ? "fcmpv_definition_open_rounding" : "fcmpv_definition_decided");
  if (kind == "std") {
    using V = std::vector<T>;
    Six r{}, sw{};
    bool opsOk = true;
    withStyle(style, [&](auto S) {
      constexpr FC::CmpStyle cs = CS[decltype(S)::value];
      if (ea.dflt) {
        r = sixDefault<V, cs>(a, b); sw = sixDefault<V, cs>(b, a);
        Dune::FloatCmpOps<V, cs> ops;
        opsOk = (Six{ops.eq(a, b), ops.ne(a, b), ops.lt(a, b), ops.gt(a, b), ops.le(a, b), ops.ge(a, b)} == r) && ops.epsilon() == eps;
      } else {
        r = sixOf<V, cs>(a, b, eps); sw = sixOf<V, cs>(b, a, eps);
        Dune::FloatCmpOps<V, cs> ops(eps);
        opsOk = (Six{ops.eq(a, b), ops.ne(a, b), ops.lt(a, b), ops.gt(a, b), ops.le(a, b), ops.ge(a, b)} == r) && ops.epsilon() == eps;
      }
      return 0;
    });
    res.impl = r.str();
    bool lexlt = std::lexicographical_compare(A.begin(), A.end(), B.begin(), B.end());
    bool lexgt = std::lexicographical_compare(B.begin(), B.end(), A.begin(), A.end());
    std::string l = lawCheck(r, sw);
    if (eqd >= 0 && r.eq != (eqd == 1)) res.oracle = "FAIL vector eq is not the conjunction over the components (beyond rounding)";
    else if (!l.empty()) res.oracle = "FAIL " + l;
    else if (r.lt != (!r.eq && lexlt) || r.gt != (!r.eq && lexgt)) res.oracle = "FAIL lt/gt are not `lexicographic order and not equal`";
    else if (!opsOk) res.oracle = "FAIL FloatCmpOps<std::vector> differs from the free functions";
    return res;
  }
  if (kind == "fv") {
    size_t n = a.size();
    if (n != b.size() || n < 1 || n > 8 || n == 7) { res.impl = "bad-op"; res.oracle = "FAIL malformed line"; return res; }
    bool eq = false, ne = false, eqsw = false, opsOk = true;
    withStyle(style, [&](auto S) {
      constexpr int st = decltype(S)::value;
      switch (n) {
        case 1: fvEqF<T, 1, st>(a, b, ea.dflt, eps, eq, ne, eqsw, opsOk); break;
        case 2: fvEqF<T, 2, st>(a, b, ea.dflt, eps, eq, ne, eqsw, opsOk); break;
        case 3: fvEqF<T, 3, st>(a, b, ea.dflt, eps, eq, ne, eqsw, opsOk); break;
        case 4: fvEqF<T, 4, st>(a, b, ea.dflt, eps, eq, ne, eqsw, opsOk); break;
        case 5: fvEqF<T, 5, st>(a, b, ea.dflt, eps, eq, ne, eqsw, opsOk); break;
        case 6: fvEqF<T, 6, st>(a, b, ea.dflt, eps, eq, ne, eqsw, opsOk); break;
        default: fvEqF<T, 8, st>(a, b, ea.dflt, eps, eq, ne, eqsw, opsOk); break;
      }
      return 0;
    });
    res.impl = "eq=" + bs(eq) + " ne=" + bs(ne);
    if (eqd >= 0 && eq != (eqd == 1)) res.oracle = "FAIL vector eq is not the conjunction over the components (beyond rounding)";
    else if (ne != !eq) res.oracle = "FAIL ne is not the negation of eq";
    else if (eqsw != eq) res.oracle = "FAIL eq is not symmetric";
    else if (!opsOk) res.oracle = "FAIL FloatCmpOps<FieldVector> differs from the free functions";
    return res;
  }
  res.impl = "bad-op";
  res.oracle = "FAIL malformed line";
  return res;
}

// round / trunc on an arbitrary value: documented behaviour decided up to rounding (see eqSlack)
template <class T> std::string froundLaws(int style, int rstyle, const mpq_class& x, const mpq_class& eps, const mpz_class& r) {
  const int p = std::numeric_limits<T>::digits;
  mpq_class R(r);
  mpz_class l = floorQ(x);
  // an integer argument (every value from 2^(p-1) on is one) must come back unchanged; a non-integer value of T is below
  // 2^(p-1), so both neighbouring integers are values of T and the conversions T(lower), T(upper) are exact
  if (mpq_class(l) == x) return r == l ? "" : "integer argument not returned unchanged";
  if (abs(R - x) >= 1) return "result is not within distance 1 of the argument";
  int snapped = eqSlack<T>(style, mpq_class(truncQ(x)), x, eps);
  if (snapped != 0) { stat(snapped > 0 ? "fround_branch_equals_integer_part" : "fround_branch_open_rounding"); return ""; }
  mpq_class pp = x - mpq_class(l), qq = mpq_class(l + 1) - x;
  mpq_class absErr = pow2q(1 - p);  // the two distances (both below 1) are computed in T
  int tie = eqSlack<T>(style, pp, qq, eps, absErr);
  if (tie < 0 || (tie == 0 && abs(pp - qq) <= 4 * absErr)) { stat("fround_branch_open_rounding"); return ""; }
  stat(tie ? (pp == qq ? "fround_branch_exact_tie" : "fround_branch_tie_within_eps") : "fround_branch_nearest");
  int dir = rstyle;
  if (rstyle == 0) dir = x > 0 ? 2 : 3;
  if (rstyle == 1) dir = x > 0 ? 3 : 2;
  mpz_class expect = tie ? (dir == 2 ? l : mpz_class(l + 1)) : (pp < qq ? l : mpz_class(l + 1));
  if (r != expect) return tie ? "tie within epsilon not resolved in the documented direction" : "result is not the nearest integer";
  return "";
}
template <class T> std::string ftruncLaws(int style, int rstyle, const IRange& ir, const mpq_class& x, const mpq_class& eps, const mpz_class& r, const mpz_class& raw, bool& unrep, bool& byGuard) {
  const bool uns = ir.uns;
  mpz_class l = floorQ(x);
  unrep = false;
  byGuard = false;
  bool maybeZero = false;   // unsigned target and it is open whether the argument is 0 within epsilon
  if (uns) {
    int z = eqSlack<T>(style, x, 0, eps);
    if (z == 1) { byGuard = true; return raw == 0 ? "" : "unsigned target: argument equal to 0 within epsilon did not give 0"; }
    maybeZero = z < 0;
  }
  // integer arguments (all values from 2^(digits-1) on) come back unchanged; for the others both neighbours are values of T
  if (mpq_class(l) == x) return maybeZero && raw == 0 ? "" : r == l ? "" : "integer argument not returned unchanged";
  int eqL = eqSlack<T>(style, mpq_class(l), x, eps), eqU = eqSlack<T>(style, mpq_class(l + 1), x, eps);
  int dir = rstyle;
  if (rstyle == 0) dir = x > 0 ? 2 : 3;
  if (rstyle == 1) dir = x > 0 ? 3 : 2;
  {  // every result the documentation admits up to rounding must be a value of the type, otherwise nothing is required
    bool canL = eqU != 1 && (dir == 2 || eqL != 0), canU = eqU != 0 || (dir == 3 && eqL != 1);
    if ((canL && !ir.has(l)) || (canU && !ir.has(l + 1))) { unrep = true; return ""; }
  }
  if (maybeZero) { unrep = true; return ""; }
  if (r != l && r != l + 1) return "result is neither floor nor floor+1 of the argument";
  stat(eqU == 1 ? "ftrunc_branch_snap_up" : eqU < 0 || eqL < 0 ? "ftrunc_branch_open_rounding" : eqL == 1 ? "ftrunc_branch_near_below" : "ftrunc_branch_plain");
  if (dir == 2) {
    if (r == l + 1 && eqU == 0) return "downward: result above the argument without being equal within epsilon";
    if (r == l && eqU == 1) return "downward: argument equal to the next integer within epsilon, but not snapped to it";
  } else {
    if (r == l && eqL == 0)
      return !ir.has(l) ? "upward: the integer below the argument is not a value of the target type: the result must be the integer above, got the one below wrapped around"
                        : "upward: result below the argument without being equal within epsilon";
    if (r == l + 1 && mpq_class(l) == x && eqU == 0) return "upward: integer argument moved away";
    if (r == l + 1 && eqL == 1 && eqU == 0) return "upward: argument equal to the integer below within epsilon, but not snapped to it";
  }
  return "";
}

// the documented definition of eq evaluated in the arithmetic of T itself (one rounding per operation): two-valued, used
// only to delimit the domain exactly as the driver does (`truncUnrep` in Driver/C17.lean); the laws are decided by eqSlack
template <class T> bool eqDocT(int style, T a, T b, T eps) {
  T d = std::fabs(a - b), aa = std::fabs(a), ab = std::fabs(b);
  if (style == 2) return d <= eps;
  T m = style == 0 ? std::max(aa, ab) : std::min(aa, ab);
  T tol = eps * m;
  return d <= tol;
}
// the documented result of trunc with every comparison made in the arithmetic of T (what the driver computes with the
// mathematical-integer model `trunc`): is it a value of the target type?
template <class T> bool truncDocFitsT(int style, int rstyle, const IRange& ir, const mpq_class& X, T val, T eps) {
  if (ir.uns && eqDocT<T>(style, val, T(0), eps)) return true;   // 0
  mpz_class l = floorQ(X);
  if (mpq_class(l) == X) return ir.has(l);
  // a non-integer value of T is below 2^(digits-1): l and l+1 fit a long and convert exactly
  T tl = (T)l.get_si(), tu = (T)mpz_class(l + 1).get_si();
  bool eqL = eqDocT<T>(style, tl, val, eps), eqU = eqDocT<T>(style, tu, val, eps);
  int dir = rstyle;
  if (rstyle == 0) dir = val > T(0) ? 2 : 3;
  if (rstyle == 1) dir = val > T(0) ? 3 : 2;
  mpz_class D = eqU ? mpz_class(l + 1) : dir == 2 ? l : eqL ? l : mpz_class(l + 1);
  return ir.has(D);
}
template <class T, class I> Result execFRT(bool isRound, int style, int rstyle, const Dy& dv_, const EpsArg& ea) {
  Result res;
  if (!representable<T>(dv_) || (!ea.dflt && (!representable<T>(ea.d) || ea.d.m < 0)))
    return Result{"bad-op", "FAIL malformed line: operand is not a (non-negative, for epsilon) value of the type"};
  constexpr bool uns = !std::numeric_limits<I>::is_signed;
  mpq_class X = toQ(dv_);
  mpz_class tr = truncQ(X), hi = maxOfI<I>();
  // I(val) is a value of I (unsigned: val > -1); int / long: lower-1 and upper+1 stay inside the type as well
  (void)hi;
  if (!rtDomain<I>(tr)) return Result{"skip", "ok trivial"};
  const IRange ir = rangeOfI<I>();
  T val = toT<T>(dv_);
  T eps = ea.dflt ? docDefaultEps<T>(style) : toT<T>(ea.d);
  mpq_class E = qOf<T>(eps);
  std::string ovl;
  I r = callRTdyn<T, I>(isRound, style, rstyle, ea.dflt, val, eps, ovl);
  res.impl = std::to_string(r);
  mpz_class R = resultZ<I>(r, X);
  bool unrep = false, byGuard = false;
  std::string l = isRound ? froundLaws<T>(style, rstyle, X, E, R) : ftruncLaws<T>(style, rstyle, ir, X, E, R, mpz_class(std::to_string(r)), unrep, byGuard);
  if (!l.empty()) res.oracle = "FAIL " + l;
  else if (!ovl.empty()) res.oracle = "FAIL " + ovl;
  else if (unrep || (!ir.has(R) && !byGuard)) res.oracle = "ok trivial";
  if (!isRound && l.empty() && !truncDocFitsT<T>(style, rstyle, ir, X, val, eps)) {
    res.impl = "unrep";            // the documented result is not a value of I (see execRT)
    if (res.oracle == "ok") res.oracle = "ok trivial";
  }
  stat(std::string(isRound ? "fround_" : "ftrunc_") + RSTYLES[rstyle]);
  if (uns && X < 0) {
    stat(std::string(isRound ? "fround" : "ftrunc") + "_unsigned_arg_in_(-1,0)");
    if (res.oracle == "ok") stat(std::string(isRound ? "fround" : "ftrunc") + "_unsigned_arg_in_(-1,0)_result_0_required");
  }
  if (X > mpq_class(ir.hi) || X < mpq_class(ir.lo)) {
    stat(std::string(isRound ? "fround" : "ftrunc") + "_arg_beyond_range_end");
    if (res.oracle == "ok") stat(std::string(isRound ? "fround" : "ftrunc") + "_arg_beyond_range_end_decided");
  }
  if (ea.dflt) stat("frt_default_eps");
  if (abs(X) + 2 >= pow2q(std::numeric_limits<T>::digits)) stat("frt_beyond_exact_integers");
  if (mpq_class(floorQ(X)) == X && eqSlack<T>(style, X + 1, X, E) == 1) stat("frt_integer_with_equal_successor");
  return res;
}

// ------------------------------------------------------------------------------------------------
// round / trunc of std::vector<T> / FieldVector<T,n> to std::vector<I> / FieldVector<I,n> (ops fvround, fvtrunc; round four).
// Every component goes through the scalar executor first (domain, GMP laws, `unrep`); the vector call - every overload and
// FloatCmpOps<vector type> - must then return, component for component, what the scalar function returns.
// ------------------------------------------------------------------------------------------------
#if DV_C17_VECRT
template <class VT, class VI, class E> VI callVRTdyn(bool isRound, int style, int rstyle, bool dflt, const VT& val, E eps, std::string& ovl) {
  VI r{};
  withStyle(style, [&](auto S) {
    constexpr FC::CmpStyle cs = CS[decltype(S)::value];
    return withRStyle(rstyle, [&](auto R) {
      constexpr FC::RoundingStyle rs = RS[decltype(R)::value];
      r = callRT<VT, VI, cs, rs, E>(isRound, dflt, val, eps, ovl);
      return 0;
    });
  });
  return r;
}
template <class T, class I, int n> std::vector<I> callFV(bool isRound, int style, int rstyle, bool dflt, const std::vector<T>& val, T eps, std::string& ovl) {
  Dune::FieldVector<T, n> v;
  for (int i = 0; i < n; ++i) v[i] = val[(size_t)i];
  Dune::FieldVector<I, n> r = callVRTdyn<Dune::FieldVector<T, n>, Dune::FieldVector<I, n>, T>(isRound, style, rstyle, dflt, v, eps, ovl);
  std::vector<I> out;
  for (int i = 0; i < n; ++i) out.push_back(r[i]);
  return out;
}
#endif
static bool fvrtSize(const std::string& kind, size_t n) { return kind == "std" || (kind == "fv" && (n == 1 || n == 2 || n == 3 || n == 5)); }
template <class T, class I> Result execFVRT(bool isRound, const std::string& kind, int style, int rstyle, const std::vector<Dy>& dv_, const EpsArg& ea) {
  if (!fvrtSize(kind, dv_.size())) return Result{"bad-op", "FAIL malformed line: container kind / size"};
  std::vector<Result> comp;
  for (const Dy& d : dv_) {
    Result c = execFRT<T, I>(isRound, style, rstyle, d, ea);
    if (c.impl == "bad-op") return c;
    if (c.impl == "skip") return Result{"skip", "ok trivial"};   // a component outside the domain of the scalar function
    comp.push_back(c);
  }
  Result res;
  stat(std::string(isRound ? "fvround_" : "fvtrunc_") + kind + "_n" + std::to_string(dv_.size()));
#if DV_C17_VECRT
  std::vector<T> val;
  for (const Dy& d : dv_) val.push_back(toT<T>(d));
  T eps = ea.dflt ? docDefaultEps<T>(style) : toT<T>(ea.d);
  std::string ovl, ovl2;
  std::vector<I> got;
  if (kind == "std") got = callVRTdyn<std::vector<T>, std::vector<I>, T>(isRound, style, rstyle, ea.dflt, val, eps, ovl);
  else if (val.size() == 1) got = callFV<T, I, 1>(isRound, style, rstyle, ea.dflt, val, eps, ovl);
  else if (val.size() == 2) got = callFV<T, I, 2>(isRound, style, rstyle, ea.dflt, val, eps, ovl);
  else if (val.size() == 3) got = callFV<T, I, 3>(isRound, style, rstyle, ea.dflt, val, eps, ovl);
  else got = callFV<T, I, 5>(isRound, style, rstyle, ea.dflt, val, eps, ovl);
  std::string fail;
  bool nontrivial = false;
  if (got.size() != val.size())
    fail = "the vector result has " + std::to_string(got.size()) + " entries for " + std::to_string(val.size()) + " components";
  res.impl = "[";
  for (size_t i = 0; i < comp.size(); ++i) {
    res.impl += (i ? "," : "") + comp[i].impl;
    if (comp[i].oracle.rfind("FAIL", 0) == 0 && fail.empty()) fail = "component " + std::to_string(i) + ": " + comp[i].oracle.substr(5);
    if (comp[i].oracle == "ok") nontrivial = true;
    if (fail.empty() && i < got.size()) {
      I sc = callRTdyn<T, I>(isRound, style, rstyle, ea.dflt, val[i], eps, ovl2);
      if (!(got[i] == sc))
        fail = "component " + std::to_string(i) + " of the vector result is " + std::to_string(got[i]) + ", the scalar function returns " + std::to_string(sc);
    }
  }
  res.impl += "]";
  if (!fail.empty()) res.oracle = "FAIL " + fail;
  else if (!ovl.empty()) res.oracle = "FAIL vector call: " + ovl;
  else if (!nontrivial) res.oracle = "ok trivial";
#else
  res.impl = "uninstantiable";
  res.oracle = "FAIL FloatCmp::round / trunc cannot be instantiated for std::vector / FieldVector in this tree (compile probe failed)";
#endif
  return res;
}

// ------------------------------------------------------------------------------------------------
// minifloat
// ------------------------------------------------------------------------------------------------
// epsilon operand of the minifloat ops: a finite non-negative code, or `def` (argument omitted)
struct MfEps { bool ok = false, dflt = false, skip = false; unsigned code = 0; };
static bool parseU(const std::string& s, unsigned& u);
static MfEps parseMfEps(const std::string& s) {
  MfEps e;
  if (s == "def") { e.ok = e.dflt = true; return e; }
  if (!parseU(s, e.code)) return e;
  e.ok = true;
  e.skip = !(mf::finiteCode(e.code) && e.code < 128);
  return e;
}
static double mfDocDefaultEps(int style) { return style == 2 ? 0.125 : 1.0; }  // max(2^-3, MF8(1e-6) = 0)  /  2^-3 * 8

// the documented definition evaluated in the arithmetic of the format (every operation rounded once)
static bool mfEqDoc(int style, double a, double b, double eps) {
  double d = mf::rnd(std::fabs(a - b));
  double aa = std::fabs(a), ab = std::fabs(b);
  double tol = style == 2 ? eps : mf::rnd(eps * (style == 0 ? std::max(aa, ab) : std::min(aa, ab)));
  return d <= tol;
}
static Six mfSixDoc(int style, double a, double b, double eps) {
  bool e = mfEqDoc(style, a, b, eps);
  return Six{e, !e, !e && a < b, !e && a > b, e || a < b, e || a > b};
}

template <FC::CmpStyle cs> Six mfSix(bool dflt, mf::MF8 a, mf::MF8 b, mf::MF8 eps) {
  using mf::MF8;
  if (dflt) return sixDefault<MF8, cs>(a, b);
  return sixOf<MF8, cs>(a, b, eps);
}

static Result execMf(int style, unsigned ca, unsigned cb, const MfEps& me) {
  Result res;
  using mf::MF8;
  MF8 a = mf::decode(ca), b = mf::decode(cb), eps = me.dflt ? MF8(mfDocDefaultEps(style), MF8::Raw{}) : mf::decode(me.code);
  Six r{}, sw{};
  bool defOk = true;
  withStyle(style, [&](auto S) {
    constexpr FC::CmpStyle cs = CS[decltype(S)::value];
    r = mfSix<cs>(me.dflt, a, b, eps);
    sw = mfSix<cs>(me.dflt, b, a, eps);
    if (me.dflt) defOk = FC::DefaultEpsilon<MF8, cs>::value() == eps;
    return 0;
  });
  res.impl = r.str();
  std::string l = lawCheck(r, sw);
  Six doc = mfSixDoc(style, a.v, b.v, eps.v);
  if (!defOk) res.oracle = "FAIL default epsilon of the minifloat type differs from the documented formula";
  else if (!(r == doc)) res.oracle = "FAIL differs from the documented definition evaluated in the format: expected " + doc.str();
  else if (!l.empty()) res.oracle = "FAIL " + l;
  return res;
}
static int mfFiniteCode(long i);
// one line = one (style, a, eps) against every finite b: 240 results, two hex digits each (eq ne lt gt le ge as bits 5..0)
static Result execMfRow(int style, unsigned ca, const MfEps& me) {
  Result res;
  using mf::MF8;
  MF8 a = mf::decode(ca), eps = me.dflt ? MF8(mfDocDefaultEps(style), MF8::Raw{}) : mf::decode(me.code);
  static const char* HEX = "0123456789abcdef";
  std::string out;
  withStyle(style, [&](auto S) {
    constexpr FC::CmpStyle cs = CS[decltype(S)::value];
    for (long i = 0; i < 240; ++i) {
      unsigned cb = (unsigned)mfFiniteCode(i);
      MF8 b = mf::decode(cb);
      Six r = mfSix<cs>(me.dflt, a, b, eps), sw = mfSix<cs>(me.dflt, b, a, eps);
      unsigned byte = (r.eq << 5) | (r.ne << 4) | (r.lt << 3) | (r.gt << 2) | (r.le << 1) | (unsigned)r.ge;
      out.push_back(HEX[byte >> 4]);
      out.push_back(HEX[byte & 15]);
      std::string l = lawCheck(r, sw);
      Six doc = mfSixDoc(style, a.v, b.v, eps.v);
      if (!(r == doc) && res.oracle == "ok")
        res.oracle = "FAIL b=" + std::to_string(cb) + ": differs from the documented definition evaluated in the format: expected " + doc.str();
      if (!l.empty() && res.oracle == "ok") res.oracle = "FAIL b=" + std::to_string(cb) + ": " + l + " (" + r.str() + ")";
    }
    return 0;
  });
  res.impl = out;
  return res;
}

// the documented definition in the arithmetic of the format F (one rounding per operation)
template <class Fm> bool mfEqDocF(int style, double a, double b, double eps) {
  double d = Fm::rnd(std::fabs(a - b));
  double aa = std::fabs(a), ab = std::fabs(b);
  double tol = style == 2 ? eps : Fm::rnd(eps * (style == 0 ? std::max(aa, ab) : std::min(aa, ab)));
  return d <= tol;
}
// documented behaviour of round / trunc evaluated in the arithmetic of the format: below 2^MB every integer neighbour
// converts exactly; from 2^MB on every value of the format is an integer.  `r` is the result as a mathematical integer
// (-1 for the largest value of an unsigned target when the argument is negative, see resultZ)
template <class Fm> std::string mfRoundDocF(int style, int rstyle, double v, double eps, double r) {
  double l = std::floor(v);
  if (l == v) return r == v ? "" : "integer argument not returned unchanged";
  if (!(std::fabs(r - v) < 1)) return "result is not within distance 1 of the argument";
  if (mfEqDocF<Fm>(style, std::trunc(v), v, eps)) return "";  // equal to its integer part within epsilon
  double pp = Fm::rnd(v - l), qq = Fm::rnd((l + 1) - v);
  bool tie = mfEqDocF<Fm>(style, pp, qq, eps);
  int dir = rstyle;
  if (rstyle == 0) dir = v > 0 ? 2 : 3;
  if (rstyle == 1) dir = v > 0 ? 3 : 2;
  double expect = tie ? (dir == 2 ? l : l + 1) : (pp < qq ? l : l + 1);
  if (r != expect) return tie ? "tie within epsilon not resolved in the documented direction" : "result is not the nearest integer";
  return "";
}
// uns: unsigned target.  unrep: the documented result is -1 (see truncLaws), or the largest value M of the target type is
// not a finite number of the format (mFinite = false: the code's T(M) is infinite; 240 < 255 in the format <4,3>) —
// nothing is required then
template <class Fm> std::string mfTruncDocF(int style, int rstyle, bool uns, bool mFinite, double v, double eps, double t, double raw, bool& unrep) {
  double l = std::floor(v);
  unrep = false;
  if (uns && mfEqDocF<Fm>(style, v, 0, eps)) return raw == 0 ? "" : "unsigned target: argument equal to 0 within epsilon did not give 0";
  bool eqL = mfEqDocF<Fm>(style, l, v, eps), eqU = mfEqDocF<Fm>(style, l + 1, v, eps);
  int dir = rstyle;
  if (rstyle == 0) dir = v > 0 ? 2 : 3;
  if (rstyle == 1) dir = v > 0 ? 3 : 2;
  if (uns && l < 0 && (dir == 2 || eqL || !mFinite)) { unrep = true; return ""; }
  if (!(t == l || t == l + 1)) return "result is neither floor nor floor+1 of the argument";
  if (l == v) return t == v ? "" : "integer argument not returned unchanged";  // includes every |v| >= 2^MB
  if (dir == 2) {
    if (t == l + 1 && !eqU) return "downward: result above the argument without being equal within epsilon";
    if (t == l && eqU) return "downward: argument equal to the next integer within epsilon, but not snapped to it";
  } else {
    if (t == l && !eqL)
      return uns && l < 0 ? "upward: unsigned target, argument in (-1,0): the result must be 0, got the largest value of the type (-1 wrapped around)"
                          : "upward: result below the argument without being equal within epsilon";
    if (t == l + 1 && l == v && !eqU) return "upward: integer argument moved away";
    if (t == l + 1 && eqL && !eqU && !(uns && l < 0)) return "upward: argument equal to the integer below within epsilon, but not snapped to it";
  }
  return "";
}
// round and trunc of the minifloat value `v` to the integer type I
template <class M, class I> Result execMfrT(int style, int rstyle, bool dflt, M v, M eps) {
  using Fm = typename M::Fm;
  Result res;
  constexpr bool uns = !std::numeric_limits<I>::is_signed;
  // I(val) is a value of I (unsigned: val > -1); int / long: lower-1 and upper+1 inside the type (all values of the formats are)
  double tr = std::trunc(v.v);
  if (!rtDomain<I>(mpz_class(tr))) return Result{"skip", "ok trivial"};
  std::string ovl;
  I r = callRTdyn<M, I>(true, style, rstyle, dflt, v, eps, ovl);
  I t = callRTdyn<M, I>(false, style, rstyle, dflt, v, eps, ovl);
  auto asZ = [&](I x) { return resultZ<I>(x, mpq_class(v.v)).get_d(); };   // the integer the returned value stands for
  bool unrep = false;
  std::string l = mfRoundDocF<Fm>(style, rstyle, v.v, eps.v, asZ(r));
  if (l.empty()) {
    l = mfTruncDocF<Fm>(style, rstyle, uns, std::isfinite(M(std::numeric_limits<I>::max()).v), v.v, eps.v, asZ(t), (double)t, unrep);
    if (!l.empty()) l = "trunc: " + l;
  } else l = "round: " + l;
  res.impl = "round=" + std::to_string(r) + " trunc=" + (unrep && l.empty() ? std::string("unrep") : std::to_string(t));
  if (!l.empty()) res.oracle = "FAIL " + l;
  else if (!ovl.empty()) res.oracle = "FAIL " + ovl;
  else if (unrep && asZ(r) < 0) res.oracle = "ok trivial";   // neither result is decided
  if (uns && v.v < 0) {
    stat("mfr_unsigned_arg_in_(-1,0)");
    if (!unrep) stat("mfr_unsigned_arg_in_(-1,0)_trunc_result_0_required");
  }
  return res;
}
static Result execMfr(int style, int rstyle, unsigned cv, const MfEps& me) {
  using mf::MF8;
  MF8 v = mf::decode(cv), eps = me.dflt ? MF8(mfDocDefaultEps(style), MF8::Raw{}) : mf::decode(me.code);
  return execMfrT<MF8, int>(style, rstyle, me.dflt, v, eps);
}
template <class T> Result execDefEps(int style) {
  Result res;
  T v = 0;
  withStyle(style, [&](auto S) { v = FC::DefaultEpsilon<T, CS[decltype(S)::value]>::value(); return 0; });
  res.impl = dyStr(v);
  T expect = docDefaultEps<T>(style);
  if (!(v == expect) || !(v >= 0)) res.oracle = "FAIL default epsilon differs from the documented value";
  // the vector types take the default epsilon of their element type
  bool vecOk = true;
  withStyle(style, [&](auto S) {
    constexpr FC::CmpStyle cs = CS[decltype(S)::value];
    vecOk = FC::DefaultEpsilon<std::vector<T>, cs>::value() == v && FC::DefaultEpsilon<Dune::FieldVector<T, 3>, cs>::value() == v;
    return 0;
  });
  if (res.oracle == "ok" && !vecOk) res.oracle = "FAIL default epsilon of std::vector / FieldVector differs from the one of the element type";
  return res;
}
static Result execDefEpsMf(int style) {
  Result res;
  mf::MF8 v;
  withStyle(style, [&](auto S) { v = FC::DefaultEpsilon<mf::MF8, CS[decltype(S)::value]>::value(); return 0; });
  res.impl = dyStr(v.v);
  if (!(v.v == mfDocDefaultEps(style))) res.oracle = "FAIL default epsilon of the minifloat type differs from the documented formula";
  return res;
}

// ------------------------------------------------------------------------------------------------
// integer helpers
// ------------------------------------------------------------------------------------------------
template <class I> bool fitsI(const mpz_class& v) {
  mpz_class lo, hi;
  if (std::numeric_limits<I>::is_signed) {
    hi = (mpz_class(1) << (std::numeric_limits<I>::digits)) - 1;
    lo = -hi - 1;
  } else {
    lo = 0;
    hi = (mpz_class(1) << (std::numeric_limits<I>::digits)) - 1;
  }
  return lo <= v && v <= hi;
}
template <class I> I fromZ(const mpz_class& v) {
  if (std::numeric_limits<I>::is_signed) return (I)std::stoll(v.get_str(10));
  return (I)std::stoull(v.get_str(10));
}
template <class I> mpz_class zOf(I v) { return mpz_class(std::to_string(v)); }

static mpz_class chooseZ(const mpz_class& n, const mpz_class& k) {  // 0 <= k <= n, multiplicative formula, exact
  mpz_class kk = k;
  if (kk > n - kk) kk = n - kk;
  mpz_class r = 1;
  for (mpz_class i = 1; i <= kk; ++i) {
    r *= (n - kk + i);
    r /= i;
    if (mpz_sizeinbase(r.get_mpz_t(), 2) > 200) break;  // far beyond any machine type
  }
  return r;
}

template <class B, class X> Result execPow(const mpz_class& m, const mpz_class& p) {
  Result res;
  if (!fitsI<B>(m) || !fitsI<X>(p)) { res.impl = "bad-op"; res.oracle = "FAIL malformed line"; return res; }
  mpz_class ap = abs(p);
  if (ap > 4096 || (p < 0 && m == 0)) { res.impl = "skip"; res.oracle = "ok trivial"; return res; }
  if (p < 0 && !fitsI<X>(-p)) { res.impl = "unrep"; res.oracle = "ok trivial"; return res; }
  mpz_class pw;
  mpz_pow_ui(pw.get_mpz_t(), m.get_mpz_t(), ap.get_ui());
  if (!fitsI<B>(pw)) { res.impl = "unrep"; res.oracle = "ok trivial"; return res; }
  B r = Dune::power(fromZ<B>(m), fromZ<X>(p));
  res.impl = std::to_string(r);
  mpz_class expect = pw;
  if (p < 0) mpz_tdiv_q(expect.get_mpz_t(), mpz_class(1).get_mpz_t(), pw.get_mpz_t());
  if (zOf(r) != expect) res.oracle = "FAIL power gave " + res.impl + " expected " + expect.get_str(10);
  else if (p < 0) res.oracle = "ok trivial";  // documented as unsupported for integer bases
  return res;
}

template <class T> Result execPowF(const FT& ft, const Dy& dm, long p) {
  Result res;
  long ap = p < 0 ? -p : p;
  if (ap > 4096 || !(bitlen(dm.m) * ap <= ft.prec && std::labs(dm.e) * ap <= 100) || (p < 0 && abs(dm.m) != 1)) {
    res.impl = "skip"; res.oracle = "ok trivial"; return res;
  }
  T m = toT<T>(dm);
  T r = Dune::power(m, (int)p);
  res.impl = dyStr(r);
  mpq_class M = toQ(dm), e = 1;
  for (long i = 0; i < ap; ++i) e *= M;
  if (p < 0) e = 1 / e;
  if (!std::isfinite(r) || qOf<T>(r) != e) res.oracle = "FAIL power differs from the exact value m^p";
  return res;
}

template <class I> Result execFact(const mpz_class& n) {
  Result res;
  if (!fitsI<I>(n)) { res.impl = "bad-op"; res.oracle = "FAIL malformed line"; return res; }
  mpz_class f = 1;
  for (mpz_class i = 2; i <= n && mpz_sizeinbase(f.get_mpz_t(), 2) < 200; ++i) f *= i;
  if (!fitsI<I>(f)) { res.impl = "unrep"; res.oracle = "ok trivial"; return res; }
  I r = Dune::factorial(fromZ<I>(n));
  res.impl = std::to_string(r);
  if (zOf(r) != f) res.oracle = "FAIL factorial gave " + res.impl + " expected " + f.get_str(10);
  else if (n >= 1) {  // recurrence n! = n (n-1)!
    I r1 = Dune::factorial((I)(fromZ<I>(n) - 1));
    if (zOf(r1) * n != f) res.oracle = "FAIL factorial recurrence violated";
  }
  return res;
}

template <class I> Result execBinom(const mpz_class& n, const mpz_class& k) {
  Result res;
  if (!fitsI<I>(n) || !fitsI<I>(k)) { res.impl = "bad-op"; res.oracle = "FAIL malformed line"; return res; }
  bool inRange = k >= 0 && k <= n;
  mpz_class c = inRange ? chooseZ(n, k) : mpz_class(0);
  if (!fitsI<I>(c)) { res.impl = "unrep"; res.oracle = "ok trivial"; return res; }
  I N = fromZ<I>(n), K = fromZ<I>(k);
  I r = Dune::binomial(N, K);
  res.impl = std::to_string(r);
  if (zOf(r) != c) { res.oracle = "FAIL binomial gave " + res.impl + " expected " + c.get_str(10); return res; }
  if (!inRange) { stat("binom_outside"); return res; }
  // symmetry and Pascal's rule on the implementation's own values
  I rs = Dune::binomial(N, (I)(N - K));
  if (rs != r) { res.oracle = "FAIL binomial(n,k) != binomial(n,n-k)"; return res; }
  if (k >= 1 && k <= n - 1) {
    I p1 = Dune::binomial((I)(N - 1), (I)(K - 1)), p2 = Dune::binomial((I)(N - 1), K);
    if (zOf(p1) + zOf(p2) != c) res.oracle = "FAIL Pascal's rule violated";
  }
  return res;
}

static Result execStatic() {
  // compile-time overloads.  Signed arguments only for the (n,n) overload, which does not call binomial(): a
  // constant-evaluated signed overflow would turn a defect of binomial() into a compile error of this harness instead
  // of a replayable failing input; unsigned arithmetic wraps, so the general overloads are exercised with unsigned types.
  using std::integral_constant;
  Result res;
  auto b77 = Dune::binomial(integral_constant<int, 7>{}, integral_constant<int, 7>{});
  auto bm = Dune::binomial(integral_constant<int, -1>{}, integral_constant<int, -1>{});
  auto f5 = Dune::factorial(integral_constant<unsigned, 5>{});
  auto f20 = Dune::factorial(integral_constant<unsigned long, 20>{});
  auto b62 = Dune::binomial(integral_constant<unsigned, 6>{}, integral_constant<unsigned, 2>{});
  auto b4020 = Dune::binomial(integral_constant<unsigned long, 40>{}, integral_constant<unsigned long, 20>{});
  auto b59 = Dune::binomial(integral_constant<unsigned, 5>{}, integral_constant<unsigned, 9>{});
  std::ostringstream os;
  os << decltype(b77)::value << " " << decltype(bm)::value << " " << decltype(f5)::value << " " << decltype(f20)::value << " "
     << decltype(b62)::value << " " << decltype(b4020)::value << " " << decltype(b59)::value;
  // the documented defaults: comparison style relativeWeak, rounding style towardZero (also of FloatCmpOps)
  auto styleName = [](FC::CmpStyle c) { return c == FC::relativeWeak ? "relativeWeak" : c == FC::relativeStrong ? "relativeStrong" : c == FC::absolute ? "absolute" : "?"; };
  auto rstyleName = [](FC::RoundingStyle c) { return c == FC::towardZero ? "towardZero" : c == FC::towardInf ? "towardInf" : c == FC::downward ? "downward" : c == FC::upward ? "upward" : "?"; };
  os << " " << styleName(FC::defaultCmpStyle) << " " << rstyleName(FC::defaultRoundingStyle) << " " << styleName(Dune::FloatCmpOps<double>::cstyle) << " "
     << rstyleName(Dune::FloatCmpOps<double>::rstyle);
  res.impl = os.str();
  bool distinct = FC::relativeWeak != FC::relativeStrong && FC::relativeWeak != FC::absolute && FC::relativeStrong != FC::absolute &&
                  FC::towardZero != FC::towardInf && FC::towardZero != FC::downward && FC::towardZero != FC::upward &&
                  FC::towardInf != FC::downward && FC::towardInf != FC::upward && FC::downward != FC::upward;
  if (res.impl != "1 0 120 2432902008176640000 15 137846528820 0 relativeWeak towardZero relativeWeak towardZero")
    res.oracle = "FAIL integral_constant overloads of factorial / binomial or the documented default styles: " + res.impl;
  else if (!distinct) res.oracle = "FAIL style enumerators are not distinct";
  else if (Dune::Factorial<5>::factorial != 120 || Dune::Factorial<0>::factorial != 1) res.oracle = "FAIL Factorial<m>::factorial wrong";
  return res;
}

// the integral_constant overloads at the smallest arguments (round four: `binomial(ic<n>, ic<n>)` is a separate overload that does
// not call binomial(); n = 0 is its boundary) and the value type of the results
static Result execStatic2() {
  using std::integral_constant;
  Result res;
  auto a = Dune::binomial(integral_constant<int, 0>{}, integral_constant<int, 0>{});
  auto b = Dune::binomial(integral_constant<int, 1>{}, integral_constant<int, 1>{});
  auto c = Dune::binomial(integral_constant<long, 0>{}, integral_constant<long, 0>{});
  auto d = Dune::binomial(integral_constant<unsigned, 0>{}, integral_constant<unsigned, 0>{});
  auto e = Dune::binomial(integral_constant<long, -5>{}, integral_constant<long, -5>{});
  auto f = Dune::binomial(integral_constant<unsigned, 3>{}, integral_constant<unsigned, 0>{});
  auto g = Dune::binomial(integral_constant<unsigned, 0>{}, integral_constant<unsigned, 3>{});
  auto h = Dune::factorial(integral_constant<unsigned, 0>{});
  auto i = Dune::factorial(integral_constant<unsigned, 1>{});
  auto j = Dune::factorial(integral_constant<unsigned long, 1>{});
  auto k = Dune::binomial(integral_constant<unsigned long, 1>{}, integral_constant<unsigned long, 1>{});
  std::ostringstream os;
  os << decltype(a)::value << " " << decltype(b)::value << " " << decltype(c)::value << " " << decltype(d)::value << " " << decltype(e)::value << " "
     << decltype(f)::value << " " << decltype(g)::value << " " << decltype(h)::value << " " << decltype(i)::value << " " << decltype(j)::value << " "
     << decltype(k)::value;
  res.impl = os.str();
  constexpr bool types = std::is_same_v<typename decltype(a)::value_type, int> && std::is_same_v<typename decltype(c)::value_type, long> &&
                         std::is_same_v<typename decltype(d)::value_type, unsigned> && std::is_same_v<typename decltype(f)::value_type, unsigned> &&
                         std::is_same_v<typename decltype(h)::value_type, unsigned> && std::is_same_v<typename decltype(j)::value_type, unsigned long> &&
                         std::is_same_v<typename decltype(k)::value_type, unsigned long>;
  // C(0,0) = C(1,1) = 1, C(-5,-5) = 0 (outside 0 <= k <= n), C(3,0) = 1, C(0,3) = 0, 0! = 1! = 1
  if (res.impl != "1 1 1 1 0 1 0 1 1 1 1") res.oracle = "FAIL integral_constant overloads of factorial / binomial at the smallest arguments: " + res.impl;
  else if (!types) res.oracle = "FAIL integral_constant overloads of factorial / binomial: value type of the result is not the argument's";
  return res;
}

template <class F> auto withIType(const std::string& t, F&& f) {
  if (t == "i32") return f((int)0);
  if (t == "i64") return f((long)0);
  if (t == "u32") return f((unsigned)0);
  return f((unsigned long)0);
}
static bool isIType(const std::string& t) { return t == "i32" || t == "i64" || t == "u32" || t == "u64"; }
// integer target types of round / trunc: the narrow ones as well (integral promotion in `lower+1`, conversion back on return)
template <class F> auto withRTType(const std::string& t, F&& f) {
  if (t == "i8") return f((signed char)0);
  if (t == "u8") return f((unsigned char)0);
  if (t == "i16") return f((short)0);
  if (t == "u16") return f((unsigned short)0);
  return withIType(t, f);
}
static bool isRTType(const std::string& t) { return isIType(t) || t == "i8" || t == "u8" || t == "i16" || t == "u16"; }
static int rtBits(const std::string& t) { return std::atoi(t.c_str() + 1); }
// mfri <fmt> <I> ...: format e4m3 (the one of mf/mfr/mfrow) or e5m2, any integer target type; epsilon: a code (no `def` for e5m2)
template <class M> Result execMfri(const std::string& it, int style, int rstyle, unsigned cv, bool dflt, M eps) {
  using Fm = typename M::Fm;
  M v(Fm::value(cv), typename M::Raw{});
  return withRTType(it, [&](auto I0) { return execMfrT<M, decltype(I0)>(style, rstyle, dflt, v, eps); });
}

// ------------------------------------------------------------------------------------------------
// classifiers
// ------------------------------------------------------------------------------------------------
template <class T, class U> T fromBits(unsigned long long b) { U u = (U)b; T x; std::memcpy(&x, &u, sizeof x); return x; }
// class from the bit pattern alone: 0 finite, 1 inf, 2 nan
static int clsBits(bool f32, unsigned long long b) {
  unsigned long long e = f32 ? (b >> 23) & 0xff : (b >> 52) & 0x7ff;
  unsigned long long m = f32 ? b & 0x7fffff : b & 0xfffffffffffffull;
  unsigned long long emax = f32 ? 0xff : 0x7ff;
  return e != emax ? 0 : (m == 0 ? 1 : 2);
}
static std::string three(bool a, bool b, bool c) { return "nan=" + bs(a) + " inf=" + bs(b) + " fin=" + bs(c); }

template <class T, class U, int n> std::string clsFV(const std::vector<unsigned long long>& bits) {
  Dune::FieldVector<T, n> v;
  for (int i = 0; i < n; ++i) v[i] = fromBits<T, U>(bits[i]);
  return three(Dune::isNaN(v), Dune::isInf(v), Dune::isFinite(v));
}
template <class T, class U, int n> std::string clsFVC(const std::vector<unsigned long long>& bits) {
  Dune::FieldVector<std::complex<T>, n> v;
  for (int i = 0; i < n; ++i) v[i] = std::complex<T>(fromBits<T, U>(bits[2 * i]), fromBits<T, U>(bits[2 * i + 1]));
  return three(Dune::isNaN(v), Dune::isInf(v), Dune::isFinite(v));
}

template <class T, class U> Result execCls(const std::string& kind, bool f32, const std::vector<unsigned long long>& bits) {
  Result res;
  size_t n = bits.size();
  bool anyNaN = false, anyInf = false, allFin = true;
  for (auto b : bits) {
    int c = clsBits(f32, b);
    anyNaN |= c == 2; anyInf |= c == 1; allFin &= c == 0;
  }
  std::string expect = three(anyNaN, anyInf, allFin);
  if (kind == "fv" && n >= 1 && n <= 4) {
    res.impl = n == 1 ? clsFV<T, U, 1>(bits) : n == 2 ? clsFV<T, U, 2>(bits) : n == 3 ? clsFV<T, U, 3>(bits) : clsFV<T, U, 4>(bits);
  } else if (kind == "cx" && n == 2) {
    std::complex<T> z(fromBits<T, U>(bits[0]), fromBits<T, U>(bits[1]));
    res.impl = three(Dune::isNaN(z), Dune::isInf(z), Dune::isFinite(z));
  } else if (kind == "fvcx" && n % 2 == 0 && n >= 2 && n <= 6) {
    res.impl = n == 2 ? clsFVC<T, U, 1>(bits) : n == 4 ? clsFVC<T, U, 2>(bits) : clsFVC<T, U, 3>(bits);
  } else if (kind == "un" && n == 2) {
    Dune::FieldVector<T, 1> a(fromBits<T, U>(bits[0])), b(fromBits<T, U>(bits[1]));
    res.impl = "unordered=" + bs(Dune::isUnordered(a, b));
    expect = "unordered=" + bs(anyNaN);
    if (Dune::isUnordered(a[0], b[0]) != anyNaN) res.oracle = "FAIL scalar isUnordered wrong";
  } else {
    res.impl = "bad-op"; res.oracle = "FAIL malformed line"; return res;
  }
  if (res.impl != expect) res.oracle = "FAIL classifier is not the any/all over the components: expected " + expect;
  if (anyNaN) stat("cls_nan");
  if (anyInf) stat("cls_inf");
  if (allFin) stat("cls_allfinite");
  return res;
}

// ------------------------------------------------------------------------------------------------
// executor
// ------------------------------------------------------------------------------------------------
static Result bad(const std::string& why = "malformed line") { return Result{"bad-op", "FAIL " + why}; }
static Result skip() { return Result{"skip", "ok trivial"}; }
static bool parseZ(const std::string& s, mpz_class& z) {
  if (s.empty()) return false;
  size_t i = (s[0] == '-' || s[0] == '+') ? 1 : 0;
  if (i >= s.size()) return false;
  for (size_t j = i; j < s.size(); ++j) if (!isdigit((unsigned char)s[j])) return false;
  return z.set_str(s[0] == '+' ? s.substr(1) : s, 10) == 0;
}
static bool parseU(const std::string& s, unsigned& u) {
  if (s.empty() || s.size() > 4) return false;
  for (char c : s) if (!isdigit((unsigned char)c)) return false;
  u = (unsigned)std::stoul(s);
  return true;
}

Result exec(const std::string& line) {
  auto w = words(line);
  if (w.empty()) return bad();
  const std::string& op = w[0];
  stat("op_" + op);
  FT ft;
  if (op == "cmp" && w.size() == 6) {
    int st = styleIdx(w[2]);
    Dy a = parseDy(w[3]), b = parseDy(w[4]), e = parseDy(w[5]);
    if (!parseFT(w[1], ft) || st < 0 || !a.ok || !b.ok || !e.ok) return bad();
    if (!(okVal(ft, a) && okVal(ft, b) && okEps(ft, e))) return skip();
    stat(std::string("style_") + STYLES[st]);
    return w[1] == "f32" ? execCmp<float>(st, a, b, e) : execCmp<double>(st, a, b, e);
  }
  if (op == "cmpv" && w.size() == 7) {
    int st = styleIdx(w[3]);
    std::vector<Dy> a, b;
    Dy e = parseDy(w[6]);
    if (!parseFT(w[1], ft) || st < 0 || !parseDyList(w[4], a) || !parseDyList(w[5], b) || !e.ok) return bad();
    bool ok = okEps(ft, e);
    for (auto& d : a) ok = ok && okVal(ft, d);
    for (auto& d : b) ok = ok && okVal(ft, d);
    if (!ok) return skip();
    return w[1] == "f32" ? execCmpV<float>(w[2], st, a, b, e) : execCmpV<double>(w[2], st, a, b, e);
  }
  if ((op == "round" || op == "trunc") && w.size() == 7) {
    int st = styleIdx(w[3]), rs = rstyleIdx(w[4]);
    Dy v = parseDy(w[5]), e = parseDy(w[6]);
    if (!parseFT(w[1], ft) || !isRTType(w[2]) || st < 0 || rs < 0 || !v.ok || !e.ok) return bad();
    if (!(okVal(ft, v) && okEps(ft, e))) return skip();
    bool uns = w[2][0] == 'u';
    bool isRound = op == "round";
    {  // either I(val), lower-1 and upper+1 stay inside I (nothing wraps around), or - unsigned and narrow types - I(val) is a
       // value of I (val in (-1,0) for unsigned, val beyond the ends of the range).  When something wraps, trunc converts the
       // wrapped value back (T(M) - val with M = 2^bits - 1, ...), which is exact in T (the premise of these ops) only if
       // bits + exponent window <= precision; round never converts a wrapped value
      const int bits = rtBits(w[2]);
      mpz_class tr = truncQ(toQ(v)), hi = (mpz_class(1) << (bits - (uns ? 0 : 1))) - 1, lo = uns ? mpz_class(0) : mpz_class(-hi - 1);
      bool noWrap = uns ? (v.m >= 0 && tr <= hi - 2) : (-(hi - 2) <= tr && tr <= hi - 2);
      bool full = !(!uns && bits >= 32) && lo <= tr && tr <= hi && (isRound || bits + ft.ew <= ft.prec);
      if (!(noWrap || full)) return skip();
    }
    stat("rt_" + w[2]);
    return withRTType(w[2], [&](auto I0) {
      using I = decltype(I0);
      return w[1] == "f32" ? execRT<float, I>(isRound, st, rs, v, e) : execRT<double, I>(isRound, st, rs, v, e);
    });
  }
  if (op == "laws" && w.size() == 6) {
    int st = styleIdx(w[2]);
    if (!parseFT(w[1], ft) || st < 0) return bad();
    try {
      return w[1] == "f32" ? execLaws<float, uint32_t>(st, w[3], w[4], w[5]) : execLaws<double, uint64_t>(st, w[3], w[4], w[5]);
    } catch (std::exception&) { return bad(); }
  }
  if (op == "mf" && w.size() == 5) {
    int st = styleIdx(w[1]);
    unsigned a, b;
    MfEps e = parseMfEps(w[4]);
    if (st < 0 || !parseU(w[2], a) || !parseU(w[3], b) || !e.ok) return bad();
    if (!(mf::finiteCode(a) && mf::finiteCode(b)) || e.skip) return skip();
    if (e.dflt) stat("mf_default_eps");
    return execMf(st, a, b, e);
  }
  if (op == "mfrow" && w.size() == 4) {
    int st = styleIdx(w[1]);
    unsigned a;
    MfEps e = parseMfEps(w[3]);
    if (st < 0 || !parseU(w[2], a) || !e.ok) return bad();
    if (!mf::finiteCode(a) || e.skip) return skip();
    if (e.dflt) stat("mf_default_eps");
    return execMfRow(st, a, e);
  }
  if (op == "mfr" && w.size() == 5) {
    int st = styleIdx(w[1]), rs = rstyleIdx(w[2]);
    unsigned v;
    MfEps e = parseMfEps(w[4]);
    if (st < 0 || rs < 0 || !parseU(w[3], v) || !e.ok) return bad();
    if (!mf::finiteCode(v) || e.skip) return skip();
    if (e.dflt) stat("mf_default_eps");
    return execMfr(st, rs, v, e);
  }
  if (op == "mfri" && w.size() == 7) {
    int st = styleIdx(w[3]), rs = rstyleIdx(w[4]);
    unsigned v;
    if (!isRTType(w[2]) || st < 0 || rs < 0 || !parseU(w[5], v)) return bad();
    stat("mfri_" + w[1] + "_" + w[2]);
    if (w[1] == "e4m3") {
      MfEps e = parseMfEps(w[6]);
      if (!e.ok) return bad();
      if (!mf::finiteCode(v) || e.skip) return skip();
      using mf::MF8;
      return execMfri<MF8>(w[2], st, rs, v, e.dflt, e.dflt ? MF8(mfDocDefaultEps(st), MF8::Raw{}) : mf::decode(e.code));
    }
    if (w[1] == "e5m2") {
      using Fb = mf::F<5, 2>;
      unsigned ec;
      if (!parseU(w[6], ec)) return bad();
      if (!Fb::finiteCode(v) || !Fb::finiteCode(ec) || ec >= 128) return skip();
      return execMfri<mf::MF8B>(w[2], st, rs, v, false, mf::MF8B(Fb::value(ec), mf::MF8B::Raw{}));
    }
    return bad();
  }
  if ((op == "fcmp") && w.size() == 6) {
    int st = styleIdx(w[2]);
    Dy a = parseDy(w[3]), b = parseDy(w[4]);
    EpsArg e = parseEps(w[5]);
    if (st < 0 || !a.ok || !b.ok || !e.ok) return bad();
    stat("ftype_" + w[1]);
    if (w[1] == "f32") return execFCmp<float>(st, a, b, e);
    if (w[1] == "f64") return execFCmp<double>(st, a, b, e);
    if (w[1] == "f80") return execFCmp<long double>(st, a, b, e);
    return bad();
  }
  if (op == "fcmpv" && w.size() == 7) {
    int st = styleIdx(w[3]);
    std::vector<Dy> a, b;
    EpsArg e = parseEps(w[6]);
    if (st < 0 || !parseDyList(w[4], a) || !parseDyList(w[5], b) || !e.ok) return bad();
    if (w[1] == "f32") return execFCmpV<float>(w[2], st, a, b, e);
    if (w[1] == "f64") return execFCmpV<double>(w[2], st, a, b, e);
    if (w[1] == "f80") return execFCmpV<long double>(w[2], st, a, b, e);
    return bad();
  }
  if ((op == "fround" || op == "ftrunc") && w.size() == 7) {
    int st = styleIdx(w[3]), rs = rstyleIdx(w[4]);
    Dy v = parseDy(w[5]);
    EpsArg e = parseEps(w[6]);
    if (!isRTType(w[2]) || st < 0 || rs < 0 || !v.ok || !e.ok) return bad();
    if (w[1] != "f32" && w[1] != "f64" && w[1] != "f80") return bad();
    bool isRound = op == "fround";
    stat("frt_" + w[2]);
    stat("ftype_" + w[1]);
    return withRTType(w[2], [&](auto I0) {
      using I = decltype(I0);
      if (w[1] == "f32") return execFRT<float, I>(isRound, st, rs, v, e);
      if (w[1] == "f64") return execFRT<double, I>(isRound, st, rs, v, e);
      return execFRT<long double, I>(isRound, st, rs, v, e);
    });
  }
  if ((op == "fvround" || op == "fvtrunc") && w.size() == 8) {
    int st = styleIdx(w[4]), rs = rstyleIdx(w[5]);
    std::vector<Dy> v;
    EpsArg e = parseEps(w[7]);
    if (st < 0 || rs < 0 || !parseDyList(w[6], v) || !e.ok) return bad();
    bool isRound = op == "fvround";
    const std::string& it = w[2];
    // a subset of the scalar instantiations (compile time): float / double / long double x int, unsigned char, short, unsigned long
    if (it != "i32" && it != "u8" && it != "i16" && it != "u64") return bad();
    if (w[1] != "f32" && w[1] != "f64" && w[1] != "f80") return bad();
    return withRTType(it, [&](auto I0) -> Result {
      using I = decltype(I0);
      if constexpr (std::is_same_v<I, int> || std::is_same_v<I, unsigned char> || std::is_same_v<I, short> || std::is_same_v<I, unsigned long>) {
        if (w[1] == "f32") return execFVRT<float, I>(isRound, w[3], st, rs, v, e);
        if (w[1] == "f64") return execFVRT<double, I>(isRound, w[3], st, rs, v, e);
        return execFVRT<long double, I>(isRound, w[3], st, rs, v, e);
      } else return bad();
    });
  }
  if (op == "defeps" && w.size() == 3) {
    int st = styleIdx(w[2]);
    if (st < 0) return bad();
    if (w[1] == "f32") return execDefEps<float>(st);
    if (w[1] == "f64") return execDefEps<double>(st);
    if (w[1] == "f80") return execDefEps<long double>(st);
    if (w[1] == "mf8") return execDefEpsMf(st);
    return bad();
  }
  if (op == "pow" && w.size() == 5) {
    mpz_class m, p;
    if (!isIType(w[1]) || !isIType(w[2]) || !parseZ(w[3], m) || !parseZ(w[4], p)) return bad();
    return withIType(w[1], [&](auto B0) {
      return withIType(w[2], [&](auto X0) { return execPow<decltype(B0), decltype(X0)>(m, p); });
    });
  }
  if (op == "powf" && w.size() == 4) {
    Dy m = parseDy(w[2]);
    mpz_class p;
    if (!parseFT(w[1], ft) || !m.ok || !parseZ(w[3], p)) return bad();
    if (abs(p) > 4096) return skip();
    return w[1] == "f32" ? execPowF<float>(ft, m, p.get_si()) : execPowF<double>(ft, m, p.get_si());
  }
  if (op == "fact" && w.size() == 3) {
    mpz_class n;
    if (!isIType(w[1]) || !parseZ(w[2], n)) return bad();
    return withIType(w[1], [&](auto I0) { return execFact<decltype(I0)>(n); });
  }
  if (op == "binom" && w.size() == 4) {
    mpz_class n, k;
    if (!isIType(w[1]) || !parseZ(w[2], n) || !parseZ(w[3], k)) return bad();
    return withIType(w[1], [&](auto I0) { return execBinom<decltype(I0)>(n, k); });
  }
  if (op == "static" && w.size() == 1) return execStatic();
  if (op == "static2" && w.size() == 1) return execStatic2();
  if (op == "sign" && w.size() == 3) {
    Result res;
    if (isIType(w[1])) {
      mpz_class x;
      if (!parseZ(w[2], x)) return bad();
      return withIType(w[1], [&](auto I0) {
        using I = decltype(I0);
        Result r;
        if (!fitsI<I>(x)) return bad();
        int s = Dune::sign(fromZ<I>(x));
        r.impl = std::to_string(s);
        if (s != (x < 0 ? -1 : 1)) r.oracle = "FAIL sign wrong";
        return r;
      });
    }
    if (!parseFT(w[1], ft)) return bad();
    int s, expect;
    if (w[2] == "nz") {
      s = w[1] == "f32" ? Dune::sign(-0.0f) : Dune::sign(-0.0);
      expect = 1;
    } else {
      Dy x = parseDy(w[2]);
      if (!x.ok) return bad();
      // any finite dyadic: the sign survives rounding as long as the value does not underflow to zero
      if (x.m != 0 && (bitlen(x.m) + x.e < -100 || bitlen(x.m) + x.e > 100)) return bad("sign operand out of range");
      s = w[1] == "f32" ? Dune::sign((float)std::ldexp(x.m.get_d(), (int)x.e)) : Dune::sign(std::ldexp(x.m.get_d(), (int)x.e));
      expect = x.m < 0 ? -1 : 1;
    }
    res.impl = std::to_string(s);
    if (s != expect) res.oracle = "FAIL sign wrong";
    return res;
  }
  if (op == "cls" && w.size() == 4) {
    const std::string& l = w[3];
    if (l.size() < 2 || l.front() != '[' || l.back() != ']') return bad();
    std::vector<unsigned long long> bits;
    std::string in = l.substr(1, l.size() - 2);
    bool f32 = w[2] == "f32";
    if (!f32 && w[2] != "f64") return bad();
    if (!in.empty())
      for (auto& h : split(in, ',')) {
        if (h.empty() || h.size() > 16) return bad();
        for (char c : h) if (!isxdigit((unsigned char)c)) return bad();
        unsigned long long b = std::stoull(h, nullptr, 16);
        if (f32 && b > 0xffffffffull) return bad();
        bits.push_back(b);
      }
    return f32 ? execCls<float, uint32_t>(w[1], true, bits) : execCls<double, uint64_t>(w[1], false, bits);
  }
  return bad("harness does not know op " + op);
}

// ------------------------------------------------------------------------------------------------
// generator
// ------------------------------------------------------------------------------------------------
struct GD {  // generator-side dyadic m * 2^e (not normalised)
  mpz_class m;
  long e;
};
static GD gAdd(const GD& a, const GD& b, int sgn = 1) {
  long e = std::min(a.e, b.e);
  mpz_class ma = a.m << (a.e - e), mb = b.m << (b.e - e);
  return GD{sgn > 0 ? mpz_class(ma + mb) : mpz_class(ma - mb), e};
}
static GD gMul(const GD& a, const GD& b) { return GD{a.m * b.m, a.e + b.e}; }
static GD gAbs(const GD& a) { return GD{abs(a.m), a.e}; }
static std::string gStr(const GD& a) {
  Dy d; d.m = a.m; d.e = a.e; normalise(d);
  return d.m.get_str(10) + ":" + std::to_string(d.e);
}
static Dy gDy(const GD& a) { Dy d; d.m = a.m; d.e = a.e; normalise(d); d.ok = true; return d; }

static GD genEps(Rng& r, bool f32) {
  switch (r.below(10)) {
    case 0: return GD{0, 0};
    case 1: return GD{1, 0};                                        // epsilon 1
    case 2: return GD{(long)r.range(2, 6), -(long)r.below(2)};      // epsilon >= 1
    case 3: return GD{1, -1};
    default: return GD{(long)r.range(1, 7), -(long)r.range(1, f32 ? 5 : 12)};
  }
}
static GD genX(Rng& r, bool f32) {
  long bits = f32 ? 5 : 10;
  long m = r.coin(1, 4) ? (long)r.range(1, 3) : (long)r.range(1, (1l << bits) - 1);
  if (r.coin()) m = -m;
  long e = f32 ? r.range(-4, 3) : r.range(-8, 8);
  if (r.coin(1, 12)) m = 0;
  return GD{m, e};
}
// (a,b) related through the tolerance threshold of the style
static void genPair(Rng& r, bool f32, int style, const GD& eps, GD& a, GD& b) {
  FT ft; parseFT(f32 ? "f32" : "f64", ft);
  for (int tries = 0; tries < 30; ++tries) {
    GD x = genX(r, f32), y;
    GD unit{1, -ft.ew};
    switch (r.below(8)) {
      case 0: y = x; break;
      case 1: case 2: case 3: {
        GD t = style == 2 ? eps : gMul(eps, gAbs(x));
        int which = (int)r.below(4);
        GD td = which == 0 ? t : which == 1 ? gAdd(t, unit) : which == 2 ? gAdd(t, unit, -1) : gAdd(t, t);
        y = gAdd(x, td, r.coin() ? 1 : -1);
        break;
      }
      case 4: y = gAdd(x, unit, r.coin() ? 1 : -1); break;
      case 5: y = r.coin() ? GD{-x.m, x.e} : GD{0, 0}; break;
      default: y = genX(r, f32); break;
    }
    if (!okVal(ft, gDy(x)) || !okVal(ft, gDy(y))) continue;
    if (r.coin()) { a = x; b = y; } else { a = y; b = x; }
    return;
  }
  a = GD{1, 0}; b = GD{1, 0};
}

static const std::vector<std::string> ITYPES = {"i32", "i64", "u32", "u64"};
static mpz_class typeMax(const std::string& t) {
  if (t == "i32") return (mpz_class(1) << 31) - 1;
  if (t == "i64") return (mpz_class(1) << 63) - 1;
  if (t == "u32") return (mpz_class(1) << 32) - 1;
  return (mpz_class(1) << 64) - 1;
}
// largest n with choose(n, k) <= max   (k >= 1)
static mpz_class maxNForK(const std::string& t, long k) {
  static std::map<std::string, mpz_class> cache;
  std::string key = t + ":" + std::to_string(k);
  auto it = cache.find(key);
  if (it != cache.end()) return it->second;
  mpz_class mx = typeMax(t), lo = 2 * k, hi = mx;
  if (chooseZ(lo, k) > mx) { cache[key] = -1; return -1; }
  while (lo < hi) {
    mpz_class mid = (lo + hi + 1) / 2;
    if (chooseZ(mid, k) <= mx) lo = mid; else hi = mid - 1;
  }
  cache[key] = lo;
  return lo;
}
// largest m >= 0 with m^p <= max
static mpz_class maxRoot(const std::string& t, long p) {
  mpz_class r;
  mpz_class mx = typeMax(t);
  mpz_root(r.get_mpz_t(), mx.get_mpz_t(), (unsigned long)p);
  return r;
}

static std::string genFloatBits(Rng& r, bool f32, int cls) {  // cls 0 finite, 1 inf, 2 nan
  unsigned long long sign = r.below(2), e, m;
  int eb = f32 ? 8 : 11, mb = f32 ? 23 : 52;
  unsigned long long emax = (1ull << eb) - 1, mmask = (1ull << mb) - 1;
  if (cls == 0) {
    switch (r.below(5)) {
      case 0: e = 0; m = r.coin() ? 0 : r.next() & mmask; break;         // zero / subnormal
      case 1: e = emax - 1; m = mmask; break;                             // largest finite
      default: e = r.below(emax); m = r.next() & mmask; break;
    }
  } else if (cls == 1) { e = emax; m = 0; }
  else { e = emax; m = r.coin() ? (1ull << (mb - 1)) : (r.next() & mmask); if (m == 0) m = 1; }
  unsigned long long b = (sign << (eb + mb)) | (e << mb) | m;
  char buf[32];
  std::snprintf(buf, sizeof buf, "%llx", b);
  return buf;
}

static std::string genInt(Rng& r) {
  std::ostringstream os;
  std::string t = r.pick(ITYPES);
  bool sg = t[0] == 'i';
  switch (r.below(10)) {
    case 0: {  // factorial
      long hi = t == "i32" || t == "u32" ? 14 : 23;
      os << "fact " << t << " " << (sg && r.coin(1, 8) ? -(long)r.range(1, 5) : (long)r.range(0, hi));
      return os.str();
    }
    case 1: case 2: case 3: {  // power
      std::string te = r.pick(ITYPES);
      long p = r.coin(1, 6) ? (long)r.range(0, 2) : (long)r.range(0, t == "i32" || t == "u32" ? 33 : 65);
      mpz_class m;
      if (p >= 1 && r.coin(2, 3)) m = maxRoot(t, p) + (long)r.range(-2, 1);
      else m = (long)r.range(0, 12);
      if (sg && r.coin()) m = -m - (r.coin(1, 4) ? 1 : 0);
      if (!sg && m < 0) m = 0;
      if (m > typeMax(t)) m = typeMax(t);
      if (sg && m < -typeMax(t) - 1) m = -typeMax(t) - 1;
      if (te[0] == 'i' && sg && r.coin(1, 12) && m != 0) p = -(long)r.range(1, 3);
      if (r.coin(1, 20)) { m = r.coin() ? 1 : (sg ? -1 : 0); p = (long)r.range(0, 3000); }
      os << "pow " << t << " " << te << " " << m.get_str(10) << " " << p;
      return os.str();
    }
    case 4: os << "sign " << t << " " << (sg ? (long)r.range(-3, 3) : (long)r.range(0, 3)); return os.str();
    case 5: if (r.coin(1, 50)) return r.coin() ? "static" : "static2"; [[fallthrough]];
    default: {  // binomial
      mpz_class n, k;
      int mode = (int)r.below(10);
      if (mode == 0) { n = (long)r.range(sg ? -3 : 0, 12); k = (long)r.range(sg ? -3 : 0, 14); }
      else if (mode <= 2) { n = (long)r.range(0, 70); k = (long)r.range(0, 70); if (k > n) std::swap(n, k); }
      else {
        long kk = mode <= 4 ? (long)r.range(1, 3) : (long)r.range(1, t == "i32" || t == "u32" ? 17 : 34);
        mpz_class nm = maxNForK(t, kk);
        if (nm < 0) { n = 2 * kk; } else n = nm + (long)r.range(-3, 1);
        if (n > typeMax(t)) n = typeMax(t);
        if (n < 0) n = 0;
        k = r.coin() ? mpz_class(kk) : mpz_class(n - kk);
        if (k < 0) k = 0;
      }
      os << "binom " << t << " " << n.get_str(10) << " " << k.get_str(10);
      return os.str();
    }
  }
}

static std::string genRT(Rng& r) {
  bool f32 = r.coin(1, 3);
  static const std::vector<std::string> IT = {"i32", "i64", "u32", "u64", "i32", "i64", "i8", "u8", "i16", "u16", "u8", "u16"};
  std::string it = r.pick(IT);
  const int ibits = rtBits(it);
  int st = (int)r.below(3), rs = (int)r.below(4);
  GD eps;
  switch (r.below(8)) {
    case 0: eps = GD{0, 0}; break;
    case 1: eps = GD{1, -1}; break;
    case 2: eps = GD{(long)r.range(1, 3), 0}; break;
    case 3: case 4: eps = GD{1, -(long)r.range(f32 ? 5 : 10, f32 ? 8 : 21)}; break;   // small: few arguments are "equal to their integer part"
    default: eps = GD{(long)r.range(1, 3), -(long)r.range(1, f32 ? 5 : 10)}; break;
  }
  long nb = f32 ? 4 : 11;
  long n = r.coin(2, 3) ? (long)r.range(-6, 6) : (long)r.range(-(1l << nb), (1l << nb));
  if (ibits == 8) n %= 120;
  // the ends of the range of the narrow / unsigned target types: val in [max-1, max+1) and (min-1, min+1]
  bool atEnd = false;
  if ((ibits == 8 || (ibits == 16 && !f32)) && r.coin(1, 5)) {
    long hiI = (1l << (ibits - (it[0] == 'u' ? 0 : 1))) - 1;
    atEnd = true;
    if (it[0] == 'u' || r.coin()) n = hiI - (long)r.below(2);
    else n = -hiI - 1 - (long)r.below(2);    // the fraction is added toward +infinity: val in [min-2, min)
    if (it[0] != 'u' && n < 0 && r.coin()) n += 1;
  }
  long j = (long)r.range(1, f32 ? 6 : 12);
  GD f;
  GD half{1, -1}, tiny{1, -j};
  switch (r.below(9)) {
    case 0: f = GD{0, 0}; break;
    case 1: f = half; break;
    case 2: f = gAdd(half, tiny, r.coin() ? 1 : -1); break;
    case 3: f = tiny; break;
    case 4: f = gAdd(GD{1, 0}, tiny, -1); break;
    case 5: {  // tie boundary of the tolerant comparison of the two distances: |2f-1| ~ eps * scale
      GD h = GD{eps.m, eps.e - 1};
      f = gAdd(half, h, r.coin() ? 1 : -1);
      if (r.coin()) f = gAdd(f, GD{1, -(f32 ? 7 : 14)}, r.coin() ? 1 : -1);
      break;
    }
    case 6: f = eps; break;                                       // distance eps from the integer below
    case 7: f = gAdd(GD{1, 0}, eps, -1); break;                   // distance eps from the integer above
    default: f = GD{(long)r.range(0, (1l << j) - 1), -j}; break;
  }
  GD val = gAdd(GD{n, 0}, f);
  bool isRoundOp = r.coin();
  if (it[0] == 'u' && val.m < 0) {
    // unsigned targets: arguments in (-1,0] (`lower--` wraps around); trunc compares T(2^bits - 1) with val: exact in T
    // only for narrow targets (see exec), the wide ones are covered by ftrunc
    bool negOk = isRoundOp || ibits + (f32 ? 11 : 26) <= (f32 ? 24 : 53);
    if (negOk && r.coin()) val = GD{-f.m, f.e};
    else val.m = -val.m;
  }
  FT ft; parseFT(f32 ? "f32" : "f64", ft);
  (void)atEnd;
  if (!okVal(ft, gDy(val)) || !okEps(ft, gDy(eps))) { val = GD{n < 0 && it[0] == 'u' ? -n : n, 0}; val = gAdd(val, half); eps = GD{1, -3}; }
  std::ostringstream os;
  os << (isRoundOp ? "round " : "trunc ") << (f32 ? "f32 " : "f64 ") << it << " " << STYLES[st] << " " << RSTYLES[rs] << " " << gStr(val) << " "
     << gStr(eps);
  return os.str();
}

static std::string genCmp(Rng& r, bool vec) {
  bool f32 = r.coin(1, 3);
  int st = (int)r.below(3);
  GD eps = genEps(r, f32);
  std::ostringstream os;
  if (!vec) {
    GD a, b;
    genPair(r, f32, st, eps, a, b);
    os << "cmp " << (f32 ? "f32 " : "f64 ") << STYLES[st] << " " << gStr(a) << " " << gStr(b) << " " << gStr(eps);
    return os.str();
  }
  bool stdv = r.coin();
  int n = stdv ? (int)r.range(0, 5) : (int)r.range(1, 4);
  std::vector<std::string> A, B;
  int differ = r.coin(1, 3) ? -1 : (int)r.below(n ? n : 1);  // mostly-equal vectors with one interesting component
  for (int i = 0; i < n; ++i) {
    GD a, b;
    genPair(r, f32, st, eps, a, b);
    if (i != differ && r.coin(2, 3)) b = a;
    A.push_back(gStr(a));
    B.push_back(gStr(b));
  }
  if (stdv && r.coin(1, 6)) { if (r.coin() && !A.empty()) A.pop_back(); else B.push_back("1:0"); }
  os << "cmpv " << (f32 ? "f32 " : "f64 ") << (stdv ? "std " : "fv ") << STYLES[st] << " " << listStr(A) << " " << listStr(B) << " " << gStr(eps);
  return os.str();
}

// ---- arbitrary values of float / double / long double -------------------------------------------------
template <class T> T nudge(T x, long k) {
  T to = k > 0 ? std::numeric_limits<T>::infinity() : -std::numeric_limits<T>::infinity();
  for (long i = 0; i < std::labs(k); ++i) x = std::nextafter(x, to);
  return x;
}
template <class T> T fixFinite(T x) {
  if (std::isnan(x)) return T(1);
  if (std::isinf(x)) return x > 0 ? std::numeric_limits<T>::max() : std::numeric_limits<T>::lowest();
  return x;
}
// a finite value: mode 0 moderate magnitude (products and differences stay normal), 1 anywhere in the format, 2 special
template <class T> T genVal(Rng& r, int mode) {
  const int p = std::numeric_limits<T>::digits;
  if (mode == 2) {
    switch (r.below(8)) {
      case 0: return T(0);
      case 1: return std::numeric_limits<T>::denorm_min() * (T)(long)r.range(1, 3);
      case 2: return std::numeric_limits<T>::max();
      case 3: return std::numeric_limits<T>::min();
      case 4: return T(1);
      case 5: return std::ldexp(T(1), (int)r.range(-30, 30));
      case 6: return std::numeric_limits<T>::epsilon();
      default: return (T)(long)r.range(-4, 4);
    }
  }
  // random significand with few or many bits
  unsigned long m = r.next();
  if (p < 64) m >>= (64 - p);
  if (r.coin(1, 3)) m &= ~((1ul << r.below((uint64_t)std::min(p - 1, 40))) - 1);  // trailing zeros
  if (m == 0) m = 1;
  int emin = std::numeric_limits<T>::min_exponent - p, emax = std::numeric_limits<T>::max_exponent - 64;
  int e = mode == 0 ? (int)r.range(-40 - p, 40 - p) : (int)r.range(emin, emax);
  T x = fixFinite(std::ldexp((T)m, e));
  return r.coin() ? -x : x;
}
template <class T> T genEpsT(Rng& r, int style, bool& dflt) {
  dflt = false;
  switch (r.below(10)) {
    case 0: case 1: dflt = true; return docDefaultEps<T>(style);
    case 2: return T(0);
    case 3: return docDefaultEps<T>(style) * (T)(long)r.range(1, 4);
    case 4: return std::ldexp(T(1), -(int)r.range(1, std::numeric_limits<T>::digits + 4));
    case 5: return (T)(long)r.range(1, 5) / T(2);                       // epsilon >= 1/2
    case 6: return (T)1e-3;
    case 7: return (T)0.1;
    default: return std::fabs(genVal<T>(r, 0)) * std::ldexp(T(1), -(int)r.range(0, 60));
  }
}
template <class T> std::string epsTok(T eps, bool dflt) { return dflt ? std::string("def") : dyStr<T>(fixFinite(eps)); }

// a partner of `a` placed on / next to the tolerance threshold as the code computes it
template <class T> T genPartner(Rng& r, int style, T a, T eps) {
  switch (r.below(10)) {
    case 0: return a;
    case 1: case 2: case 3: case 4: {
      T t = style == 2 ? eps : eps * std::fabs(a);
      T b = r.coin() ? a + t : a - t;
      if (style == 1 && r.coin()) b = r.coin() ? a / (T(1) + eps) : a / (T(1) - eps);  // threshold relative to the smaller operand
      return nudge(fixFinite(b), r.range(-3, 3));
    }
    case 5: return nudge(a, r.range(-4, 4));
    case 6: return -a;
    case 7: return T(0);
    case 8: return genVal<T>(r, 2);
    default: return genVal<T>(r, r.coin(1, 4) ? 1 : 0);
  }
}
template <class T> std::string genFCmpT(Rng& r, bool vec) {
  int st = (int)r.below(3);
  bool dflt;
  T eps = genEpsT<T>(r, st, dflt);
  std::ostringstream os;
  if (!vec) {
    T a = genVal<T>(r, r.coin(1, 8) ? (r.coin() ? 1 : 2) : 0), b = genPartner<T>(r, st, a, eps);
    if (r.coin()) std::swap(a, b);
    os << "fcmp " << FTr<T>::name << " " << STYLES[st] << " " << dyStr<T>(a) << " " << dyStr<T>(fixFinite(b)) << " " << epsTok(eps, dflt);
    return os.str();
  }
  bool stdv = r.coin();
  static const int FVN[] = {1, 2, 3, 4, 5, 6, 8};
  int n = stdv ? (int)r.range(0, 9) : FVN[r.below(7)];
  std::vector<std::string> A, B;
  int differ = r.coin(1, 3) ? -1 : (r.coin(1, 3) ? n - 1 : (int)r.below(n ? n : 1));   // often the last component
  for (int i = 0; i < n; ++i) {
    T a = genVal<T>(r, 0), b = fixFinite(genPartner<T>(r, st, a, eps));
    if (i != differ && r.coin(2, 3)) b = a;
    A.push_back(dyStr<T>(a));
    B.push_back(dyStr<T>(b));
  }
  if (stdv && r.coin(1, 6)) { if (r.coin() && !A.empty()) A.pop_back(); else B.push_back("1:0"); }
  os << "fcmpv " << FTr<T>::name << " " << (stdv ? "std " : "fv ") << STYLES[st] << " " << listStr(A) << " " << listStr(B) << " " << epsTok(eps, dflt);
  return os.str();
}
template <class T> std::string genFRTT(Rng& r) {
  static const std::vector<std::string> IT = {"i32", "i64", "u32", "u64", "i32", "i64", "u32", "u64", "i8", "u8", "i16", "u16"};
  const int p = std::numeric_limits<T>::digits;
  std::string it = r.pick(IT);
  bool uns = it[0] == 'u';
  const int vb = rtBits(it) - (uns ? 0 : 1);   // value bits of the target type
  int st = (int)r.below(3), rs = (int)r.below(4);
  bool isRound = r.coin();
  bool dflt;
  T eps = genEpsT<T>(r, st, dflt);
  if (!dflt && eps > T(4)) eps = T(2);
  // integer part
  T n;
  switch (r.below(8)) {
    case 0: n = T(0); break;
    case 1: {  // where the integers stop being values of T, or the end of the target type
      int top = std::min(p, vb) - (int)r.below(3);
      n = std::ldexp(T(1), top) - (T)(long)r.range(0, 6);
      break;
    }
    case 2: n = std::ldexp(T(1), (int)r.range(3, std::min(p, vb - 1))) + (T)(long)r.range(-2, 2); break;
    default: n = (T)(long)r.range(0, 40); break;
  }
  if (!uns && r.coin()) n = -n;
  // fractional part, computed in T
  T f;
  T tiny = std::ldexp(T(1), -(int)r.range(1, p + 2));
  switch (r.below(10)) {
    case 0: f = T(0); break;
    case 1: f = T(0.5); break;
    case 2: f = T(0.5) + (r.coin() ? tiny : -tiny); break;
    case 3: f = tiny; break;
    case 4: f = T(1) - tiny; break;
    case 5: case 6: {  // tie boundary: |2f-1| ~ eps * scale
      T h = eps / T(2);
      if (st != 2) h = h * T(0.5);
      f = r.coin() ? T(0.5) + h : T(0.5) - h;
      break;
    }
    case 7: f = st == 2 ? eps : eps * std::fabs(n); break;   // distance ~eps from the integer below
    case 8: f = T(1) - (st == 2 ? eps : eps * std::fabs(n)); break;
    default: f = (T)(long)r.range(0, 1023) / T(1024); break;
  }
  if (!(f >= T(0) && f < T(1))) f = T(0.5);
  T val = nudge(fixFinite(n + f), r.coin(1, 2) ? r.range(-3, 3) : 0);
  if (uns && val < T(0)) val = -val;
  if (uns && r.coin(1, 4)) val = r.coin() ? -f : nudge(-f, r.range(-2, 2));   // unsigned targets: (-1,0], where `lower--` wraps around
  else if (rtBits(it) < 32 && r.coin(1, 5)) {   // narrow types: around the largest / smallest value (val in (max, max+1), (min-1, min))
    T hiI = std::ldexp(T(1), vb) - T(1);
    val = (uns || r.coin()) ? hiI - T((long)r.below(2)) + f : -hiI - T(1) + T((long)r.below(2)) - f;
  } else if (uns && std::numeric_limits<T>::digits > vb && r.coin(1, 8)) {   // unsigned / unsigned long: (max-1, max+1)
    val = (std::ldexp(T(1), vb) - T(1)) - T((long)r.below(2)) + f;
  }
  std::ostringstream os;
  os << (isRound ? "fround " : "ftrunc ") << FTr<T>::name << " " << it << " " << STYLES[st] << " " << RSTYLES[rs] << " " << dyStr<T>(fixFinite(val)) << " "
     << epsTok(eps, dflt);
  return os.str();
}
// a vector op from scalar cases: the components are the arguments of generated scalar cases with the same types and styles
template <class T> std::string genFVRTT(Rng& r) {
  static const std::vector<std::string> IT = {"i32", "u8", "i16", "u64"};
  std::string first;
  std::vector<std::string> w0;
  for (int tries = 0; tries < 200; ++tries) {
    w0 = split(genFRTT<T>(r), ' ');
    if (std::find(IT.begin(), IT.end(), w0[2]) != IT.end()) break;
  }
  if (std::find(IT.begin(), IT.end(), w0[2]) == IT.end()) w0[2] = "i32";
  bool stdv = r.coin();
  static const int FVN[] = {1, 2, 3, 5};
  int n = stdv ? (int)r.range(0, 7) : FVN[r.below(4)];
  std::vector<std::string> comps;
  if (n > 0) comps.push_back(w0[5]);
  for (int tries = 0; (int)comps.size() < n && tries < 4000; ++tries) {
    std::vector<std::string> w = split(genFRTT<T>(r), ' ');
    if (w[2] != w0[2]) continue;
    comps.push_back(w[5]);
  }
  while ((int)comps.size() < n) comps.push_back(comps.empty() ? std::string("3:-1") : comps.back());
  if (comps.size() > 1) std::swap(comps[0], comps[(size_t)r.below(comps.size())]);   // the interesting component anywhere
  std::ostringstream os;
  os << (w0[0] == "fround" ? "fvround " : "fvtrunc ") << w0[1] << " " << w0[2] << (stdv ? " std " : " fv ") << w0[3] << " " << w0[4] << " " << listStr(comps) << " " << w0[6];
  return os.str();
}
static std::string genF(Rng& r, int what) {  // what: 0 fcmp, 1 fcmpv, 2 frt, 3 fvrt
  if (what == 3) { int t = (int)r.below(4); return t == 0 ? genFVRTT<float>(r) : t == 1 ? genFVRTT<long double>(r) : genFVRTT<double>(r); }
  int t = (int)r.below(5);  // double twice as often as the others
  if (what == 2) return t == 0 ? genFRTT<float>(r) : t == 1 ? genFRTT<long double>(r) : genFRTT<double>(r);
  bool vec = what == 1;
  return t == 0 ? genFCmpT<float>(r, vec) : t == 1 ? genFCmpT<long double>(r, vec) : genFCmpT<double>(r, vec);
}

static std::string genLaws(Rng& r) {
  bool f32 = r.coin(1, 3);
  auto bitsOf = [&](int mode, unsigned long long base) -> unsigned long long {
    unsigned long long mask = f32 ? 0xffffffffull : ~0ull;
    unsigned long long top = f32 ? 0x7f7fffffull : 0x7fefffffffffffffull;
    unsigned long long signbit = f32 ? 0x80000000ull : 0x8000000000000000ull;
    unsigned long long x;
    switch (mode) {
      case 0: x = base; break;
      case 1: x = base + 1; break;
      case 2: x = base ? base - 1 : 0; break;
      case 3: x = base ^ signbit; break;
      case 4: x = r.coin() ? 0 : signbit; break;
      case 5: x = r.below(4); break;  // subnormals
      case 6: x = top - r.below(2); break;
      default: x = r.next() & mask; break;
    }
    x &= mask;
    if ((x & ~signbit) > top) x = (x & signbit) | (top - r.below(1000));  // keep finite
    return x;
  };
  unsigned long long a = bitsOf(7, 0), b = bitsOf((int)r.below(8), a);
  unsigned long long e;
  switch (r.below(8)) {
    case 0: e = 0; break;
    case 1: e = f32 ? 0x35800000ull : 0x3ce0000000000000ull; break;  // 8 * machine epsilon
    case 2: e = f32 ? 0x3f800000ull : 0x3ff0000000000000ull; break;  // 1
    case 3: e = f32 ? 0x7f7fffffull : 0x7fefffffffffffffull; break;
    case 4: e = 1; break;                                             // smallest subnormal
    default: e = bitsOf(7, 0) & (f32 ? 0x7fffffffull : 0x7fffffffffffffffull); break;
  }
  char buf[128];
  std::snprintf(buf, sizeof buf, "laws %s %s %llx %llx %llx", f32 ? "f32" : "f64", STYLES[r.below(3)], a, b, e);
  return buf;
}

static std::string genCls(Rng& r) {
  bool f32 = r.coin(1, 3);
  static const std::vector<std::string> KINDS = {"fv", "fv", "cx", "fvcx", "un"};
  std::string kind = r.pick(KINDS);
  int n = kind == "fv" ? (int)r.range(1, 4) : kind == "cx" || kind == "un" ? 2 : 2 * (int)r.range(1, 3);
  std::vector<std::string> v;
  int special = r.coin(1, 3) ? -1 : (int)r.below(n);  // often exactly one non-finite component
  for (int i = 0; i < n; ++i) {
    int c = i == special ? (int)r.range(1, 2) : (r.coin(1, 8) ? (int)r.range(1, 2) : 0);
    v.push_back(genFloatBits(r, f32, c));
  }
  return "cls " + kind + (f32 ? " f32 " : " f64 ") + listStr(v);
}

static int mfFiniteCode(long i) { return (int)(i < 120 ? i : i + 8); }  // i in [0,240): the finite codes in order

// exhaustive round/trunc tables of the two minifloat formats with integer target types other than int:
// every (format, I, value in the range of I) x style x rounding style x epsilon.  Index: style/rstyle fastest, then
// (format, I, value), then epsilon — a contiguous slice covers every type and value for a few epsilons.
struct MfriTab {
  std::vector<std::string> head;  // "e5m2 u8" per entry
  std::vector<int> code;
  long nEps43 = 120, nEps52 = 124;
};
template <class Fm> static void mfriAdd(MfriTab& t, const std::string& fmt, const std::string& it) {
  bool uns = it[0] == 'u';
  double hi = std::ldexp(1.0, rtBits(it) - (uns ? 0 : 1)) - 1;
  for (long i = 0; i < Fm::nFinite; ++i) {
    int c = Fm::finiteIdx(i);
    double v = Fm::value((unsigned)c), tr = std::trunc(v);
    bool in = uns ? (v > -1 && tr <= hi) : (-(hi + 1) <= tr && tr <= hi);   // narrow and unsigned types only (rtDomain)
    if (in) { t.head.push_back(fmt + " " + it); t.code.push_back(c); }
  }
}
static const MfriTab& mfriTab() {
  static MfriTab t;
  if (!t.head.empty()) return t;
  mfriAdd<mf::F<5, 2>>(t, "e5m2", "u8");    // T(255) = 256 is finite: trunc on (-1,0) is decided by the oracle
  mfriAdd<mf::F<5, 2>>(t, "e5m2", "i8");
  mfriAdd<mf::F<4, 3>>(t, "e4m3", "u8");    // T(255) overflows to infinity: trunc on (-1,0) is compared with the model only
  mfriAdd<mf::F<4, 3>>(t, "e4m3", "u32");
  return t;
}
static long mfriTotal() { return 12l * (long)mfriTab().head.size() * 124; }

static const std::vector<std::string>& intAll(const std::string& tier) {
  static std::vector<std::string> v;
  if (!v.empty()) return v;
  bool full = tier == "thorough";
  v.push_back("static");
  v.push_back("static2");
  for (auto& t : ITYPES) {
    bool sg = t[0] == 'i', w32 = t[1] == '3';
    for (long n = sg ? -3 : 0; n <= 25; ++n) v.push_back("fact " + t + " " + std::to_string(n));
    for (auto& ft : {std::string("f32"), std::string("f64")})
      for (auto& st : STYLES) v.push_back("defeps " + ft + " " + st);
    // binomial: every (n,k) with min(k,n-k) = kk >= kmin and a representable value, plus the first unrepresentable n
    long kmin = full ? (w32 ? 2 : 5) : (w32 ? 4 : 8);
    for (long kk = 0; kk <= 35; ++kk) {
      mpz_class nm = maxNForK(t, kk == 0 ? 1 : kk);
      if (kk == 0) nm = 40;
      if (nm < 0) break;
      mpz_class from = 2 * kk;
      if (kk < kmin && nm - from > 60) from = nm - 60;  // small kk: only the top of the range
      for (mpz_class n = from; n <= nm + 1 && n <= typeMax(t); ++n) {
        v.push_back("binom " + t + " " + n.get_str(10) + " " + std::to_string(kk));
        if (n - kk != kk) v.push_back("binom " + t + " " + n.get_str(10) + " " + mpz_class(n - kk).get_str(10));
      }
    }
    // extreme n with k at both ends of the row
    for (long dn = 0; dn <= 2; ++dn)
      for (long dk = 0; dk <= 2; ++dk) {
        mpz_class n = typeMax(t) - dn;
        v.push_back("binom " + t + " " + n.get_str(10) + " " + std::to_string(dk));
        v.push_back("binom " + t + " " + n.get_str(10) + " " + mpz_class(n - dk).get_str(10));
      }
    // small triangle incl. the arguments outside 0<=k<=n
    for (long n = sg ? -2 : 0; n <= 12; ++n)
      for (long k = sg ? -2 : 0; k <= 14; ++k) v.push_back("binom " + t + " " + std::to_string(n) + " " + std::to_string(k));
    // power: every (m,p) with p >= pmin and a representable value, plus the neighbours beyond
    long pmin = full ? (w32 ? 2 : 4) : (w32 ? 3 : 6);
    for (long p = 0; p <= (w32 ? 33 : 65); ++p) {
      mpz_class rt = p == 0 ? mpz_class(3) : maxRoot(t, p);
      mpz_class lo = sg ? mpz_class(-rt - 1) : mpz_class(0), hi = rt + 1;
      if (lo < -typeMax(t) - 1) lo = -typeMax(t) - 1;
      if (hi > typeMax(t)) hi = typeMax(t);
      if (p < pmin && rt > 40) {
        for (mpz_class m = rt - 20; m <= hi; ++m) v.push_back("pow " + t + " i32 " + m.get_str(10) + " " + std::to_string(p));
        if (sg) for (mpz_class m = lo; m <= -rt + 20; ++m) v.push_back("pow " + t + " i32 " + m.get_str(10) + " " + std::to_string(p));
        for (long m = -20; m <= 20; ++m) if (sg || m >= 0) v.push_back("pow " + t + " i32 " + std::to_string(m) + " " + std::to_string(p));
      } else {
        for (mpz_class m = lo; m <= hi; ++m) v.push_back("pow " + t + " u32 " + m.get_str(10) + " " + std::to_string(p));
      }
    }
  }
  return v;
}

std::string gen(Rng& r, long i, const Args& a) {
  std::string kind = a.gets("kind", "mix");
  long from = a.get("from", 0);
  long idx = from + i;
  if (kind == "mfall") {  // exhaustive: style x eps x a  (one row over all b per line)
    char buf[64];
    std::snprintf(buf, sizeof buf, "mfrow %s %d %d", STYLES[idx % 3], mfFiniteCode((idx / 3) % 240), (int)((idx / 720) % 120));
    return buf;
  }
  if (kind == "mfrall") {  // exhaustive: style x rstyle x val x eps
    char buf[96];
    std::snprintf(buf, sizeof buf, "mfr %s %s %d %d", STYLES[idx % 3], RSTYLES[(idx / 3) % 4], mfFiniteCode((idx / 12) % 240),
                  (int)((idx / 2880) % 120));
    return buf;
  }
  if (kind == "mfriall") {
    const MfriTab& t = mfriTab();
    long P = (long)t.head.size();
    long pi = (idx / 12) % P, ei = (idx / (12 * P)) % 124;
    bool b52 = t.head[(size_t)pi][1] == '5';
    if (!b52 && ei >= 120) ei -= 120;   // the format <4,3> has 120 epsilons: the last slots repeat the first ones
    char buf[96];
    std::snprintf(buf, sizeof buf, "mfri %s %s %s %d %d", t.head[(size_t)pi].c_str(), STYLES[idx % 3], RSTYLES[(idx / 3) % 4], t.code[(size_t)pi], (int)ei);
    return buf;
  }
  if (kind == "intall") {
    const auto& v = intAll(a.tier);
    return v[(size_t)idx % v.size()];
  }
  auto mfEpsTok = [&]() { return r.coin(1, 6) ? std::string("def") : std::to_string((int)r.below(120)); };
  auto genMf = [&]() {
    std::ostringstream os;
    os << "mf " << STYLES[r.below(3)] << " " << mfFiniteCode((long)r.below(240)) << " " << mfFiniteCode((long)r.below(240)) << " " << mfEpsTok();
    return os.str();
  };
  auto genMfr = [&]() {
    std::ostringstream os;
    // non-integers of the format lie below 16 (codes with exponent field <= 10): prefer them
    long v = r.coin(3, 4) ? (long)(r.below(88) + (r.coin() ? 128 : 0)) : mfFiniteCode((long)r.below(240));
    os << "mfr " << STYLES[r.below(3)] << " " << RSTYLES[r.below(4)] << " " << v << " " << mfEpsTok();
    return os.str();
  };
  auto genMfri = [&]() {
    const MfriTab& t = mfriTab();
    size_t pi = (size_t)r.below(t.head.size());
    bool b52 = t.head[pi][1] == '5';
    std::ostringstream os;
    os << "mfri " << t.head[pi] << " " << STYLES[r.below(3)] << " " << RSTYLES[r.below(4)] << " " << t.code[pi] << " "
       << (b52 ? std::to_string((int)r.below(124)) : mfEpsTok());
    return os.str();
  };
  auto genMisc = [&]() {
    bool f32 = r.coin();
    std::ostringstream os;
    if (r.coin(1, 4)) { os << "sign " << (f32 ? "f32 " : "f64 ") << (r.coin(1, 3) ? std::string("nz") : gStr(GD{(long)r.range(-3, 3), (long)r.range(-90, 90)})); return os.str(); }
    long mb = r.coin() ? 1 : (long)r.range(1, 15);
    long p = (long)r.range(-12, 12);
    os << "powf " << (f32 ? "f32 " : "f64 ") << gStr(GD{r.coin() ? mb : -mb, (long)r.range(-6, 6)}) << " " << p;
    return os.str();
  };
  // focused streams (used by the search after a broken correspondence / obligation, and by the thorough tier)
  if (kind == "rt") {
    switch (r.below(8)) { case 0: case 1: return genRT(r); case 2: return genMfr(); case 3: return genMfri(); case 4: return genF(r, 3); default: return genF(r, 2); }
  }
  if (kind == "cmp") {
    switch (r.below(8)) { case 0: case 1: return genCmp(r, false); case 2: return genCmp(r, true); case 3: return genMf();
                          case 4: return genF(r, 1); default: return genF(r, 0); }
  }
  if (kind == "int") return genInt(r);
  if (kind == "cls") return r.coin(1, 4) ? genMisc() : genCls(r);
  switch (r.below(24)) {
    case 0: case 1: case 2: return genCmp(r, false);
    case 3: return genCmp(r, true);
    case 4: case 5: case 6: case 7: return genF(r, 0);
    case 8: return genF(r, 1);
    case 9: case 10: return genRT(r);
    case 11: case 12: case 13: return genF(r, 2);
    case 14: return genF(r, 3);
    case 15: return genMf();
    case 16: return genMfr();
    case 17: return r.coin() ? genMfr() : genMfri();
    case 18: return genCls(r);
    case 19: return genMisc();
    case 20: return genLaws(r);
    default: return genInt(r);
  }
}

int main(int argc, char** argv) {
  std::cout << std::unitbuf;
  Args a = parseArgs(argc, argv);
  std::vector<std::string> av(argv, argv + argc);
  std::string kind = a.gets("kind", "mix");
  long total = -1;
  if (kind == "mfall") total = 3l * 240 * 120;
  if (kind == "mfrall") total = 3l * 4 * 240 * 120;
  if (kind == "mfriall") total = mfriTotal();
  if (kind == "intall") total = (long)intAll(a.tier).size();
  if (total >= 0 && a.replay.empty()) {
    long want = a.cases <= 0 ? total - a.get("from", 0) : std::min(a.cases, total - a.get("from", 0));
    if (want < 0) want = 0;
    bool found = false;
    for (size_t i = 0; i + 1 < av.size(); ++i) if (av[i] == "--cases") { av[i + 1] = std::to_string(want); found = true; }
    if (!found) { av.push_back("--cases"); av.push_back(std::to_string(want)); }
  }
  std::vector<char*> cv;
  for (auto& s : av) cv.push_back(s.data());
  return run((int)cv.size(), cv.data(), gen, exec);
}
#endif  // DV_C17_PROBE_ONLY
