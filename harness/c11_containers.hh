// C11 correspondence harness, container runners (included by cxx_c11.cc and cxx_c11_rel.cc).
//
// This header is compiled twice, once per build configuration of the dune-common headers (see the two .cc files):
// everything lives in an anonymous namespace, the including translation unit has already included the dune headers
// with its configuration macros (and, in the second unit, with the library renamed to another namespace).
// Entry point: execContainers(line).
#ifndef DV_C11_CONTAINERS_HH
#define DV_C11_CONTAINERS_HH

#include <bitset>
#include <deque>
#include <forward_list>
#include <iterator>
#include <list>
#include <sstream>
#include <map>
#include <memory>
#include <optional>

#include "hcommon.hh"

using namespace dv;

namespace {

struct Case {
  std::vector<std::string> head;              // header tokens
  std::vector<std::vector<std::string>> ops;  // tokenised ops
  std::vector<std::string> raw;
};

Case parseCase(const std::string& line) {
  Case c;
  auto pos = line.find(" :");
  std::string h = pos == std::string::npos ? line : line.substr(0, pos);
  std::string rest = pos == std::string::npos ? "" : line.substr(pos + 2);
  c.head = words(h);
  if (!words(rest).empty())
    for (auto& seg : split(rest, ';')) {
      c.ops.push_back(words(seg));
      c.raw.push_back(seg);
    }
  return c;
}

bool isInt(const std::string& s) {
  if (s.empty()) return false;
  size_t i = (s[0] == '-') ? 1 : 0;
  if (i == s.size() || s.size() > 9) return false;
  for (; i < s.size(); ++i)
    if (s[i] < '0' || s[i] > '9') return false;
  return true;
}
bool isNat(const std::string& s) { return isInt(s) && s[0] != '-'; }
bool isBits(const std::string& s, size_t B) {
  if (s.size() != B) return false;
  for (char ch : s)
    if (ch != '0' && ch != '1') return false;
  return true;
}
bool isList(const std::string& s) {
  if (s.size() < 2 || s.front() != '[' || s.back() != ']') return false;
  if (s.size() == 2) return true;
  for (auto& w : split(s.substr(1, s.size() - 2), ','))
    if (!isInt(w)) return false;
  return true;
}

// collects observations and the first oracle complaint
struct Out {
  std::vector<std::string> obs;
  std::string fail;
  long executed = 0;
  size_t opIndex = 0;
  std::string opText;
  void complain(const std::string& what) {
    if (fail.empty()) fail = "FAIL op#" + std::to_string(opIndex) + " '" + opText + "': " + what;
  }
  void check(bool cond, const std::string& what) {
    if (!cond) complain(what);
  }
  Result result() const {
    Result r;
    r.impl = join(obs.begin(), obs.end(), ";");
    if (!fail.empty()) r.oracle = fail;
    else if (executed == 0) r.oracle = "ok trivial";
    return r;
  }
};

template <class C> std::string lst(const C& c) { return listStr(c); }

// ================================================================================================
// ArrayList
// ================================================================================================
template <int N>
Result runAL(const Case& cs) {
  using AL = Dune::ArrayList<int, N>;
  constexpr int CS = N > 0 ? N : 1;
  struct Held { typename AL::iterator it; long g; };
  struct Side {
    std::unique_ptr<AL> l = std::make_unique<AL>();
    std::deque<int> sh;
    std::vector<Held> held;
    long erased = 0;  // elements erased from the front since the last clear
  };
  Side S[2];
  Out out;
  for (size_t oi = 0; oi < cs.ops.size(); ++oi) {
    const auto& w = cs.ops[oi];
    out.opIndex = oi; out.opText = cs.raw[oi];
    std::string res = "-";
    bool ok = false;
    std::string op = w.empty() ? "" : w[0];
    int t = 0;
    if (op.size() > 2 && op[0] == 'b' && op[1] == '.') { t = 1; op = op.substr(2); }
    Side& s = S[t];
    Side& o = S[1 - t];
    AL& a = *s.l;
    std::deque<int>& sh = s.sh;
    auto at = [&](long k) {  // begin()+k, built in three different ways
      auto it = a.begin();
      if (k % 3 == 1) for (long i = 0; i < k; ++i) ++it;
      else if (k % 3 == 2) it = it + k;
      else it += k;
      return it;
    };
    if (op == "push" && w.size() == 2 && isInt(w[1])) {
      ok = true;
      int x = std::stoi(w[1]);
      a.push_back(x);
      sh.push_back(x);
      stat("al_push");
      if ((long)sh.size() > 1 && (s.erased + (long)sh.size() - 1) % CS == 0) stat("al_push_opens_chunk");
    } else if (op == "pushn" && w.size() == 3 && isNat(w[1]) && std::stol(w[1]) >= 1 && std::stol(w[1]) <= 300 && isInt(w[2])) {
      // k appends in a row (values x, x+1, ...), observed once: fills large chunks within a short history
      ok = true;
      const long k = std::stol(w[1]);
      const int x = std::stoi(w[2]);
      for (long i = 0; i < k; ++i) {
        a.push_back(x + (int)i);
        sh.push_back(x + (int)i);
        if ((long)sh.size() > 1 && (s.erased + (long)sh.size() - 1) % CS == 0) stat("al_push_opens_chunk");
      }
      stat("al_pushn");
    } else if (op == "erase" && w.size() == 2 && isNat(w[1]) && std::stol(w[1]) < (long)sh.size()) {
      ok = true;
      long k = std::stol(w[1]);
      auto it = at(k);
      it.eraseToHere();
      sh.erase(sh.begin(), sh.begin() + k + 1);
      s.erased += k + 1;
      std::vector<Held> keep;
      for (auto& h : s.held) if (h.g >= s.erased) keep.push_back(h);
      s.held.swap(keep);
      out.check(it == a.begin(), "iterator after eraseToHere is not begin()");
      res = sh.empty() ? "E" : std::to_string(*it);
      stat("al_erase");
      if (sh.empty()) stat("al_erase_all");
    } else if (op == "purge" && w.size() == 1) {
      ok = true;
      a.purge();
      s.held.clear();
      stat("al_purge");
    } else if (op == "clear" && w.size() == 1) {
      ok = true;
      a.clear();
      sh.clear();
      s.held.clear();
      s.erased = 0;
      stat("al_clear");
    } else if (op == "get" && w.size() == 2 && isNat(w[1]) && std::stol(w[1]) < (long)sh.size()) {
      ok = true;
      long k = std::stol(w[1]);
      const AL& ca = a;
      res = std::to_string(a[k]);
      out.check(ca[k] == sh[k] && a[k] == sh[k], "operator[] gives " + res + " expected " + std::to_string(sh[k]));
      stat("al_get");
    } else if (op == "set" && w.size() == 3 && isNat(w[1]) && isInt(w[2]) && std::stol(w[1]) < (long)sh.size()) {
      ok = true;
      long k = std::stol(w[1]);
      if (k % 2) a[k] = std::stoi(w[2]); else *at(k) = std::stoi(w[2]);   // through operator[] / through an iterator
      sh[k] = std::stoi(w[2]);
      stat("al_set");
    } else if (op == "hold" && w.size() == 2 && isNat(w[1]) && std::stol(w[1]) <= (long)sh.size()) {
      ok = true;
      long k = std::stol(w[1]);
      auto it = at(k);
      s.held.push_back({it, s.erased + k});
      res = k < (long)sh.size() ? std::to_string(*it) : "E";
      out.check(it - a.begin() == k, "iterator difference wrong");
      stat("al_hold");
    } else if (op == "idx" && w.size() == 3 && isNat(w[1]) && isNat(w[2]) &&
               std::stol(w[1]) + std::stol(w[2]) < (long)sh.size()) {
      ok = true;
      long k = std::stol(w[1]), j = std::stol(w[2]);
      auto it = at(k);
      res = std::to_string(it[j]);
      typename AL::const_iterator cit = it;
      out.check(it[j] == sh[k + j] && cit[j] == sh[k + j], "iterator[] wrong");
      stat("al_idx");
    } else if (op == "asg" && w.size() == 1) {
      ok = true;
      AL& ret = (a = *o.l);
      out.check(&ret == &a, "operator= does not return *this");
      sh = o.sh; s.erased = o.erased; s.held.clear();
      stat("al_asg");
    } else if (op == "cc" && w.size() == 1) {
      ok = true;
      s.l = std::make_unique<AL>(*o.l);
      sh = o.sh; s.erased = o.erased; s.held.clear();
      stat("al_cc");
    } else if (op == "sasg" && w.size() == 1) {
      ok = true;
      AL& self = a;
      a = self;            // held iterators stay valid
      stat("al_sasg");
    }
    if (!ok) { out.obs.push_back("skip"); stat("al_skip"); continue; }
    out.executed++;
    // ---- observation + oracle (both lists, every time: an operation on one list must not show in the other) ----
    std::string ob;
    for (int si = 0; si < 2; ++si) {
      Side& q = S[si];
      AL& l = *q.l;
      const AL& cl = l;
      const std::string nm = si ? "b" : "a";
      std::vector<int> seen;
      for (auto it = l.begin(); it != l.end(); ++it) seen.push_back(*it);
      std::vector<std::string> hv;
      for (auto& h : q.held) {
        long idx = h.g - q.erased;
        if (idx == (long)q.sh.size()) {
          hv.push_back("E");
          out.check(h.it == l.end(), nm + ": held end iterator differs from end()");
        } else {
          int v = *h.it;
          hv.push_back(std::to_string(v));
          out.check(v == q.sh[idx], nm + ": held iterator now denotes " + std::to_string(v) + " expected " + std::to_string(q.sh[idx]));
          out.check(h.it - l.begin() == idx, nm + ": held iterator distance to begin() wrong");
        }
      }
      ob += (si ? " | " : "") + std::to_string(l.size()) + " " + lst(seen) + " " + lst(hv);
      out.check(l.size() == q.sh.size(), nm + ".size() = " + std::to_string(l.size()) + " expected " + std::to_string(q.sh.size()));
      out.check(seen.size() == q.sh.size() && std::equal(seen.begin(), seen.end(), q.sh.begin()),
                nm + " iterates as " + lst(seen) + " expected " + lst(q.sh));
      out.check((std::size_t)(l.end() - l.begin()) == q.sh.size(), nm + ": end()-begin() != size");
      std::vector<int> cseen, rseen, crseen, iseen;
      for (auto it = cl.begin(); it != cl.end(); ++it) cseen.push_back(*it);
      out.check(cseen == seen, nm + ": const iteration differs");
      for (auto it = l.end(); it != l.begin();) { --it; rseen.push_back(*it); }
      std::reverse(rseen.begin(), rseen.end());
      out.check(rseen == seen, nm + ": backward iteration differs");
      // the const iterator's own decrement / advance / distanceTo / equals
      for (auto it = cl.end(); it != cl.begin();) { --it; crseen.push_back(*it); }
      std::reverse(crseen.begin(), crseen.end());
      out.check(crseen == seen, nm + ": const backward iteration differs");
      out.check((std::size_t)(cl.end() - cl.begin()) == q.sh.size(), nm + ": const end()-begin() != size");
      {
        typename AL::const_iterator ci = cl.begin();
        typename AL::iterator mi = l.begin();
        out.check(mi == ci && !(mi != ci), nm + ": begin() differs from const begin()");
        long half = (long)q.sh.size() / 2;
        ci += half; mi += half;
        out.check(mi == ci && ci - cl.begin() == half, nm + ": const iterator advance/distance wrong");
        if (half < (long)q.sh.size()) out.check(*ci == q.sh[half] && *mi == q.sh[half], nm + ": advanced iterator denotes the wrong element");
        typename AL::const_iterator ce = l.end();   // conversion iterator -> const_iterator
        out.check(ce == cl.end(), nm + ": converted end() differs from const end()");
        if (!q.sh.empty()) {  // distinct positions compare unequal, in both mixed directions, and are ordered
          out.check(l.begin() != cl.end() && !(l.begin() == cl.end()) && !(l.end() == cl.begin()) && cl.begin() != ce,
                    nm + ": begin() compares equal to end()");
          // the mixed equals() overload itself (the facade's operators route mixed comparisons through the const one)
          out.check(!l.begin().equals(cl.end()) && !l.end().equals(cl.begin()) && l.end().equals(cl.end()) && l.begin().equals(cl.begin()),
                    nm + ": iterator::equals(const_iterator) wrong");
          out.check(cl.begin() < cl.end() && l.begin() < l.end() && !(cl.end() < cl.begin()) && cl.begin() - cl.end() == -(long)q.sh.size(),
                    nm + ": iterator ordering / negative distance wrong");
        }
      }
      // round four: the remaining operators of RandomAccessIteratorFacade (iteratorfacades.hh) on both iterator
      // classes: it++ / it-- (value returned and new position), -=, it+n, it-n, it[n] with negative n, ->,
      // < <= > >= (also mixed const / non-const), against positions in the shadow
      {
        const long n = (long)q.sh.size();
        auto facade = [&](auto b, auto e, const std::string& who) {
          out.check(b <= e && e >= b && !(e < b) && (n == 0) == !(b < e) && (n == 0) == !(e > b) && (n == 0) == (e <= b) && (n == 0) == (b >= e)
                    && b <= b && b >= b && !(b < b) && !(b > b),
                    nm + ": " + who + " ordering operators wrong on begin()/end()");
          if (n == 0) return;
          const long k = (long)((q.erased + out.executed) % n);       // a position that moves with the history
          auto it = b + k;
          out.check(it - b == k && e - it == n - k && *it == q.sh[k] && *(it.operator->()) == q.sh[k], nm + ": " + who + " begin()+k / -> wrong");
          auto old = it++;
          out.check(old - b == k && it - b == k + 1 && *old == q.sh[k], nm + ": " + who + " it++ wrong");
          out.check(old < it && old <= it && it > old && it >= old && !(it < old) && !(it <= old) && !(old > it) && !(old >= it) && old != it,
                    nm + ": " + who + " ordering of neighbours wrong");
          auto old2 = it--;
          out.check(old2 - b == k + 1 && it - b == k && *it == q.sh[k] && it == old, nm + ": " + who + " it-- wrong");
          auto back = e - (n - k);
          out.check(back == it && back - b == k && *back == q.sh[k], nm + ": " + who + " end()-m wrong");
          auto m = e;
          m -= n - k;
          out.check(m == it && *m == q.sh[k], nm + ": " + who + " -= wrong");
          m -= -(n - 1 - k);
          out.check(m - b == n - 1 && *m == q.sh[n - 1] && e[-1] == q.sh[n - 1] && m[-(n - 1)] == q.sh[0] && b[k] == q.sh[k],
                    nm + ": " + who + " -= with a negative count / it[-j] wrong");
          m += -(n - 1);
          out.check(m == b && (m + n) == e && (e + (-n)) == b, nm + ": " + who + " += / + with a negative count wrong");
        };
        facade(l.begin(), l.end(), "iterator");
        facade(cl.begin(), cl.end(), "const_iterator");
        // (mixed iterator/const_iterator ordering and distance do not compile for ArrayList: the facade's operators
        //  instantiate both distanceTo directions and ArrayListIterator::distanceTo(ConstArrayListIterator) does not
        //  exist; mixed == / != do and are checked above)
      }
      if (l.size() == q.sh.size()) {
        for (std::size_t i = 0; i < l.size(); ++i) iseen.push_back(cl[i]);
        out.check(iseen.size() == q.sh.size() && std::equal(iseen.begin(), iseen.end(), q.sh.begin()), nm + ": operator[] sweep differs");
      }
      // a second instance with the same contents compares equal element by element
      AL fresh;
      for (int x : q.sh) fresh.push_back(x);
      out.check(fresh.size() == l.size() && std::equal(fresh.begin(), fresh.end(), l.begin()), nm + " differs from a freshly built equal list");
    }
    out.obs.push_back(ob + " " + res);
  }
  stat("al_N" + std::to_string(N));
  return out.result();
}

// ================================================================================================
// SLList
// ================================================================================================
// std::allocator lost allocate(n, hint) in C++20, which SLList::push_front calls; this allocator provides it
// and counts live elements, so the harness also sees leaked or doubly released nodes.
inline long& slLive() { static long n = 0; return n; }
template <class T>
struct CountingAlloc {
  using value_type = T;
  using size_type = std::size_t;
  using difference_type = std::ptrdiff_t;
  CountingAlloc() = default;
  template <class U> CountingAlloc(const CountingAlloc<U>&) {}
  T* allocate(std::size_t n, const void* = nullptr) { slLive() += (long)n; return std::allocator<T>().allocate(n); }
  void deallocate(T* p, std::size_t n) { slLive() -= (long)n; std::allocator<T>().deallocate(p, n); }
  template <class U> bool operator==(const CountingAlloc<U>&) const { return true; }
  template <class U> bool operator!=(const CountingAlloc<U>&) const { return false; }
};
using SLL = Dune::SLList<int, CountingAlloc<int>>;

struct SLSide {
  SLL l;
  std::list<int> sh;
  std::optional<SLL::ModifyIterator> m;
  std::list<int>::iterator shm;
  void drop() { m.reset(); }
};

Result runSL(const Case& cs) {
  const long live0 = slLive();
  SLSide S[2];
  Out out;
  for (size_t oi = 0; oi < cs.ops.size(); ++oi) {
    const auto& w = cs.ops[oi];
    out.opIndex = oi; out.opText = cs.raw[oi];
    std::string res = "-";
    bool ok = false;
    std::string full = w.empty() ? "" : w[0];
    int t = -1;
    if (full.size() > 2 && full[1] == '.' && (full[0] == 'a' || full[0] == 'b')) t = full[0] - 'a';
    std::string op = t >= 0 ? full.substr(2) : "";
    if (t >= 0) {
      SLSide& s = S[t];
      SLSide& o = S[1 - t];
      if (op == "pb" && w.size() == 2 && isInt(w[1])) {
        ok = true; s.l.push_back(std::stoi(w[1])); s.sh.push_back(std::stoi(w[1])); s.drop(); stat("sl_pb");
      } else if (op == "pf" && w.size() == 2 && isInt(w[1])) {
        ok = true; s.l.push_front(std::stoi(w[1])); s.sh.push_front(std::stoi(w[1])); s.drop(); stat("sl_pf");
      } else if (op == "pop" && w.size() == 1 && !s.sh.empty()) {
        ok = true; s.l.pop_front(); s.sh.pop_front(); s.drop(); stat("sl_pop");
        if (s.sh.empty()) stat("sl_pop_last");
      } else if (op == "clear" && w.size() == 1) {
        ok = true; s.l.clear(); s.sh.clear(); s.drop(); stat("sl_clear");
      } else if (op == "ia" && w.size() == 3 && isNat(w[1]) && isInt(w[2]) && std::stol(w[1]) < (long)s.sh.size()) {
        ok = true;
        long k = std::stol(w[1]);
        auto it = s.l.begin();
        for (long i = 0; i < k; ++i) ++it;
        it.insertAfter(std::stoi(w[2]));
        auto sit = s.sh.begin();
        std::advance(sit, k + 1);
        s.sh.insert(sit, std::stoi(w[2]));
        s.drop(); stat("sl_ia");
        if (k + 2 == (long)s.sh.size()) stat("sl_ia_at_tail");
      } else if (op == "dn" && w.size() == 2 && isNat(w[1]) && std::stol(w[1]) + 1 < (long)s.sh.size()) {
        ok = true;
        long k = std::stol(w[1]);
        auto it = s.l.begin();
        for (long i = 0; i < k; ++i) ++it;
        it.deleteNext();
        auto sit = s.sh.begin();
        std::advance(sit, k + 1);
        s.sh.erase(sit);
        s.drop(); stat("sl_dn");
        if (k + 1 == (long)s.sh.size()) stat("sl_dn_tail");
      } else if (op == "asg" && w.size() == 2 && (w[1] == "a" || w[1] == "b")) {
        ok = true;
        int src = w[1][0] - 'a';
        SLL& ret = (s.l = S[src].l);
        out.check(&ret == &s.l, "operator= does not return *this");
        if (src != t) s.sh = S[src].sh;
        s.drop();
        stat(src == t ? "sl_asg_self" : "sl_asg");
      } else if (op == "cc" && w.size() == 1) {
        ok = true;
        SLL c(s.l);
        std::vector<int> cv;
        for (auto it = c.begin(); it != c.end(); ++it) cv.push_back(*it);
        res = lst(cv) + (c == s.l ? "t" : "f");
        out.check(cv.size() == s.sh.size() && std::equal(cv.begin(), cv.end(), s.sh.begin()), "copy shows " + lst(cv));
        out.check(c == s.l && !(c != s.l), "copy does not compare equal");
        out.check(c.size() == (int)s.sh.size() && c.empty() == s.sh.empty(), "copy size/empty wrong");
        c.push_back(7);  // the copy is independent and its tail is right
        out.check(c.size() == (int)s.sh.size() + 1 && (c != s.l), "copy not independent");
        stat("sl_cc");
      } else if (op == "ccv" && w.size() == 1) {
        ok = true;
        // converting copy constructor: other element type, other allocator type
        Dune::SLList<long, CountingAlloc<long>> c(s.l);
        std::vector<long> cv;
        for (auto it = c.begin(); it != c.end(); ++it) cv.push_back(*it);
        res = lst(cv) + std::to_string(c.size());
        out.check(cv.size() == s.sh.size() && std::equal(cv.begin(), cv.end(), s.sh.begin()), "converting copy shows " + lst(cv));
        out.check(c.size() == (int)s.sh.size() && c.empty() == s.sh.empty(), "converting copy size/empty wrong");
        c.push_back(7);  // its tail is right
        out.check(c.size() == (int)s.sh.size() + 1, "converting copy: push_back afterwards wrong");
        long last = 0;
        for (auto it = c.begin(); it != c.end(); ++it) last = *it;
        out.check(last == 7, "converting copy: tail wrong");
        stat("sl_ccv");
      } else if (op == "mb" && w.size() == 1) {
        ok = true; s.m = s.l.beginModify(); s.shm = s.sh.begin(); stat("sl_mb");
      } else if (op == "me" && w.size() == 1) {
        ok = true; s.m = s.l.endModify(); s.shm = s.sh.end(); stat("sl_me");
      } else if (op == "m+" && w.size() == 1 && s.m && s.shm != s.sh.end()) {
        ok = true; ++*s.m; ++s.shm; stat("sl_minc");
      } else if (op == "mi" && w.size() == 2 && isInt(w[1]) && s.m) {
        ok = true;
        s.m->insert(std::stoi(w[1]));
        s.sh.insert(s.shm, std::stoi(w[1]));
        stat("sl_mi");
        if (s.shm == s.sh.end()) stat("sl_mi_at_end");
      } else if (op == "mr" && w.size() == 1 && s.m && s.shm != s.sh.end()) {
        ok = true;
        s.m->remove();
        s.shm = s.sh.erase(s.shm);
        stat("sl_mr");
        if (s.shm == s.sh.end()) stat("sl_mr_last");
      }
      (void)o;
    }
    if (!ok) { out.obs.push_back("skip"); stat("sl_skip"); continue; }
    out.executed++;
    std::string ob;
    for (int i = 0; i < 2; ++i) {
      SLSide& s = S[i];
      std::vector<int> seen;
      for (auto it = s.l.begin(); it != s.l.end(); ++it) seen.push_back(*it);
      const SLL& cl = s.l;
      std::vector<int> cseen;
      for (auto it = cl.begin(); it != cl.end(); ++it) cseen.push_back(*it);
      std::string ms = "-";
      if (s.m) {
        bool atEnd = s.m->equals(s.l.end());
        ms = atEnd ? "E" : std::to_string(**s.m);
        out.check(atEnd == (s.shm == s.sh.end()), "modify iterator end state wrong");
        if (!atEnd && s.shm != s.sh.end()) out.check(**s.m == *s.shm, "modify iterator denotes " + ms + " expected " + std::to_string(*s.shm));
        // conversions ModifyIterator -> iterator / const_iterator
        SLL::iterator pit(*s.m);
        SLL::const_iterator cit(*s.m);
        out.check((pit == s.l.end()) == atEnd && (cit == cl.end()) == atEnd && s.m->equals(pit) && s.m->equals(cit),
                  "iterator converted from the modify iterator differs");
        if (!atEnd) out.check(*pit == **s.m && *cit == **s.m, "converted iterator denotes another element");
      }
      // round four: ForwardIteratorFacade's it++ (returns the old position) and -> on all three iterator classes
      if (!s.sh.empty()) {
        auto it = s.l.begin();
        auto old = it++;
        out.check(old == s.l.begin() && *old == s.sh.front() && *(old.operator->()) == s.sh.front() && old != it
                  && (s.sh.size() == 1 ? it == s.l.end() : (it != s.l.end() && *it == *std::next(s.sh.begin()))),
                  "iterator it++ / -> wrong");
        auto cit = cl.begin();
        auto cold = cit++;
        out.check(cold == cl.begin() && *cold == s.sh.front() && *(cold.operator->()) == s.sh.front() && cold != cit
                  && (s.sh.size() == 1 ? cit == cl.end() : (cit != cl.end() && *cit == *std::next(s.sh.begin()))),
                  "const_iterator it++ / -> wrong");
        SLL scratch(s.l);                      // modify iterator on a copy (the copy is destroyed again: allocator count unchanged)
        auto mit = scratch.beginModify();
        auto mold = mit++;
        out.check(*mold == s.sh.front() && *(mold.operator->()) == s.sh.front() && mold != mit
                  && (s.sh.size() == 1 ? mit == scratch.endModify() : (mit != scratch.endModify() && *mit == *std::next(s.sh.begin()))),
                  "modify iterator it++ / -> wrong");
      }
      {
        SLL::const_iterator cb = s.l.begin();  // conversion iterator -> const_iterator
        out.check(cb == cl.begin() && s.l.begin().equals(cb), "begin() converted to const_iterator differs from const begin()");
      }
      ob += std::string(i ? " b:" : "a:") + std::to_string(s.l.size()) + "," + (s.l.empty() ? "t" : "f") + "," + lst(seen) + "," + ms;
      std::string nm = i ? "b" : "a";
      out.check(s.l.size() == (int)s.sh.size(), nm + ".size() = " + std::to_string(s.l.size()) + " expected " + std::to_string(s.sh.size()));
      out.check(s.l.empty() == s.sh.empty(), nm + ".empty() wrong");
      out.check(seen.size() == s.sh.size() && std::equal(seen.begin(), seen.end(), s.sh.begin()),
                nm + " iterates as " + lst(seen) + " expected " + lst(s.sh));
      out.check(cseen == seen, nm + " const iteration differs");
    }
    bool e = S[0].l == S[1].l, n = S[0].l != S[1].l;
    ob += std::string(" ") + (e ? "t" : "f") + (n ? "t" : "f") + " " + res;
    out.check(e == (S[0].sh == S[1].sh), "operator== wrong");
    out.check(n == (S[0].sh != S[1].sh), "operator!= wrong");
    out.check((S[0].l == S[0].l) && !(S[1].l != S[1].l), "list differs from itself");
    out.check(slLive() - live0 == (long)(S[0].sh.size() + S[1].sh.size()),
              "allocated elements " + std::to_string(slLive() - live0) + " but the lists hold " + std::to_string(S[0].sh.size() + S[1].sh.size()));
    out.obs.push_back(ob);
  }
  return out.result();
}

// ================================================================================================
// Iterator categories for everything that takes an iterator pair (round five): the same value sequence offered
// as random access / contiguous / bidirectional / forward range and as two genuine single-pass input ranges
// (std::istream_iterator, and a generator iterator whose copies share one source, so that a second traversal
// of [first,last) - std::distance followed by std::copy, say - finds the source used up).
// ================================================================================================
struct SinglePassSource {
  std::vector<int> data;
  std::size_t next = 0;       // index of the next value handed out; shared by all copies of the iterator
  long reads = 0;
};
class SinglePassIt {
  // like std::istream_iterator: the current value is cached in the iterator, ++ fetches from the shared source
  std::shared_ptr<SinglePassSource> src_;
  int cur_ = 0;
  bool live_ = false;
  void fetch() {
    if (src_ && src_->next < src_->data.size()) { cur_ = src_->data[src_->next++]; ++src_->reads; live_ = true; }
    else live_ = false;
  }
 public:
  using iterator_category = std::input_iterator_tag;
  using value_type = int;
  using difference_type = std::ptrdiff_t;
  using pointer = const int*;
  using reference = const int&;
  SinglePassIt() = default;                                             // end of range
  explicit SinglePassIt(std::shared_ptr<SinglePassSource> s) : src_(std::move(s)) { fetch(); }
  reference operator*() const { return cur_; }
  pointer operator->() const { return &cur_; }
  SinglePassIt& operator++() { fetch(); return *this; }
  SinglePassIt operator++(int) { SinglePassIt old(*this); fetch(); return old; }
  friend bool operator==(const SinglePassIt& a, const SinglePassIt& b) { return a.live_ == b.live_ && (!a.live_ || a.src_ == b.src_); }
  friend bool operator!=(const SinglePassIt& a, const SinglePassIt& b) { return !(a == b); }
};
inline const std::vector<std::string>& rangeKinds() {
  static const std::vector<std::string> k = {"ra", "ptr", "bidi", "fwd", "in", "is"};
  return k;
}
// construct a container C from the values `li` offered as an iterator pair of the category named by `kind`
template <class C>
C fromRange(const std::string& kind, const std::vector<int>& li) {
  if (kind == "ra") return C(li.begin(), li.end());
  if (kind == "ptr") { const int* p = li.data(); return C(p, p + li.size()); }
  if (kind == "bidi") { std::list<int> l(li.begin(), li.end()); return C(l.begin(), l.end()); }
  if (kind == "fwd") { std::forward_list<int> l(li.begin(), li.end()); return C(l.cbegin(), l.cend()); }
  if (kind == "in") {
    auto src = std::make_shared<SinglePassSource>();
    src->data = li;
    return C(SinglePassIt(src), SinglePassIt());
  }
  // "is": std::istream_iterator over the decimal text of the values
  std::ostringstream txt;
  for (int x : li) txt << x << ' ';
  std::istringstream in(txt.str());
  return C(std::istream_iterator<int>(in), std::istream_iterator<int>());
}
inline bool isRangeKind(const std::string& k) {
  for (auto& x : rangeKinds()) if (x == k) return true;
  return false;
}

// ================================================================================================
// ReservedVector
// ================================================================================================
template <int n>
Result runRV(const Case& cs) {
  using RV = Dune::ReservedVector<int, n>;
  // shadow: std::vector (kept as optional<int>; never empty any more).  Slots uncovered by resize()/the count
  // constructor are not initialised by ReservedVector, so the ops `resize k` / `ctorc k` of this protocol assign 0
  // to every uncovered slot right away: no unspecified value is ever observed or compared.
  struct Side { RV v; std::vector<std::optional<int>> sh; };
  Side S[2];
  Out out;
  auto spec = [](const std::vector<std::optional<int>>& v) {
    for (auto& x : v) if (!x) return false;
    return true;
  };
  for (size_t oi = 0; oi < cs.ops.size(); ++oi) {
    const auto& w = cs.ops[oi];
    out.opIndex = oi; out.opText = cs.raw[oi];
    std::string res = "-";
    bool ok = false;
    std::string full = w.empty() ? "" : w[0];
    int t = -1;
    if (full.size() > 2 && full[1] == '.' && (full[0] == 'a' || full[0] == 'b')) t = full[0] - 'a';
    std::string op = t >= 0 ? full.substr(2) : "";
    if (t >= 0) {
      Side& s = S[t];
      Side& o = S[1 - t];
      if (op == "push" && w.size() == 2 && isInt(w[1]) && (int)s.sh.size() < n) {
        ok = true;
        const int x = std::stoi(w[1]);
        if (x % 2) { s.v.push_back(x); stat("rv_push_lvalue"); }          // push_back(const value_type&)
        else { s.v.push_back(std::stoi(w[1])); stat("rv_push_rvalue"); }  // push_back(value_type&&)
        s.sh.push_back(x); stat("rv_push");
        if ((int)s.sh.size() == n) stat("rv_full");
      } else if (op == "emp" && w.size() == 2 && isInt(w[1]) && (int)s.sh.size() < n) {
        ok = true;
        int& r = s.v.emplace_back(std::stoi(w[1]));
        s.sh.push_back(std::stoi(w[1]));
        out.check(&r == &s.v.back(), "emplace_back does not return a reference to back()");
        stat("rv_emp");
      } else if (op == "pop" && w.size() == 1) {
        ok = true; s.v.pop_back(); if (!s.sh.empty()) s.sh.pop_back(); else stat("rv_pop_empty"); stat("rv_pop");
      } else if (op == "clear" && w.size() == 1) {
        ok = true; s.v.clear(); s.sh.clear(); stat("rv_clear");
      } else if (op == "resize" && w.size() == 2 && isNat(w[1]) && std::stol(w[1]) <= n) {
        ok = true;
        std::size_t old = s.sh.size(), k = std::stol(w[1]);
        s.v.resize(k);
        for (std::size_t i = old; i < k; ++i) s.v[i] = 0;  // uncovered slots are unspecified: define them
        s.sh.resize(k, 0);
        stat(k > old ? "rv_resize_grow" : "rv_resize");
      } else if (op == "set" && w.size() == 3 && isNat(w[1]) && isInt(w[2]) && std::stol(w[1]) < (long)s.sh.size()) {
        ok = true; s.v[std::stol(w[1])] = std::stoi(w[2]); s.sh[std::stol(w[1])] = std::stoi(w[2]); stat("rv_set");
      } else if (op == "at" && w.size() == 2 && isNat(w[1])) {
        ok = true;
        long i = std::stol(w[1]);
        const RV& cv = s.v;
        try { res = std::to_string(s.v.at(i)); }
        catch (std::out_of_range&) { res = "ERR:Range"; }
        // the const overload has its own range check: it is called (and judged) independently of the mutable one
        std::string cres;
        try { cres = std::to_string(cv.at(i)); }
        catch (std::out_of_range&) { cres = "ERR:Range"; }
        out.check((res == "ERR:Range") == (i >= (long)s.sh.size()), "at(" + w[1] + ") range check wrong");
        out.check((cres == "ERR:Range") == (i >= (long)s.sh.size()), "const at(" + w[1] + ") range check wrong");
        if (i < (long)s.sh.size()) out.check(cres == res, "const at differs");
        if (i < (long)s.sh.size() && s.sh[i]) out.check(res == std::to_string(*s.sh[i]), "at gives " + res);
        stat(res == "ERR:Range" ? "rv_at_err" : "rv_at");
      } else if (op == "fill" && w.size() == 2 && isInt(w[1])) {
        ok = true; s.v.fill(std::stoi(w[1])); for (auto& x : s.sh) x = std::stoi(w[1]); stat("rv_fill");
      } else if (op == "swap" && w.size() == 1) {
        ok = true; s.v.swap(o.v); s.sh.swap(o.sh); stat("rv_swap");
      } else if (op == "asg" && w.size() == 1) {
        ok = true;
        if (t == 0) { RV& ret = (s.v = o.v); out.check(&ret == &s.v, "operator= does not return *this"); }  // copy assignment
        else { RV c(o.v); s.v = std::move(c); }                                                              // copy construction
        s.sh = o.sh; stat("rv_asg");
      } else if (op == "ctor" && w.size() == 1) {
        ok = true; s.v = RV(); s.sh.clear(); stat("rv_ctor");
      } else if (op == "ctorc" && w.size() == 2 && isNat(w[1]) && std::stol(w[1]) <= n) {
        ok = true;
        s.v = RV(std::stol(w[1]));
        for (long i = 0; i < std::stol(w[1]); ++i) s.v[i] = 0;  // as for resize
        s.sh.assign(std::stol(w[1]), 0);
        stat("rv_ctorc");
      } else if (op == "ctorv" && w.size() == 3 && isNat(w[1]) && isInt(w[2]) && std::stol(w[1]) <= n) {
        ok = true; s.v = RV(std::stol(w[1]), std::stoi(w[2])); s.sh.assign(std::stol(w[1]), std::stoi(w[2])); stat("rv_ctorv");
      } else if (op == "init" && w.size() == 2 && isList(w[1]) && (long)parseList(w[1]).size() <= n) {
        ok = true;
        auto l = parseList(w[1]);
        std::vector<int> li(l.begin(), l.end());
        // odd lengths up to 3 go through the std::initializer_list constructor, the rest through the iterator pair
        if (li.size() == 1) { s.v = RV{li[0]}; stat("rv_init_ilist"); }
        else if (li.size() == 3) { s.v = RV{li[0], li[1], li[2]}; stat("rv_init_ilist"); }
        else s.v = RV(li.begin(), li.end());
        s.sh.assign(li.begin(), li.end());
        stat("rv_init");
      } else if (op == "initr" && w.size() == 3 && isRangeKind(w[1]) && isList(w[2]) && (long)parseList(w[2]).size() <= n) {
        // the iterator-pair constructor with an iterator of the named category (the parameter is an *InputIt*)
        ok = true;
        auto l = parseList(w[2]);
        std::vector<int> li(l.begin(), l.end());
        s.v = fromRange<RV>(w[1], li);
        s.sh.assign(li.begin(), li.end());
        stat("rv_initr_" + w[1]);
        if (li.size() >= 2 && (w[1] == "in" || w[1] == "is")) stat("rv_initr_singlepass_2plus");
      }
    }
    if (!ok) { out.obs.push_back("skip"); stat("rv_skip"); continue; }
    out.executed++;
    std::string ob;
    for (int i = 0; i < 2; ++i) {
      Side& s = S[i];
      std::string nm = i ? "b" : "a";
      std::vector<int> seen(s.v.begin(), s.v.end());
      const RV& cv = s.v;
      std::vector<int> cseen(cv.begin(), cv.end()), rseen(s.v.rbegin(), s.v.rend()), ccseen(cv.cbegin(), cv.cend());
      std::vector<int> crseen(cv.rbegin(), cv.rend()), ccrseen(cv.crbegin(), cv.crend());
      std::reverse(rseen.begin(), rseen.end());
      std::reverse(crseen.begin(), crseen.end());
      std::reverse(ccrseen.begin(), ccrseen.end());
      out.check(crseen == seen && ccrseen == seen, nm + " const reverse iteration differs");
      out.check((std::size_t)(s.v.end() - s.v.begin()) == s.v.size() && (std::size_t)(cv.cend() - cv.cbegin()) == s.v.size(), nm + " end()-begin() != size()");
      out.check(std::hash<RV>()(s.v) == hash_value(s.v), nm + " std::hash differs from hash_value");
      std::string fr = s.v.empty() ? "-" : std::to_string(s.v.front());
      std::string bk = s.v.empty() ? "-" : std::to_string(s.v.back());
      ob += std::string(i ? " b:" : "a:") + std::to_string(s.v.size()) + "," + lst(seen) + "," + fr + "," + bk;
      out.check(s.v.size() == s.sh.size(), nm + ".size() = " + std::to_string(s.v.size()) + " expected " + std::to_string(s.sh.size()));
      out.check(s.v.empty() == s.sh.empty(), nm + ".empty() wrong");
      out.check(s.v.capacity() == (std::size_t)n && s.v.max_size() == (std::size_t)n && s.v.size() <= (std::size_t)n, nm + " capacity wrong");
      out.check(cseen == seen && rseen == seen && ccseen == seen, nm + " const/reverse iteration differs");
      bool same = seen.size() == s.sh.size();
      for (std::size_t j = 0; same && j < seen.size(); ++j) {
        if (s.sh[j] && *s.sh[j] != seen[j]) same = false;
        if (s.v[j] != seen[j] || cv[j] != seen[j] || s.v.data()[j] != seen[j] || cv.data()[j] != seen[j]) same = false;
      }
      out.check(same, nm + " shows " + lst(seen));
      if (!s.sh.empty() && same) {
        out.check(s.v.front() == seen.front() && s.v.back() == seen.back() && cv.front() == seen.front() && cv.back() == seen.back(),
                  nm + " front/back wrong");
      }
    }
    const RV &a = S[0].v, &b = S[1].v;
    bool c[6] = {a < b, a <= b, a > b, a >= b, a == b, a != b};
    std::string cmp;
    for (bool x : c) cmp += x ? "t" : "f";
    ob += " " + cmp + " " + res;
    if (spec(S[0].sh) && spec(S[1].sh)) {
      std::vector<int> x, y;
      for (auto& e : S[0].sh) x.push_back(*e);
      for (auto& e : S[1].sh) y.push_back(*e);
      bool e[6] = {x < y, x <= y, x > y, x >= y, x == y, x != y};
      for (int i = 0; i < 6; ++i) out.check(c[i] == e[i], std::string("comparison #") + std::to_string(i) + " (lt,le,gt,ge,eq,ne) wrong");
      if (x == y) out.check(hash_value(a) == hash_value(b), "equal vectors hash differently");
    }
    out.obs.push_back(ob);
  }
  stat("rv_n" + std::to_string(n));
  return out.result();
}

// ================================================================================================
// BitSetVector
// ================================================================================================
template <int B>
std::string bitsStr(const std::bitset<B>& b) {
  std::string s;
  for (int j = 0; j < B; ++j) s += b[j] ? '1' : '0';
  return s;
}
template <int B>
std::bitset<B> bitsOf(const std::string& s) {
  std::bitset<B> b;
  for (int j = 0; j < B; ++j) b[j] = s[j] == '1';
  return b;
}

template <int B>
Result runBV(const Case& cs) {
  using BV = Dune::BitSetVector<B>;
  using BS = std::bitset<B>;
  BV v;
  std::vector<BS> sh;
  Out out;
  for (size_t oi = 0; oi < cs.ops.size(); ++oi) {
    const auto& w = cs.ops[oi];
    out.opIndex = oi; out.opText = cs.raw[oi];
    std::string res = "-";
    bool ok = false;
    const std::string op = w.empty() ? "" : w[0];
    auto blk = [&](size_t i) { return w.size() > i && isNat(w[i]) && std::stol(w[i]) < (long)sh.size(); };
    auto bit = [&](size_t i) { return w.size() > i && isNat(w[i]) && std::stol(w[i]) < B; };
    auto flag = [&](size_t i) { return w.size() > i && (w[i] == "0" || w[i] == "1"); };
    auto num = [&](size_t i) { return std::stol(w[i]); };
    const BV& cv = v;
    if (op == "new" && w.size() == 2 && isNat(w[1]) && num(1) <= 64) {
      ok = true; v = BV((int)num(1)); sh.assign(num(1), BS()); stat("bv_new");
    } else if (op == "newv" && w.size() == 3 && isNat(w[1]) && num(1) <= 64 && flag(2)) {
      ok = true; v = BV((int)num(1), w[2] == "1"); sh.assign(num(1), w[2] == "1" ? ~BS() : BS()); stat("bv_newv");
    } else if (op == "fromv" && w.size() == 2 && w[1].size() >= 1 && w[1].size() <= 701 && w[1][0] == 'b' &&
               isBits(w[1].substr(1), w[1].size() - 1)) {
      ok = true;
      std::vector<bool> raw;
      for (std::size_t j = 1; j < w[1].size(); ++j) raw.push_back(w[1][j] == '1');
      try {
        BV nv(raw);
        if (raw.size() % B != 0) {
          out.complain("BitSetVector(vector<bool>) accepted a size that is not a multiple of the block size");
          res = "accepted";
        } else {
          v = nv;
          sh.assign(raw.size() / B, BS());
          for (std::size_t j = 0; j < raw.size(); ++j) sh[j / B][j % B] = raw[j];
        }
        stat("bv_fromv");
      } catch (Dune::RangeError&) {
        res = "ERR:Range";
        out.check(raw.size() % B != 0, "BitSetVector(vector<bool>) threw for a multiple of the block size");
        stat("bv_fromv_err");
      }
    } else if (op == "resize" && w.size() == 3 && isNat(w[1]) && num(1) <= 64 && flag(2)) {
      ok = true; v.resize((int)num(1), w[2] == "1"); sh.resize(num(1), w[2] == "1" ? ~BS() : BS()); stat("bv_resize");
    } else if (op == "clear" && w.size() == 1) {
      ok = true; v.clear(); sh.clear(); stat("bv_clear");
    } else if (op == "setall" && w.size() == 1) {
      ok = true; v.setAll(); for (auto& b : sh) b.set(); stat("bv_setall");
    } else if (op == "unsetall" && w.size() == 1) {
      ok = true; v.unsetAll(); for (auto& b : sh) b.reset(); stat("bv_unsetall");
    } else if (op == "set" && w.size() == 2 && blk(1)) {
      ok = true; v[num(1)].set(); sh[num(1)].set(); stat("bv_set");
    } else if (op == "reset" && w.size() == 2 && blk(1)) {
      ok = true; v[num(1)].reset(); sh[num(1)].reset(); stat("bv_reset");
    } else if (op == "flip" && w.size() == 2 && blk(1)) {
      ok = true; v[num(1)].flip(); sh[num(1)].flip(); stat("bv_flip");
    } else if (op == "set1" && w.size() == 4 && blk(1) && bit(2) && flag(3)) {
      ok = true;
      if (w[3] == "1" && num(2) % 3 == 1) v[num(1)].set(num(2));               // default argument
      else if (w[3] == "1" && num(2) % 3 == 2) v[num(1)].set(num(2), 2);      // any non-zero int means true
      else v[num(1)].set(num(2), w[3] == "1");
      sh[num(1)].set(num(2), w[3] == "1"); stat("bv_set1");
    } else if (op == "reset1" && w.size() == 3 && blk(1) && bit(2)) {
      ok = true; v[num(1)].reset(num(2)); sh[num(1)].reset(num(2)); stat("bv_reset1");
    } else if (op == "flip1" && w.size() == 3 && blk(1) && bit(2)) {
      ok = true; v[num(1)].flip(num(2)); sh[num(1)].flip(num(2)); stat("bv_flip1");
    } else if (op == "asgb" && w.size() == 3 && blk(1) && flag(2)) {
      ok = true; v[num(1)] = (w[2] == "1"); sh[num(1)] = w[2] == "1" ? ~BS() : BS(); stat("bv_asgb");
    } else if (op == "asgs" && w.size() == 3 && blk(1) && isBits(w[2], B)) {
      ok = true;
      if (num(1) % 2) {  // through the mutable iterator's proxy
        auto it = v.begin();
        for (long j = 0; j < num(1); ++j) ++it;
        *it = bitsOf<B>(w[2]);
        stat("bv_asgs_iter");
      } else v[num(1)] = bitsOf<B>(w[2]);
      sh[num(1)] = bitsOf<B>(w[2]); stat("bv_asgs");
    } else if (op == "asgr" && w.size() == 3 && blk(1) && blk(2)) {
      ok = true;
      if (num(2) % 2) v[num(1)] = cv[num(2)]; else v[num(1)] = v[num(2)];
      sh[num(1)] = sh[num(2)]; stat("bv_asgr");
    } else if ((op == "and" || op == "or" || op == "xor") && w.size() == 3 && blk(1) && isBits(w[2], B)) {
      ok = true;
      BS x = bitsOf<B>(w[2]);
      if (op == "and") { v[num(1)] &= x; sh[num(1)] &= x; }
      else if (op == "or") { v[num(1)] |= x; sh[num(1)] |= x; }
      else { v[num(1)] ^= x; sh[num(1)] ^= x; }
      stat("bv_" + op);
    } else if ((op == "andr" || op == "orr" || op == "xorr") && w.size() == 3 && blk(1) && blk(2)) {
      ok = true;
      BS x = sh[num(2)];
      if (op == "andr") { v[num(1)] &= cv[num(2)]; sh[num(1)] &= x; }
      else if (op == "orr") { v[num(1)] |= cv[num(2)]; sh[num(1)] |= x; }
      else { v[num(1)] ^= cv[num(2)]; sh[num(1)] ^= x; }
      stat("bv_" + op);
    } else if ((op == "shl" || op == "shr") && w.size() == 3 && blk(1) && isNat(w[2]) && num(2) <= 400) {
      ok = true;
      if (op == "shl") { v[num(1)] <<= num(2); sh[num(1)] <<= num(2); }
      else { v[num(1)] >>= num(2); sh[num(1)] >>= num(2); }
      stat("bv_" + op);
      if (num(2) >= B) stat("bv_shift_ge_B");
    } else if (op == "q" && w.size() == 2 && blk(1)) {
      ok = true;
      auto r = cv[num(1)];
      res = std::to_string(r.count()) + (r.any() ? "t" : "f") + (r.none() ? "t" : "f") + (r.all() ? "t" : "f");
      const BS& e = sh[num(1)];
      out.check(r.count() == e.count() && r.any() == e.any() && r.none() == e.none() && r.all() == e.all() && r.size() == (std::size_t)B,
                "block count/any/none/all wrong: " + res);
      auto mr = v[num(1)];
      out.check(mr.count() == e.count() && mr.all() == e.all(), "mutable proxy count/all wrong");
      stat("bv_q");
    } else if (op == "not" && w.size() == 2 && blk(1)) {
      ok = true; BS r = ~cv[num(1)]; res = bitsStr<B>(r); out.check(r == ~sh[num(1)], "operator~ wrong"); stat("bv_not");
    } else if ((op == "shlq" || op == "shrq") && w.size() == 3 && blk(1) && isNat(w[2]) && num(2) <= 400) {
      ok = true;
      BS r = op == "shlq" ? (cv[num(1)] << num(2)) : (cv[num(1)] >> num(2));
      BS e = op == "shlq" ? (sh[num(1)] << num(2)) : (sh[num(1)] >> num(2));
      res = bitsStr<B>(r); out.check(r == e, op + " wrong"); stat("bv_" + op);
    } else if (op == "eqs" && w.size() == 3 && blk(1) && isBits(w[2], B)) {
      ok = true;
      BS x = bitsOf<B>(w[2]);
      bool e = cv[num(1)] == x, ne = cv[num(1)] != x;
      res = std::string(e ? "t" : "f") + (ne ? "t" : "f");
      out.check(e == (sh[num(1)] == x) && ne == !e, "proxy == bitset wrong"); stat("bv_eqs");
    } else if (op == "eqr" && w.size() == 3 && blk(1) && blk(2)) {
      ok = true;
      bool e = cv[num(1)] == cv[num(2)], ne = cv[num(1)] != cv[num(2)];
      res = std::string(e ? "t" : "f") + (ne ? "t" : "f");
      out.check(e == (sh[num(1)] == sh[num(2)]) && ne == !e, "proxy == proxy wrong"); stat("bv_eqr");
    } else if (op == "test" && w.size() == 3 && blk(1) && bit(2)) {
      ok = true;
      bool r = cv[num(1)].test(num(2));
      res = r ? "t" : "f";
      out.check(r == sh[num(1)].test(num(2)) && cv[num(1)][num(2)] == r && (bool)v[num(1)][num(2)] == r, "test/[] wrong"); stat("bv_test");
    }
    if (!ok) { out.obs.push_back("skip"); stat("bv_skip"); continue; }
    out.executed++;
    std::vector<std::string> blocks, cblocks;
    for (auto it = v.begin(); it != v.end(); ++it) blocks.push_back(bitsStr<B>(BS(*it)));
    for (auto it = cv.begin(); it != cv.end(); ++it) cblocks.push_back(bitsStr<B>(BS(*it)));
    std::vector<std::size_t> masked;
    for (int j = 0; j < B; ++j) masked.push_back(cv.countmasked(j));
    out.obs.push_back(std::to_string(v.size()) + " " + std::to_string(v.count()) + " " + lst(blocks) + " " + lst(masked) + " " + res);
    out.check(v.size() == sh.size(), "size " + std::to_string(v.size()) + " expected " + std::to_string(sh.size()));
    bool same = blocks.size() == sh.size();
    std::size_t total = 0;
    for (std::size_t i = 0; same && i < sh.size(); ++i) { same = blocks[i] == bitsStr<B>(sh[i]); total += sh[i].count(); }
    out.check(same, "blocks are " + lst(blocks));
    out.check(cblocks == blocks, "const iteration differs");
    if (B > 64)
      for (auto& b : sh)
        if ((b >> 64).any()) { stat("bv_bit_ge64_set"); break; }
    // the views of a block agree with the shadow one by one: conversion to std::bitset of the mutable and of the
    // const reference (operator[] and iterators), and the bit accessors test()/operator[] that do not convert
    // (on the block the op addressed and on one more that rotates with the op index; every block is compared with the
    // shadow through the iterators above after every op anyway)
    const long touched = (w.size() > 1 && isNat(w[1]) && op != "new" && op != "newv" && op != "resize" && num(1) < (long)sh.size()) ? num(1) : -1;
    for (std::size_t i = 0; same && i < sh.size(); ++i) {
      if ((long)i != touched && i != oi % sh.size()) continue;
      const BS m = v[i], c = cv[i];
      out.check(m == sh[i] && c == sh[i], "block " + std::to_string(i) + " converts to " + bitsStr<B>(m) + " / " + bitsStr<B>(c) +
                                              " expected " + bitsStr<B>(sh[i]));
      bool bitsOk = true;
      auto mr = v[i];
      auto cr = cv[i];
      for (int j = 0; j < B; ++j)
        bitsOk = bitsOk && cr.test(j) == sh[i][j] && cr[j] == sh[i][j] && (bool)mr[j] == sh[i][j] && mr.test(j) == sh[i][j];
      out.check(bitsOk, "block " + std::to_string(i) + ": test()/operator[] differ from the stored bits");
      out.check(cr.count() == sh[i].count() && (cr == sh[i]) && !(cr != sh[i]) && (mr == sh[i]), "block " + std::to_string(i) + ": count()/== differ");
    }
    if (same) {
      out.check(v.count() == total, "count() wrong");
      for (int j = 0; j < B; ++j) {
        std::size_t e = 0;
        for (auto& b : sh) e += b[j];
        out.check(masked[j] == e, "countmasked wrong");
      }
      if (!sh.empty()) out.check(BS(v.back()) == sh.back() && BS(cv.back()) == sh.back(), "back() wrong");
      // a copy is an equal, independent second instance
      BV c(v);
      bool eq = c.size() == v.size();
      for (std::size_t i = 0; eq && i < sh.size(); ++i) eq = (cv[i] == c[i]) && !(cv[i] != c[i]) && (c[i] == sh[i]);
      out.check(eq, "copy differs");
      if (!sh.empty()) { c[0].flip(); out.check(BS(cv[0]) == sh[0] && cv[0] != c[0], "copy not independent"); }
    }
  }
  stat("bv_B" + std::to_string(B));
  return out.result();
}

// ================================================================================================
// lru
// ================================================================================================
// const access: the read-only front()/back()/find() overloads.  back() const exists in two spellings in the wild
// (`back() const` and the historical `back(int) const`); both mean the same, so either is accepted.
template <class L>
int lruConstBack(const L& c) {
  if constexpr (requires { c.back(); }) return c.back();
  else return c.back(0);
}

Result runLRU(const Case& cs) {
  using L = Dune::lru<int, int>;
  struct Side {
    std::unique_ptr<L> c = std::make_unique<L>();
    std::list<std::pair<int, int>> sh;  // recency order, most recent first
    std::map<int, int> shm;             // key -> value
  };
  Side S[2];
  Out out;
  const int KEYS = 8;
  for (size_t oi = 0; oi < cs.ops.size(); ++oi) {
    const auto& w = cs.ops[oi];
    out.opIndex = oi; out.opText = cs.raw[oi];
    std::string res = "-";
    bool ok = false;
    std::string op = w.empty() ? "" : w[0];
    int t = 0;
    if (op.size() > 2 && op[0] == 'b' && op[1] == '.') { t = 1; op = op.substr(2); }
    Side& s = S[t];
    Side& o = S[1 - t];
    L& c = *s.c;
    auto& sh = s.sh;
    auto& shm = s.shm;
    auto shErase = [&](int k) {
      for (auto it = sh.begin(); it != sh.end();) it = (it->first == k) ? sh.erase(it) : std::next(it);
    };
    auto key = [&](size_t i) { return w.size() > i && isNat(w[i]) && std::stol(w[i]) < 1000; };
    if (op == "ins" && w.size() == 3 && key(1) && isInt(w[2])) {
      ok = true;
      int k = std::stoi(w[1]), v = std::stoi(w[2]);
      bool present = shm.count(k);
      int& r = c.insert(k, v);
      res = std::to_string(r);
      shErase(k); sh.push_front({k, v}); shm[k] = v;
      out.check(&r == &c.front(), "insert does not return a reference to the front entry");
      stat(present ? "lru_ins_existing" : "lru_ins_new");
    } else if ((op == "touch" || op == "ins1") && w.size() == 2 && key(1)) {
      ok = true;
      int k = std::stoi(w[1]);
      bool present = shm.count(k);
      try {
        int& r = op == "touch" ? c.touch(k) : c.insert(k);
        res = std::to_string(r);
        out.check(present, "touch of an absent key did not throw");
        if (present) {
          out.check(r == shm[k], "touch returned " + res + " expected " + std::to_string(shm[k]));
          out.check(&r == &c.front(), "touch does not return a reference to the front entry");
          shErase(k); sh.push_front({k, shm[k]});
        }
      } catch (Dune::RangeError&) {
        res = "ERR:Range";
        out.check(!present, "touch of a present key threw");
      }
      stat(present ? "lru_touch_hit" : "lru_touch_miss");
    } else if (op == "find" && w.size() == 2 && key(1)) {
      ok = true;
      int k = std::stoi(w[1]);
      auto it = c.find(k);
      bool found = it != c.find(-1);
      res = found ? std::to_string(it->first) + ":" + std::to_string(it->second) : "E";
      stat(found ? "lru_find_hit" : "lru_find_miss");
    } else if (op == "popf" && w.size() == 1 && !sh.empty()) {
      ok = true; c.pop_front(); shm.erase(sh.front().first); sh.pop_front(); stat("lru_popf");
    } else if (op == "popb" && w.size() == 1 && !sh.empty()) {
      ok = true; c.pop_back(); shm.erase(sh.back().first); sh.pop_back(); stat("lru_popb");
    } else if (op == "resize" && w.size() == 2 && isNat(w[1]) && std::stol(w[1]) <= (long)sh.size()) {
      ok = true;
      c.resize(std::stol(w[1]));
      while ((long)sh.size() > std::stol(w[1])) { shm.erase(sh.back().first); sh.pop_back(); }
      stat("lru_resize");
    } else if (op == "clear" && w.size() == 1) {
      ok = true; c.clear(); sh.clear(); shm.clear(); stat("lru_clear");
    } else if (op == "asg" && w.size() == 1) {
      ok = true;
      L& ret = (c = *o.c);
      out.check(&ret == &c, "operator= does not return *this");
      sh = o.sh; shm = o.shm; stat("lru_asg");
    } else if (op == "cc" && w.size() == 1) {
      ok = true;
      s.c = std::make_unique<L>(*o.c);
      sh = o.sh; shm = o.shm; stat("lru_cc");
    } else if (op == "sasg" && w.size() == 1) {
      ok = true;
      L& self = c;
      c = self;
      stat("lru_sasg");
    }
    if (!ok) { out.obs.push_back("skip"); stat("lru_skip"); continue; }
    out.executed++;
    std::string ob;
    for (int si = 0; si < 2; ++si) {
      Side& q = S[si];
      L& l = *q.c;
      const L& cl = l;
      const std::string nm = si ? "b" : "a";
      // full iteration: walk back size() steps from end() (= find of a key that is never inserted)
      std::vector<std::string> seen;
      std::vector<std::pair<int, int>> seenp, cseenp;
      {
        auto it = l.find(-1);
        for (std::size_t i = 0; i < l.size(); ++i) { --it; seenp.push_back(*it); }
        std::reverse(seenp.begin(), seenp.end());
        for (auto& p : seenp) seen.push_back(std::to_string(p.first) + ":" + std::to_string(p.second));
        auto cit = cl.find(-1);   // the const overload
        for (std::size_t i = 0; i < cl.size(); ++i) { --cit; cseenp.push_back(*cit); }
        std::reverse(cseenp.begin(), cseenp.end());
        out.check(cseenp == seenp, nm + ": const iteration differs");
      }
      std::vector<std::string> finds;
      for (int k = 0; k < KEYS; ++k) {
        auto it = l.find(k);
        bool found = it != l.find(-1);
        auto cit = cl.find(k);
        bool cfound = cit != cl.find(-1);
        finds.push_back(found ? std::to_string(it->second) : "-");
        auto e = q.shm.find(k);
        out.check(found == (e != q.shm.end()), nm + ".find(" + std::to_string(k) + ") presence wrong");
        out.check(cfound == found && (!found || (cit->first == it->first && cit->second == it->second)), nm + ": const find(" + std::to_string(k) + ") differs");
        if (found && e != q.shm.end()) {
          out.check(it->first == k, nm + ".find(" + std::to_string(k) + ") yields key " + std::to_string(it->first));
          out.check(it->second == e->second, nm + ".find(" + std::to_string(k) + ") = " + std::to_string(it->second) + " expected " + std::to_string(e->second));
        }
      }
      std::string fr = l.size() ? std::to_string(l.front()) : "-";
      std::string bk = l.size() ? std::to_string(l.back()) : "-";
      ob += (si ? " | " : "") + std::to_string(l.size()) + " " + fr + " " + bk + " " + lst(seen) + " " + lst(finds);
      out.check(l.size() == q.sh.size() && q.sh.size() == q.shm.size(), nm + ".size() = " + std::to_string(l.size()) + " expected " + std::to_string(q.shm.size()));
      out.check(seenp.size() == q.sh.size() && std::equal(seenp.begin(), seenp.end(), q.sh.begin()), nm + ": recency order is " + lst(seen));
      if (!q.sh.empty() && l.size()) {
        out.check(l.front() == q.sh.front().second && l.back() == q.sh.back().second, nm + ": front/back wrong");
        out.check(cl.front() == q.sh.front().second && lruConstBack(cl) == q.sh.back().second, nm + ": const front/back wrong");
      }
      // a second instance filled with the same entries (oldest first) shows the same order
      {
        L d;
        for (auto it = q.sh.rbegin(); it != q.sh.rend(); ++it) d.insert(it->first, it->second);
        bool eq = d.size() == l.size();
        auto i1 = l.find(-1);
        auto i2 = d.find(-1);
        for (std::size_t i = 0; eq && i < l.size(); ++i) { --i1; --i2; eq = *i1 == *i2; }
        out.check(eq, nm + " differs from a freshly built equal cache");
      }
    }
    if (op == "find") {
      int k = std::stoi(w[1]);
      auto e = shm.find(k);
      out.check((res == "E") == (e == shm.end()), "find result presence wrong");
      if (e != shm.end()) out.check(res == std::to_string(k) + ":" + std::to_string(e->second), "find result " + res);
    }
    out.obs.push_back(ob + " " + res);
  }
  return out.result();
}


// the header token `rel` selects the release build of the headers (see cxx_c11.cc); it is the last header token
bool c11HasRel(const std::string& line) {
  Case cs = parseCase(line);
  return cs.head.size() >= 2 && cs.head.back() == "rel";
}

// Template parameters instantiated (the model and the theorems are generic in them).  Chosen by where behaviour can
// change with the parameter, not only "small": chunk sizes incl. powers of two and the default 100; capacities beyond
// one cache line; block sizes on both sides of the word boundaries of std::bitset's storage (32|33, 64|65, 128|129:
// one, two and three 64-bit words) - conversions through to_ulong()/to_ullong() or a machine word are exact on one
// side of such a boundary only.
Result execContainers(const std::string& line) {
  Case cs = parseCase(line);
  if (cs.head.empty()) return Result{"bad-op", "FAIL malformed line"};
  if (cs.head.size() >= 2 && cs.head.back() == "rel") cs.head.pop_back();
  const std::string& kind = cs.head[0];
  long p = cs.head.size() > 1 && isNat(cs.head[1]) ? std::stol(cs.head[1]) : -999;
  stat("hist_len_" + std::to_string(cs.ops.size() < 8 ? cs.ops.size() : cs.ops.size() < 16 ? 8 : cs.ops.size() < 32 ? 16 : 32) + "+");
  if (kind == "al" && cs.head.size() == 2) {
    switch (p) {
      case 1: return runAL<1>(cs);
      case 2: return runAL<2>(cs);
      case 3: return runAL<3>(cs);
      case 4: return runAL<4>(cs);
      case 7: return runAL<7>(cs);
      case 8: return runAL<8>(cs);
      case 16: return runAL<16>(cs);
      case 100: return runAL<100>(cs);  // the default chunk size
      case 0: return runAL<0>(cs);  // chunkSize_ = 1
    }
  }
  if (kind == "sl" && cs.head.size() == 1) return runSL(cs);
  if (kind == "rv" && cs.head.size() == 2) {
    switch (p) {
      case 1: return runRV<1>(cs);
      case 2: return runRV<2>(cs);
      case 4: return runRV<4>(cs);
      case 7: return runRV<7>(cs);
      case 16: return runRV<16>(cs);
      case 65: return runRV<65>(cs);
    }
  }
  if (kind == "bv" && cs.head.size() == 2) {
    switch (p) {
      case 1: return runBV<1>(cs);
      case 3: return runBV<3>(cs);
      case 8: return runBV<8>(cs);
      case 32: return runBV<32>(cs);
      case 33: return runBV<33>(cs);
      case 63: return runBV<63>(cs);
      case 64: return runBV<64>(cs);
      case 65: return runBV<65>(cs);
      case 100: return runBV<100>(cs);
      case 128: return runBV<128>(cs);
      case 129: return runBV<129>(cs);
    }
  }
  if (kind == "lru" && cs.head.size() == 1) return runLRU(cs);
  return Result{"bad-op", "FAIL harness does not know container/parameter '" + line.substr(0, 20) + "'"};
}

}  // namespace
#endif
