// C09 correspondence harness: Dune::LoopSIMD<T,S> and the Dune::Simd abstraction layer, and the dense
// matrix algorithms on matrices of SIMD numbers, versus (a) the scalar operation run lane by lane inside
// this harness (the independent oracle of the property, compared by bit pattern) and (b) the Lean model.
//
// Value tokens: ints decimal; bool 0/1; float/double either a decimal integer (exactly representable) or
// x<hex bit pattern>.  Results are printed as decimal (ints), 0/1 (bool), x<hex> (floating point, every
// NaN printed as the canonical quiet NaN: NaN payloads/signs are not part of the property).
// Vectors are [l0,l1,...] in storage order (nested vectors outer-major).
#include <config.h>

#include <array>
#include <cmath>
#include <cstdint>
#include <cstring>
#include <limits>
#include <memory>
#include <type_traits>

#include <dune/common/exceptions.hh>
#include <dune/common/dynmatrix.hh>
#include <dune/common/dynvector.hh>
#include <dune/common/fmatrix.hh>
#include <dune/common/fvector.hh>
#include <dune/common/math.hh>
#include <dune/common/simd/loop.hh>
#include <dune/common/simd/simd.hh>

#include "hcommon.hh"

using namespace dv;
using Dune::LoopSIMD;
namespace Simd = Dune::Simd;

// cxx_c09_chk.cc: the same headers compiled with DUNE_FMatrix_WITH_CHECKING (`matc` op lines)
void c09_checked_exec(const std::vector<std::string>& w, std::string& impl, std::string& oracle);

// ------------------------------------------------------------------------------------------------
// scalar codecs
// ------------------------------------------------------------------------------------------------
template <class T> struct Cod;
template <> struct Cod<double> {
  static const char* name() { return "f64"; }
  static double parse(const std::string& s) {
    if (!s.empty() && s[0] == 'x') { uint64_t b = std::stoull(s.substr(1), nullptr, 16); double x; std::memcpy(&x, &b, 8); return x; }
    return (double)std::stoll(s);
  }
  static std::string show(double x) {
    if (x != x) return "x7ff8000000000000";
    uint64_t b; std::memcpy(&b, &x, 8);
    char buf[32]; std::snprintf(buf, sizeof buf, "x%016llx", (unsigned long long)b);
    return buf;
  }
  static bool same(double a, double b) { return (a != a && b != b) || std::memcmp(&a, &b, 8) == 0; }
};
template <> struct Cod<float> {
  static const char* name() { return "f32"; }
  static float parse(const std::string& s) {
    if (!s.empty() && s[0] == 'x') { uint32_t b = (uint32_t)std::stoul(s.substr(1), nullptr, 16); float x; std::memcpy(&x, &b, 4); return x; }
    return (float)std::stoll(s);
  }
  static std::string show(float x) {
    if (x != x) return "x7fc00000";
    uint32_t b; std::memcpy(&b, &x, 4);
    char buf[32]; std::snprintf(buf, sizeof buf, "x%08x", b);
    return buf;
  }
  static bool same(float a, float b) { return (a != a && b != b) || std::memcmp(&a, &b, 4) == 0; }
};
template <class I> struct CodInt {
  static I parse(const std::string& s) { return (I)std::stoll(s); }
  static std::string show(I x) { return std::to_string((long long)x); }
  static bool same(I a, I b) { return a == b; }
};
template <> struct Cod<int> : CodInt<int> { static const char* name() { return "i32"; } };
template <> struct Cod<long> : CodInt<long> { static const char* name() { return "i64"; } };
template <> struct Cod<long long> : CodInt<long long> { static const char* name() { return "i64"; } };
template <> struct Cod<std::size_t> : CodInt<std::size_t> { static const char* name() { return "u64"; } };
template <> struct Cod<unsigned> : CodInt<unsigned> { static const char* name() { return "u32"; } };
template <> struct Cod<short> : CodInt<short> { static const char* name() { return "i16"; } };
template <> struct Cod<bool> {
  static const char* name() { return "b"; }
  static bool parse(const std::string& s) { return s == "1"; }
  static std::string show(bool x) { return x ? "1" : "0"; }
  static bool same(bool a, bool b) { return a == b; }
};

// ------------------------------------------------------------------------------------------------
// raw (storage order) access: the oracle never goes through Simd::lane or any LoopSIMD operator
// ------------------------------------------------------------------------------------------------
template <class V> struct RawT {
  using scalar = V;
  static constexpr std::size_t n = 1;
  static scalar& at(V& v, std::size_t) { return v; }
  static const scalar& at(const V& v, std::size_t) { return v; }
};
template <class T, std::size_t S, std::size_t A> struct RawT<LoopSIMD<T, S, A>> {
  using V = LoopSIMD<T, S, A>;
  using scalar = typename RawT<T>::scalar;
  static constexpr std::size_t n = S * RawT<T>::n;
  static scalar& at(V& v, std::size_t k) {
    return RawT<T>::at(static_cast<std::array<T, S>&>(v)[k / RawT<T>::n], k % RawT<T>::n);
  }
  static const scalar& at(const V& v, std::size_t k) {
    return RawT<T>::at(static_cast<const std::array<T, S>&>(v)[k / RawT<T>::n], k % RawT<T>::n);
  }
};
template <class V> using ScalarOf = typename RawT<V>::scalar;
template <class V> struct IsNested : std::false_type {};
template <class T, std::size_t S2, std::size_t A2, std::size_t S, std::size_t A>
struct IsNested<LoopSIMD<LoopSIMD<T, S2, A2>, S, A>> : std::true_type {};

static std::vector<std::string> listToks(const std::string& s) {
  std::string t = s;
  if (t.size() < 2 || t.front() != '[' || t.back() != ']') throw std::runtime_error("bad list " + s);
  t = t.substr(1, t.size() - 2);
  if (t.empty()) return {};
  return split(t, ',');
}
template <class V> V parseVec(const std::string& tok) {
  auto ts = listToks(tok);
  if (ts.size() != RawT<V>::n) throw std::runtime_error("lane count mismatch in " + tok);
  V v;
  for (std::size_t k = 0; k < RawT<V>::n; ++k) RawT<V>::at(v, k) = Cod<ScalarOf<V>>::parse(ts[k]);
  return v;
}
template <class V> std::string showVec(const V& v) {
  std::string s = "[";
  for (std::size_t k = 0; k < RawT<V>::n; ++k) { if (k) s += ","; s += Cod<ScalarOf<V>>::show(RawT<V>::at(v, k)); }
  return s + "]";
}
template <class V> bool sameVec(const V& a, const V& b) {
  for (std::size_t k = 0; k < RawT<V>::n; ++k)
    if (!Cod<ScalarOf<V>>::same(RawT<V>::at(a, k), RawT<V>::at(b, k))) return false;
  return true;
}

static Result noSuchOp() { Result r; r.impl = "ERR:NoSuchOp"; r.oracle = "ok trivial"; return r; }
static Result invalidInput() { Result r; r.impl = "invalid"; r.oracle = "ok trivial"; return r; }

// ------------------------------------------------------------------------------------------------
// validity of integer operands (the harness never executes undefined behaviour)
// ------------------------------------------------------------------------------------------------
template <class T> bool validBin(const std::string& op, T a, T b) {
  if constexpr (std::is_floating_point_v<T>) return true;
  else if constexpr (std::is_same_v<T, bool>) {
    if (op == "div" || op == "mod") return b;
    return true;
  } else if constexpr (std::is_unsigned_v<T>) {
    // unsigned arithmetic wraps; only division by zero and oversized shift counts are undefined
    if (op == "div" || op == "mod") return b != 0;
    if (op == "shl" || op == "shr") return b < (T)(8 * sizeof(T));
    return true;
  } else {
    // the operation happens in the promoted type P (int for short); the result is converted back to T, which wraps
    using P = decltype(+a);
    using W = __int128;
    const W lo = std::numeric_limits<P>::min(), hi = std::numeric_limits<P>::max();
    W r = 0;
    if (op == "add") r = (W)a + b;
    else if (op == "sub") r = (W)a - b;
    else if (op == "mul") r = (W)a * b;
    else if (op == "div" || op == "mod") { if (b == 0) return false; if ((W)a == lo && b == -1) return false; return true; }
    else if (op == "shl") { if (b < 0 || b >= (T)(8 * sizeof(P))) return false; if (a < 0) return false; r = (W)a << (int)b; }
    else if (op == "shr") { return b >= 0 && b < (T)(8 * sizeof(P)); }
    else return true;
    return lo <= r && r <= hi;
  }
}
template <class T> bool validUn(const std::string& op, T a) {
  if constexpr (std::is_floating_point_v<T> || std::is_same_v<T, bool> || std::is_unsigned_v<T>) return true;
  else if constexpr (sizeof(T) < sizeof(int)) return true;   // computed in int, converted back (wraps)
  else {
    if (op == "neg" || op == "predec" || op == "postdec") return a != std::numeric_limits<T>::min();
    if (op == "preinc" || op == "postinc") return a != std::numeric_limits<T>::max();
    return true;
  }
}

// ------------------------------------------------------------------------------------------------
// operators of LoopSIMD.  Per vector type V only thin kernels are instantiated (load lanes, apply the
// operator of the code under test, store lanes); parsing, the scalar reference and the comparison are
// instantiated once per scalar type.
// ------------------------------------------------------------------------------------------------
enum OpCode { ADD, SUB, MUL, DIV, MOD, BAND, BOR, BXOR, SHL, SHR, LT, GT, LE, GE, EQ, NE, LAND, LOR, NOPS };
static const char* const opNames[NOPS] = {"add", "sub", "mul", "div", "mod", "band", "bor", "bxor", "shl", "shr",
                                          "lt", "gt", "le", "ge", "eq", "ne", "land", "lor"};
static int opCode(const std::string& s) { for (int i = 0; i < NOPS; ++i) if (s == opNames[i]) return i; return -1; }
static bool isMaskOp(int op) { return op >= LT; }
enum UnCode { POS, NEG, BNOT, LNOT, PREINC, PREDEC, POSTINC, POSTDEC, NUNS };
static const char* const unNames[NUNS] = {"pos", "neg", "bnot", "lnot", "preinc", "predec", "postinc", "postdec"};
static int unCode(const std::string& s) { for (int i = 0; i < NUNS; ++i) if (s == unNames[i]) return i; return -1; }

// x OP y for operator code `op`; ST is the scalar type deciding whether the expression exists at all
// (Note 4 of the specification: what is invalid for the scalar is not required of the vector)
#define DV_C(code, OP) \
  case code: if constexpr (requires(const ST& p, const ST& q) { p OP q; }) { out = static_cast<R>(x OP y); return true; } else return false;
template <class ST, class R, class X, class Y> bool applyArithNoShift(int op, const X& x, const Y& y, R& out) {
  switch (op) { DV_C(ADD, +) DV_C(SUB, -) DV_C(MUL, *) DV_C(DIV, /) DV_C(MOD, %) DV_C(BAND, &) DV_C(BOR, |) DV_C(BXOR, ^) }
  return false;
}
template <class ST, class R, class X, class Y> bool applyShift(int op, const X& x, const Y& y, R& out) {
  switch (op) { DV_C(SHL, <<) DV_C(SHR, >>) }
  return false;
}
template <class ST, class R, class X, class Y> bool applyCompare(int op, const X& x, const Y& y, R& out) {
  switch (op) { DV_C(LT, <) DV_C(GT, >) DV_C(LE, <=) DV_C(GE, >=) DV_C(EQ, ==) DV_C(NE, !=) }
  return false;
}
template <class ST, class R, class X, class Y> bool applyLogic(int op, const X& x, const Y& y, R& out) {
  switch (op) { DV_C(LAND, &&) DV_C(LOR, ||) }
  return false;
}
#undef DV_C
#define DV_A(code, OP) \
  case code: if constexpr (requires(ST& p, const ST& q) { p OP q; }) { ret = (x OP y); return true; } else return false;
template <class ST, class X, class Y> bool applyAssign(int op, X& x, const Y& y, X& ret) {
  switch (op) { DV_A(ADD, +=) DV_A(SUB, -=) DV_A(MUL, *=) DV_A(DIV, /=) DV_A(MOD, %=) DV_A(BAND, &=) DV_A(BOR, |=) DV_A(BXOR, ^=) DV_A(SHL, <<=) DV_A(SHR, >>=) }
  return false;
}
#undef DV_A
template <class ST, class R, class X> bool applyUnary(int op, const X& x, R& out) {
  switch (op) {
    case POS: if constexpr (requires(const ST& p) { +p; }) { out = static_cast<R>(+x); return true; } else return false;
    case NEG: if constexpr (requires(const ST& p) { -p; }) { out = static_cast<R>(-x); return true; } else return false;
    case BNOT: if constexpr (requires(const ST& p) { ~p; }) { out = static_cast<R>(~x); return true; } else return false;
  }
  return false;
}
template <class ST, class X> bool applyInc(int op, X& x, X& ret) {
  switch (op) {
    case PREINC: if constexpr (requires(ST& p) { ++p; }) { ret = ++x; return true; } else return false;
    case PREDEC: if constexpr (requires(ST& p) { --p; }) { ret = --x; return true; } else return false;
    case POSTINC: if constexpr (requires(ST& p) { p++; }) { ret = x++; return true; } else return false;
    case POSTDEC: if constexpr (requires(ST& p) { p--; }) { ret = x--; return true; } else return false;
  }
  return false;
}

// functions returning the vector's own type / another scalar type (the latter do not compile for nested vectors)
#define DV_MATHFNS_SAME(X) \
  X(cos) X(sin) X(tan) X(acos) X(asin) X(atan) X(cosh) X(sinh) X(tanh) X(acosh) X(asinh) X(atanh) X(exp) X(log) \
  X(log10) X(exp2) X(expm1) X(log1p) X(log2) X(logb) X(sqrt) X(cbrt) X(erf) X(erfc) X(tgamma) X(lgamma) \
  X(ceil) X(floor) X(trunc) X(round) X(rint) X(nearbyint) X(fabs) X(abs) X(real) X(imag)
#define DV_MATHFNS_RET(X) X(ilogb) X(lround) X(llround) X(lrint) X(llrint)

static const std::vector<std::string>& mathSameNames() {
  static const std::vector<std::string> v = {
#define X(fn) #fn,
      DV_MATHFNS_SAME(X)
#undef X
  };
  return v;
}
static const std::vector<std::string>& mathRetNames() {
  static const std::vector<std::string> v = {
#define X(fn) #fn,
      DV_MATHFNS_RET(X)
#undef X
  };
  return v;
}
static int indexOf(const std::vector<std::string>& v, const std::string& s) {
  for (std::size_t i = 0; i < v.size(); ++i) if (v[i] == s) return (int)i;
  return -1;
}
// the scalar function (std::) by index: this is the reference the vector version is compared with
template <class T> T scalarMathSame(int fn, T x) {
  int i = 0;
#define X(f) if (fn == i++) return static_cast<T>(std::f(x));
  DV_MATHFNS_SAME(X)
#undef X
  return x;
}
template <class T> long long scalarMathRet(int fn, T x) {
  int i = 0;
#define X(f) if (fn == i++) return static_cast<long long>(std::f(x));
  DV_MATHFNS_RET(X)
#undef X
  return 0;
}

// function pointers of the kernels of one vector type
template <class T> struct KernTab {
  std::size_t n;
  bool nested;
  bool (*arith)(int form, int op, const T* a, const T* b, T* out);
  bool (*mask)(int form, int op, const T* a, const T* b, bool* out);
  bool (*asg)(int form, int op, T* a, const T* b, T* ret);
  bool (*un)(int op, const T* a, T* out);
  void (*lnot)(const T* a, bool* out);
  bool (*inc)(int op, T* a, T* ret);
  void (*mathSame)(int fn, const T* a, T* out);
  bool (*mathRet)(int fn, const T* a, long long* out);
};

template <class V> struct Kern {
  using T = ScalarOf<V>;
  using M = Simd::Mask<V>;
  static constexpr std::size_t n = RawT<V>::n;
  static V ld(const T* p) { V v; for (std::size_t k = 0; k < n; ++k) RawT<V>::at(v, k) = p[k]; return v; }
  template <class W, class U> static void st(const W& v, U* p) {
    static_assert(RawT<W>::n == n, "result has another number of lanes");
    for (std::size_t k = 0; k < n; ++k) p[k] = static_cast<U>(RawT<W>::at(v, k));
  }
  // form 0: vector OP vector, 1: vector OP scalar (b[0]), 2: scalar (a[0]) OP vector
  static bool arith(int form, int op, const T* a, const T* b, T* out) {
    V r; bool ok = false;
    if (form == 0) { const V x = ld(a), y = ld(b); ok = op < SHL ? applyArithNoShift<T, V>(op, x, y, r) : applyShift<T, V>(op, x, y, r); }
    else if (form == 1) { const V x = ld(a); const T s = b[0]; ok = op < SHL ? applyArithNoShift<T, V>(op, x, s, r) : applyShift<T, V>(op, x, s, r); }
    else if (form >= 3) {   // x OP lane(k, x): the scalar operand is a reference to a lane of the vector operand
      if constexpr (!IsNested<V>::value) { const V x = ld(a); const T& s = Simd::lane(form - 3, x); ok = op < SHL ? applyArithNoShift<T, V>(op, x, s, r) : applyShift<T, V>(op, x, s, r); }
    }
    else if (op < SHL) { const T s = a[0]; const V y = ld(b); ok = applyArithNoShift<T, V>(op, s, y, r); }
    if (ok) st(r, out);
    return ok;
  }
  static bool mask(int form, int op, const T* a, const T* b, bool* out) {
    M r; bool ok = false;
    if (form == 0) { const V x = ld(a), y = ld(b); ok = op < LAND ? applyCompare<T, M>(op, x, y, r) : applyLogic<T, M>(op, x, y, r); }
    else if (form == 1) { const V x = ld(a); const T s = b[0]; ok = op < LAND ? applyCompare<T, M>(op, x, s, r) : applyLogic<T, M>(op, x, s, r); }
    else if (form >= 3) {
      if constexpr (!IsNested<V>::value) { const V x = ld(a); const T& s = Simd::lane(form - 3, x); ok = op < LAND ? applyCompare<T, M>(op, x, s, r) : applyLogic<T, M>(op, x, s, r); }
    }
    else {
      const T s = a[0]; const V y = ld(b);
      if (op < LAND) ok = applyCompare<T, M>(op, s, y, r);
      else if constexpr (!IsNested<V>::value) ok = applyLogic<T, M>(op, s, y, r);  // no such overload for nested vectors
    }
    if (ok) st(r, out);
    return ok;
  }
  static bool asg(int form, int op, T* a, const T* b, T* ret) {
    V x = ld(a), r; bool ok;
    if (form == 0) { const V y = ld(b); ok = applyAssign<T>(op, x, y, r); }
    else if (form >= 3) { ok = applyAssign<T>(op, x, Simd::lane(form - 3, x), r); }   // v OP= lane(k, v): the scalar operand is a lane of v itself
    else { const T s = b[0]; ok = applyAssign<T>(op, x, s, r); }
    if (ok) { st(x, a); st(r, ret); }
    return ok;
  }
  static bool un(int op, const T* a, T* out) {
    const V x = ld(a); V r;
    bool ok = applyUnary<T, V>(op, x, r);
    if (ok) st(r, out);
    return ok;
  }
  static void lnot(const T* a, bool* out) { const V x = ld(a); M r = !x; st(r, out); }
  static bool inc(int op, T* a, T* ret) {
    V x = ld(a), r;
    bool ok = applyInc<T>(op, x, r);
    if (ok) { st(x, a); st(r, ret); }
    return ok;
  }
  static void mathSame(int fn, const T* a, T* out) {
    if constexpr (std::is_floating_point_v<T>) {
      const V x = ld(a);
      int i = 0;
#define X(f) if (fn == i++) { auto r = f(x); st(r, out); return; }
      DV_MATHFNS_SAME(X)
#undef X
    }
    (void)fn; (void)a; (void)out;
  }
  static bool mathRet(int fn, const T* a, long long* out) {
    if constexpr (std::is_floating_point_v<T> && !IsNested<V>::value) {
      const V x = ld(a);
      int i = 0;
#define X(f) if (fn == i++) { auto r = f(x); st(r, out); return true; }
      DV_MATHFNS_RET(X)
#undef X
    }
    (void)fn; (void)a; (void)out;
    return false;
  }
  static const KernTab<T>* tab() {
    static const KernTab<T> t = {n, IsNested<V>::value, &arith, &mask, &asg, &un, &lnot, &inc, &mathSame, &mathRet};
    return &t;
  }
};

template <class T> const KernTab<T>* kernFor(const std::string& shape) {
  if constexpr (std::is_same_v<T, unsigned>) {
    if (shape == "2") return Kern<LoopSIMD<T, 2>>::tab();
    if (shape == "4") return Kern<LoopSIMD<T, 4>>::tab();
    if (shape == "8") return Kern<LoopSIMD<T, 8>>::tab();
    return nullptr;
  } else if constexpr (std::is_same_v<T, short>) {
    if (shape == "2") return Kern<LoopSIMD<T, 2>>::tab();
    if (shape == "4") return Kern<LoopSIMD<T, 4>>::tab();
    return nullptr;
  } else {
    if (shape == "1") return Kern<LoopSIMD<T, 1>>::tab();
    if (shape == "2") return Kern<LoopSIMD<T, 2>>::tab();
    if (shape == "4") return Kern<LoopSIMD<T, 4>>::tab();
    if (shape == "8") return Kern<LoopSIMD<T, 8>>::tab();
    if constexpr (std::is_same_v<T, double> || std::is_same_v<T, int> || std::is_same_v<T, bool>) {
      if (shape == "3") return Kern<LoopSIMD<T, 3>>::tab();
      if (shape == "2x2") return Kern<LoopSIMD<LoopSIMD<T, 2>, 2>>::tab();
      if (shape == "4x2") return Kern<LoopSIMD<LoopSIMD<T, 2>, 4>>::tab();
      if (shape == "2x4") return Kern<LoopSIMD<LoopSIMD<T, 4>, 2>>::tab();
    }
    return nullptr;
  }
}

// plain lane buffer (std::vector<bool> has no data())
template <class T> struct Buf {
  std::size_t n;
  std::unique_ptr<T[]> p;
  explicit Buf(std::size_t n_) : n(n_), p(new T[n_]()) {}
  Buf(const Buf& o) : n(o.n), p(new T[o.n]()) { for (std::size_t k = 0; k < n; ++k) p[k] = o.p[k]; }
  T& operator[](std::size_t k) { return p[k]; }
  const T& operator[](std::size_t k) const { return p[k]; }
  T* data() { return p.get(); }
  const T* data() const { return p.get(); }
};
template <class T> Buf<T> parseLanes(const std::string& tok, std::size_t n) {
  auto ts = listToks(tok);
  if (ts.size() != n) throw std::runtime_error("lane count mismatch in " + tok);
  Buf<T> v(n);
  for (std::size_t k = 0; k < n; ++k) v[k] = Cod<T>::parse(ts[k]);
  return v;
}
template <class T> std::string showLanes(const T* p, std::size_t n) {
  std::string s = "[";
  for (std::size_t k = 0; k < n; ++k) { if (k) s += ","; s += Cod<T>::show(p[k]); }
  return s + "]";
}
// bool lanes are handled through plain arrays (not std::vector<bool>)
using BoolBuf = Buf<bool>;

template <class R> void laneMismatch(Result& res, std::size_t k, R got, R want, const std::string& what) {
  if (res.oracle == "ok") res.oracle = "FAIL lane " + std::to_string(k) + " is " + Cod<R>::show(got) + ", " + what + " gives " + Cod<R>::show(want);
}

// operator kinds bin / asg / un / math for scalar type T
template <class T>
Result execOps(const std::vector<std::string>& w) {
  Result res;
  const std::string& kind = w.at(0);
  const KernTab<T>* K = kernFor<T>(w.at(2));
  if (!K) { res.impl = "bad-op"; res.oracle = "ok trivial"; return res; }
  const std::size_t n = K->n;
  if (kind == "bin" || kind == "asg") {
    const std::string& form = w.at(3);
    int f = form == "vv" ? 0 : form == "vs" ? 1 : form == "sv" ? 2 : form == "va" ? 3 : -1;
    const int op = opCode(w.at(4));
    if (f < 0 || op < 0 || (kind == "asg" && (f == 2 || op >= LT))) return noSuchOp();
    if (kind == "bin" && f == 3 && K->nested) { res.impl = "bad-op"; res.oracle = "ok trivial"; return res; }
    Buf<T> a = parseLanes<T>(f == 2 ? "[" + w.at(5) + "]" : w.at(5), f == 2 ? 1 : n);
    if (kind == "bin" && f == 3) {
      // bin T shape va op [a] k : a OP lane(k, a) (out of place)
      const std::size_t k = std::stoul(w.at(6));
      if (k >= n) { res.impl = "bad-op"; res.oracle = "ok trivial"; return res; }
      const T s0 = a[k];
      for (std::size_t i = 0; i < n; ++i) if (!validBin<T>(opNames[op], a[i], s0)) return invalidInput();
      Buf<T> dummy(1);
      if (!isMaskOp(op)) {
        Buf<T> out(n);
        if (!K->arith(3 + (int)k, op, a.data(), dummy.data(), out.data())) return noSuchOp();
        res.impl = showLanes(out.data(), n);
        for (std::size_t i = 0; i < n; ++i) {
          T e{};
          if (op < SHL) applyArithNoShift<T, T>(op, a[i], s0, e); else applyShift<T, T>(op, a[i], s0, e);
          if (!Cod<T>::same(out[i], e)) laneMismatch(res, i, out[i], e, "the scalar operation");
        }
      } else {
        BoolBuf out(n);
        if (!K->mask(3 + (int)k, op, a.data(), dummy.data(), out.data())) return noSuchOp();
        res.impl = showLanes(out.data(), n);
        for (std::size_t i = 0; i < n; ++i) {
          bool e = false;
          if (op < LAND) applyCompare<T, bool>(op, a[i], s0, e); else applyLogic<T, bool>(op, a[i], s0, e);
          if (out[i] != e) laneMismatch(res, i, out[i], e, "the scalar operation");
        }
      }
      return res;
    }
    if (f == 3) {
      // asg T shape va op [a] k : a OP= lane(k, a); as the scalar is taken by value this is a OP= (the old value of lane k)
      const std::size_t k = std::stoul(w.at(6));
      if (k >= n) { res.impl = "bad-op"; res.oracle = "ok trivial"; return res; }
      const T s0 = a[k];
      for (std::size_t i = 0; i < n; ++i) if (!validBin<T>(opNames[op], a[i], s0)) return invalidInput();
      const Buf<T> a0 = a;
      Buf<T> ret(n), dummy(1);
      if (!K->asg(3 + (int)k, op, a.data(), dummy.data(), ret.data())) return noSuchOp();
      res.impl = showLanes(a.data(), n);
      for (std::size_t i = 0; i < n; ++i) {
        T e = a0[i], r{};
        applyAssign<T>(op, e, s0, r);
        if (!Cod<T>::same(a[i], e)) laneMismatch(res, i, a[i], e, "the scalar compound assignment with the value lane " + std::to_string(k) + " had before the call");
      }
      return res;
    }
    Buf<T> b = parseLanes<T>(f == 1 ? "[" + w.at(6) + "]" : w.at(6), f == 1 ? 1 : n);
    auto A = [&](std::size_t k) -> T { return f == 2 ? a[0] : a[k]; };
    auto B = [&](std::size_t k) -> T { return f == 1 ? b[0] : b[k]; };
    for (std::size_t k = 0; k < n; ++k) if (!validBin<T>(opNames[op], A(k), B(k))) return invalidInput();
    const Buf<T> a0 = a;
    if (kind == "asg") {
      Buf<T> ret(n);
      if (!K->asg(f, op, a.data(), b.data(), ret.data())) return noSuchOp();
      res.impl = showLanes(a.data(), n);
      for (std::size_t k = 0; k < n; ++k) {
        T e = a0[k], r{};
        applyAssign<T>(op, e, B(k), r);
        if (!Cod<T>::same(a[k], e)) laneMismatch(res, k, a[k], e, "the scalar compound assignment");
        if (!Cod<T>::same(ret[k], a[k]) && res.oracle == "ok") res.oracle = "FAIL returned value differs from the assigned object in lane " + std::to_string(k);
      }
      return res;
    }
    if (!isMaskOp(op)) {
      Buf<T> out(n);
      if (!K->arith(f, op, a.data(), b.data(), out.data())) return noSuchOp();
      res.impl = showLanes(out.data(), n);
      for (std::size_t k = 0; k < n; ++k) {
        T e{};
        if (op < SHL) applyArithNoShift<T, T>(op, A(k), B(k), e); else applyShift<T, T>(op, A(k), B(k), e);
        if (!Cod<T>::same(out[k], e)) laneMismatch(res, k, out[k], e, "the scalar operation");
      }
    } else {
      BoolBuf out(n);
      if (!K->mask(f, op, a.data(), b.data(), out.data())) return noSuchOp();
      res.impl = showLanes(out.data(), n);
      for (std::size_t k = 0; k < n; ++k) {
        bool e = false;
        if (op < LAND) applyCompare<T, bool>(op, A(k), B(k), e); else applyLogic<T, bool>(op, A(k), B(k), e);
        if (out[k] != e) laneMismatch(res, k, out[k], e, "the scalar operation");
      }
    }
    return res;
  }
  if (kind == "un") {
    const int op = unCode(w.at(3));
    if (op < 0) return noSuchOp();
    Buf<T> a = parseLanes<T>(w.at(4), n);
    for (std::size_t k = 0; k < n; ++k) if (!validUn<T>(unNames[op], a[k])) return invalidInput();
    const Buf<T> a0 = a;
    if (op == LNOT) {
      BoolBuf out(n);
      K->lnot(a.data(), out.data());
      res.impl = showLanes(out.data(), n);
      for (std::size_t k = 0; k < n; ++k) { bool e = !a0[k]; if (out[k] != e) laneMismatch(res, k, out[k], e, "the scalar operation"); }
      return res;
    }
    if (op <= BNOT) {
      Buf<T> out(n);
      if (!K->un(op, a.data(), out.data())) return noSuchOp();
      res.impl = showLanes(out.data(), n);
      for (std::size_t k = 0; k < n; ++k) { T e{}; applyUnary<T, T>(op, a0[k], e); if (!Cod<T>::same(out[k], e)) laneMismatch(res, k, out[k], e, "the scalar operation"); }
      return res;
    }
    Buf<T> ret(n);
    if (!K->inc(op, a.data(), ret.data())) return noSuchOp();
    res.impl = showLanes(ret.data(), n) + "|" + showLanes(a.data(), n);
    for (std::size_t k = 0; k < n; ++k) {
      T x = a0[k], e{};
      applyInc<T>(op, x, e);
      if (!Cod<T>::same(ret[k], e)) laneMismatch(res, k, ret[k], e, "the scalar operation (value)");
      if (!Cod<T>::same(a[k], x)) laneMismatch(res, k, a[k], x, "the scalar operation (object)");
    }
    return res;
  }
  if (kind == "math") {
    if constexpr (!std::is_floating_point_v<T>) return noSuchOp();
    else {
      Buf<T> a = parseLanes<T>(w.at(4), n);
      int fn = indexOf(mathSameNames(), w.at(3));
      if (fn >= 0) {
        Buf<T> out(n);
        K->mathSame(fn, a.data(), out.data());
        res.impl = showLanes(out.data(), n);
        for (std::size_t k = 0; k < n; ++k) { T e = scalarMathSame<T>(fn, a[k]); if (!Cod<T>::same(out[k], e)) laneMismatch(res, k, out[k], e, "std::" + w.at(3)); }
        return res;
      }
      fn = indexOf(mathRetNames(), w.at(3));
      if (fn >= 0) {
        Buf<long long> out(n);
        if (!K->mathRet(fn, a.data(), out.data())) return noSuchOp();
        res.impl = showLanes(out.data(), n);
        for (std::size_t k = 0; k < n; ++k) { long long e = scalarMathRet<T>(fn, a[k]); if (out[k] != e) laneMismatch(res, k, out[k], e, "std::" + w.at(3)); }
        return res;
      }
      return noSuchOp();
    }
  }
  return noSuchOp();
}

static Result execOpsT(const std::vector<std::string>& w) {
  const std::string& T = w.at(1);
  if (T == "f64") return execOps<double>(w);
  if (T == "f32") return execOps<float>(w);
  if (T == "i32") return execOps<int>(w);
  if (T == "i64") return execOps<long>(w);
  if (T == "b") return execOps<bool>(w);
  if (T == "u32") return execOps<unsigned>(w);
  if (T == "i16") return execOps<short>(w);
  Result r; r.impl = "bad-op"; r.oracle = "ok trivial"; return r;
}

// scalar math function by name (used by the generator to write the function table into the op line)
template <class T> std::string scalarMath(const std::string& fn, T x) {
  int i = indexOf(mathSameNames(), fn);
  if (i >= 0) return Cod<T>::show(scalarMathSame<T>(i, x));
  i = indexOf(mathRetNames(), fn);
  if (i >= 0) return std::to_string(scalarMathRet<T>(i, x));
  return "?";
}
static std::vector<std::string> mathNames() {
  std::vector<std::string> v = mathSameNames();
  for (auto& s : mathRetNames()) v.push_back(s);
  return v;
}

template <class M> bool rawAny(const M& m, bool want) {
  for (std::size_t k = 0; k < RawT<M>::n; ++k) if (RawT<M>::at(m, k) == want) return true;
  return false;
}

// ------------------------------------------------------------------------------------------------
// functions of the abstraction layer (and the remaining functions of loop.hh) for one vector type
// ------------------------------------------------------------------------------------------------
template <class V> struct Flat;  // the flat LoopSIMD with the same scalar and lane count (for implCast)
template <class T, std::size_t S, std::size_t A> struct Flat<LoopSIMD<T, S, A>> { using type = LoopSIMD<ScalarOf<T>, S * RawT<T>::n>; };

template <class V>
Result execVec(const std::vector<std::string>& w) {
  using T = ScalarOf<V>;
  using M = Simd::Mask<V>;
  constexpr std::size_t n = RawT<V>::n;
  static_assert(std::is_same_v<Simd::Scalar<V>, T>, "Simd::Scalar");
  static_assert(std::is_same_v<ScalarOf<M>, bool> && RawT<M>::n == n, "Simd::Mask");
  const std::string& kind = w.at(0);
  Result res;
  auto arg = [&](std::size_t i) -> const std::string& { return w.at(i); };

  if (kind == "bin") {
    const std::string &form = arg(3), &op = arg(4);
    if (op == "max" || op == "min") {
      if (form != "vv") return noSuchOp();
      const bool mx = op == "max";
      const V a = parseVec<V>(arg(5)), b = parseVec<V>(arg(6));
      V r = mx ? Simd::max(a, b) : Simd::min(a, b);
      res.impl = showVec(r);
      for (std::size_t k = 0; k < n; ++k) {
        T e = mx ? std::max(RawT<V>::at(a, k), RawT<V>::at(b, k)) : std::min(RawT<V>::at(a, k), RawT<V>::at(b, k));
        if (!Cod<T>::same(RawT<V>::at(r, k), e)) { res.oracle = "FAIL lane " + std::to_string(k) + " is " + Cod<T>::show(RawT<V>::at(r, k)) + ", std::" + op + " gives " + Cod<T>::show(e); break; }
      }
      return res;
    }
    if (op == "maskor" || op == "maskand") {
      if (form != "vv") return noSuchOp();
      const V a = parseVec<V>(arg(5)), b = parseVec<V>(arg(6));
      M r = op == "maskor" ? Simd::maskOr(a, b) : Simd::maskAnd(a, b);
      res.impl = showVec(r);
      for (std::size_t k = 0; k < n; ++k) {
        bool x = RawT<V>::at(a, k) != T(0), y = RawT<V>::at(b, k) != T(0);
        bool e = op == "maskor" ? (x || y) : (x && y);
        if (RawT<M>::at(r, k) != e) { res.oracle = "FAIL lane " + std::to_string(k) + " of " + op; break; }
      }
      return res;
    }
    return noSuchOp();
  }
  if (kind == "un") {
    const std::string& op = arg(3);
    if (op == "mask") {
      const V a = parseVec<V>(arg(4));
      M r = Simd::mask(a);
      res.impl = showVec(r);
      for (std::size_t k = 0; k < n; ++k)
        if (RawT<M>::at(r, k) != (RawT<V>::at(a, k) != T(0))) { res.oracle = "FAIL lane " + std::to_string(k) + " of mask"; break; }
      return res;
    }
    if (op == "isNaN" || op == "isInf" || op == "isFinite") {
      if constexpr (!std::is_floating_point_v<T>) return noSuchOp();
      else {
        const V a = parseVec<V>(arg(4));
        M r = op == "isNaN" ? Dune::isNaN(a) : op == "isInf" ? Dune::isInf(a) : Dune::isFinite(a);
        res.impl = showVec(r);
        for (std::size_t k = 0; k < n; ++k) {
          T x = RawT<V>::at(a, k);
          bool e = op == "isNaN" ? std::isnan(x) : op == "isInf" ? std::isinf(x) : std::isfinite(x);
          if (RawT<M>::at(r, k) != e) { res.oracle = "FAIL lane " + std::to_string(k) + " of " + op; break; }
        }
        return res;
      }
    }
    return noSuchOp();
  }
  if (kind == "lane") {
    std::size_t l = std::stoul(arg(3));
    const V a = parseVec<V>(arg(4));
    if (l >= n) { res.impl = "bad-op"; res.oracle = "ok trivial"; return res; }
    T r = Simd::lane(l, a);
    T rr = Simd::lane(l, V(a));   // the overload for rvalues
    res.impl = Cod<T>::show(r);
    if (!Cod<T>::same(r, RawT<V>::at(a, l))) res.oracle = "FAIL lane(" + std::to_string(l) + ") reads " + res.impl + ", stored " + Cod<T>::show(RawT<V>::at(a, l));
    else if (!Cod<T>::same(rr, RawT<V>::at(a, l))) res.oracle = "FAIL lane(" + std::to_string(l) + ") of an rvalue reads " + Cod<T>::show(rr) + ", stored " + Cod<T>::show(RawT<V>::at(a, l));
    return res;
  }
  if (kind == "setlane") {
    std::size_t l = std::stoul(arg(3));
    T x = Cod<T>::parse(arg(4));
    V a = parseVec<V>(arg(5));
    if (l >= n) { res.impl = "bad-op"; res.oracle = "ok trivial"; return res; }
    const V a0 = a;
    Simd::lane(l, a) = x;
    res.impl = showVec(a);
    for (std::size_t k = 0; k < n; ++k) {
      T e = k == l ? x : RawT<V>::at(a0, k);
      if (!Cod<T>::same(RawT<V>::at(a, k), e)) { res.oracle = "FAIL assignment through lane(" + std::to_string(l) + ") changed lane " + std::to_string(k) + " to " + Cod<T>::show(RawT<V>::at(a, k)); break; }
    }
    return res;
  }
  if (kind == "cond") {
    const M m = parseVec<M>(arg(3));
    const V a = parseVec<V>(arg(4)), b = parseVec<V>(arg(5));
    V r = Simd::cond(m, a, b);
    res.impl = showVec(r);
    for (std::size_t k = 0; k < n; ++k) {
      T e = RawT<M>::at(m, k) ? RawT<V>::at(a, k) : RawT<V>::at(b, k);
      if (!Cod<T>::same(RawT<V>::at(r, k), e)) { res.oracle = "FAIL lane " + std::to_string(k) + " of cond is " + Cod<T>::show(RawT<V>::at(r, k)) + ", mask ? a : b gives " + Cod<T>::show(e); break; }
    }
    return res;
  }
  if (kind == "condb") {
    const bool m = arg(3) == "1";
    const V a = parseVec<V>(arg(4)), b = parseVec<V>(arg(5));
    V r = Simd::cond(m, a, b);
    res.impl = showVec(r);
    if (!sameVec(r, m ? a : b)) res.oracle = "FAIL cond(bool) selected the wrong operand";
    return res;
  }
  if (kind == "red") {
    if constexpr (!std::is_same_v<T, bool>) return noSuchOp();
    else {
      const std::string& what = arg(3);
      const V m = parseVec<V>(arg(4));
      bool r, e;
      if (what == "anyTrue") { r = Simd::anyTrue(m); e = rawAny(m, true); }
      else if (what == "allTrue") { r = Simd::allTrue(m); e = !rawAny(m, false); }
      else if (what == "anyFalse") { r = Simd::anyFalse(m); e = rawAny(m, false); }
      else if (what == "allFalse") { r = Simd::allFalse(m); e = !rawAny(m, true); }
      else return noSuchOp();
      res.impl = Cod<bool>::show(r);
      if (r != e) res.oracle = "FAIL " + what + " gives " + res.impl;
      return res;
    }
  }
  if (kind == "bcast") {
    T x = Cod<T>::parse(arg(3));
    V r = Simd::broadcast<V>(x);
    V c(x);
    res.impl = showVec(r);
    for (std::size_t k = 0; k < n; ++k)
      if (!Cod<T>::same(RawT<V>::at(r, k), x) || !Cod<T>::same(RawT<V>::at(c, k), x)) { res.oracle = "FAIL broadcast: lane " + std::to_string(k); break; }
    return res;
  }
  if (kind == "hmax" || kind == "hmin") {
    const bool mx = kind == "hmax";
    const V a = parseVec<V>(arg(3));
    T r = mx ? Simd::max(a) : Simd::min(a);
    res.impl = Cod<T>::show(r);
    bool isLane = false, anyNaN = false, beaten = false;
    for (std::size_t k = 0; k < n; ++k) {
      T x = RawT<V>::at(a, k);
      if (Cod<T>::same(x, r)) isLane = true;
      if (x != x) anyNaN = true;
      if (mx ? (r < x) : (x < r)) beaten = true;
    }
    if (!isLane) res.oracle = "FAIL horizontal " + kind + " returns a value that is in no lane";
    else if (!anyNaN && beaten) res.oracle = "FAIL horizontal " + kind + " is not extremal";
    return res;
  }
  if (kind == "implcast") {
    using F = typename Flat<V>::type;
    const std::string& dir = arg(3);
    if (dir == "flat") {
      const V a = parseVec<V>(arg(4));
      F r = Simd::implCast<F>(a);
      res.impl = showVec(r);
      for (std::size_t k = 0; k < n; ++k)
        if (!Cod<T>::same(RawT<F>::at(r, k), RawT<V>::at(a, k))) { res.oracle = "FAIL implCast moved lane " + std::to_string(k); break; }
      return res;
    }
    if (dir == "nest") {
      const F a = parseVec<F>(arg(4));
      V r = Simd::implCast<V>(a);
      res.impl = showVec(r);
      for (std::size_t k = 0; k < n; ++k)
        if (!Cod<T>::same(RawT<V>::at(r, k), RawT<F>::at(a, k))) { res.oracle = "FAIL implCast moved lane " + std::to_string(k); break; }
      return res;
    }
    return noSuchOp();
  }
  if (kind == "lanes") {
    // lanes<V>(), lanes(v), and the type functions: lanes / scalar of Mask<V> and Rebind<long, V>, Rebind<Scalar<V>, V> == V
    using RL = Simd::Rebind<long, V>;
    res.impl = std::to_string(Simd::lanes<V>()) + " " + std::to_string(Simd::lanes(V(T(0)))) + " " + Cod<Simd::Scalar<V>>::name()
               + " " + std::to_string(Simd::lanes<M>()) + " " + Cod<Simd::Scalar<M>>::name()
               + " " + std::to_string(Simd::lanes<RL>()) + " " + Cod<Simd::Scalar<RL>>::name()
               + " " + (std::is_same_v<Simd::Rebind<Simd::Scalar<V>, V>, V> ? "1" : "0");
    if (Simd::lanes<V>() != n || Simd::lanes<M>() != n || Simd::lanes<RL>() != n || !std::is_same_v<Simd::Scalar<M>, bool>
        || !std::is_same_v<Simd::Scalar<RL>, long>) res.oracle = "FAIL lanes / Scalar / Rebind";
    return res;
  }
  res.impl = "bad-op";
  res.oracle = "ok trivial";
  return res;
}

// ------------------------------------------------------------------------------------------------
// dense matrices / vectors of SIMD numbers versus the scalar matrix / vector of every lane
// ------------------------------------------------------------------------------------------------
// entry tokens are stored entry-major, lanes (storage order) innermost
template <class V, class MatV, class MatS>
void loadMat(const std::vector<std::string>& t, int r, int c, MatV& A, std::array<MatS, RawT<V>::n>& a) {
  constexpr std::size_t S = RawT<V>::n;
  if (t.size() != (std::size_t)r * c * S) throw std::runtime_error("matrix data size");
  for (int i = 0; i < r; ++i) for (int j = 0; j < c; ++j) for (std::size_t l = 0; l < S; ++l) {
    auto x = Cod<ScalarOf<V>>::parse(t[(i * c + j) * S + l]);
    RawT<V>::at(A[i][j], l) = x;
    a[l][i][j] = x;
  }
}
template <class V, class VecV, class VecS>
void loadVec(const std::vector<std::string>& t, int n, VecV& b, std::array<VecS, RawT<V>::n>& bs) {
  constexpr std::size_t S = RawT<V>::n;
  if (t.size() != (std::size_t)n * S) throw std::runtime_error("vector data size");
  for (int i = 0; i < n; ++i) for (std::size_t l = 0; l < S; ++l) {
    auto x = Cod<ScalarOf<V>>::parse(t[i * S + l]);
    RawT<V>::at(b[i], l) = x;
    bs[l][i] = x;
  }
}
template <class V> std::string showLanesOf(const V& v) {
  std::string s;
  for (std::size_t l = 0; l < RawT<V>::n; ++l) { if (l) s += ","; s += Cod<ScalarOf<V>>::show(RawT<V>::at(v, l)); }
  return s;
}
template <class V, class VecV> std::string showVecOf(const VecV& y, int n) {
  std::string s = "[";
  for (int i = 0; i < n; ++i) { if (i) s += ","; s += showLanesOf<V>(y[i]); }
  return s + "]";
}
template <class V, class MatV> std::string showMatOf(const MatV& C, int r, int c) {
  std::string s = "[";
  for (int i = 0; i < r; ++i) for (int j = 0; j < c; ++j) { if (i || j) s += ","; s += showLanesOf<V>(C[i][j]); }
  return s + "]";
}
// compares lane l of a SIMD value with the scalar run of that lane
template <class V> struct LaneCmp {
  Result& res;
  const std::string& what;
  void operator()(const V& got, std::size_t l, ScalarOf<V> want, const std::string& where) const {
    using CD = Cod<ScalarOf<V>>;
    if (res.oracle == "ok" && !CD::same(RawT<V>::at(got, l), want))
      res.oracle = "FAIL " + what + " " + where + " lane " + std::to_string(l) + " is " + CD::show(RawT<V>::at(got, l)) + ", scalar algorithm on that lane's data gives " + CD::show(want);
  }
};

template <class V, int n>
Result execMat(const std::string& what, bool piv, const std::vector<std::string>& ta, const std::vector<std::string>& tb) {
  using T = ScalarOf<V>;
  constexpr std::size_t S = RawT<V>::n;
  Result res;
  Dune::FieldMatrix<V, n, n> A;
  std::array<Dune::FieldMatrix<T, n, n>, S> a;
  loadMat<V>(ta, n, n, A, a);
  const bool needB = what == "solve" || what == "mv";
  const bool needM = what == "mm" || what == "lmm";
  Dune::FieldVector<V, n> b;
  std::array<Dune::FieldVector<T, n>, S> bs;
  Dune::FieldMatrix<V, n, n> B;
  std::array<Dune::FieldMatrix<T, n, n>, S> Bs;
  if (needM) loadMat<V>(tb, n, n, B, Bs);
  else if (needB) loadVec<V>(tb, n, b, bs);
  LaneCmp<V> cmp{res, what};

  if (what == "det") {
    // determinant() promises a value for every matrix (singular lanes give 0); an FMatrixError is reported, not a crash
    V d;
    try { d = A.determinant(piv); }
    catch (Dune::FMatrixError&) {
      res.impl = "ERR:FMatrix";
      res.oracle = "FAIL determinant throws FMatrixError (it must return 0 in the singular lanes and the determinant in the others)";
      return res;
    }
    res.impl = "[" + showLanesOf(d) + "]";
    for (std::size_t l = 0; l < S; ++l) {
      T want;
      try { want = a[l].determinant(piv); }
      catch (Dune::FMatrixError&) { if (res.oracle == "ok") res.oracle = "FAIL the scalar determinant of lane " + std::to_string(l) + " throws FMatrixError"; continue; }
      cmp(d, l, want, "result");
    }
    return res;
  }
  if (what == "solve") {
    Dune::FieldVector<V, n> x;
    bool threw = false;
    try { A.solve(x, b, piv); } catch (Dune::FMatrixError&) { threw = true; }
    std::array<Dune::FieldVector<T, n>, S> xs;
    bool anyThrow = false;
    for (std::size_t l = 0; l < S; ++l) { try { a[l].solve(xs[l], bs[l], piv); } catch (Dune::FMatrixError&) { anyThrow = true; } }
    if (threw) {
      res.impl = "ERR:FMatrix";
      if (!anyThrow) res.oracle = "FAIL solve reports a singular matrix although the scalar algorithm succeeds in every lane";
      return res;
    }
    res.impl = showVecOf<V>(x, n);
    if (anyThrow) { res.oracle = "FAIL solve succeeds although the scalar algorithm reports a singular matrix in some lane"; return res; }
    for (int i = 0; i < n; ++i) for (std::size_t l = 0; l < S; ++l) cmp(x[i], l, xs[l][i], "x[" + std::to_string(i) + "]");
    return res;
  }
  if (what == "inv") {
    auto Ai = A;
    bool threw = false;
    try { Ai.invert(piv); } catch (Dune::FMatrixError&) { threw = true; }
    bool anyThrow = false;
    auto ai = a;
    for (std::size_t l = 0; l < S; ++l) { try { ai[l].invert(piv); } catch (Dune::FMatrixError&) { anyThrow = true; } }
    if (threw) {
      res.impl = "ERR:FMatrix";
      if (!anyThrow) res.oracle = "FAIL invert reports a singular matrix although the scalar algorithm succeeds in every lane";
      return res;
    }
    res.impl = showMatOf<V>(Ai, n, n);
    if (anyThrow) { res.oracle = "FAIL invert succeeds although the scalar algorithm reports a singular matrix in some lane"; return res; }
    for (int i = 0; i < n; ++i) for (int j = 0; j < n; ++j) for (std::size_t l = 0; l < S; ++l)
      cmp(Ai[i][j], l, ai[l][i][j], "entry[" + std::to_string(i) + "][" + std::to_string(j) + "]");
    return res;
  }
  if (what == "mv") {
    Dune::FieldVector<V, n> y;
    A.mv(b, y);
    res.impl = showVecOf<V>(y, n);
    for (std::size_t l = 0; l < S; ++l) { Dune::FieldVector<T, n> ys; a[l].mv(bs[l], ys); for (int i = 0; i < n; ++i) cmp(y[i], l, ys[i], "y[" + std::to_string(i) + "]"); }
    return res;
  }
  if (what == "mm" || what == "lmm") {
    auto C = A;
    if (what == "mm") C.rightmultiply(B); else C.leftmultiply(B);
    res.impl = showMatOf<V>(C, n, n);
    for (std::size_t l = 0; l < S; ++l) {
      auto c = a[l];
      if (what == "mm") c.rightmultiply(Bs[l]); else c.leftmultiply(Bs[l]);
      for (int i = 0; i < n; ++i) for (int j = 0; j < n; ++j) cmp(C[i][j], l, c[i][j], "entry[" + std::to_string(i) + "][" + std::to_string(j) + "]");
    }
    return res;
  }
  if (what == "fnorm2" || what == "infnorm") {
    V r = what == "fnorm2" ? A.frobenius_norm2() : A.infinity_norm();
    res.impl = "[" + showLanesOf(r) + "]";
    for (std::size_t l = 0; l < S; ++l) cmp(r, l, what == "fnorm2" ? a[l].frobenius_norm2() : a[l].infinity_norm(), "result");
    return res;
  }
  return noSuchOp();
}

// rectangular matrices: the matrix-vector kernels and the norms
template <class V, int r, int c>
Result execRect(const std::string& what, const std::vector<std::string>& ta, const std::vector<std::string>& tx,
                const std::vector<std::string>& ty, const std::vector<std::string>& talpha) {
  using T = ScalarOf<V>;
  constexpr std::size_t S = RawT<V>::n;
  Result res;
  Dune::FieldMatrix<V, r, c> A;
  std::array<Dune::FieldMatrix<T, r, c>, S> a;
  loadMat<V>(ta, r, c, A, a);
  LaneCmp<V> cmp{res, what};
  if (what == "fnorm2" || what == "fnorm" || what == "infnorm" || what == "infnormr") {
    V v = what == "fnorm2" ? A.frobenius_norm2() : what == "fnorm" ? A.frobenius_norm() : what == "infnorm" ? A.infinity_norm() : A.infinity_norm_real();
    res.impl = "[" + showLanesOf(v) + "]";
    for (std::size_t l = 0; l < S; ++l)
      cmp(v, l, what == "fnorm2" ? a[l].frobenius_norm2() : what == "fnorm" ? a[l].frobenius_norm() : what == "infnorm" ? a[l].infinity_norm() : a[l].infinity_norm_real(), "result");
    return res;
  }
  if (what == "madd" || what == "msub" || what == "mscale" || what == "mdiv" || what == "mneg" || what == "maxpy") {
    // (round 4) the vector-space operations of DenseMatrix: A += B, A -= B, A *= alpha, A /= alpha, -A, A.axpy(alpha, B)
    // (op line: rect <op> <shape> <r> <c> <A> <B> [] <alpha>)
    if (talpha.size() != S) throw std::runtime_error("alpha data size");
    V alpha;
    std::array<T, S> alphas;
    for (std::size_t l = 0; l < S; ++l) { alphas[l] = Cod<T>::parse(talpha[l]); RawT<V>::at(alpha, l) = alphas[l]; }
    Dune::FieldMatrix<V, r, c> B;
    std::array<Dune::FieldMatrix<T, r, c>, S> b;
    loadMat<V>(tx, r, c, B, b);
    dv::stat("matop_" + what);
    auto run = [&](auto& M, const auto& N, const auto& al) {
      if (what == "madd") M += N; else if (what == "msub") M -= N; else if (what == "mscale") M *= al; else if (what == "mdiv") M /= al;
      else if (what == "mneg") M = -M; else M.axpy(al, N);
    };
    run(A, B, alpha);
    res.impl = showMatOf<V>(A, r, c);
    for (std::size_t l = 0; l < S; ++l) {
      run(a[l], b[l], alphas[l]);
      for (int i = 0; i < r; ++i) for (int j = 0; j < c; ++j) cmp(A[i][j], l, a[l][i][j], "entry[" + std::to_string(i) + "][" + std::to_string(j) + "]");
    }
    return res;
  }
  // (round 4) the hermitian kernels umhv / mmhv / usmhv (conjugateComplex is the identity on real lanes) run like the transposed ones
  const bool transposed = what == "mtv" || what == "umtv" || what == "mmtv" || what == "usmtv" || what == "umhv" || what == "mmhv" || what == "usmhv";
  const bool plain = what == "mv" || what == "umv" || what == "mmv" || what == "usmv";
  if (!transposed && !plain) return noSuchOp();
  dv::stat("kernel_" + what);
  if (talpha.size() != S) throw std::runtime_error("alpha data size");
  V alpha;
  std::array<T, S> alphas;
  for (std::size_t l = 0; l < S; ++l) { alphas[l] = Cod<T>::parse(talpha[l]); RawT<V>::at(alpha, l) = alphas[l]; }
  if (plain) {
    Dune::FieldVector<V, c> x; std::array<Dune::FieldVector<T, c>, S> xs; loadVec<V>(tx, c, x, xs);
    Dune::FieldVector<V, r> y; std::array<Dune::FieldVector<T, r>, S> ys; loadVec<V>(ty, r, y, ys);
    if (what == "mv") A.mv(x, y); else if (what == "umv") A.umv(x, y); else if (what == "mmv") A.mmv(x, y); else A.usmv(alpha, x, y);
    res.impl = showVecOf<V>(y, r);
    for (std::size_t l = 0; l < S; ++l) {
      if (what == "mv") a[l].mv(xs[l], ys[l]); else if (what == "umv") a[l].umv(xs[l], ys[l]); else if (what == "mmv") a[l].mmv(xs[l], ys[l]); else a[l].usmv(alphas[l], xs[l], ys[l]);
      for (int i = 0; i < r; ++i) cmp(y[i], l, ys[l][i], "y[" + std::to_string(i) + "]");
    }
  } else {
    Dune::FieldVector<V, r> x; std::array<Dune::FieldVector<T, r>, S> xs; loadVec<V>(tx, r, x, xs);
    Dune::FieldVector<V, c> y; std::array<Dune::FieldVector<T, c>, S> ys; loadVec<V>(ty, c, y, ys);
    auto runT = [&](const auto& M, const auto& al, const auto& xv, auto& yv) {
      if (what == "mtv") M.mtv(xv, yv); else if (what == "umtv") M.umtv(xv, yv); else if (what == "mmtv") M.mmtv(xv, yv);
      else if (what == "usmtv") M.usmtv(al, xv, yv); else if (what == "umhv") M.umhv(xv, yv); else if (what == "mmhv") M.mmhv(xv, yv);
      else M.usmhv(al, xv, yv);
    };
    runT(A, alpha, x, y);
    res.impl = showVecOf<V>(y, c);
    for (std::size_t l = 0; l < S; ++l) {
      runT(a[l], alphas[l], xs[l], ys[l]);
      for (int i = 0; i < c; ++i) cmp(y[i], l, ys[l][i], "y[" + std::to_string(i) + "]");
    }
  }
  return res;
}

// vectors of SIMD numbers: norms, dot product, axpy
template <class V, int n>
Result execFVec(const std::string& what, const std::vector<std::string>& tv, const std::vector<std::string>& tw,
                const std::vector<std::string>& talpha) {
  using T = ScalarOf<V>;
  constexpr std::size_t S = RawT<V>::n;
  Result res;
  Dune::FieldVector<V, n> v; std::array<Dune::FieldVector<T, n>, S> vs; loadVec<V>(tv, n, v, vs);
  LaneCmp<V> cmp{res, what};
  if (what == "one" || what == "oner" || what == "two2" || what == "two" || what == "inf" || what == "infr") {
    auto f = [&](const auto& z) {
      return what == "one" ? z.one_norm() : what == "oner" ? z.one_norm_real() : what == "two2" ? z.two_norm2() : what == "two" ? z.two_norm()
             : what == "inf" ? z.infinity_norm() : z.infinity_norm_real();
    };
    V r = f(v);
    res.impl = "[" + showLanesOf(r) + "]";
    for (std::size_t l = 0; l < S; ++l) cmp(r, l, f(vs[l]), "result");
    return res;
  }
  Dune::FieldVector<V, n> w; std::array<Dune::FieldVector<T, n>, S> ws; loadVec<V>(tw, n, w, ws);
  if (what == "dot") {
    V r = v * w;
    res.impl = "[" + showLanesOf(r) + "]";
    for (std::size_t l = 0; l < S; ++l) cmp(r, l, vs[l] * ws[l], "result");
    return res;
  }
  if (what == "axpy") {
    if (talpha.size() != S) throw std::runtime_error("alpha data size");
    V alpha;
    for (std::size_t l = 0; l < S; ++l) RawT<V>::at(alpha, l) = Cod<T>::parse(talpha[l]);
    w.axpy(alpha, v);   // w += alpha * v
    res.impl = showVecOf<V>(w, n);
    for (std::size_t l = 0; l < S; ++l) { ws[l].axpy(RawT<V>::at(alpha, l), vs[l]); for (int i = 0; i < n; ++i) cmp(w[i], l, ws[l][i], "w[" + std::to_string(i) + "]"); }
    return res;
  }
  return noSuchOp();
}

// the same algorithms through DynamicMatrix / DynamicVector (run-time size: the n = 1, 2, 3 closed forms are run-time branches)
template <class V>
Result execDMat(const std::string& what, int n, bool piv, const std::vector<std::string>& ta, const std::vector<std::string>& tb) {
  using T = ScalarOf<V>;
  constexpr std::size_t S = RawT<V>::n;
  Result res;
  Dune::DynamicMatrix<V> A(n, n);
  std::array<Dune::DynamicMatrix<T>, S> a;
  for (auto& m : a) m.resize(n, n);
  loadMat<V>(ta, n, n, A, a);
  LaneCmp<V> cmp{res, what};
  if (what == "det") {
    // determinant() promises a value for every matrix (singular lanes give 0); an FMatrixError is reported, not a crash
    V d;
    try { d = A.determinant(piv); }
    catch (Dune::FMatrixError&) {
      res.impl = "ERR:FMatrix";
      res.oracle = "FAIL determinant throws FMatrixError (it must return 0 in the singular lanes and the determinant in the others)";
      return res;
    }
    res.impl = "[" + showLanesOf(d) + "]";
    for (std::size_t l = 0; l < S; ++l) {
      T want;
      try { want = a[l].determinant(piv); }
      catch (Dune::FMatrixError&) { if (res.oracle == "ok") res.oracle = "FAIL the scalar determinant of lane " + std::to_string(l) + " throws FMatrixError"; continue; }
      cmp(d, l, want, "result");
    }
    return res;
  }
  if (what == "solve" || what == "mv") {
    Dune::DynamicVector<V> b(n), x(n);
    std::array<Dune::DynamicVector<T>, S> bs, xs;
    for (auto& v : bs) v.resize(n);
    for (auto& v : xs) v.resize(n);
    loadVec<V>(tb, n, b, bs);
    if (what == "mv") {
      A.mv(b, x);
      res.impl = showVecOf<V>(x, n);
      for (std::size_t l = 0; l < S; ++l) { a[l].mv(bs[l], xs[l]); for (int i = 0; i < n; ++i) cmp(x[i], l, xs[l][i], "y[" + std::to_string(i) + "]"); }
      return res;
    }
    bool threw = false, anyThrow = false;
    try { A.solve(x, b, piv); } catch (Dune::FMatrixError&) { threw = true; }
    for (std::size_t l = 0; l < S; ++l) { try { a[l].solve(xs[l], bs[l], piv); } catch (Dune::FMatrixError&) { anyThrow = true; } }
    if (threw) {
      res.impl = "ERR:FMatrix";
      if (!anyThrow) res.oracle = "FAIL solve reports a singular matrix although the scalar algorithm succeeds in every lane";
      return res;
    }
    res.impl = showVecOf<V>(x, n);
    if (anyThrow) { res.oracle = "FAIL solve succeeds although the scalar algorithm reports a singular matrix in some lane"; return res; }
    for (int i = 0; i < n; ++i) for (std::size_t l = 0; l < S; ++l) cmp(x[i], l, xs[l][i], "x[" + std::to_string(i) + "]");
    return res;
  }
  if (what == "inv") {
    auto Ai = A;
    auto ai = a;
    bool threw = false, anyThrow = false;
    try { Ai.invert(piv); } catch (Dune::FMatrixError&) { threw = true; }
    for (std::size_t l = 0; l < S; ++l) { try { ai[l].invert(piv); } catch (Dune::FMatrixError&) { anyThrow = true; } }
    if (threw) {
      res.impl = "ERR:FMatrix";
      if (!anyThrow) res.oracle = "FAIL invert reports a singular matrix although the scalar algorithm succeeds in every lane";
      return res;
    }
    res.impl = showMatOf<V>(Ai, n, n);
    if (anyThrow) { res.oracle = "FAIL invert succeeds although the scalar algorithm reports a singular matrix in some lane"; return res; }
    for (int i = 0; i < n; ++i) for (int j = 0; j < n; ++j) for (std::size_t l = 0; l < S; ++l)
      cmp(Ai[i][j], l, ai[l][i][j], "entry[" + std::to_string(i) + "][" + std::to_string(j) + "]");
    return res;
  }
  if (what == "fnorm2" || what == "infnorm") {
    V r = what == "fnorm2" ? A.frobenius_norm2() : A.infinity_norm();
    res.impl = "[" + showLanesOf(r) + "]";
    for (std::size_t l = 0; l < S; ++l) cmp(r, l, what == "fnorm2" ? a[l].frobenius_norm2() : a[l].infinity_norm(), "result");
    return res;
  }
  return noSuchOp();
}

static Result badOp() { Result r; r.impl = "bad-op"; r.oracle = "ok trivial"; return r; }

// the (shape, size) combinations that are instantiated; the generator draws from the same tables
struct MatArgs { std::string what; int n; bool piv; std::vector<std::string> ta, tb; };
template <class V, int... Ns> Result matSizes(const MatArgs& m) {
  Result r = badOp();
  (void)((m.n == Ns ? (r = execMat<V, Ns>(m.what, m.piv, m.ta, m.tb), true) : false) || ...);
  return r;
}
static const std::map<std::string, std::vector<int>>& matTable() {
  static const std::map<std::string, std::vector<int>> t = {
      {"1", {1, 2, 3, 4, 5}}, {"2", {1, 2, 3, 4, 5, 6}}, {"3", {3, 4, 5}}, {"4", {1, 2, 3, 4, 5, 6}}, {"8", {2, 3, 5, 6}},
      {"2x2", {2, 3, 4, 5}}, {"f4", {1, 2, 3, 4, 5}}};
  return t;
}
static Result execMatShape(const std::string& shape, const MatArgs& m) {
  if (shape == "1") return matSizes<LoopSIMD<double, 1>, 1, 2, 3, 4, 5>(m);
  if (shape == "2") return matSizes<LoopSIMD<double, 2>, 1, 2, 3, 4, 5, 6>(m);
  if (shape == "3") return matSizes<LoopSIMD<double, 3>, 3, 4, 5>(m);
  if (shape == "4") return matSizes<LoopSIMD<double, 4>, 1, 2, 3, 4, 5, 6>(m);
  if (shape == "8") return matSizes<LoopSIMD<double, 8>, 2, 3, 5, 6>(m);
  if (shape == "2x2") return matSizes<LoopSIMD<LoopSIMD<double, 2>, 2>, 2, 3, 4, 5>(m);
  if (shape == "f4") return matSizes<LoopSIMD<float, 4>, 1, 2, 3, 4, 5>(m);
  return badOp();
}

struct RectArgs { std::string what; int r, c; std::vector<std::string> ta, tx, ty, talpha; };
static const std::vector<std::pair<int, int>>& rectSizes() {
  static const std::vector<std::pair<int, int>> t = {{2, 3}, {3, 2}, {1, 4}, {3, 3}};
  return t;
}
static const std::vector<std::string>& rectShapes() {
  static const std::vector<std::string> t = {"2", "4", "2x2", "f4"};
  return t;
}
template <class V> Result rectSizesOf(const RectArgs& m) {
  if (m.r == 2 && m.c == 3) return execRect<V, 2, 3>(m.what, m.ta, m.tx, m.ty, m.talpha);
  if (m.r == 3 && m.c == 2) return execRect<V, 3, 2>(m.what, m.ta, m.tx, m.ty, m.talpha);
  if (m.r == 1 && m.c == 4) return execRect<V, 1, 4>(m.what, m.ta, m.tx, m.ty, m.talpha);
  if (m.r == 3 && m.c == 3) return execRect<V, 3, 3>(m.what, m.ta, m.tx, m.ty, m.talpha);
  return badOp();
}
static Result execRectShape(const std::string& shape, const RectArgs& m) {
  if (shape == "2") return rectSizesOf<LoopSIMD<double, 2>>(m);
  if (shape == "4") return rectSizesOf<LoopSIMD<double, 4>>(m);
  if (shape == "2x2") return rectSizesOf<LoopSIMD<LoopSIMD<double, 2>, 2>>(m);
  if (shape == "f4") return rectSizesOf<LoopSIMD<float, 4>>(m);
  return badOp();
}

struct FVecArgs { std::string what; int n; std::vector<std::string> tv, tw, talpha; };
static const std::vector<int>& fvecSizes() { static const std::vector<int> t = {1, 3, 4}; return t; }
template <class V> Result fvecSizesOf(const FVecArgs& m) {
  if (m.n == 1) return execFVec<V, 1>(m.what, m.tv, m.tw, m.talpha);
  if (m.n == 3) return execFVec<V, 3>(m.what, m.tv, m.tw, m.talpha);
  if (m.n == 4) return execFVec<V, 4>(m.what, m.tv, m.tw, m.talpha);
  return badOp();
}
static Result execFVecShape(const std::string& shape, const FVecArgs& m) {
  if (shape == "2") return fvecSizesOf<LoopSIMD<double, 2>>(m);
  if (shape == "4") return fvecSizesOf<LoopSIMD<double, 4>>(m);
  if (shape == "2x2") return fvecSizesOf<LoopSIMD<LoopSIMD<double, 2>, 2>>(m);
  if (shape == "f4") return fvecSizesOf<LoopSIMD<float, 4>>(m);
  return badOp();
}

// ------------------------------------------------------------------------------------------------
// A minimal SIMD type that provides only what the abstraction layer demands (lane, anyTrue, the operators) and
// inherits everything else from dune/common/simd/defaults.hh: allTrue/anyFalse/allFalse, max/min (horizontal),
// mask, maskOr, maskAnd, implCast, broadcast.
// ------------------------------------------------------------------------------------------------
namespace dvmini {
template <class T, std::size_t S> struct Vec {
  std::array<T, S> a;
  Vec() = default;
  Vec(T x) { a.fill(x); }
};
template <class T, std::size_t S> Vec<bool, S> operator!=(const Vec<T, S>& x, const Vec<T, S>& y) {
  Vec<bool, S> r; for (std::size_t i = 0; i < S; ++i) r.a[i] = x.a[i] != y.a[i]; return r;
}
template <class T, std::size_t S> Vec<bool, S> operator!(const Vec<T, S>& x) {
  Vec<bool, S> r; for (std::size_t i = 0; i < S; ++i) r.a[i] = !x.a[i]; return r;
}
template <std::size_t S> Vec<bool, S> operator||(const Vec<bool, S>& x, const Vec<bool, S>& y) {
  Vec<bool, S> r; for (std::size_t i = 0; i < S; ++i) r.a[i] = x.a[i] || y.a[i]; return r;
}
template <std::size_t S> Vec<bool, S> operator&&(const Vec<bool, S>& x, const Vec<bool, S>& y) {
  Vec<bool, S> r; for (std::size_t i = 0; i < S; ++i) r.a[i] = x.a[i] && y.a[i]; return r;
}
}  // namespace dvmini
namespace Dune { namespace Simd { namespace Overloads {
template <class T, std::size_t S> struct ScalarType<dvmini::Vec<T, S>> { using type = T; };
template <class U, class T, std::size_t S> struct RebindType<U, dvmini::Vec<T, S>> { using type = dvmini::Vec<U, S>; };
template <class T, std::size_t S> struct LaneCount<dvmini::Vec<T, S>> : index_constant<S> {};
template <class T, std::size_t S> T lane(ADLTag<5>, std::size_t l, const dvmini::Vec<T, S>& v) { return v.a[l]; }
template <class T, std::size_t S> T& lane(ADLTag<5>, std::size_t l, dvmini::Vec<T, S>& v) { return v.a[l]; }
template <std::size_t S> bool anyTrue(ADLTag<5>, const dvmini::Vec<bool, S>& m) {
  for (std::size_t i = 0; i < S; ++i) if (m.a[i]) return true;
  return false;
}
}}}  // namespace Dune::Simd::Overloads

template <class T, std::size_t S>
Result execMini(const std::vector<std::string>& w) {
  // mini <what> <T> <S> args...
  using V = dvmini::Vec<T, S>;
  using M = dvmini::Vec<bool, S>;
  static_assert(std::is_same_v<Simd::Mask<V>, M>);
  const std::string& what = w.at(1);
  Result res;
  auto parse = [&](const std::string& tok) {
    auto ts = listToks(tok);
    if (ts.size() != S) throw std::runtime_error("lane count mismatch in " + tok);
    V v; for (std::size_t k = 0; k < S; ++k) v.a[k] = Cod<T>::parse(ts[k]);
    return v;
  };
  auto showA = [&](const auto& v) {
    using E = std::decay_t<decltype(v.a[0])>;
    std::string s = "["; for (std::size_t k = 0; k < S; ++k) { if (k) s += ","; s += Cod<E>::show(v.a[k]); } return s + "]";
  };
  if (what == "anyTrue" || what == "allTrue" || what == "anyFalse" || what == "allFalse") {
    if constexpr (!std::is_same_v<T, bool>) return noSuchOp();
    else {
      const V m = parse(w.at(4));
      bool anyT = false, anyF = false;
      for (std::size_t k = 0; k < S; ++k) { if (m.a[k]) anyT = true; else anyF = true; }
      bool r, e;
      if (what == "anyTrue") { r = Simd::anyTrue(m); e = anyT; }
      else if (what == "allTrue") { r = Simd::allTrue(m); e = !anyF; }
      else if (what == "anyFalse") { r = Simd::anyFalse(m); e = anyF; }
      else { r = Simd::allFalse(m); e = !anyT; }
      res.impl = Cod<bool>::show(r);
      if (r != e) res.oracle = "FAIL default " + what + " gives " + res.impl;
      return res;
    }
  }
  if (what == "mask") {
    const V a = parse(w.at(4));
    M r = Simd::mask(a);
    res.impl = showA(r);
    for (std::size_t k = 0; k < S; ++k) if (r.a[k] != (a.a[k] != T(0))) { res.oracle = "FAIL lane " + std::to_string(k) + " of default mask"; break; }
    return res;
  }
  if (what == "maskor" || what == "maskand") {
    const V a = parse(w.at(4)), b = parse(w.at(5));
    M r = what == "maskor" ? Simd::maskOr(a, b) : Simd::maskAnd(a, b);
    res.impl = showA(r);
    for (std::size_t k = 0; k < S; ++k) {
      bool x = a.a[k] != T(0), y = b.a[k] != T(0);
      if (r.a[k] != (what == "maskor" ? (x || y) : (x && y))) { res.oracle = "FAIL lane " + std::to_string(k) + " of default " + what; break; }
    }
    return res;
  }
  if (what == "hmax" || what == "hmin") {
    const bool mx = what == "hmax";
    const V a = parse(w.at(4));
    T r = mx ? Simd::max(a) : Simd::min(a);
    res.impl = Cod<T>::show(r);
    bool isLane = false, anyNaN = false, beaten = false;
    for (std::size_t k = 0; k < S; ++k) {
      T x = a.a[k];
      if (Cod<T>::same(x, r)) isLane = true;
      if (x != x) anyNaN = true;
      if (mx ? (r < x) : (x < r)) beaten = true;
    }
    if (!isLane) res.oracle = "FAIL default horizontal " + what + " returns a value that is in no lane";
    else if (!anyNaN && beaten) res.oracle = "FAIL default horizontal " + what + " is not extremal";
    return res;
  }
  if (what == "bcast") {
    T x = Cod<T>::parse(w.at(4));
    V r = Simd::broadcast<V>(x);
    res.impl = showA(r);
    for (std::size_t k = 0; k < S; ++k) if (!Cod<T>::same(r.a[k], x)) { res.oracle = "FAIL default broadcast: lane " + std::to_string(k); break; }
    return res;
  }
  if (what == "implcast") {
    // to LoopSIMD and back, both through the lane-by-lane default of defaults.hh
    const V a = parse(w.at(4));
    using LV = LoopSIMD<T, S>;
    LV lv = Simd::implCast<LV>(a);
    V back = Simd::implCast<V>(lv);
    res.impl = showVec(lv) + " " + showA(back);
    for (std::size_t k = 0; k < S; ++k)
      if (!Cod<T>::same(RawT<LV>::at(lv, k), a.a[k]) || !Cod<T>::same(back.a[k], a.a[k])) { res.oracle = "FAIL default implCast moved lane " + std::to_string(k); break; }
    return res;
  }
  return noSuchOp();
}

// LoopSIMD of std::complex: the second overload of real() / imag(), and the operators on complex lanes
template <std::size_t S>
Result execCplx(const std::vector<std::string>& w) {
  // cplx <what> <S> <[re0,im0,re1,im1,...]> [<second operand>]
  using C = std::complex<double>;
  using V = LoopSIMD<C, S>;
  using CD = Cod<double>;
  const std::string& what = w.at(1);
  Result res;
  auto parse = [&](const std::string& tok) {
    auto ts = listToks(tok);
    if (ts.size() != 2 * S) throw std::runtime_error("lane count mismatch in " + tok);
    V v; for (std::size_t k = 0; k < S; ++k) static_cast<std::array<C, S>&>(v)[k] = C(CD::parse(ts[2 * k]), CD::parse(ts[2 * k + 1]));
    return v;
  };
  auto raw = [](const V& v, std::size_t k) { return static_cast<const std::array<C, S>&>(v)[k]; };
  auto showC = [&](const V& v) { std::string s = "["; for (std::size_t k = 0; k < S; ++k) { if (k) s += ","; s += CD::show(raw(v, k).real()) + "," + CD::show(raw(v, k).imag()); } return s + "]"; };
  auto sameC = [](C x, C y) { return CD::same(x.real(), y.real()) && CD::same(x.imag(), y.imag()); };
  const V a = parse(w.at(3));
  if (what == "real" || what == "imag") {
    LoopSIMD<double, S> r = what == "real" ? real(a) : imag(a);
    res.impl = showVec(r);
    for (std::size_t k = 0; k < S; ++k) {
      double e = what == "real" ? std::real(raw(a, k)) : std::imag(raw(a, k));
      if (!CD::same(static_cast<const std::array<double, S>&>(r)[k], e)) { res.oracle = "FAIL lane " + std::to_string(k) + " of " + what + " of a complex vector"; break; }
    }
    return res;
  }
  if (what == "neg") {
    V r = -a;
    res.impl = showC(r);
    for (std::size_t k = 0; k < S; ++k) if (!sameC(raw(r, k), -raw(a, k))) { res.oracle = "FAIL lane " + std::to_string(k) + " of complex negation"; break; }
    return res;
  }
  const V b = parse(w.at(4));
  if (what == "add" || what == "sub") {
    V r = what == "add" ? a + b : a - b;
    res.impl = showC(r);
    for (std::size_t k = 0; k < S; ++k) {
      C e = what == "add" ? raw(a, k) + raw(b, k) : raw(a, k) - raw(b, k);
      if (!sameC(raw(r, k), e)) { res.oracle = "FAIL lane " + std::to_string(k) + " of complex " + what; break; }
    }
    return res;
  }
  if (what == "eq" || what == "ne") {
    Simd::Mask<V> r = what == "eq" ? (a == b) : (a != b);
    res.impl = showVec(r);
    for (std::size_t k = 0; k < S; ++k) {
      bool e = what == "eq" ? raw(a, k) == raw(b, k) : raw(a, k) != raw(b, k);
      if (RawT<Simd::Mask<V>>::at(r, k) != e) { res.oracle = "FAIL lane " + std::to_string(k) + " of complex " + what; break; }
    }
    return res;
  }
  return noSuchOp();
}

// the converting constructor between differently aligned LoopSIMDs, and operators on the over-aligned type
static Result execRealign(const std::vector<std::string>& w) {
  // realign <[4 doubles]> <[4 doubles]>
  using V = LoopSIMD<double, 4>;
  using VA = LoopSIMD<double, 4, 64>;
  static_assert(alignof(VA) == 64);
  const V a = parseVec<V>(w.at(1)), b = parseVec<V>(w.at(2));
  VA wa(a), wb(b);
  VA sum = wa + wb;
  Simd::Mask<VA> lt = wa < wb;
  VA sel = Simd::cond(lt, wa, wb);
  V back(sel);
  Result res;
  res.impl = showVec(V(wa)) + " " + showVec(V(sum)) + " " + showVec(back);
  for (std::size_t k = 0; k < 4; ++k) {
    double x = RawT<V>::at(a, k), y = RawT<V>::at(b, k);
    if (!Cod<double>::same(RawT<VA>::at(wa, k), x) || !Cod<double>::same(RawT<VA>::at(sum, k), x + y) || !Cod<double>::same(RawT<V>::at(back, k), x < y ? x : y)) {
      res.oracle = "FAIL lane " + std::to_string(k) + " of the over-aligned LoopSIMD"; break;
    }
  }
  return res;
}

// shifts whose count vector has another element type (and alignment) than the shifted vector
static Result execShiftMix(const std::vector<std::string>& w) {
  // shiftmix <shl|shr> <vv|vs> <[4 longs]> <[4 ints] | int>
  using V = LoopSIMD<long, 4>;
  using U = LoopSIMD<int, 4, 32>;
  const bool shl = w.at(1) == "shl";
  const bool vv = w.at(2) == "vv";
  const V a = parseVec<V>(w.at(3));
  std::array<int, 4> cnt;
  if (vv) { auto ts = listToks(w.at(4)); if (ts.size() != 4) throw std::runtime_error("count size"); for (int k = 0; k < 4; ++k) cnt[k] = Cod<int>::parse(ts[k]); }
  else cnt.fill(Cod<int>::parse(w.at(4)));
  for (int k = 0; k < 4; ++k) {
    long x = RawT<V>::at(a, k);
    if (cnt[k] < 0 || cnt[k] >= 64) return invalidInput();
    if (shl && (x < 0 || (cnt[k] > 0 && x > (std::numeric_limits<long>::max() >> cnt[k])))) return invalidInput();
  }
  V r;
  if (vv) { U c; for (int k = 0; k < 4; ++k) RawT<U>::at(c, k) = cnt[k]; r = shl ? (a << c) : (a >> c); }
  else r = shl ? (a << cnt[0]) : (a >> cnt[0]);
  Result res;
  res.impl = showVec(r);
  for (int k = 0; k < 4; ++k) {
    long x = RawT<V>::at(a, k), e = shl ? (x << cnt[k]) : (x >> cnt[k]);
    if (RawT<V>::at(r, k) != e) { res.oracle = "FAIL lane " + std::to_string(k) + " of a shift by an int vector"; break; }
  }
  return res;
}

// ------------------------------------------------------------------------------------------------
// A scalar operand of ANOTHER arithmetic type than the lanes: `v @ s`, `s @ v` for the mask-valued operators
// (comparisons, && ||) and `v << s`, `v >> s`.  Lane l must be the built-in mixed-type expression `lane(l, v) @ s`
// (usual arithmetic conversions inside the lane, the scalar NOT converted to the lanes' type first):
// LoopSIMD<int,4>{1,2,3,4} < 2.5 is {1,1,0,0}, LoopSIMD<float,4>(0.1f) == 0.1 is false in every lane.
//   binx <T> <shape> <vs|sv> <op> <[lanes]> <U> <s>
// ------------------------------------------------------------------------------------------------
template <class T> bool validShiftMixed(bool shl, T a, long long c) {
  using P = decltype(+a);
  const int bits = 8 * (int)sizeof(P);
  if (c < 0 || c >= bits) return false;
  if constexpr (std::is_unsigned_v<P>) return true;
  else {
    if (!shl) return true;
    if (a < 0) return false;
    return ((__int128)a << c) <= (__int128)std::numeric_limits<P>::max();
  }
}

template <class V, class U>
Result execMixed(const std::vector<std::string>& w) {
  using T = ScalarOf<V>;
  using M = Simd::Mask<V>;
  constexpr std::size_t n = RawT<V>::n;
  Result res;
  const std::string& form = w.at(3);
  const int op = opCode(w.at(4));
  const bool vs = form == "vs";
  if ((!vs && form != "sv") || op < SHL) return noSuchOp();
  const V a = parseVec<V>(w.at(5));
  const U s = Cod<U>::parse(w.at(7));
  if (op == SHL || op == SHR) {
    if constexpr (std::is_integral_v<T> && std::is_integral_v<U>) {
      if (!vs) return noSuchOp();
      for (std::size_t k = 0; k < n; ++k) if (!validShiftMixed<T>(op == SHL, RawT<V>::at(a, k), (long long)s)) return invalidInput();
      const V r = op == SHL ? (a << s) : (a >> s);
      res.impl = showVec(r);
      for (std::size_t k = 0; k < n; ++k) {
        const T x = RawT<V>::at(a, k);
        const T e = static_cast<T>(op == SHL ? (x << s) : (x >> s));
        if (!Cod<T>::same(RawT<V>::at(r, k), e)) laneMismatch(res, k, RawT<V>::at(r, k), e, std::string("the scalar shift by a count of type ") + Cod<U>::name());
      }
      return res;
    } else return noSuchOp();
  }
  M r;
  if (op >= LAND && !vs && IsNested<V>::value) return noSuchOp();   // no `Mask<T> && vector` overload for nested vectors
  switch (op) {
    case LT: r = vs ? (a < s) : (s < a); break;
    case GT: r = vs ? (a > s) : (s > a); break;
    case LE: r = vs ? (a <= s) : (s <= a); break;
    case GE: r = vs ? (a >= s) : (s >= a); break;
    // == and != are called by name: as an expression, C++20 would also consider the overload for the reversed operand
    // order as a rewritten candidate, and reject the whole program (mask return type) whenever that one is the better match,
    // i.e. whenever one of the two overloads is not generic in the scalar's type; by name the harness still compiles then
    // and reports the lanes that differ
    case EQ: r = vs ? operator==(a, s) : operator==(s, a); break;
    case NE: r = vs ? operator!=(a, s) : operator!=(s, a); break;
    case LAND: if constexpr (!IsNested<V>::value) { r = vs ? (a && s) : (s && a); } else { r = (a && s); } break;
    case LOR: if constexpr (!IsNested<V>::value) { r = vs ? (a || s) : (s || a); } else { r = (a || s); } break;
    default: return noSuchOp();
  }
  res.impl = showVec(r);
  for (std::size_t k = 0; k < n; ++k) {
    const T x = RawT<V>::at(a, k);
    bool e = false;
    switch (op) {
      case LT: e = vs ? (x < s) : (s < x); break;
      case GT: e = vs ? (x > s) : (s > x); break;
      case LE: e = vs ? (x <= s) : (s <= x); break;
      case GE: e = vs ? (x >= s) : (s >= x); break;
      case EQ: e = vs ? (x == s) : (s == x); break;
      case NE: e = vs ? (x != s) : (s != x); break;
      case LAND: e = vs ? (x && s) : (s && x); break;
      case LOR: e = vs ? (x || s) : (s || x); break;
    }
    if (RawT<M>::at(r, k) != e)
      laneMismatch(res, k, (bool)RawT<M>::at(r, k), e, std::string("the scalar expression with the ") + Cod<U>::name() + " operand in its own type");
  }
  return res;
}

template <class V> Result execMixedU(const std::vector<std::string>& w) {
  const std::string& U = w.at(6);
  if (U == "f64") return execMixed<V, double>(w);
  if (U == "f32") return execMixed<V, float>(w);
  if (U == "i32") return execMixed<V, int>(w);
  if (U == "i64") return execMixed<V, long>(w);
  if (U == "u32") return execMixed<V, unsigned>(w);
  if (U == "i16") return execMixed<V, short>(w);
  if (U == "b") return execMixed<V, bool>(w);
  Result r; r.impl = "bad-op"; r.oracle = "ok trivial"; return r;
}

static Result execMixedT(const std::vector<std::string>& w) {
  if (w.size() != 8) { Result r; r.impl = "bad-op"; r.oracle = "ok trivial"; return r; }
  const std::string key = w[1] + ":" + w[2];
  if (key == "f64:4") return execMixedU<LoopSIMD<double, 4>>(w);
  if (key == "f32:4") return execMixedU<LoopSIMD<float, 4>>(w);
  if (key == "i32:4") return execMixedU<LoopSIMD<int, 4>>(w);
  if (key == "i64:4") return execMixedU<LoopSIMD<long, 4>>(w);
  if (key == "u32:4") return execMixedU<LoopSIMD<unsigned, 4>>(w);
  if (key == "i16:4") return execMixedU<LoopSIMD<short, 4>>(w);
  if (key == "b:4") return execMixedU<LoopSIMD<bool, 4>>(w);
  if (key == "f64:2x2") return execMixedU<LoopSIMD<LoopSIMD<double, 2>, 2>>(w);
  if (key == "i32:2x2") return execMixedU<LoopSIMD<LoopSIMD<int, 2>, 2>>(w);
  Result r; r.impl = "bad-op"; r.oracle = "ok trivial"; return r;
}

// ------------------------------------------------------------------------------------------------
// The functions of the abstraction layer that are generic in the type of an operand, called with an operand of ANOTHER
// type than the vector's own mask / scalar / type:
//   layx condm <T> <flat|nest|al64> <[mask]> <[a]> <[b]>   Simd::cond with a mask of a type that is not Mask<V>:
//        flat: V = LoopSIMD<LoopSIMD<T,2>,2>, mask = LoopSIMD<bool,4>;  nest: V = LoopSIMD<T,4>, mask = LoopSIMD<LoopSIMD<bool,2>,2>;
//        al64: V = LoopSIMD<T,4>, mask = LoopSIMD<bool,4,64>  (interface.hh converts with implCast<Mask<V>>: lane l stays lane l)
//   layx maskor|maskand <T1> <T2> <[a]> <[b]>               V1 = LoopSIMD<T1,4>, V2 = LoopSIMD<T2,4>
//   layx bcast <T> <U> <s>                                  Simd::broadcast<LoopSIMD<T,4>>(U s): every lane is T(s)
// ------------------------------------------------------------------------------------------------
template <class V, class MV>
Result execCondM(const std::vector<std::string>& w) {
  using T = ScalarOf<V>;
  constexpr std::size_t n = RawT<V>::n;
  static_assert(RawT<MV>::n == n);
  const MV m = parseVec<MV>(w.at(4));
  const V a = parseVec<V>(w.at(5)), b = parseVec<V>(w.at(6));
  const V r = Simd::cond(m, a, b);
  Result res;
  res.impl = showVec(r);
  for (std::size_t k = 0; k < n; ++k) {
    const T e = RawT<MV>::at(m, k) ? RawT<V>::at(a, k) : RawT<V>::at(b, k);
    if (!Cod<T>::same(RawT<V>::at(r, k), e)) { laneMismatch(res, k, RawT<V>::at(r, k), e, "mask ? a : b with the mask's lane of the same number"); break; }
  }
  return res;
}
template <class T> Result execCondMT(const std::vector<std::string>& w) {
  const std::string& how = w.at(3);
  if (how == "flat") return execCondM<LoopSIMD<LoopSIMD<T, 2>, 2>, LoopSIMD<bool, 4>>(w);
  if (how == "nest") return execCondM<LoopSIMD<T, 4>, LoopSIMD<LoopSIMD<bool, 2>, 2>>(w);
  if (how == "al64") return execCondM<LoopSIMD<T, 4>, LoopSIMD<bool, 4, 64>>(w);
  Result r; r.impl = "bad-op"; r.oracle = "ok trivial"; return r;
}
template <class T1, class T2>
Result execMaskX(const std::vector<std::string>& w) {
  using V1 = LoopSIMD<T1, 4>;
  using V2 = LoopSIMD<T2, 4>;
  const bool isOr = w.at(1) == "maskor";
  const V1 a = parseVec<V1>(w.at(4));
  const V2 b = parseVec<V2>(w.at(5));
  const LoopSIMD<bool, 4> r = isOr ? Simd::maskOr(a, b) : Simd::maskAnd(a, b);
  Result res;
  res.impl = showVec(r);
  for (std::size_t k = 0; k < 4; ++k) {
    const bool x = RawT<V1>::at(a, k) != T1(0), y = RawT<V2>::at(b, k) != T2(0);
    const bool e = isOr ? (x || y) : (x && y);
    if (RawT<LoopSIMD<bool, 4>>::at(r, k) != e) { laneMismatch(res, k, (bool)RawT<LoopSIMD<bool, 4>>::at(r, k), e, "(a != 0) OP (b != 0)"); break; }
  }
  return res;
}
template <class T1> Result execMaskXT(const std::vector<std::string>& w) {
  const std::string& t2 = w.at(3);
  if (t2 == "f64") return execMaskX<T1, double>(w);
  if (t2 == "i32") return execMaskX<T1, int>(w);
  if (t2 == "b") return execMaskX<T1, bool>(w);
  Result r; r.impl = "bad-op"; r.oracle = "ok trivial"; return r;
}
template <class T, class U>
Result execBcastX(const std::vector<std::string>& w) {
  using V = LoopSIMD<T, 4>;
  const U s = Cod<U>::parse(w.at(4));
  if constexpr (std::is_floating_point_v<U> && std::is_integral_v<T> && !std::is_same_v<T, bool>) {
    // a floating-point value outside the range of T has no defined conversion
    if (!(s == s) || std::trunc((long double)s) < (long double)std::numeric_limits<T>::min() || std::trunc((long double)s) > (long double)std::numeric_limits<T>::max())
      return invalidInput();
  }
  const V r = Simd::broadcast<V>(s);
  Result res;
  res.impl = showVec(r);
  const T e = static_cast<T>(s);
  for (std::size_t k = 0; k < 4; ++k)
    if (!Cod<T>::same(RawT<V>::at(r, k), e)) { laneMismatch(res, k, RawT<V>::at(r, k), e, "the scalar converted to the lanes' type"); break; }
  return res;
}
template <class T> Result execBcastXT(const std::vector<std::string>& w) {
  const std::string& u = w.at(3);
  if (u == "f64") return execBcastX<T, double>(w);
  if (u == "f32") return execBcastX<T, float>(w);
  if (u == "i32") return execBcastX<T, int>(w);
  if (u == "i64") return execBcastX<T, long>(w);
  if (u == "u32") return execBcastX<T, unsigned>(w);
  if (u == "b") return execBcastX<T, bool>(w);
  Result r; r.impl = "bad-op"; r.oracle = "ok trivial"; return r;
}
static Result execLayX(const std::vector<std::string>& w) {
  Result bad; bad.impl = "bad-op"; bad.oracle = "ok trivial";
  if (w.size() < 5) return bad;
  const std::string &what = w[1], &t = w[2];
  if (what == "condm" && w.size() == 7) {
    if (t == "f64") return execCondMT<double>(w);
    if (t == "i32") return execCondMT<int>(w);
    return bad;
  }
  if ((what == "maskor" || what == "maskand") && w.size() == 6) {
    if (t == "f64") return execMaskXT<double>(w);
    if (t == "i32") return execMaskXT<int>(w);
    if (t == "b") return execMaskXT<bool>(w);
    return bad;
  }
  if (what == "bcast" && w.size() == 5) {
    if (t == "f64") return execBcastXT<double>(w);
    if (t == "f32") return execBcastXT<float>(w);
    if (t == "i32") return execBcastXT<int>(w);
    if (t == "i16") return execBcastXT<short>(w);
    if (t == "u32") return execBcastXT<unsigned>(w);
    if (t == "b") return execBcastXT<bool>(w);
    return bad;
  }
  return bad;
}

// ------------------------------------------------------------------------------------------------
// dispatch
// ------------------------------------------------------------------------------------------------
using ExecFn = Result (*)(const std::vector<std::string>&);
static const std::map<std::string, ExecFn>& vecTable() {
  static const std::map<std::string, ExecFn> t = {
#define DV_FLAT(T, name) \
      {name ":1", &execVec<LoopSIMD<T, 1>>}, {name ":2", &execVec<LoopSIMD<T, 2>>}, \
      {name ":4", &execVec<LoopSIMD<T, 4>>}, {name ":8", &execVec<LoopSIMD<T, 8>>},
      DV_FLAT(double, "f64") DV_FLAT(float, "f32") DV_FLAT(int, "i32") DV_FLAT(long, "i64") DV_FLAT(bool, "b")
#undef DV_FLAT
      {"f64:3", &execVec<LoopSIMD<double, 3>>}, {"i32:3", &execVec<LoopSIMD<int, 3>>}, {"b:3", &execVec<LoopSIMD<bool, 3>>},
      {"u32:2", &execVec<LoopSIMD<unsigned, 2>>}, {"u32:4", &execVec<LoopSIMD<unsigned, 4>>}, {"u32:8", &execVec<LoopSIMD<unsigned, 8>>},
      {"i16:2", &execVec<LoopSIMD<short, 2>>}, {"i16:4", &execVec<LoopSIMD<short, 4>>},
#define DV_NEST(T, name) \
      {name ":2x2", &execVec<LoopSIMD<LoopSIMD<T, 2>, 2>>}, {name ":4x2", &execVec<LoopSIMD<LoopSIMD<T, 2>, 4>>}, \
      {name ":2x4", &execVec<LoopSIMD<LoopSIMD<T, 4>, 2>>},
      DV_NEST(double, "f64") DV_NEST(int, "i32") DV_NEST(bool, "b")
#undef DV_NEST
  };
  return t;
}

static Result exec(const std::string& line) {
  auto w = words(line);
  Result res;
  if (w.empty()) { res.impl = "bad-op"; res.oracle = "ok trivial"; return res; }
  const std::string& kind = w[0];
  stat("kind_" + kind);
  if (kind == "mat") {
    // mat <what> <shape> <n> <piv> <A> [<b|B>]      shape: 1 2 3 4 8 (double), 2x2 (nested double), f4 (float)
    MatArgs m;
    m.what = w.at(1);
    const std::string& shape = w.at(2);
    m.n = std::stoi(w.at(3));
    m.piv = w.at(4) == "1";
    m.ta = listToks(w.at(5));
    if (w.size() > 6) m.tb = listToks(w[6]);
    stat("mat_" + m.what);
    stat("mat_n" + std::to_string(m.n));
    stat("mat_S" + shape);
    Result r = execMatShape(shape, m);
    if (r.impl == "ERR:FMatrix") stat("mat_singular_reported");
    return r;
  }
  if (kind == "matc") {
    // matc <solve|inv> <shape> <n> <piv> <limit> <A> [<b>]: the configuration DUNE_FMatrix_WITH_CHECKING (second translation unit)
    if (w.size() > 3) { stat("matc_" + w[1]); stat("matc_S" + w[2]); stat("matc_n" + w[3]); }
    Result r;
    c09_checked_exec(w, r.impl, r.oracle);
    if (r.impl == "ERR:FMatrix") stat("matc_singular_reported");
    return r;
  }
  if (kind == "dmat") {
    // dmat <what> <shape> <n> <piv> <A> [<b>]   DynamicMatrix<LoopSIMD<double,S>>, S in {2,4}, n = 1..8
    const std::string& what = w.at(1);
    const std::string& shape = w.at(2);
    const int n = std::stoi(w.at(3));
    const bool piv = w.at(4) == "1";
    auto ta = listToks(w.at(5));
    std::vector<std::string> tb;
    if (w.size() > 6) tb = listToks(w[6]);
    if (n < 1 || n > 8) return badOp();
    stat("dmat_" + what);
    stat("dmat_n" + std::to_string(n));
    Result r = shape == "2" ? execDMat<LoopSIMD<double, 2>>(what, n, piv, ta, tb) : shape == "4" ? execDMat<LoopSIMD<double, 4>>(what, n, piv, ta, tb) : badOp();
    if (r.impl == "ERR:FMatrix") stat("mat_singular_reported");
    return r;
  }
  if (kind == "rect") {
    // rect <what> <shape> <r> <c> <A> [<x> <y> <alpha>]
    RectArgs m;
    m.what = w.at(1);
    const std::string& shape = w.at(2);
    m.r = std::stoi(w.at(3));
    m.c = std::stoi(w.at(4));
    m.ta = listToks(w.at(5));
    if (w.size() > 8) { m.tx = listToks(w[6]); m.ty = listToks(w[7]); m.talpha = listToks(w[8]); }
    stat("rect_" + m.what);
    stat("rect_" + std::to_string(m.r) + "x" + std::to_string(m.c));
    stat("rect_S" + shape);
    return execRectShape(shape, m);
  }
  if (kind == "vec") {
    // vec <what> <shape> <n> <v> [<w> [<alpha>]]
    FVecArgs m;
    m.what = w.at(1);
    const std::string& shape = w.at(2);
    m.n = std::stoi(w.at(3));
    m.tv = listToks(w.at(4));
    if (w.size() > 5) m.tw = listToks(w[5]);
    if (w.size() > 6) m.talpha = listToks(w[6]);
    stat("vec_" + m.what);
    stat("vec_S" + shape);
    return execFVecShape(shape, m);
  }
  if (kind == "mini") {
    // mini <what> <T> <S> args
    const std::string key = w.at(2) + ":" + w.at(3);
    stat("mini_" + w.at(1));
    if (key == "b:3") return execMini<bool, 3>(w);
    if (key == "b:4") return execMini<bool, 4>(w);
    if (key == "i32:3") return execMini<int, 3>(w);
    if (key == "f64:4") return execMini<double, 4>(w);
    return badOp();
  }
  if (kind == "cplx") {
    stat("cplx_" + w.at(1));
    if (w.at(2) == "2") return execCplx<2>(w);
    if (w.at(2) == "4") return execCplx<4>(w);
    return badOp();
  }
  if (kind == "binx") {
    stat("binx_" + w.at(1) + "_" + (w.size() > 6 ? w[6] : std::string("?")));
    if (w.size() > 4) stat("binx_" + w[3] + "_" + w[4]);
    Result r = execMixedT(w);
    if (r.impl == "invalid") stat("skipped_invalid_int_operands");
    if (r.impl == "ERR:NoSuchOp") stat("skipped_no_such_op");
    return r;
  }
  if (kind == "layx") {
    if (w.size() > 1) stat("layx_" + w[1]);
    Result r = execLayX(w);
    if (r.impl == "invalid") stat("skipped_invalid_int_operands");
    return r;
  }
  if (kind == "realign") return execRealign(w);
  if (kind == "shiftmix") { Result r = execShiftMix(w); if (r.impl == "invalid") stat("skipped_invalid_int_operands"); return r; }
  if (kind == "reds") {
    // reductions of the scalar bool "vector" (standard.hh)
    const std::string& what = w.at(1);
    bool m = w.at(2) == "1";
    bool r, e;
    if (what == "anyTrue") { r = Simd::anyTrue(m); e = m; }
    else if (what == "allTrue") { r = Simd::allTrue(m); e = m; }
    else if (what == "anyFalse") { r = Simd::anyFalse(m); e = !m; }
    else if (what == "allFalse") { r = Simd::allFalse(m); e = !m; }
    else return noSuchOp();
    res.impl = Cod<bool>::show(r);
    if (r != e) res.oracle = "FAIL scalar " + what;
    return res;
  }
  if (kind == "slane") {
    // the scalar double as a one-lane vector (standard.hh): lane(0, x), lanes, cond, broadcast
    double x = Cod<double>::parse(w.at(1)), y = Cod<double>::parse(w.at(2));
    bool m = w.at(3) == "1";
    static_assert(Simd::lanes<double>() == 1 && std::is_same_v<Simd::Scalar<double>, double> && std::is_same_v<Simd::Mask<double>, bool>
                  && std::is_same_v<Simd::Rebind<int, double>, int>, "standard.hh traits");
    double l0 = Simd::lane(0, x);
    double c = Simd::cond(m, x, y);
    double bc = Simd::broadcast<double>(x);
    double mx = Simd::max(x, y), hm = Simd::max(x);
    res.impl = Cod<double>::show(l0) + " " + Cod<double>::show(c) + " " + Cod<double>::show(bc) + " " + Cod<double>::show(mx) + " " + Cod<double>::show(hm);
    if (!Cod<double>::same(l0, x) || !Cod<double>::same(c, m ? x : y) || !Cod<double>::same(bc, x) || !Cod<double>::same(mx, std::max(x, y)) || !Cod<double>::same(hm, x))
      res.oracle = "FAIL scalar as one-lane vector";
    return res;
  }
  if (w.size() < 3) { res.impl = "bad-op"; res.oracle = "ok trivial"; return res; }
  auto it = vecTable().find(w[1] + ":" + w[2]);
  if (it == vecTable().end()) { res.impl = "bad-op"; res.oracle = "ok trivial"; return res; }
  stat("type_" + w[1]);
  stat("shape_" + w[2]);
  if (kind == "bin" || kind == "asg") stat("op_" + kind + "_" + w.at(3) + "_" + w.at(4));
  else if (kind == "un" || kind == "math") stat("op_" + kind + "_" + w.at(3));
  const bool special = (kind == "bin" && (w.at(4) == "max" || w.at(4) == "min" || w.at(4) == "maskor" || w.at(4) == "maskand"))
                       || (kind == "un" && (w.at(3) == "mask" || w.at(3) == "isNaN" || w.at(3) == "isInf" || w.at(3) == "isFinite"));
  const bool opKind = kind == "bin" || kind == "asg" || kind == "un" || kind == "math";
  Result r = (opKind && !special) ? execOpsT(w) : it->second(w);
  if (r.impl == "invalid") stat("skipped_invalid_int_operands");
  if (r.impl == "ERR:NoSuchOp") stat("skipped_no_such_op");
  return r;
}

// ------------------------------------------------------------------------------------------------
// generator
// ------------------------------------------------------------------------------------------------
static std::string hex64(uint64_t b) { char buf[32]; std::snprintf(buf, sizeof buf, "x%016llx", (unsigned long long)b); return buf; }
static std::string hex32(uint32_t b) { char buf[32]; std::snprintf(buf, sizeof buf, "x%08x", b); return buf; }
static std::string tokD(double x) { return Cod<double>::show(x); }
static std::string tokF(float x) { return Cod<float>::show(x); }

static std::string genScalar(Rng& rng, const std::string& T, int flavour) {
  // flavour 0: anything; 1: small (safe for arithmetic); 2: shift counts
  if (T == "b") return rng.coin() ? "1" : "0";
  if (T == "u32") {
    if (flavour == 2) return std::to_string(rng.coin(1, 8) ? rng.range(30, 34) : rng.range(0, 31));
    if (rng.coin(1, 2)) { static const std::vector<long> small = {0, 1, 2, 3, 7, 10, 255, 256, 65535, 65536}; return std::to_string(rng.coin() ? rng.pick(small) : rng.range(0, 50)); }
    switch (rng.below(5)) {
      case 0: return "4294967295";
      case 1: return "4294967294";
      case 2: return "2147483648";
      case 3: return "2147483647";
      default: return std::to_string((unsigned)rng.next());
    }
  }
  if (T == "i16") {
    if (flavour == 2) return std::to_string(rng.coin(1, 8) ? rng.range(-1, 33) : rng.range(0, 31));
    if (flavour == 1) return std::to_string(rng.coin() ? rng.range(0, 50) : rng.range(0, 32767));
    if (rng.coin(1, 2)) return std::to_string(rng.range(-50, 50));
    switch (rng.below(5)) {
      case 0: return "32767";
      case 1: return "-32768";
      case 2: return "-32767";
      case 3: return "16384";
      default: return std::to_string((short)rng.next());
    }
  }
  if (T == "i32" || T == "i64") {
    const bool is32 = T == "i32";
    if (flavour == 2) return std::to_string(rng.coin(1, 8) ? rng.range(-1, is32 ? 33 : 65) : rng.range(0, is32 ? 31 : 63));
    if (flavour == 1 || rng.coin(2, 3)) {
      static const std::vector<long> small = {0, 1, -1, 2, -2, 3, 7, -8, 10, 255, 256, -255, 1000, 32767, -32768, 65535, 65536};
      return std::to_string(rng.coin() ? rng.pick(small) : rng.range(-50, 50));
    }
    long lo = is32 ? (long)std::numeric_limits<int>::min() : std::numeric_limits<long>::min();
    long hi = is32 ? (long)std::numeric_limits<int>::max() : std::numeric_limits<long>::max();
    switch (rng.below(7)) {
      case 0: return std::to_string(lo);
      case 1: return std::to_string(hi);
      case 2: return std::to_string(lo + 1);
      case 3: return std::to_string(hi - 1);
      case 4: return std::to_string(hi / 2 + (long)rng.range(-2, 2));
      default: {
        long x = (long)rng.next();
        if (is32) x = (int)x;
        return std::to_string(x);
      }
    }
  }
  if (T == "f64") {
    if (flavour == 1 || rng.coin(1, 3)) return std::to_string(rng.range(-9, 9));
    static const std::vector<uint64_t> sp = {
        0x0000000000000000ull, 0x8000000000000000ull, 0x3ff0000000000000ull, 0xbff0000000000000ull, 0x7ff0000000000000ull,
        0xfff0000000000000ull, 0x7ff8000000000000ull, 0x7fefffffffffffffull, 0xffefffffffffffffull, 0x0010000000000000ull,
        0x0000000000000001ull, 0x8000000000000001ull, 0x3cb0000000000000ull, 0x3ff0000000000001ull, 0x3fe0000000000000ull,
        0x4000000000000000ull, 0x3fd5555555555555ull, 0x4340000000000000ull, 0x400921fb54442d18ull, 0x7fe0000000000000ull};
    if (rng.coin(2, 3)) return hex64(rng.pick(sp));
    uint64_t b = rng.next();
    double x; std::memcpy(&x, &b, 8);
    if (x != x) return "x7ff8000000000000";
    return hex64(b);
  }
  if (T == "f32") {
    if (flavour == 1 || rng.coin(1, 3)) return std::to_string(rng.range(-9, 9));
    static const std::vector<uint32_t> sp = {0x00000000u, 0x80000000u, 0x3f800000u, 0xbf800000u, 0x7f800000u, 0xff800000u, 0x7fc00000u,
                                              0x7f7fffffu, 0xff7fffffu, 0x00800000u, 0x00000001u, 0x80000001u, 0x34000000u, 0x3f800001u,
                                              0x3f000000u, 0x40000000u, 0x3eaaaaabu, 0x4b800000u, 0x40490fdbu};
    if (rng.coin(2, 3)) return hex32(rng.pick(sp));
    uint32_t b = (uint32_t)rng.next();
    float x; std::memcpy(&x, &b, 4);
    if (x != x) return "x7fc00000";
    return hex32(b);
  }
  return "0";
}

static std::size_t shapeLanes(const std::string& shape) {
  auto p = shape.find('x');
  if (p == std::string::npos) return std::stoul(shape);
  return std::stoul(shape.substr(0, p)) * std::stoul(shape.substr(p + 1));
}

static std::string genVec(Rng& rng, const std::string& T, std::size_t n, int flavour) {
  std::vector<std::string> v(n);
  int mode = (int)rng.below(6);  // 0..3 independent lanes, 4 all equal, 5 one lane differs
  std::string base = genScalar(rng, T, flavour);
  for (std::size_t k = 0; k < n; ++k) v[k] = mode >= 4 ? base : genScalar(rng, T, flavour);
  if (mode == 5) v[rng.below(n)] = genScalar(rng, T, flavour);
  return listStr(v);
}

// --- matrices -----------------------------------------------------------------------------------
static void genLaneMatrix(Rng& rng, int n, std::vector<double>& m, std::string& recipe) {
  m.assign(n * n, 0.0);
  auto rnd = [&](long lo, long hi) { return (double)rng.range(lo, hi); };
  int r = (int)rng.below(12);
  auto fillRandom = [&](long lo, long hi) { for (auto& x : m) x = rnd(lo, hi); };
  switch (r) {
    case 0: case 1: case 2: recipe = "random"; fillRandom(-9, 9); break;
    case 3: {  // scaled permutation: forces a particular pivot row in every step
      recipe = "perm";
      std::vector<int> p(n);
      for (int i = 0; i < n; ++i) p[i] = i;
      for (int i = n - 1; i > 0; --i) std::swap(p[i], p[rng.below(i + 1)]);
      for (int i = 0; i < n; ++i) m[i * n + p[i]] = rnd(1, 9) * (rng.coin() ? 1 : -1);
      if (rng.coin()) for (auto& x : m) if (x == 0 && rng.coin(1, 3)) x = rng.coin() ? 0.5 : -0.25;
      break;
    }
    case 4: recipe = "zero-first-column"; fillRandom(-9, 9); for (int i = 0; i < n; ++i) m[i * n] = 0; break;
    case 5: {  // duplicate rows: singular, discovered late
      recipe = "duplicate-rows"; fillRandom(-9, 9);
      if (n >= 2) { int a = (int)rng.below(n), b = (int)rng.below(n); if (a == b) b = (a + 1) % n; for (int j = 0; j < n; ++j) m[b * n + j] = m[a * n + j]; }
      else m[0] = 0;
      break;
    }
    case 6: {  // zero column somewhere
      recipe = "zero-column"; fillRandom(-9, 9);
      int c = (int)rng.below(n);
      for (int i = 0; i < n; ++i) m[i * n + c] = 0;
      break;
    }
    case 7: recipe = "zero"; break;
    case 8: {  // ties in the pivot column, zeros on the diagonal
      recipe = "ties"; for (auto& x : m) x = (double)(rng.range(-1, 1) * 4);
      for (int i = 0; i < n; ++i) if (rng.coin()) m[i * n + i] = 0;
      break;
    }
    case 9: {  // powers of two, wide range
      recipe = "pow2"; for (auto& x : m) x = rng.coin(1, 4) ? 0.0 : std::ldexp(rng.coin() ? 1.0 : -1.0, (int)rng.range(-20, 20));
      break;
    }
    case 10: {  // row = sum of two others (rank deficiency seen only after elimination)
      recipe = "dependent-row"; fillRandom(-5, 5);
      if (n >= 3) { int a = 0, b = 1, c = 2 + (int)rng.below(n - 2); for (int j = 0; j < n; ++j) m[c * n + j] = m[a * n + j] + m[b * n + j]; }
      else for (int j = 0; j < n; ++j) m[(n - 1) * n + j] = m[j] * 2;
      break;
    }
    default: recipe = "identityish"; for (int i = 0; i < n; ++i) m[i * n + i] = rnd(1, 3); if (rng.coin()) m[rng.below(n * n)] = rnd(-9, 9); break;
  }
}

static std::size_t shapeLanesM(const std::string& shape) { return shape == "f4" ? 4 : shapeLanes(shape); }
static std::string tokNum(double x) {
  return (x == std::floor(x) && std::fabs(x) < 1e15 && !(x == 0 && std::signbit(x))) ? std::to_string((long long)x) : tokD(x);
}
// small-integer SIMD values (exact in float and double), occasionally a special value
static std::string genSmallLanes(Rng& rng, std::size_t count) {
  std::vector<std::string> t;
  for (std::size_t i = 0; i < count; ++i) t.push_back(std::to_string(rng.range(-9, 9)));
  return listStr(t);
}

static std::string genMat(Rng& rng, const Args& a) {
  static const std::vector<std::string> whats = {"det", "det", "det", "solve", "solve", "inv", "inv", "mv", "mm", "lmm", "fnorm2", "infnorm"};
  std::string what = rng.pick(whats);
  static const std::vector<std::string> shapes = {"1", "2", "2", "3", "4", "4", "8", "2x2", "2x2", "f4"};
  const std::string shape = rng.pick(shapes);
  const int S = (int)shapeLanesM(shape);
  std::vector<int> sizes = matTable().at(shape);
  // DynamicMatrix instead of FieldMatrix (run-time sizes 1..8)
  const bool dyn = (shape == "2" || shape == "4") && what != "mm" && what != "lmm" && rng.coin(1, 6);
  if (dyn) sizes = {1, 2, 3, 4, 5, 6, 7, 8};
  int n = rng.pick(sizes);
  if ((what == "det" || what == "solve" || what == "inv") && rng.coin(2, 3)) {  // prefer the LU path
    std::vector<int> big;
    for (int k : sizes) if (k >= 4) big.push_back(k);
    if (!big.empty()) n = rng.pick(big);
  }
  bool piv = !rng.coin(1, 5);
  std::vector<std::vector<double>> lanes(S);
  // lane mix: independent recipes; often force "some lanes singular, some regular"
  for (int l = 0; l < S; ++l) { std::string rec; genLaneMatrix(rng, n, lanes[l], rec); stat("recipe_" + rec); }
  if (S > 1 && rng.coin(1, 4)) {  // all lanes the same matrix except one
    for (int l = 1; l < S; ++l) lanes[l] = lanes[0];
    std::string rec; genLaneMatrix(rng, n, lanes[rng.below(S)], rec);
  }
  if (rng.coin(1, 25) && shape != "f4") {  // a non-finite entry in one lane
    static const std::vector<double> nf = {INFINITY, -INFINITY, NAN, 1e308, -1e308, 5e-324};
    lanes[rng.below(S)][rng.below(n * n)] = rng.pick(nf);
    stat("matrix_with_nonfinite_entry");
  }
  if (shape == "f4") for (auto& L : lanes) for (auto& x : L) x = (double)(float)x;  // entries are floats
  std::vector<std::string> ta;
  for (int i = 0; i < n; ++i) for (int j = 0; j < n; ++j) for (int l = 0; l < S; ++l) {
    double x = lanes[l][i * n + j];
    ta.push_back(shape == "f4" ? ((x == std::floor(x) && std::fabs(x) < 1e6 && !(x == 0 && std::signbit(x))) ? std::to_string((long long)x) : tokF((float)x)) : tokNum(x));
  }
  if (shape == "f4" && rng.coin(1, 25)) {  // a non-finite / extreme float entry in one lane
    static const std::vector<std::string> nf = {"x7f800000", "xff800000", "x7fc00000", "x7f7fffff", "x00000001", "x80000000"};
    ta[rng.below(ta.size())] = rng.pick(nf);
    stat("matrix_with_nonfinite_entry");
  }
  std::string line = "mat " + what + " " + shape + " " + std::to_string(n) + " " + (piv ? "1" : "0") + " " + listStr(ta);
  if (dyn) line = "d" + line;
  if (what == "solve" || what == "mv") line += " " + genSmallLanes(rng, (std::size_t)n * S);
  else if (what == "mm" || what == "lmm") line += " " + genSmallLanes(rng, (std::size_t)n * n * S);
  (void)a;
  return line;
}

// the checked configuration: closed forms n <= 3 (and one LU size), per-lane recipes with many singular lanes, a threshold
static std::string genMatC(Rng& rng) {
  const std::string what = rng.coin(3, 5) ? "solve" : "inv";
  static const std::vector<std::string> shapes = {"2", "4", "4", "2x2", "f4", "d4"};
  const std::string shape = rng.pick(shapes);
  const int S = shape == "2" ? 2 : 4;
  std::vector<int> sizes = shape == "2x2" ? std::vector<int>{2, 3} : (shape == "4" || shape == "d4") ? std::vector<int>{1, 2, 3, 3, 4} : std::vector<int>{1, 2, 3, 3};
  const int n = rng.pick(sizes);
  const bool piv = !rng.coin(1, 5);
  // absolute_limit(): the default 1e-80 (only exact zeros and denormal-sized determinants are "singular"), or a threshold in
  // the range of the integer determinants (lanes on either side of it)
  static const std::vector<double> limits = {1e-80, 1e-80, 1e-80, 0.5, 1.0, 2.5, 1e-6, 8.0};
  const double limit = rng.pick(limits);
  std::vector<std::vector<double>> lanes(S);
  for (int l = 0; l < S; ++l) { std::string rec; genLaneMatrix(rng, n, lanes[l], rec); stat("recipe_" + rec); }
  switch (rng.below(4)) {
    case 0: {  // all lanes the same matrix except one: exactly one lane on the other side of the test
      for (int l = 1; l < S; ++l) lanes[l] = lanes[0];
      std::string rec; genLaneMatrix(rng, n, lanes[rng.below(S)], rec);
      break;
    }
    case 1: {  // one lane exactly singular
      auto& L = lanes[rng.below(S)];
      if (n == 1) L[0] = 0; else { int a = (int)rng.below(n), b = (a + 1 + (int)rng.below(n - 1)) % n; for (int j = 0; j < n; ++j) L[b * n + j] = L[a * n + j] * 2; }
      break;
    }
    default: break;
  }
  const bool f32 = shape == "f4";
  if (f32) for (auto& L : lanes) for (auto& x : L) x = (double)(float)x;
  std::vector<std::string> ta;
  for (int i = 0; i < n; ++i) for (int j = 0; j < n; ++j) for (int l = 0; l < S; ++l) {
    const double x = lanes[l][i * n + j];
    ta.push_back(f32 ? ((x == std::floor(x) && std::fabs(x) < 1e6 && !(x == 0 && std::signbit(x))) ? std::to_string((long long)x) : tokF((float)x)) : tokNum(x));
  }
  std::string line = "matc " + what + " " + shape + " " + std::to_string(n) + " " + (piv ? "1" : "0") + " " + tokNum(limit) + " " + listStr(ta);
  if (what == "solve") line += " " + genSmallLanes(rng, (std::size_t)n * S);
  return line;
}

// one lane value for the product / norm cases: mostly small integers, sometimes +-0, inf, NaN, huge, tiny
static std::string genEntry(Rng& rng, bool f32) {
  if (!rng.coin(1, 12)) return std::to_string(rng.range(-9, 9));
  if (f32) { static const std::vector<std::string> sp = {"x80000000", "x7f800000", "xff800000", "x7fc00000", "x7f7fffff", "x00000001", "x3f000000", "x3eaaaaab"}; return rng.pick(sp); }
  static const std::vector<std::string> sp = {"x8000000000000000", "x7ff0000000000000", "xfff0000000000000", "x7ff8000000000000", "x7fefffffffffffff",
                                              "x0000000000000001", "x3fe0000000000000", "x3fd5555555555555", "x3cb0000000000000"};
  return rng.pick(sp);
}
static std::string genEntries(Rng& rng, std::size_t count, bool f32) {
  std::vector<std::string> t;
  for (std::size_t i = 0; i < count; ++i) t.push_back(genEntry(rng, f32));
  return listStr(t);
}

// (round 4) per-lane degenerate recipe: in ONE lane `dl` the matrix entries are mostly zeros (+0 / -0), the vector entries often
// non-finite or -0 and the factor is a zero, while the other lanes carry ordinary data -- a decision taken once for all lanes (a quick
// return, a skipped term, a reduction in front of lane-wise work) then shows in this lane only.  kind 0: matrix, 1: vector, 2: factor
static std::string genEntriesLane(Rng& rng, std::size_t count, std::size_t S, bool f32, int dl, int kind) {
  const std::string negZero = f32 ? "x80000000" : "x8000000000000000";
  const std::vector<std::string> nonFinite = f32 ? std::vector<std::string>{"x80000000", "x7f800000", "xff800000", "x7fc00000"}
                                                 : std::vector<std::string>{"x8000000000000000", "x7ff0000000000000", "xfff0000000000000", "x7ff8000000000000"};
  std::vector<std::string> t;
  for (std::size_t i = 0; i < count; ++i) {
    if (dl >= 0 && static_cast<int>(i % S) == dl) {
      if (kind == 0 && rng.coin(1, 2)) { t.push_back(rng.coin(1, 2) ? "0" : negZero); continue; }
      if (kind == 1 && rng.coin(1, 3)) { t.push_back(rng.pick(nonFinite)); continue; }
      if (kind == 2 && rng.coin(2, 3)) { t.push_back(rng.coin(2, 3) ? "0" : negZero); continue; }
    }
    t.push_back(genEntry(rng, f32));
  }
  return listStr(t);
}

static std::string genRect(Rng& rng) {
  static const std::vector<std::string> whats = {"mv", "mtv", "umv", "umtv", "mmv", "mmtv", "usmv", "usmtv", "umhv", "mmhv", "usmhv", "fnorm2", "fnorm", "infnorm", "infnormr",
                                                 "madd", "msub", "mscale", "mdiv", "mneg", "maxpy"};
  const std::string what = rng.pick(whats);
  const std::string shape = rng.pick(rectShapes());
  const std::size_t S = shapeLanesM(shape);
  const bool f32 = shape == "f4";
  auto rc = rng.pick(rectSizes());
  const int dl = rng.coin(1, 3) ? static_cast<int>(rng.range(0, static_cast<long>(S) - 1)) : -1;   // the degenerate lane, if any
  if (dl >= 0) dv::stat("rect_degenerate_lane");
  std::string line = "rect " + what + " " + shape + " " + std::to_string(rc.first) + " " + std::to_string(rc.second) + " " + genEntriesLane(rng, rc.first * rc.second * S, S, f32, dl, 0);
  if (what.find("norm") != std::string::npos) return line;
  if (what == "madd" || what == "msub" || what == "mscale" || what == "mdiv" || what == "mneg" || what == "maxpy")
    return line + " " + genEntriesLane(rng, rc.first * rc.second * S, S, f32, dl, 1) + " [] " + genEntriesLane(rng, S, S, f32, dl, 2);
  const bool transposed = what == "mtv" || what == "umtv" || what == "mmtv" || what == "usmtv" || what == "umhv" || what == "mmhv" || what == "usmhv";
  const int nx = transposed ? rc.first : rc.second, ny = transposed ? rc.second : rc.first;
  return line + " " + genEntriesLane(rng, nx * S, S, f32, dl, 1) + " " + genEntriesLane(rng, ny * S, S, f32, dl, 1) + " " + genEntriesLane(rng, S, S, f32, dl, 2);
}

static std::string genFVec(Rng& rng) {
  static const std::vector<std::string> whats = {"one", "oner", "two2", "two", "inf", "infr", "dot", "axpy"};
  const std::string what = rng.pick(whats);
  const std::string shape = rng.pick(rectShapes());
  const std::size_t S = shapeLanesM(shape);
  const bool f32 = shape == "f4";
  const int n = rng.pick(fvecSizes());
  const int dl = rng.coin(1, 3) ? static_cast<int>(rng.range(0, static_cast<long>(S) - 1)) : -1;   // the degenerate lane, if any
  std::string line = "vec " + what + " " + shape + " " + std::to_string(n) + " " + genEntriesLane(rng, n * S, S, f32, dl, 1);
  if (what == "dot" || what == "axpy") line += " " + genEntriesLane(rng, n * S, S, f32, dl, 0);
  if (what == "axpy") line += " " + genEntriesLane(rng, S, S, f32, dl, 2);
  return line;
}

static std::string genMini(Rng& rng) {
  static const std::vector<std::pair<std::string, std::size_t>> types = {{"b", 3}, {"b", 4}, {"i32", 3}, {"f64", 4}};
  auto ts = rng.pick(types);
  const std::string& T = ts.first;
  const std::size_t n = ts.second;
  const std::string head = " " + T + " " + std::to_string(n) + " ";
  if (T == "b" && rng.coin(2, 3)) {
    static const std::vector<std::string> rs = {"anyTrue", "allTrue", "anyFalse", "allFalse"};
    std::vector<std::string> m(n, rng.coin() ? "1" : "0");
    int mode = (int)rng.below(4);
    if (mode == 1) m[rng.below(n)] = m[0] == "1" ? "0" : "1";
    if (mode == 2) for (auto& x : m) x = rng.coin() ? "1" : "0";
    if (mode == 3) m[n - 1] = m[0] == "1" ? "0" : "1";
    return "mini " + rng.pick(rs) + head + listStr(m);
  }
  switch (rng.below(6)) {
    case 0: return "mini mask" + head + genVec(rng, T, n, 0);
    case 1: return "mini maskor" + head + genVec(rng, T, n, 0) + " " + genVec(rng, T, n, 0);
    case 2: return "mini maskand" + head + genVec(rng, T, n, 0) + " " + genVec(rng, T, n, 0);
    case 3: return std::string("mini ") + (rng.coin() ? "hmax" : "hmin") + head + genVec(rng, T, n, 0);
    case 4: return "mini bcast" + head + genScalar(rng, T, 0);
    default: return "mini implcast" + head + genVec(rng, T, n, 0);
  }
}

static std::string genCplx(Rng& rng) {
  static const std::vector<std::string> whats = {"real", "imag", "real", "imag", "neg", "add", "sub", "eq", "ne"};
  const std::string what = rng.pick(whats);
  const std::size_t S = rng.coin() ? 2 : 4;
  std::string A = genVec(rng, "f64", 2 * S, 0);
  std::string line = "cplx " + what + " " + std::to_string(S) + " " + A;
  if (what == "add" || what == "sub" || what == "eq" || what == "ne") line += " " + (rng.coin(1, 4) ? A : genVec(rng, "f64", 2 * S, 0));
  return line;
}

// --- scalar operand of another arithmetic type -----------------------------------------------------
static long double tokValue(const std::string& T, const std::string& tok) {
  if (T == "f64") return Cod<double>::parse(tok);
  if (T == "f32") return Cod<float>::parse(tok);
  if (T == "b") return tok == "1" ? 1 : 0;
  return (long double)std::stoll(tok);
}
// a token of type U holding (the value nearest to) y
static std::string mkTok(const std::string& U, long double y) {
  if (U == "f64") return tokD((double)y);
  if (U == "f32") return tokF((float)y);
  if (U == "b") return y != 0 ? "1" : "0";
  if (y != y) y = 0;
  long double lo = 0, hi = 0;
  if (U == "i32") { lo = std::numeric_limits<int>::min(); hi = std::numeric_limits<int>::max(); }
  else if (U == "i64") { lo = -9223372036854775807.0L; hi = 9223372036854775807.0L; }
  else if (U == "u32") { lo = 0; hi = 4294967295.0L; }
  else { lo = -32768; hi = 32767; }
  y = std::trunc(y);
  if (y < lo) y = lo;
  if (y > hi) y = hi;
  return std::to_string((long long)y);
}
static std::string genMixed(Rng& rng) {
  static const std::vector<std::string> Ts = {"f64", "f32", "i32", "i32", "i64", "u32", "i16", "b"};
  const std::string T = rng.pick(Ts);
  std::string U = T;
  if (!rng.coin(1, 8)) for (int t = 0; t < 20 && U == T; ++t) U = rng.pick(Ts);
  std::string shape = "4";
  if ((T == "i32" || T == "f64") && rng.coin(1, 4)) shape = "2x2";
  const std::size_t n = 4;
  const bool intT = T != "f64" && T != "f32", intU = U != "f64" && U != "f32";
  static const std::vector<std::string> cmps = {"lt", "gt", "le", "ge", "eq", "ne"};
  std::string op = rng.pick(cmps);
  std::string form = rng.coin() ? "vs" : "sv";
  int sel = (int)rng.below(20);
  if (sel < 3) { op = rng.coin() ? "land" : "lor"; if (shape == "2x2") form = "vs"; }
  else if (sel < 6 && intT && intU) { op = rng.coin() ? "shl" : "shr"; form = "vs"; }
  const bool shift = op == "shl" || op == "shr";
  const std::string A = genVec(rng, T, n, shift ? 1 : (rng.coin() ? 1 : 0));
  std::string s;
  const bool logic = op == "land" || op == "lor";
  if (shift) s = mkTok(U, (long double)(rng.coin(1, 8) ? rng.range(-1, 65) : rng.range(0, 31)));
  else if (rng.coin(1, 5)) s = genScalar(rng, U, 0);
  else {
    // a scalar related to one of the lanes.  Mostly values the lanes' type cannot hold (so that converting the scalar
    // first would change the outcome): a fraction off, a rounding error of the narrower floating-point type off,
    // congruent modulo 2^8 / 2^16 / 2^32, negative against unsigned lanes; otherwise equal or off by one.
    const auto lanes = listToks(A);
    const long double x = logic ? 0.0L : tokValue(T, lanes[rng.below(lanes.size())]);
    std::vector<long double> lossy;
    if (!intU && intT) lossy = {x + 0.5L, x - 0.5L, x + 0.25L, x - 0.75L, x + 0x1p-20L};
    if (U == "f64" && T == "f32") lossy = {x * (1 + 0x1p-40L), x * (1 - 0x1p-40L), x + 0x1p-60L, x * (1 + 0x1p-25L)};
    if (intU && intT && U != T) {
      lossy = {x + 65536.0L * (long double)rng.range(1, 3), x - 65536.0L, x + 4294967296.0L, x - 4294967296.0L, x + 256.0L};
      if (T == "u32") lossy.push_back(-1.0L);
      if (T == "u32") lossy.push_back(x - 4294967296.0L);
      if (T == "i32" || T == "i16") lossy.push_back(x + 2147483648.0L);
      if (T == "b") { lossy.push_back(2.0L); lossy.push_back(-1.0L); }
    }
    if (intU && !intT) lossy = {x + 16777217.0L, x + 9007199254740993.0L, std::trunc(x) + 1};   // not representable in float / double
    long double y = x;
    if (!lossy.empty() && rng.coin(3, 5)) y = lossy[rng.below(lossy.size())];
    else switch (rng.below(4)) { case 0: case 1: break; case 2: y = x + 1; break; default: y = x - 1; break; }
    s = mkTok(U, y);
  }
  return "binx " + T + " " + shape + " " + form + " " + op + " " + A + " " + U + " " + s;
}

static std::string genLayX(Rng& rng) {
  switch (rng.below(4)) {
    case 0: case 1: {
      const std::string T = rng.coin() ? "f64" : "i32";
      static const std::vector<std::string> hows = {"flat", "flat", "nest", "al64"};
      return "layx condm " + T + " " + rng.pick(hows) + " " + genVec(rng, "b", 4, 0) + " " + genVec(rng, T, 4, 0) + " " + genVec(rng, T, 4, 0);
    }
    case 2: {
      static const std::vector<std::string> Ts = {"f64", "i32", "b"};
      const std::string T1 = rng.pick(Ts), T2 = rng.pick(Ts);
      return std::string("layx ") + (rng.coin() ? "maskor" : "maskand") + " " + T1 + " " + T2 + " " + genVec(rng, T1, 4, 1) + " " + genVec(rng, T2, 4, 1);
    }
    default: {
      static const std::vector<std::string> Ts = {"f64", "f32", "i32", "i16", "u32", "b"};
      static const std::vector<std::string> Us = {"f64", "f32", "i32", "i64", "u32", "b"};
      const std::string T = rng.pick(Ts), U = rng.pick(Us);
      std::string s = genScalar(rng, U, rng.coin() ? 1 : 0);
      if ((U == "f64" || U == "f32") && rng.coin()) s = mkTok(U, (long double)rng.range(-40, 40) * 0.25L);
      return "layx bcast " + T + " " + U + " " + s;
    }
  }
}

static std::string propose(Rng& rng, const Args& a) {
  int sel = (int)rng.below(100);
  if (sel < 4) return genMatC(rng);
  if (sel < 24) return genMat(rng, a);
  if (sel < 30) return genRect(rng);
  if (sel < 33) return genFVec(rng);
  if (sel < 36) return genMini(rng);
  if (sel < 37) {
    switch (rng.below(4)) {
      case 0: case 1: return genCplx(rng);
      case 2: return "realign " + genVec(rng, "f64", 4, 0) + " " + genVec(rng, "f64", 4, 0);
      default: {
        const bool vv = rng.coin();
        return std::string("shiftmix ") + (rng.coin() ? "shl" : "shr") + " " + (vv ? "vv" : "vs") + " " + genVec(rng, "i64", 4, 1) + " "
               + (vv ? genVec(rng, "i64", 4, 2) : genScalar(rng, "i64", 2));
      }
    }
  }
  if (sel < 41) return genMixed(rng);
  if (sel < 42) return genLayX(rng);
  static const std::vector<std::string> Ts = {"f64", "f64", "f64", "f32", "f32", "i32", "i32", "i32", "i64", "i64", "b", "b", "u32", "i16"};
  static const std::vector<std::string> flat = {"1", "2", "4", "8"};
  static const std::vector<std::string> nested = {"2x2", "4x2", "2x4"};
  std::string T = rng.pick(Ts);
  std::string shape = rng.pick(flat);
  if (T == "f64" || T == "i32" || T == "b") { if (rng.coin(1, 4)) shape = rng.pick(nested); else if (rng.coin(1, 6)) shape = "3"; }
  if (T == "u32") { static const std::vector<std::string> sh = {"2", "4", "8"}; shape = rng.pick(sh); }
  if (T == "i16") shape = rng.coin() ? "2" : "4";
  std::size_t n = shapeLanes(shape);
  const std::string head = " " + T + " " + shape + " ";
  const bool isInt = T == "i32" || T == "i64" || T == "u32" || T == "i16";
  if (sel < 58) {  // binary operators
    static const std::vector<std::string> ops = {"add", "sub", "mul", "div", "mod", "band", "bor", "bxor", "shl", "shr", "lt", "gt", "le", "ge", "eq", "ne",
                                                 "land", "lor", "max", "min", "maskor", "maskand"};
    std::string op = rng.pick(ops);
    static const std::vector<std::string> forms = {"vv", "vv", "vs", "sv"};
    std::string form = rng.pick(forms);
    if (op == "max" || op == "min" || op == "maskor" || op == "maskand") form = "vv";
    if ((op == "shl" || op == "shr") && form == "sv") form = "vs";
    int fa = 0, fb = 0;
    if (isInt) { if ((op == "add" || op == "sub" || op == "mul") && (T == "i32" || T == "i64")) { if (rng.coin(3, 4)) fa = fb = 1; } if (op == "shl" || op == "shr") { fb = 2; if (op == "shl" && T != "u32") fa = 1; } }
    if (form == "vs" && shape.find('x') == std::string::npos && op != "max" && rng.coin(1, 6))   // the scalar is a lane of the vector operand
      return "bin" + head + "va " + op + " " + genVec(rng, T, n, (op == "shl" || op == "shr") ? 2 : fa) + " " + std::to_string(rng.below(n));
    std::string A = form == "sv" ? genScalar(rng, T, fa) : genVec(rng, T, n, fa);
    std::string B = form == "vs" ? genScalar(rng, T, fb) : genVec(rng, T, n, fb);
    if (form == "vv" && rng.coin(1, 6)) B = A;  // equal operands
    return "bin" + head + form + " " + op + " " + A + " " + B;
  }
  if (sel < 67) {  // compound assignment
    static const std::vector<std::string> ops = {"add", "sub", "mul", "div", "mod", "band", "bor", "bxor", "shl", "shr"};
    std::string op = rng.pick(ops);
    std::string form = rng.coin() ? "vv" : "vs";
    int fa = 0, fb = 0;
    if (isInt) { if ((op == "add" || op == "sub" || op == "mul") && (T == "i32" || T == "i64")) { if (rng.coin(3, 4)) fa = fb = 1; } if (op == "shl" || op == "shr") { fb = 2; if (op == "shl" && T != "u32") fa = 1; } }
    std::string A = genVec(rng, T, n, fa);
    if (rng.coin(1, 5)) return "asg" + head + "va " + op + " " + genVec(rng, T, n, (op == "shl" || op == "shr") ? 2 : fa) + " " + std::to_string(rng.below(n));
    std::string B = form == "vs" ? genScalar(rng, T, fb) : genVec(rng, T, n, fb);
    return "asg" + head + form + " " + op + " " + A + " " + B;
  }
  if (sel < 75) {  // unary
    static const std::vector<std::string> ops = {"pos", "neg", "bnot", "lnot", "preinc", "predec", "postinc", "postdec", "mask", "isNaN", "isInf", "isFinite"};
    return "un" + head + rng.pick(ops) + " " + genVec(rng, T, n, 0);
  }
  if (sel < 81) {  // math functions (floating point only); the table of the scalar function is part of the op line
    if (T != "f64" && T != "f32") { T = rng.coin() ? "f64" : "f32"; if (shape == "3") shape = "4"; }
    if (T == "f32" && (shape.find('x') != std::string::npos || shape == "3")) shape = "4";
    n = shapeLanes(shape);
    std::string fn = rng.pick(mathNames());
    std::string A = genVec(rng, T, n, rng.coin() ? 1 : 0);
    std::vector<std::string> ts = listToks(A), tab;
    std::map<std::string, std::string> seen;
    for (auto& t : ts) {
      std::string canon = T == "f64" ? Cod<double>::show(Cod<double>::parse(t)) : Cod<float>::show(Cod<float>::parse(t));
      if (seen.count(canon)) continue;
      seen[canon] = T == "f64" ? scalarMath<double>(fn, Cod<double>::parse(t)) : scalarMath<float>(fn, Cod<float>::parse(t));
      tab.push_back(canon + ":" + seen[canon]);
    }
    return "math " + T + " " + shape + " " + fn + " " + A + " " + "{" + join(tab.begin(), tab.end(), ",") + "}";
  }
  if (sel < 85) return "lane" + head + std::to_string(rng.below(n)) + " " + genVec(rng, T, n, 0);
  if (sel < 87) return "setlane" + head + std::to_string(rng.below(n)) + " " + genScalar(rng, T, 0) + " " + genVec(rng, T, n, 0);
  if (sel < 91) {
    if (rng.coin(1, 6)) return "condb" + head + (rng.coin() ? "1" : "0") + " " + genVec(rng, T, n, 0) + " " + genVec(rng, T, n, 0);
    return "cond" + head + genVec(rng, "b", n, 0) + " " + genVec(rng, T, n, 0) + " " + genVec(rng, T, n, 0);
  }
  if (sel < 95) {
    static const std::vector<std::string> rs = {"anyTrue", "allTrue", "anyFalse", "allFalse"};
    if (rng.coin(1, 10)) return "reds " + rng.pick(rs) + " " + (rng.coin() ? "1" : "0");
    std::string shp = rng.coin(1, 4) ? rng.pick(nested) : (rng.coin(1, 5) ? std::string("3") : rng.pick(flat));
    std::size_t k = shapeLanes(shp);
    // masks that are all true / all false / differ in exactly one lane are the interesting ones
    std::vector<std::string> m(k, rng.coin() ? "1" : "0");
    int mode = (int)rng.below(4);
    if (mode == 1) m[rng.below(k)] = m[0] == "1" ? "0" : "1";
    if (mode == 2) for (auto& x : m) x = rng.coin() ? "1" : "0";
    if (mode == 3) m[k - 1] = m[0] == "1" ? "0" : "1";
    return "red b " + shp + " " + rng.pick(rs) + " " + listStr(m);
  }
  if (sel < 96) return "bcast" + head + genScalar(rng, T, 0);
  if (sel < 98) return std::string(rng.coin() ? "hmax" : "hmin") + head + genVec(rng, T, n, 0);
  if (sel < 99) {
    if (shape.find('x') == std::string::npos) { shape = rng.pick(nested); if (T != "f64" && T != "i32" && T != "b") T = "f64"; n = shapeLanes(shape); }
    return "implcast " + T + " " + shape + " " + (rng.coin() ? "flat" : "nest") + " " + genVec(rng, T, n, 0);
  }
  if (rng.coin()) return "slane " + genScalar(rng, "f64", 0) + " " + genScalar(rng, "f64", 0) + " " + (rng.coin() ? "1" : "0");
  return "lanes" + head;
}

// The generator never executes the code under test: a crash must happen while the op line is already on record.
// Combinations that do not exist for a scalar type are avoided by construction (opExists); integer operands that
// would be undefined behaviour are still generated now and then and come back as "invalid" (trivial cases).
static bool opExists(const std::string& line) {
  auto w = words(line);
  if (w.size() < 5) return true;
  const std::string &kind = w[0], &T = w[1], &shape = w[2];
  const bool fp = T == "f64" || T == "f32";
  const bool nestedShape = shape.find('x') != std::string::npos;
  auto intOnly = [](const std::string& op) { return op == "mod" || op == "band" || op == "bor" || op == "bxor" || op == "shl" || op == "shr"; };
  if (kind == "bin" || kind == "asg") {
    const std::string &form = w[3], &op = w[4];
    if (fp && intOnly(op)) return false;
    if (nestedShape && form == "sv" && (op == "land" || op == "lor")) return false;
  }
  if (kind == "un") {
    const std::string& op = w[3];
    if (fp && op == "bnot") return false;
    if (T == "b" && (op == "preinc" || op == "predec" || op == "postinc" || op == "postdec")) return false;
    if (!fp && (op == "isNaN" || op == "isInf" || op == "isFinite")) return false;
  }
  if (kind == "math" && nestedShape && indexOf(mathRetNames(), w[3]) >= 0) return false;
  return true;
}

static std::string gen(Rng& rng, long, const Args& a) {
  for (int tries = 0; tries < 100; ++tries) {
    std::string line = propose(rng, a);
    if (opExists(line)) return line;
  }
  return "lanes f64 4 ";
}

int main(int argc, char** argv) {
  std::cout << std::unitbuf;
  return dv::run(argc, argv, gen, exec);
}
