// C15 correspondence harness: the dune-common allocators (Pool, PoolAllocator, MallocAllocator, AlignedAllocator,
// DebugAllocator) and debugalign.hh's isAligned against the Lean model, with an independent oracle:
//   * every block handed out is recorded in an interval map (disjointness from every live block), checked for the
//     promised alignment, checked to lie inside memory the allocator really obtained (operator new blocks recorded by
//     the replaced global operator new; malloc_usable_size; /proc/self/maps for the mmap'ed debug blocks incl. the
//     guard page), filled with a tag over its whole extent (ASan sees every byte) and verified when it is given back;
//   * requests whose true byte size (128 bit arithmetic) cannot be served must throw std::bad_alloc;
//   * destroying a pool must release every chunk it obtained.
// One case = one allocator instance and a whole allocate/deallocate history:
//   pool <sizeof> <alignof> <S> : a;ao;f<k>;fn;fx;fe;fb  Pool<Elem,S>             (f<k>: free the k-th live block;
//                                                           ao: allocate while operator new throws; fe/fb: free of the
//                                                           address just behind / in front of the newest chunk's storage)
//   pa <sizeof> <alignof> <s> : a;ao;n<n>;f<k>;d<k>;fn   PoolAllocator<Elem,s>    (n<n>: allocate(n); d<k>: deallocate(p, 0))
//   malloc <sizeof> <alignof> : a<n>;f<k>                MallocAllocator<Elem>
//   aligned <sizeof> <alignof> <A> : a<n>;f<k>           AlignedAllocator<Elem,A> (A=0: default)
//   debug <sizeof> <alignof> <page> : a<n>;f<k>;z<k>     DebugAllocator<Elem>     (z<k>: deallocate(p, 0))
//   align <A> : i<off>;p<off>;q<off>                     isAligned(buf+off,A); placement new / array placement new of
//                                                           AlignedNumber<double,A>
//   dbgmgr <sizeof> <alignof> <page> <keep> : a<n>;f<k>;z<k>   a DebugMemory::AllocationManager owned by the case, compiled
//                                                           with DEBUG_ALLOCATOR_KEEP=<keep>; what is still in use at the end
//                                                           is given back, then the manager is destroyed inside the case
//   poolnd / pand <sizeof> <alignof> <S> : …               Pool / PoolAllocator compiled with NDEBUG (no fx/fe/fb: undefined there)
// raw kinds (malloc, aligned, debug, dbgmgr) also: h<n> allocate(n, hint); c<n> allocate through a copy of the allocator;
//   g<k> / G<k> deallocate through a copy / through an allocator converted from another element type.
// Compile-time configurations live in their own translation units (cxx_c15_keep.cc, cxx_c15_ndebug.cc) with the
// library's names renamed; see cxx_c15_shared.hh.
#include <config.h>

#include <dlfcn.h>
#include <errno.h>
#include <fcntl.h>
#include <malloc.h>
#include <sys/mman.h>
#include <unistd.h>

#include <algorithm>
#include <cstdint>
#include <cstdio>
#include <cstdlib>
#include <map>
#include <new>
#include <stdexcept>
#include <tuple>
#include <type_traits>
#include <memory>

#include <dune/common/alignedallocator.hh>
#include <dune/common/debugalign.hh>
#include <dune/common/debugallocator.hh>
#include <dune/common/mallocallocator.hh>
#include <dune/common/poolallocator.hh>

#include "hcommon.hh"

using namespace dv;
typedef unsigned __int128 u128;

// ---------------------------------------------------------------------------------------------------------------
// environment shims
// ---------------------------------------------------------------------------------------------------------------
// huge requests must come back as NULL (as from the C library), not as a sanitizer abort
extern "C" const char* __asan_default_options() { return "allocator_may_return_null=1:detect_leaks=0"; }

// ASan's aligned_alloc insists on C11's "size is a multiple of alignment" (dropped in C17, not required by glibc);
// give the allocator under test the C17/glibc behaviour on top of ASan's memalign so that ASan still guards the block.
static long g_alignedAllocCalls = 0;
extern "C" void* aligned_alloc(size_t a, size_t s) noexcept {
  ++g_alignedAllocCalls;
  if (a == 0 || (a & (a - 1))) { errno = EINVAL; return nullptr; }
  return memalign(a, s);
}

// global operator new/delete: record what is obtained/released while g_track is set (the pool's chunks)
static bool g_track = false;
struct Rec { uintptr_t base; size_t len; bool alive; };
static const int MAXREC = 1 << 14;
static Rec g_recs[MAXREC];
static int g_nrecs = 0;
static long g_recOverflow = 0;

static bool g_failNew = false;   // while set (and g_track), operator new throws: memory exhaustion
static long g_failNewHits = 0;
static void* dvNew(size_t n, size_t al) {
  if (g_track && g_failNew) { ++g_failNewHits; throw std::bad_alloc(); }
  void* p = al > alignof(std::max_align_t) ? memalign(al, n ? n : 1) : malloc(n ? n : 1);
  if (!p) throw std::bad_alloc();
  if (g_track) {
    if (g_nrecs < MAXREC) g_recs[g_nrecs++] = Rec{(uintptr_t)p, n, true};
    else ++g_recOverflow;
  }
  return p;
}
static void dvDelete(void* p) noexcept {
  if (!p) return;
  if (g_track)
    for (int i = g_nrecs - 1; i >= 0; --i)
      if (g_recs[i].alive && g_recs[i].base == (uintptr_t)p) { g_recs[i].alive = false; break; }
  free(p);
}
void* operator new(size_t n) { return dvNew(n, 1); }
void* operator new[](size_t n) { return dvNew(n, 1); }
void* operator new(size_t n, std::align_val_t a) { return dvNew(n, (size_t)a); }
void* operator new[](size_t n, std::align_val_t a) { return dvNew(n, (size_t)a); }
static void* dvNewNothrow(size_t n, size_t al) noexcept { try { return dvNew(n, al); } catch (std::bad_alloc&) { return nullptr; } }
void* operator new(size_t n, const std::nothrow_t&) noexcept { return dvNewNothrow(n, 1); }
void* operator new[](size_t n, const std::nothrow_t&) noexcept { return dvNewNothrow(n, 1); }
void* operator new(size_t n, std::align_val_t a, const std::nothrow_t&) noexcept { return dvNewNothrow(n, (size_t)a); }
void* operator new[](size_t n, std::align_val_t a, const std::nothrow_t&) noexcept { return dvNewNothrow(n, (size_t)a); }
void operator delete(void* p) noexcept { dvDelete(p); }
void operator delete[](void* p) noexcept { dvDelete(p); }
void operator delete(void* p, size_t) noexcept { dvDelete(p); }
void operator delete[](void* p, size_t) noexcept { dvDelete(p); }
void operator delete(void* p, std::align_val_t) noexcept { dvDelete(p); }
void operator delete[](void* p, std::align_val_t) noexcept { dvDelete(p); }
void operator delete(void* p, size_t, std::align_val_t) noexcept { dvDelete(p); }
void operator delete[](void* p, size_t, std::align_val_t) noexcept { dvDelete(p); }

// mmap/munmap: record what the debug allocator asks of the OS while g_trackMap is set; the calls are forwarded to the
// next definition in link order (ASan's interceptor, then libc)
static bool g_trackMap = false;
struct MapRec { uintptr_t base; size_t len; bool mapped; };
static MapRec g_mapRecs[1 << 12];
static int g_nMapRecs = 0;
static long g_mapCalls = 0, g_unmapCalls = 0, g_unmapUnknown = 0, g_mapOverflow = 0;
extern "C" void* mmap(void* addr, size_t len, int prot, int flags, int fd, off_t off) noexcept {
  typedef void* (*Fn)(void*, size_t, int, int, int, off_t);
  static Fn real = nullptr;
  if (!real) real = (Fn)dlsym(RTLD_NEXT, "mmap");
  void* r = real(addr, len, prot, flags, fd, off);
  if (g_trackMap) {
    ++g_mapCalls;
    if (r != MAP_FAILED) {
      if (g_nMapRecs < (1 << 12)) g_mapRecs[g_nMapRecs++] = MapRec{(uintptr_t)r, len, true};
      else ++g_mapOverflow;
    }
  }
  return r;
}
extern "C" int munmap(void* addr, size_t len) noexcept {
  typedef int (*Fn)(void*, size_t);
  static Fn real = nullptr;
  if (!real) real = (Fn)dlsym(RTLD_NEXT, "munmap");
  if (g_trackMap) {
    ++g_unmapCalls;
    bool known = false;
    for (int i = g_nMapRecs - 1; i >= 0; --i)
      if (g_mapRecs[i].mapped && g_mapRecs[i].base == (uintptr_t)addr && g_mapRecs[i].len == len) { g_mapRecs[i].mapped = false; known = true; break; }
    if (!known) ++g_unmapUnknown;
  }
  return real(addr, len);
}

// ---------------------------------------------------------------------------------------------------------------
// /proc/self/maps without touching the heap
// ---------------------------------------------------------------------------------------------------------------
struct MapEntry { uintptr_t lo, hi; bool r, w; };
static char g_mapsBuf[1 << 22];
static MapEntry g_maps[1 << 14];
static int g_nmaps = 0;

static bool readMaps() {
  int fd = open("/proc/self/maps", O_RDONLY);
  if (fd < 0) return false;
  size_t len = 0;
  for (;;) {
    ssize_t k = read(fd, g_mapsBuf + len, sizeof(g_mapsBuf) - 1 - len);
    if (k <= 0) break;
    len += (size_t)k;
    if (len >= sizeof(g_mapsBuf) - 1) break;
  }
  close(fd);
  g_mapsBuf[len] = 0;
  g_nmaps = 0;
  const char* s = g_mapsBuf;
  while (*s && g_nmaps < (1 << 14)) {
    char* e;
    uintptr_t lo = strtoull(s, &e, 16);
    if (*e != '-') break;
    uintptr_t hi = strtoull(e + 1, &e, 16);
    if (*e != ' ') break;
    g_maps[g_nmaps++] = MapEntry{lo, hi, e[1] == 'r', e[2] == 'w'};
    while (*s && *s != '\n') ++s;
    if (*s) ++s;
  }
  return g_nmaps > 0;
}
// 0: not mapped, 1: mapped without any access, 2: read+write, 3: something else
static int pageState(uintptr_t a) {
  for (int i = 0; i < g_nmaps; ++i)
    if (g_maps[i].lo <= a && a < g_maps[i].hi) return (g_maps[i].r && g_maps[i].w) ? 2 : (!g_maps[i].r && !g_maps[i].w) ? 1 : 3;
  return 0;
}
static bool rangeRW(uintptr_t lo, uintptr_t hi, uintptr_t page) {
  for (uintptr_t a = lo - lo % page; a < hi; a += page)
    if (pageState(a) != 2) return false;
  return true;
}

// ---------------------------------------------------------------------------------------------------------------
// element types and type-erased allocators
// ---------------------------------------------------------------------------------------------------------------
#include "cxx_c15_shared.hh"
#include "cxx_c15_pool.inc"

// the allocator a standard container obtains for element type U from an allocator `a` of type A
template <class A, class U>
struct Rebound {
  typedef typename std::allocator_traits<A>::template rebind_alloc<U> type;
  static type make(const A& a) {
    if constexpr (std::is_constructible_v<type, const A&>) return type(a); else return type();
  }
};

template <class T>
struct MallocImpl : RawIface {
  Dune::MallocAllocator<T> a;
  MallocImpl() {
    sz = sizeof(T); al = alignof(T);
    promised = alignof(T);   // an allocator for T must return storage aligned for T
    promisedRebound = alignof(U);
    header = "max=" + std::to_string(a.max_size());
  }
  typedef typename Twice<T>::type U;
  void* allocateRebound(size_t n) override { auto r = Rebound<Dune::MallocAllocator<T>, U>::make(a); return r.allocate(n); }
  void deallocateRebound(void* p, size_t n) override { auto r = Rebound<Dune::MallocAllocator<T>, U>::make(a); r.deallocate(static_cast<U*>(p), n); }
  void* allocate(size_t n) override { return a.allocate(n); }
  void deallocate(void* p, size_t n) override { a.deallocate(static_cast<T*>(p), n); }
  void* allocateHint(size_t n, const void* hint) override { return a.allocate(n, hint); }
  // allocators of this family compare equal: what one hands out, a copy or a converted copy may take back
  void* allocateVia(size_t n) override { Dune::MallocAllocator<T> b(a); return b.allocate(n); }
  void deallocateVia(void* p, size_t n, bool convert) override {
    if (convert) { Dune::MallocAllocator<char> c; Dune::MallocAllocator<T> b(c); b.deallocate(static_cast<T*>(p), n); }
    else { Dune::MallocAllocator<T> b(a); b.deallocate(static_cast<T*>(p), n); }
  }
};
template <class T, int A>
struct AlignedImpl : RawIface {
  Dune::AlignedAllocator<T, A> a;
  AlignedImpl() {
    sz = sizeof(T); al = alignof(T);
    promised = A == -1 ? alignof(T) : (size_t)A;
    promisedRebound = A == -1 ? alignof(U) : (size_t)A;   // the requested alignment belongs to the family, not to T
    header = "max=" + std::to_string(a.max_size()) + " align=" + std::to_string(Dune::AlignedAllocator<T, A>::alignment);
  }
  void* allocate(size_t n) override { return a.allocate(n); }
  void deallocate(void* p, size_t n) override { a.deallocate(static_cast<T*>(p), n); }
  void* allocateHint(size_t n, const void* hint) override { return a.allocate(n, hint); }
  typedef typename Twice<T>::type U;
  void* allocateRebound(size_t n) override { auto r = Rebound<Dune::AlignedAllocator<T, A>, U>::make(a); return r.allocate(n); }
  void deallocateRebound(void* p, size_t n) override { auto r = Rebound<Dune::AlignedAllocator<T, A>, U>::make(a); r.deallocate(static_cast<U*>(p), n); }
  void* allocateVia(size_t n) override { Dune::AlignedAllocator<T, A> b(a); return b.allocate(n); }
  void deallocateVia(void* p, size_t n, bool convert) override {
    // the rebound allocator of another element type shares the deallocation function (inherited from MallocAllocator)
    if (convert) { typename Dune::AlignedAllocator<T, A>::template rebind<char>::other c; c.deallocate(static_cast<char*>(p), n * sizeof(T)); }
    else { Dune::AlignedAllocator<T, A> b(a); b.deallocate(static_cast<T*>(p), n); }
  }
};
template <class T>
struct DebugImpl : RawIface {
  Dune::DebugAllocator<T> a;
  DebugImpl() { sz = sizeof(T); al = alignof(T); promised = alignof(T); promisedRebound = alignof(U); header = "dbg"; }
  typedef typename Twice<T>::type U;
  void* allocateRebound(size_t n) override { auto r = Rebound<Dune::DebugAllocator<T>, U>::make(a); return r.allocate(n); }
  void deallocateRebound(void* p, size_t n) override { auto r = Rebound<Dune::DebugAllocator<T>, U>::make(a); r.deallocate(static_cast<U*>(p), n); }
  void* allocate(size_t n) override { return a.allocate(n); }
  void deallocate(void* p, size_t n) override { a.deallocate(static_cast<T*>(p), n); }
  void* allocateHint(size_t n, const void* hint) override { return a.allocate(n, hint); }
  void* allocateVia(size_t n) override { Dune::DebugAllocator<T> b(a); return b.allocate(n); }
  void deallocateVia(void* p, size_t n, bool convert) override {
    if (convert) { Dune::DebugAllocator<char> c; Dune::DebugAllocator<T> b(c); b.deallocate(static_cast<T*>(p), n); }
    else { Dune::DebugAllocator<T> b(a); b.deallocate(static_cast<T*>(p), n); }
  }
};

#define C15_MGR_FACTORY c15MgrFactoryDefault
#include "cxx_c15_mgr.inc"

typedef std::tuple<int, size_t, size_t, size_t> Key;  // (kind, sizeof, alignof, parameter)
enum { K_POOL = 0, K_PA = 1, K_MALLOC = 2, K_ALIGNED = 3, K_DEBUG = 4 };
static std::map<Key, PoolFactory>& pools() { static std::map<Key, PoolFactory> m; return m; }
static std::map<Key, RawFactory>& raws() { static std::map<Key, RawFactory> m; return m; }

template <size_t SZ, size_t AL, size_t S>
void regPool() { pools()[Key(K_POOL, SZ, AL, S)] = []() -> PoolIface* { return new PoolImpl<Elem<SZ, AL>, S>; }; }
template <size_t SZ, size_t AL, size_t s>
void regPA() { pools()[Key(K_PA, SZ, AL, s)] = []() -> PoolIface* { return new PAImpl<Elem<SZ, AL>, s>; }; }
template <size_t SZ, size_t AL, int A>
void regAligned() {
  if constexpr (A == -1 || (size_t)A >= AL)
    raws()[Key(K_ALIGNED, SZ, AL, A == -1 ? 0 : A)] = []() -> RawIface* { return new AlignedImpl<Elem<SZ, AL>, A>; };
}
template <size_t SZ, size_t AL>
void regType() {
  regPool<SZ, AL, 1>(); regPool<SZ, AL, SZ>(); regPool<SZ, AL, SZ + 1>(); regPool<SZ, AL, 2 * SZ>();
  regPool<SZ, AL, 7 * SZ>(); regPool<SZ, AL, 1000>();
  regPA<SZ, AL, 1>(); regPA<SZ, AL, 2>(); regPA<SZ, AL, 7>();
  raws()[Key(K_MALLOC, SZ, AL, 0)] = []() -> RawIface* { return new MallocImpl<Elem<SZ, AL>>; };
  regAligned<SZ, AL, -1>(); regAligned<SZ, AL, 16>(); regAligned<SZ, AL, 64>();
  raws()[Key(K_DEBUG, SZ, AL, 0)] = []() -> RawIface* { return new DebugImpl<Elem<SZ, AL>>; };
}
template <size_t SZ, size_t AL>
void regGiant() {
  raws()[Key(K_MALLOC, SZ, AL, 0)] = []() -> RawIface* { return new MallocImpl<Elem<SZ, AL>>; };
  regAligned<SZ, AL, -1>();
}
static void registerAll() {
  regType<1, 1>(); regType<2, 2>(); regType<3, 1>(); regType<4, 4>(); regType<5, 1>(); regType<6, 2>(); regType<7, 1>();
  regType<8, 8>(); regType<8, 4>(); regType<9, 1>(); regType<12, 4>(); regType<16, 16>(); regType<16, 8>();
  regType<20, 4>(); regType<24, 8>(); regType<32, 32>(); regType<40, 8>(); regType<48, 16>(); regType<64, 64>();
  regType<64, 32>(); regType<96, 32>(); regType<100, 4>(); regType<127, 1>(); regType<128, 64>(); regType<128, 16>();
  regType<200, 8>(); regType<256, 128>(); regType<1000, 8>();
  // more pool sizes: 0, exactly one pointer, a page
  regPool<1, 1, 0>(); regPool<8, 8, 0>(); regPool<24, 8, 0>(); regPool<3, 1, 8>(); regPool<4, 4, 9>(); regPool<8, 8, 4096>();
  regPool<24, 8, 4096>(); regPool<64, 64, 4096>(); regPool<12, 4, 4095>(); regPA<8, 8, 64>(); regPA<24, 8, 100>();
  // a few more requested alignments
  regAligned<4, 4, 8>(); regAligned<8, 8, 32>(); regAligned<24, 8, 128>(); regAligned<1, 1, 2>(); regAligned<3, 1, 4>();
  // element types far larger than any object that is ever created (the type is only named): n * sizeof(T) wraps around
  // for small n already, and the wrapped product can be an ordinary size (2^26 objects of 2^38+1 bytes = 2^64 + 64 MiB).
  // Only the request validation of Malloc/AlignedAllocator sees them; every request with n >= 1 is unservable.
  regGiant<(1ull << 38) + 1, 1>(); regGiant<(1ull << 44) + 64, 64>(); regGiant<(1ull << 33) + 8, 8>();
}

// ---------------------------------------------------------------------------------------------------------------
// the independent oracle: interval map of live blocks + tags
// ---------------------------------------------------------------------------------------------------------------
struct LiveBlock { unsigned char* p; size_t bytes; size_t n; uint64_t serial; bool sparse = false; bool rebound = false; };
static const size_t SPARSE_EDGE = 4096;   // large blocks are written/verified in their first and last SPARSE_EDGE bytes only

struct Shadow {
  std::map<uintptr_t, size_t> iv;   // start -> length of every live block (length > 0)
  std::string fail;                 // first failure
  void bad(const std::string& m) { if (fail.empty()) fail = m; }
  void add(uintptr_t p, size_t len, size_t opno) {
    if (len == 0) return;
    auto it = iv.lower_bound(p);
    if (it != iv.end() && it->first < p + len) bad("op " + std::to_string(opno) + ": block overlaps a live block (above)");
    if (it != iv.begin()) {
      auto pr = std::prev(it);
      if (pr->first + pr->second > p) bad("op " + std::to_string(opno) + ": block overlaps a live block (below)");
    }
    iv[p] = len;
  }
  void remove(uintptr_t p) { iv.erase(p); }
};
static unsigned char tagByte(uint64_t serial, size_t i) { return (unsigned char)(0x80 | ((serial * 13 + i * 7 + 1) & 0x7f)); }
static bool skipped(const LiveBlock& b, size_t i) { return b.sparse && i >= SPARSE_EDGE && i + SPARSE_EDGE < b.bytes; }
static void fillTag(const LiveBlock& b) {
  for (size_t i = 0; i < b.bytes; ++i) { if (skipped(b, i)) { i = b.bytes - SPARSE_EDGE - 1; continue; } b.p[i] = tagByte(b.serial, i); }
}
static bool checkTag(const LiveBlock& b) {
  for (size_t i = 0; i < b.bytes; ++i) { if (skipped(b, i)) { i = b.bytes - SPARSE_EDGE - 1; continue; } if (b.p[i] != tagByte(b.serial, i)) return false; }
  return true;
}

static bool parseNum(const std::string& s, size_t from, unsigned long long& v) {
  if (from >= s.size()) return false;
  for (size_t i = from; i < s.size(); ++i) if (s[i] < '0' || s[i] > '9') return false;
  if (s.size() - from > 20) return false;
  errno = 0;
  v = strtoull(s.c_str() + from, nullptr, 10);
  return errno == 0;
}

static Result badCase(const std::string& why) { Result r; r.impl = "unsupported:" + why; r.oracle = "ok trivial"; return r; }

// ---- pool / pa -------------------------------------------------------------------------------------------------
alignas(64) static unsigned char g_foreign[256];

static Result execPool(bool isPA, size_t sz, size_t al, size_t S, const std::vector<std::string>& ops, bool ndebug = false) {
  PoolFactory fac = nullptr;
  if (ndebug) {
    // compile-time configuration NDEBUG: Pool::free has no range test (free(nullptr) is still refused), so freeing an
    // address outside the chunks is undefined and not part of the op language
    fac = c15PoolFactoryNdebug(isPA, sz, al, S);
    for (const std::string& op : ops)
      if (op == "fx" || op == "fe" || op == "fb") return badCase("op-ndebug");
  } else {
    auto f = pools().find(Key(isPA ? K_PA : K_POOL, sz, al, S));
    if (f != pools().end()) fac = f->second;
  }
  if (!fac) return badCase("pool-config");
  dv::stat(ndebug ? (isPA ? "case_pa_ndebug" : "case_pool_ndebug") : isPA ? "case_pa" : "case_pool");
  g_nrecs = 0;
  PoolIface* pool = fac();
  Result res;
  Shadow sh;
  std::vector<LiveBlock> live;
  std::vector<std::string> outs;
  uint64_t serial = 0;
  long alignedSize = pool->geo[3];
  dv::stat("pool_elements_" + std::string(pool->geo[5] == 1 ? "1" : pool->geo[5] <= 4 ? "2-4" : pool->geo[5] <= 16 ? "5-16" : ">16"));
  if (pool->sz != sz || pool->al != al) sh.bad("element type has sizeof/alignof " + std::to_string(pool->sz) + "/" + std::to_string(pool->al));

  auto handOut = [&](void* vp, size_t opno) {
    uintptr_t p = (uintptr_t)vp;
    if (!vp) { sh.bad("op " + std::to_string(opno) + ": allocate returned a null pointer"); outs.push_back("null"); return; }
    int chunk = -1;
    for (int i = 0; i < g_nrecs; ++i)
      if (g_recs[i].alive && g_recs[i].base <= p && p + sz <= g_recs[i].base + g_recs[i].len) { chunk = i; break; }
    if (chunk < 0) { sh.bad("op " + std::to_string(opno) + ": block is not inside memory the pool obtained"); outs.push_back("outside"); return; }
    if (p % al != 0) sh.bad("op " + std::to_string(opno) + ": block not aligned to alignof(T)=" + std::to_string(al));
    sh.add(p, sz, opno);
    size_t off = p - g_recs[chunk].base;
    if (alignedSize > 0 && off % (size_t)alignedSize == 0) outs.push_back(std::to_string(chunk) + "." + std::to_string(off / alignedSize));
    else outs.push_back(std::to_string(chunk) + "+" + std::to_string(off));
    LiveBlock b{(unsigned char*)vp, sz, 1, ++serial};
    fillTag(b);   // ASan: the whole extent must be writable
    live.push_back(b);
  };

  size_t opno = 0;
  for (const std::string& op : ops) {
    ++opno;
    if (!sh.fail.empty()) { outs.push_back("?"); continue; }   // stop touching a pool that already misbehaved
    try {
      if (op == "a") {
        dv::stat("op_pool_alloc");
        int before = g_nrecs;
        g_track = true; void* p = pool->allocate(); g_track = false;
        if (g_nrecs > before) dv::stat("pool_grow");
        else dv::stat(live.empty() ? "pool_pop" : "pool_pop_with_live");
        handOut(p, opno);
      } else if (op == "ao") {
        // memory exhaustion: operator new throws while the pool works
        dv::stat("op_pool_alloc_oom");
        long hitsBefore = g_failNewHits;
        void* p = nullptr;
        g_failNew = true; g_track = true;
        try { p = pool->allocate(); } catch (std::bad_alloc&) {
          g_track = false; g_failNew = false;
          if (g_failNewHits == hitsBefore) sh.bad("op " + std::to_string(opno) + ": allocate threw bad_alloc without having asked for memory");
          dv::stat("pool_oom_refused");
          throw;
        }
        g_track = false; g_failNew = false;
        if (g_failNewHits != hitsBefore) sh.bad("op " + std::to_string(opno) + ": allocate returned a block although operator new failed");
        dv::stat("pool_oom_served_from_free_list");
        handOut(p, opno);
      } else if (op == "fn" || op == "fx" || op == "fe" || op == "fb") {
        // addresses that are not inside any chunk's storage: must be refused (the check is active without NDEBUG)
        unsigned char* q = nullptr;
        if (op == "fn") dv::stat("op_pool_free_null");
        else if (op == "fx") { dv::stat("op_pool_free_foreign"); q = g_foreign + 64; }
        else {
          int newest = -1;
          for (int i = g_nrecs - 1; i >= 0; --i) if (g_recs[i].alive) { newest = i; break; }
          if (newest < 0) { dv::stat("op_pool_free_foreign"); q = g_foreign + 64; }
          else if (op == "fe") { dv::stat("op_pool_free_behind_chunk"); q = (unsigned char*)g_recs[newest].base + pool->geo[4]; }
          else { dv::stat("op_pool_free_before_chunk"); q = (unsigned char*)g_recs[newest].base - 1; }
        }
        g_track = true; pool->free(q); g_track = false;
        outs.push_back("ok");
        sh.bad("op " + std::to_string(opno) + ": free accepted an address outside the pool's chunks (" + op + ")");
      } else if (op[0] == 'f') {
        unsigned long long k;
        if (!parseNum(op, 1, k)) return badCase("op");
        if (k >= live.size()) { outs.push_back("-"); dv::stat("op_skipped"); continue; }
        dv::stat("op_pool_free");
        LiveBlock b = live[k];
        if (!checkTag(b)) sh.bad("op " + std::to_string(opno) + ": contents of a live block were overwritten");
        live.erase(live.begin() + (long)k);
        sh.remove((uintptr_t)b.p);
        for (size_t i = 0; i < b.bytes; ++i) b.p[i] = 0xDD;   // what a destroyed object may leave behind
        g_track = true;
        try { pool->free(b.p); } catch (std::bad_alloc&) {
          g_track = false;
          sh.bad("op " + std::to_string(opno) + ": giving back a live block was refused");
          throw;
        }
        g_track = false;
        outs.push_back("ok");
      } else if (op[0] == 'd' && isPA) {
        // deallocate(p, 0) gives nothing back: the block stays live
        unsigned long long k;
        if (!parseNum(op, 1, k)) return badCase("op");
        if (k >= live.size()) { outs.push_back("-"); dv::stat("op_skipped"); continue; }
        dv::stat("op_pa_dealloc_0");
        g_track = true; pool->deallocate0(live[k].p); g_track = false;
        outs.push_back("ok");
      } else if (op[0] == 'n' && isPA) {
        unsigned long long n;
        if (!parseNum(op, 1, n)) return badCase("op");
        dv::stat(n == 1 ? "op_pa_alloc_1" : "op_pa_alloc_n");
        g_track = true; void* p = pool->allocateN((size_t)n); g_track = false;
        if (n != 1) {
          // a pool block holds one object; handing one out for n != 1 objects is "unusable memory"
          if (n > 1) sh.bad("op " + std::to_string(opno) + ": PoolAllocator served a request for " + std::to_string(n) + " objects");
          if (p) handOut(p, opno); else outs.push_back("null");
        } else handOut(p, opno);
      } else return badCase("op");
    } catch (std::bad_alloc&) {
      g_track = false; g_failNew = false;
      outs.push_back("ERR:Alloc");
      dv::stat("err_alloc");
    }
  }
  for (const LiveBlock& b : live)
    if (sh.fail.empty() && !checkTag(b)) sh.bad("end: contents of a live block were overwritten");
  if (g_nrecs >= 2) dv::stat("pool_case_with_2plus_chunks");
  if (ops.size() > 100) dv::stat("pool_case_long_history");
  dv::stat("pool_live_at_destroy", (long)live.size());
  int chunks = g_nrecs;
  std::vector<long> geo = pool->geo;
  std::string hdr = pool->header();
  g_track = true; delete pool; g_track = false;
  int released = 0;
  for (int i = 0; i < g_nrecs; ++i) if (!g_recs[i].alive) ++released;
  if (released != chunks) sh.bad("destroying the pool released " + std::to_string(released) + " of " + std::to_string(chunks) + " chunks");
  if (g_recOverflow) sh.bad("harness: chunk table overflow");
  dv::stat("pool_chunks", chunks);
  res.impl = hdr + "geo=" + listStr(geo) + " : " + join(outs.begin(), outs.end(), ";") + " : chunks=" + std::to_string(chunks) + " released=" + std::to_string(released);
  if (!sh.fail.empty()) res.oracle = "FAIL " + sh.fail;
  return res;
}

// ---- malloc / aligned / debug ------------------------------------------------------------------------------------
// mode (kind == K_DEBUG only): 0 = DebugAllocator<T> on the global manager; 1 = a manager owned by the case, default
// configuration; 2 = a manager owned by the case, configuration DEBUG_ALLOCATOR_KEEP=1
static Result execRaw(int kind, size_t sz, size_t al, size_t param, const std::vector<std::string>& ops, int mode = 0) {
  RawFactory fac = nullptr;
  if (mode == 0) {
    auto f = raws().find(Key(kind, sz, al, kind == K_ALIGNED ? param : 0));
    if (f != raws().end()) fac = f->second;
  } else fac = mode == 1 ? c15MgrFactoryDefault(sz, al) : c15MgrFactoryKeep(sz, al);
  if (!fac) return badCase("raw-config");
  const uintptr_t page = (uintptr_t)sysconf(_SC_PAGESIZE);
  if (kind == K_DEBUG && param != page) return badCase("page-size");
  dv::stat(kind == K_MALLOC ? "case_malloc" : kind == K_ALIGNED ? "case_aligned" : mode == 0 ? "case_debug" : mode == 1 ? "case_mgr_default" : "case_mgr_keep");
  const bool keep = mode == 2;
  RawIface* a = fac();
  Result res;
  Shadow sh;
  std::vector<LiveBlock> live;
  std::vector<std::string> outs;
  uint64_t serial = 0;
  if (a->sz != sz || a->al != al) sh.bad("element type has sizeof/alignof " + std::to_string(a->sz) + "/" + std::to_string(a->al));
  const u128 addressSpace = (u128)1 << 47;

  g_nMapRecs = 0; g_mapCalls = g_unmapCalls = g_unmapUnknown = 0;
  auto release = [&](size_t k, size_t opno, bool withSize, int via = 0) {
    LiveBlock b = live[k];
    if (!checkTag(b)) sh.bad("op " + std::to_string(opno) + ": contents of a live block were overwritten");
    live.erase(live.begin() + (long)k);
    sh.remove((uintptr_t)b.p);
    long unmapsBefore = g_unmapCalls;
    g_trackMap = kind == K_DEBUG;
    if (b.rebound) a->deallocateRebound(b.p, withSize ? b.n : 0);   // blocks of the rebound allocator go back through it
    else if (via == 0) a->deallocate(b.p, withSize ? b.n : 0);
    else a->deallocateVia(b.p, b.n, via == 2);
    g_trackMap = false;
    if (kind == K_DEBUG && !keep) {
      if (g_unmapCalls != unmapsBefore + 1) sh.bad("op " + std::to_string(opno) + ": deallocate made " + std::to_string(g_unmapCalls - unmapsBefore) + " munmap calls");
    }
    if (kind == K_DEBUG && g_unmapUnknown) sh.bad("op " + std::to_string(opno) + ": munmap of a range that is not exactly a range obtained from mmap and still mapped");
    if (kind == K_DEBUG && keep && readMaps()) {
      // DEBUG_ALLOCATOR_KEEP: whatever the manager does with a released block, its memory must not stay accessible
      // (and while it is still recorded it cannot be handed out again: the interval map sees that)
      if (b.bytes && pageState((uintptr_t)b.p) >= 2) sh.bad("op " + std::to_string(opno) + ": released block still accessible (DEBUG_ALLOCATOR_KEEP)");
      if (b.bytes && pageState((uintptr_t)b.p + b.bytes - 1) >= 2) sh.bad("op " + std::to_string(opno) + ": end of the released block still accessible (DEBUG_ALLOCATOR_KEEP)");
    }
    if (kind == K_DEBUG && !keep && readMaps()) {
      // the mapping (block and guard page) has been given back
      uintptr_t guard = (uintptr_t)b.p + b.bytes;
      if (pageState(guard) == 1) sh.bad("op " + std::to_string(opno) + ": guard page still mapped after deallocate");
      if (b.bytes && pageState((uintptr_t)b.p) == 2 && pageState(guard) != 0) sh.bad("op " + std::to_string(opno) + ": block still mapped after deallocate");
    }
  };

  size_t opno = 0;
  for (const std::string& op : ops) {
    ++opno;
    if (!sh.fail.empty()) { outs.push_back("?"); continue; }
    if (op[0] == 'a' || op[0] == 'h' || op[0] == 'c' || op[0] == 'r') {
      // a<n>: allocate(n); h<n>: allocate(n, hint); c<n>: allocate(n) through a copy of the allocator;
      // r<n>: allocate(n) objects of twice the size through allocator_traits<Alloc>::rebind_alloc
      const bool rebound = op[0] == 'r';
      const size_t sz = rebound ? 2 * a->sz : a->sz;
      const size_t promised = rebound ? a->promisedRebound : a->promised;
      if (rebound) dv::stat("op_alloc_rebound");
      unsigned long long n;
      if (!parseNum(op, 1, n)) { res = badCase("op"); break; }
      if (op[0] != 'a') dv::stat(op[0] == 'h' ? "op_alloc_hint" : "op_alloc_via_copy");
      u128 trueBytes = (u128)n * sz;
      dv::stat(trueBytes == 0 ? "op_alloc_0" : trueBytes >= addressSpace ? "op_alloc_huge" : "op_alloc_small");
      if (kind == K_DEBUG && trueBytes < addressSpace && trueBytes % page == 0) dv::stat("debug_page_multiple");
      const bool mid = trueBytes > (1u << 22) && trueBytes < addressSpace;
      if (mid) dv::stat("op_alloc_mid_4MiB_64MiB");
      void* vp = nullptr;
      long mapsBefore = g_mapCalls;
      int recsBefore = g_nMapRecs;
      try {
        g_trackMap = kind == K_DEBUG;
        vp = rebound ? a->allocateRebound((size_t)n) : op[0] == 'a' ? a->allocate((size_t)n) : op[0] == 'h' ? a->allocateHint((size_t)n, live.empty() ? (const void*)&n : (const void*)live.back().p) : a->allocateVia((size_t)n);
        g_trackMap = false;
      } catch (std::bad_alloc&) {
        g_trackMap = false;
        outs.push_back("ERR:Alloc");
        dv::stat("err_alloc");
        if (trueBytes <= (1u << 26) && live.size() < 4096) sh.bad("op " + std::to_string(opno) + ": small request refused");
        if (g_nMapRecs != recsBefore) sh.bad("op " + std::to_string(opno) + ": refused request left a mapping behind");
        continue;
      }
      if (kind == K_DEBUG && g_mapCalls != mapsBefore + 1) sh.bad("op " + std::to_string(opno) + ": allocate made " + std::to_string(g_mapCalls - mapsBefore) + " mmap calls");
      outs.push_back("ok");
      uintptr_t p = (uintptr_t)vp;
      std::string at = "op " + std::to_string(opno) + ": ";
      if (trueBytes >= addressSpace) {
        sh.bad(at + "request for " + std::to_string(n) + " objects of " + std::to_string(sz) + " bytes cannot be served but a block was returned");
        // do not touch it; give it back if the allocator can
        continue;
      }
      size_t bytes = (size_t)trueBytes;
      if (!vp) { sh.bad(at + "null pointer returned"); continue; }
      if (p % promised != 0) sh.bad(at + "block not aligned to " + std::to_string(promised) + (rebound ? " (rebound allocator)" : ""));
      if (kind != K_DEBUG) {
        if (bytes && malloc_usable_size(vp) < bytes) { sh.bad(at + "block smaller than requested"); continue; }
      } else if (readMaps()) {
        if (bytes && !rangeRW(p, p + bytes, page)) { sh.bad(at + "block is not inside readable+writable pages"); continue; }
        if ((p + bytes) % page != 0) sh.bad(at + "block does not end at a page boundary");
        else if (pageState(p + bytes) != 1) sh.bad(at + "no inaccessible guard page directly behind the block");
        // block and guard page lie inside the mapping this call obtained
        if (g_nMapRecs == recsBefore + 1) {
          const MapRec& m = g_mapRecs[recsBefore];
          if (!(m.base <= p && p + bytes + page <= m.base + m.len)) sh.bad(at + "block and guard page are not inside the mapping obtained for them");
        }
      }
      sh.add(p, bytes, opno);
      LiveBlock b{(unsigned char*)vp, bytes, (size_t)n, ++serial, bytes > (1u << 22), rebound};
      if (sh.fail.empty()) fillTag(b);   // whole extent writable (ASan / the guard page object otherwise)
      live.push_back(b);
    } else if (op[0] == 'f') {
      unsigned long long k;
      if (!parseNum(op, 1, k)) { res = badCase("op"); break; }
      if (k >= live.size()) { outs.push_back("-"); dv::stat("op_skipped"); continue; }
      dv::stat("op_free");
      release((size_t)k, opno, true);
      outs.push_back("ok");
    } else if (op[0] == 'g' || op[0] == 'G') {
      // deallocate through a copy (g) / through an allocator converted from another element type (G)
      unsigned long long k;
      if (!parseNum(op, 1, k)) { res = badCase("op"); break; }
      if (k >= live.size()) { outs.push_back("-"); dv::stat("op_skipped"); continue; }
      dv::stat(op[0] == 'g' ? "op_free_via_copy" : "op_free_via_converted");
      release((size_t)k, opno, true, op[0] == 'g' ? 1 : 2);
      outs.push_back("ok");
    } else if (op[0] == 'z' && kind == K_DEBUG) {
      unsigned long long k;
      if (!parseNum(op, 1, k)) { res = badCase("op"); break; }
      if (k >= live.size()) { outs.push_back("-"); dv::stat("op_skipped"); continue; }
      dv::stat("op_free_n0");
      release((size_t)k, opno, false);
      outs.push_back("ok");
    } else { res = badCase("op"); break; }
  }
  dv::stat("raw_live_at_end", (long)live.size());
  std::string tail;
  if (kind == K_DEBUG) tail = " : mapped=" + std::to_string(g_nMapRecs) + " unmapped=" + std::to_string(g_unmapCalls);
  const long unmapsInHistory = g_unmapCalls;
  // give everything back (also after a failure: the debug manager aborts at exit on blocks still in use)
  { std::string first = sh.fail; while (!live.empty()) release(live.size() - 1, opno + 1, true); if (!first.empty()) sh.fail = first; }
  long unmapsAtEnd = g_unmapCalls;
  if (kind == K_DEBUG && mode != 0 && sh.fail.empty()) {
    // the manager's destructor: returns whatever is still recorded
    g_trackMap = true; a->destroy(); g_trackMap = false;
    dv::stat("mgr_destroyed");
    dv::stat("mgr_dtor_unmaps", g_unmapCalls - unmapsAtEnd);
    if (g_unmapUnknown) sh.bad("end: the destructor unmapped a range that is not exactly a range obtained from mmap and still mapped");
  }
  if (kind == K_DEBUG && mode != 0) tail += " end_unmapped=" + std::to_string(g_unmapCalls - unmapsInHistory);
  if (kind == K_DEBUG) {
    // all memory returned: every mapping obtained during the case has been unmapped with its exact range
    int still = 0;
    for (int i = 0; i < g_nMapRecs; ++i) if (g_mapRecs[i].mapped) ++still;
    if (still) sh.bad("end: " + std::to_string(still) + " of " + std::to_string(g_nMapRecs) + " mappings were never unmapped");
    if (g_mapOverflow) sh.bad("harness: mapping table overflow");
  }
  std::string header = a->header;
  delete a;
  if (!res.impl.empty()) return res;   // bad op
  if (mode != 0) header += keep ? " keep=1" : " keep=0";
  res.impl = header + " : " + join(outs.begin(), outs.end(), ";") + tail;
  if (!sh.fail.empty()) res.oracle = "FAIL " + sh.fail;
  return res;
}

// ---- debugalign.hh -----------------------------------------------------------------------------------------------
struct AlignViolation {};
alignas(4096) static unsigned char g_abuf[8192];

template <size_t A>
static std::string placeAlignedArray(unsigned char* at) {
  try {
    auto* q = new (at) Dune::AlignedNumber<double, A>[2];
    q[0] = 2.5; q[1] = 3.5;
    return q[0].value() == 2.5 && q[1].value() == 3.5 ? "ok" : "bad-value";
  } catch (AlignViolation&) {
    return "viol";
  }
}
template <size_t A>
static std::string placeAligned(unsigned char* at) {
  try {
    auto* q = new (at) Dune::AlignedNumber<double, A>(1.5);
    return q->value() == 1.5 ? "ok" : "bad-value";
  } catch (AlignViolation&) {
    return "viol";
  }
}

static Result execAlign(size_t A, const std::vector<std::string>& ops) {
  Result res;
  if (A == 0 || (A & (A - 1)) || A > 4096) return badCase("alignment");
  dv::stat("case_align");
  auto saved = Dune::violatedAlignmentHandler();
  Dune::violatedAlignmentHandler() = [](const char*, std::size_t, const void*) { throw AlignViolation(); };
  std::vector<std::string> outs;
  std::string fail;
  for (const std::string& op : ops) {
    unsigned long long off;
    if (op.size() < 2 || !parseNum(op, 1, off) || off >= 4096) { Dune::violatedAlignmentHandler() = saved; return badCase("op"); }
    bool expect = off % A == 0;   // g_abuf is aligned to 4096
    if (op[0] == 'i') {
      dv::stat("op_isaligned");
      bool got = Dune::isAligned(g_abuf + off, A);
      outs.push_back(got ? "true" : "false");
      if (got != expect && fail.empty()) fail = "isAligned(base+" + std::to_string(off) + ", " + std::to_string(A) + ") = " + (got ? "true" : "false");
    } else if (op[0] == 'p') {
      dv::stat("op_placement");
      std::string r = A == 8 ? placeAligned<8>(g_abuf + off) : A == 16 ? placeAligned<16>(g_abuf + off)
                    : A == 32 ? placeAligned<32>(g_abuf + off) : A == 64 ? placeAligned<64>(g_abuf + off) : "unsupported";
      outs.push_back(r);
      if (r != (expect ? "ok" : "viol") && fail.empty()) fail = "placement at base+" + std::to_string(off) + " with alignment " + std::to_string(A) + ": " + r;
    } else if (op[0] == 'q') {
      dv::stat("op_placement_array");
      std::string r = A == 8 ? placeAlignedArray<8>(g_abuf + off) : A == 16 ? placeAlignedArray<16>(g_abuf + off)
                    : A == 32 ? placeAlignedArray<32>(g_abuf + off) : A == 64 ? placeAlignedArray<64>(g_abuf + off) : "unsupported";
      outs.push_back(r);
      if (r != (expect ? "ok" : "viol") && fail.empty()) fail = "array placement at base+" + std::to_string(off) + " with alignment " + std::to_string(A) + ": " + r;
    } else { Dune::violatedAlignmentHandler() = saved; return badCase("op"); }
  }
  Dune::violatedAlignmentHandler() = saved;
  res.impl = join(outs.begin(), outs.end(), ";");
  if (!fail.empty()) res.oracle = "FAIL " + fail;
  return res;
}

// ---------------------------------------------------------------------------------------------------------------
static Result exec(const std::string& line) {
  size_t sep = line.find(" : ");
  if (sep == std::string::npos) return badCase("line");
  std::vector<std::string> hd = words(line.substr(0, sep));
  std::vector<std::string> ops;
  for (auto& o : split(line.substr(sep + 3), ';')) {
    std::vector<std::string> w = words(o);
    if (w.size() == 1) ops.push_back(w[0]);
    else if (!w.empty()) return badCase("op");
  }
  if (hd.empty()) return badCase("line");
  auto num = [&](size_t i) -> size_t { return i < hd.size() ? (size_t)strtoull(hd[i].c_str(), nullptr, 10) : 0; };
  dv::stat("ops_total", (long)ops.size());
  if (hd[0] == "pool" && hd.size() == 4) return execPool(false, num(1), num(2), num(3), ops);
  if (hd[0] == "pa" && hd.size() == 4) return execPool(true, num(1), num(2), num(3), ops);
  if (hd[0] == "malloc" && hd.size() == 3) return execRaw(K_MALLOC, num(1), num(2), 0, ops);
  if (hd[0] == "aligned" && hd.size() == 4) return execRaw(K_ALIGNED, num(1), num(2), num(3), ops);
  if (hd[0] == "debug" && hd.size() == 4) return execRaw(K_DEBUG, num(1), num(2), num(3), ops);
  if (hd[0] == "dbgmgr" && hd.size() == 5 && (hd[4] == "0" || hd[4] == "1")) return execRaw(K_DEBUG, num(1), num(2), num(3), ops, hd[4] == "1" ? 2 : 1);
  if (hd[0] == "poolnd" && hd.size() == 4) return execPool(false, num(1), num(2), num(3), ops, true);
  if (hd[0] == "pand" && hd.size() == 4) return execPool(true, num(1), num(2), num(3), ops, true);
  if (hd[0] == "align" && hd.size() == 2) return execAlign(num(1), ops);
  return badCase("kind");
}

// ---------------------------------------------------------------------------------------------------------------
// generator
// ---------------------------------------------------------------------------------------------------------------
static std::vector<Key> keysOf(int kind) {
  std::vector<Key> v;
  for (auto& kv : pools()) if (std::get<0>(kv.first) == kind) v.push_back(kv.first);
  for (auto& kv : raws()) if (std::get<0>(kv.first) == kind) v.push_back(kv.first);
  return v;
}

// an allocate/free history over an abstract "live count": phases of filling, draining, churning
static std::string genPoolOps(Rng& r, bool isPA, long elements, long maxOps, bool ndebug = false) {
  std::vector<std::string> ops;
  long live = 0;
  long nops = r.coin(1, 6) ? r.range(1, 6) : r.range(4, maxOps);
  // now and then a history long enough to fill several chunks of this pool
  if (r.coin(1, 12)) nops = std::min<long>(600, 2 * elements + r.range(3, 40));
  int phase = (int)r.below(3);   // 0 fill, 1 drain, 2 churn
  long phaseLeft = r.coin() ? elements + r.range(-1, 2) : r.range(1, 12);
  if (phaseLeft < 1) phaseLeft = 1;
  int order = (int)r.below(4);   // which live block a free picks: 0 random, 1 oldest, 2 newest, 3 middle
  for (long i = 0; i < nops; ++i) {
    if (phaseLeft-- <= 0) {
      phase = (int)r.below(3);
      phaseLeft = r.coin() ? elements * r.range(1, 2) + r.range(-1, 1) : r.range(1, 10);
      if (phaseLeft < 1) phaseLeft = 1;
      if (r.coin(1, 3)) order = (int)r.below(4);
    }
    int pa = phase == 0 ? 90 : phase == 1 ? 10 : 50;
    long x = r.range(0, 99);
    if (x < 2) { ops.push_back("fn"); continue; }
    if (x < 4 && !isPA && !ndebug) { ops.push_back(r.coin() ? "fx" : r.coin() ? "fe" : "fb"); continue; }
    if (x >= 97) {
      // memory exhaustion; succeeds iff the pool has a free slot (the shadow count is exact only while every op is valid)
      ops.push_back("ao");
      if (elements > 0 && live % elements != 0) ++live;
      continue;
    }
    if (isPA && x >= 95 && x < 97 && live > 0) { ops.push_back("d" + std::to_string(r.range(0, live - 1))); continue; }
    if (isPA && x < 7) {
      static const char* ns[] = {"n0", "n2", "n3", "n1", "n1", "n18446744073709551615", "n4294967297", "n9223372036854775808"};
      std::string s = ns[r.below(8)];
      ops.push_back(s);
      if (s == "n1") ++live;
      continue;
    }
    if (r.range(0, 99) < pa || live == 0) {
      if (live == 0 && r.coin(1, 10)) { ops.push_back("f0"); continue; }   // skipped free
      ops.push_back(isPA && r.coin(1, 5) ? "n1" : "a");
      ++live;
    } else {
      long k = order == 0 ? r.range(0, live - 1) : order == 1 ? 0 : order == 2 ? live - 1 : live / 2;
      if (r.coin(1, 40)) k = live + r.range(0, 2);   // out of range: skipped
      ops.push_back("f" + std::to_string(k));
      if (k < live) --live;
    }
  }
  return join(ops.begin(), ops.end(), ";");
}

static std::string u64s(unsigned long long v) { return std::to_string(v); }

static std::string genRawOps(Rng& r, int kind, size_t sz, size_t page, long maxOps) {
  std::vector<std::string> ops;
  long live = 0;
  long nops = r.coin(1, 6) ? r.range(1, 4) : r.range(3, maxOps);
  const unsigned long long M = ~0ull;
  unsigned long long maxN = M / sz;
  std::vector<unsigned long long> served;   // counts of earlier requests that were served: asked for again later
  // "second use": now and then the whole history is rounds of allocate / release of the same few sizes
  const bool rounds = r.coin(1, 5);
  for (long i = 0; i < nops; ++i) {
    long x = r.range(0, 99);
    if (rounds ? (live == 0 || (live < 3 && r.coin(1, 3))) : (x < 55 || live == 0)) {
      unsigned long long n;
      long y = r.range(0, 99);
      if (!served.empty() && (rounds ? !r.coin(1, 8) : r.coin(1, 5))) {
        n = r.pick(served);
        dv::stat("gen_repeated_request");
      } else if (y < 14) {
        // requests that cannot be served: around max_size, wrapping products, the top of the range
        std::vector<unsigned long long> h = {maxN, maxN - 1, M, M / 2, M / 2 + 1, 1ull << 63, (1ull << 61) + 1, 1ull << 60,
                                             maxN / 2 + 1, (unsigned long long)(((u128)1 << 64) / sz) + (sz > 1 ? 1 : 0),
                                             (M - 2 * page) / sz, (M - 2 * page) / sz + 1, (M - page) / sz, (1ull << 47) / sz + (1ull << 47)};
        if (maxN < M) { h.push_back(maxN + 1); h.push_back(maxN + 2); h.push_back(2 * (maxN / 2 + 1) + r.below(3)); }
        n = r.pick(h);
        if ((u128)n * sz < ((u128)1 << 47)) n = M;   // keep clear of the range where the OS decides
      } else if (kind == K_DEBUG && y < 60) {
        // byte sizes around multiples of the page size
        unsigned long long pages = r.below(4);
        long d = r.pick(std::vector<long>{0, 0, 0, 1, -1, 2});
        long long bytes = (long long)(pages * page) + d * (long long)sz;
        if (bytes < 0) bytes = 0;
        n = (unsigned long long)bytes / sz;
        if (r.coin(1, 3) && page % sz == 0) n = pages * (page / sz);
      } else if (y >= 97) {
        // a large request the OS serves lazily: 4 MiB < bytes <= 64 MiB
        unsigned long long bytes = (4ull << 20) + 1 + r.below((60ull << 20));
        if (r.coin(1, 3)) bytes = (unsigned long long)r.range(1025, 16384) * page + (r.coin() ? 0 : r.below(page));
        n = (bytes + sz - 1) / sz;
      } else if (y < 25) {
        n = r.below(3);   // 0, 1, 2
      } else {
        unsigned long long cap = kind == K_DEBUG ? 3 * page : 4096;
        n = r.below(cap / sz + 2);
        if (r.coin(1, 3)) n = r.below(9);
      }
      // giant element types: already one object lies in the range where the OS decides; ask for nothing or for a count
      // whose true size cannot be served (incl. the counts whose wrapped product is small)
      if ((u128)n * sz > (1u << 26) && (u128)n * sz < ((u128)1 << 47)) {
        std::vector<unsigned long long> g = {0, maxN + 1, maxN + 2, maxN, (1ull << 47) / sz + 1 + r.below(1000), 2 * (maxN + 1), 3 * (maxN + 1) + 1};
        n = r.pick(g);
        if (n && (u128)n * sz < ((u128)1 << 47)) n = maxN + 1;
        dv::stat("gen_giant_type_request");
      }
      // r<n>: twice the bytes; keep clear of the range where the OS decides (64 MiB .. 2^47)
      const bool canRebind = (u128)n * sz * 2 <= (1u << 26) || (u128)n * sz >= ((u128)1 << 47);
      ops.push_back(std::string(canRebind && r.coin(1, 6) ? "r" : r.coin(1, 6) ? (r.coin() ? "h" : "c") : "a") + u64s(n));
      if ((u128)n * sz < ((u128)1 << 47)) { ++live; if ((u128)n * sz <= (1u << 22)) served.push_back(n); }
    } else {
      long k = r.coin(1, 3) ? 0 : r.coin() ? live - 1 : r.range(0, live - 1);
      if (r.coin(1, 40)) k = live + r.range(0, 2);
      ops.push_back(std::string(kind == K_DEBUG && r.coin(1, 4) ? "z" : r.coin(1, 6) ? (r.coin() ? "g" : "G") : "f") + std::to_string(k));
      if (k < live) --live;
    }
  }
  return join(ops.begin(), ops.end(), ";");
}

static std::string gen(Rng& r, long, const Args& a) {
  static std::vector<Key> kp = keysOf(K_POOL), ka = keysOf(K_PA), km = keysOf(K_MALLOC), kal = keysOf(K_ALIGNED), kd = keysOf(K_DEBUG);
  const bool thorough = a.tier == "thorough";
  const size_t page = (size_t)sysconf(_SC_PAGESIZE);
  long x = r.range(0, 99);
  std::ostringstream os;
  if (x < 35) {
    Key k = r.pick(kp);
    PoolIface* q = pools()[k]();
    long E = q->geo[5];
    delete q;
    os << "pool " << std::get<1>(k) << " " << std::get<2>(k) << " " << std::get<3>(k) << " : " << genPoolOps(r, false, E, thorough ? 160 : 60);
  } else if (x < 55) {
    Key k = r.pick(ka);
    PoolIface* q = pools()[k]();
    long E = q->geo[5];
    delete q;
    os << "pa " << std::get<1>(k) << " " << std::get<2>(k) << " " << std::get<3>(k) << " : " << genPoolOps(r, true, E, thorough ? 120 : 50);
  } else if (x < 67) {
    Key k = r.pick(km);
    os << "malloc " << std::get<1>(k) << " " << std::get<2>(k) << " : " << genRawOps(r, K_MALLOC, std::get<1>(k), page, thorough ? 60 : 25);
  } else if (x < 82) {
    Key k = r.pick(kal);
    os << "aligned " << std::get<1>(k) << " " << std::get<2>(k) << " " << std::get<3>(k) << " : " << genRawOps(r, K_ALIGNED, std::get<1>(k), page, thorough ? 60 : 25);
  } else if (x < 88) {
    Key k = r.pick(kd);
    os << "debug " << std::get<1>(k) << " " << std::get<2>(k) << " " << page << " : " << genRawOps(r, K_DEBUG, std::get<1>(k), page, thorough ? 40 : 16);
  } else if (x < 95) {
    // a manager owned by the case (its destructor runs), in both compile-time configurations of DEBUG_ALLOCATOR_KEEP
    Key k = r.pick(kd);
    os << "dbgmgr " << std::get<1>(k) << " " << std::get<2>(k) << " " << page << " " << (r.coin(2, 3) ? 1 : 0) << " : "
       << genRawOps(r, K_DEBUG, std::get<1>(k), page, thorough ? 40 : 16);
  } else if (x < 97) {
    // the compile-time configuration NDEBUG of the pool: valid histories only
    Key k = r.pick(kd);
    size_t SZ = std::get<1>(k), AL = std::get<2>(k);
    bool isPA = r.coin(1, 3);
    size_t S = isPA ? (r.coin() ? 1 : 7) : (size_t)r.pick(std::vector<long>{1, (long)(2 * SZ), 1000});
    PoolFactory fac = c15PoolFactoryNdebug(isPA, SZ, AL, S);
    long E = 1;
    if (fac) { PoolIface* q = fac(); E = q->geo[5]; delete q; }
    os << (isPA ? "pand " : "poolnd ") << SZ << " " << AL << " " << S << " : " << genPoolOps(r, isPA, E, thorough ? 120 : 50, true);
  } else {
    size_t A = (size_t)1 << r.below(9);
    bool placement = A >= 8 && A <= 64;
    std::vector<std::string> ops;
    long nops = r.range(1, 12);
    for (long i = 0; i < nops; ++i) {
      long base = (long)(A * r.below(4096 / A));
      long d = r.pick(std::vector<long>{0, 0, 1, -1, (long)A / 2, (long)A, 8, 4, 2});
      long off = base + d;
      if (off < 0) off = 0;
      if (off >= 4000) off = 4000 - (long)r.below(64);
      ops.push_back(std::string(placement && r.coin(1, 3) ? (r.coin(1, 3) ? "q" : "p") : "i") + std::to_string(off));
    }
    os << "align " << A << " : " << join(ops.begin(), ops.end(), ";");
  }
  return os.str();
}

int main(int argc, char** argv) {
  registerAll();
  return dv::run(argc, argv, gen, exec);
}
