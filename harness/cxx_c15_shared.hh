// C15: what the translation units of the harness share.  The allocators have compile-time configurations
// (DEBUG_ALLOCATOR_KEEP of debugallocator.hh, NDEBUG of poolallocator.hh); one binary holds several of them, each
// compiled in its own translation unit with the library's names renamed (cxx_c15_keep.cc, cxx_c15_ndebug.cc), behind
// the type-erased interfaces below.  The wrapper templates live in an unnamed namespace: every translation unit has
// its own copies (they call differently configured library code).
#ifndef DV_CXX_C15_SHARED_HH
#define DV_CXX_C15_SHARED_HH
#include <cstddef>
#include <string>
#include <vector>

template <size_t SZ, size_t AL>
struct alignas(AL) Elem { unsigned char b[SZ]; };

// the element type an allocator is rebound to: twice the size, same alignment
template <class T> struct Twice;
template <size_t SZ, size_t AL> struct Twice<Elem<SZ, AL>> { typedef Elem<2 * SZ, AL> type; };

struct PoolIface {
  size_t sz = 0, al = 0;
  std::vector<long> geo;
  virtual void* allocate() = 0;
  virtual void* allocateN(size_t n) = 0;
  virtual void free(void* p) = 0;
  virtual void deallocate0(void*) {}
  virtual std::string header() { return ""; }
  virtual ~PoolIface() {}
};

struct RawIface {
  size_t sz = 0, al = 0, promised = 0;
  std::string header;
  virtual void* allocate(size_t n) = 0;
  virtual void deallocate(void* p, size_t n) = 0;
  // other members / related objects; where a wrapper has nothing special they are the plain calls
  virtual void* allocateHint(size_t n, const void*) { return allocate(n); }
  virtual void* allocateVia(size_t n) { return allocate(n); }
  virtual void deallocateVia(void* p, size_t n, bool) { deallocate(p, n); }
  // the allocator the standard containers would use for another element type U = Twice<T>:
  // std::allocator_traits<Alloc>::rebind_alloc<U>, constructed from this allocator where that is possible
  size_t promisedRebound = 0;   // alignment the family promises for blocks of U
  virtual void* allocateRebound(size_t) { return nullptr; }
  virtual void deallocateRebound(void*, size_t) {}
  virtual void destroy() {}   // runs the destructor of the underlying manager (if the case owns one)
  virtual ~RawIface() {}
};

typedef PoolIface* (*PoolFactory)();
typedef RawIface* (*RawFactory)();

// the element types every configuration is instantiated for: X(sizeof, alignof)
#define C15_ELEM_TYPES(X) \
  X(1, 1) X(2, 2) X(3, 1) X(4, 4) X(5, 1) X(6, 2) X(7, 1) X(8, 8) X(8, 4) X(9, 1) X(12, 4) X(16, 16) X(16, 8) X(20, 4) \
  X(24, 8) X(32, 32) X(40, 8) X(48, 16) X(64, 64) X(64, 32) X(96, 32) X(100, 4) X(127, 1) X(128, 64) X(128, 16) X(200, 8) \
  X(256, 128) X(1000, 8)

// DebugMemory::AllocationManager owned by the case (its destructor runs inside the case):
// cxx_c15.cc: default configuration; cxx_c15_keep.cc: -DDEBUG_ALLOCATOR_KEEP=1
RawFactory c15MgrFactoryDefault(size_t sz, size_t al);
RawFactory c15MgrFactoryKeep(size_t sz, size_t al);
// Pool<T,S> / PoolAllocator<T,s> compiled with NDEBUG (cxx_c15_ndebug.cc); S in {1, 2SZ, 1000}, s in {1, 7}
PoolFactory c15PoolFactoryNdebug(bool isPA, size_t sz, size_t al, size_t S);

#endif
